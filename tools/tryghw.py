#!/usr/bin/env python3
"""developer helper: tryghw.py <n> <seed> — n generated GHW files through impl, model, spec"""
import random, subprocess, sys
sys.path.insert(0, '/verif')
from vf import ghwgen
n, seed = int(sys.argv[1]), int(sys.argv[2])
rng = random.Random(seed)
req = []
for i in range(n):
    d, data = ghwgen.gen_case(rng)
    req.append(f"ghw {d} {data.hex()}")
open('/verif/.build/ghwtry.req', 'w').write("\n".join(req) + "\n")
subprocess.run("/verif/.build/target/release/wvh --out /verif/.build/ghwtry.out < /verif/.build/ghwtry.req > /dev/null 2>&1", shell=True)
subprocess.run("/verif/lean/.lake/build/bin/wmdriver < /verif/.build/ghwtry.req > /verif/.build/ghwtry.mod", shell=True)
imp = open('/verif/.build/ghwtry.out').read().split('\n')
mod = open('/verif/.build/ghwtry.mod').read().split('\n')
bad = cb = na = 0
for i, (a, b) in enumerate(zip(imp, mod)):
    f = b.split('\t')
    if len(f) < 2:
        continue
    if a != f[0]:
        cb += 1
        if cb <= 3:
            k = next((j for j in range(min(len(a), len(f[0]))) if a[j] != f[0][j]), min(len(a), len(f[0])))
            print(i, 'I', a[max(0, k - 200):k + 100]); print(i, 'M', f[0][max(0, k - 200):k + 100])
    sp = f[1]
    if sp == '-':
        na += 1
        continue
    if a != sp:
        bad += 1
        if bad <= 3:
            k = next((j for j in range(min(len(a), len(sp))) if a[j] != sp[j]), min(len(a), len(sp)))
            print(i, 'I', a[max(0, k - 200):k + 100]); print(i, 'S', sp[max(0, k - 200):k + 100]); print(req[i].split(' ')[1][:500])
print('n', len(req), 'spec-bad', bad, 'corr-bad', cb, 'spec-na', na, 'err/panic', sum(1 for a in imp if a in ('err', 'panic') or a.startswith('panic')))
