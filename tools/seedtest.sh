#!/bin/bash
# usage: seedtest.sh <patch.diff> <check id>...   — applies a seeded change to /repo, runs the checks, reverts
set -u
patch="$1"; shift
cd /verif
git -C /repo apply "$patch" || { echo "PATCH DOES NOT APPLY"; exit 2; }
for c in "$@"; do
  ./check.py "$c" 2>&1 | grep -E "VIOLATION|^\[C" 
done
git -C /repo checkout -- .
git -C /repo status --short | head -3
