#!/usr/bin/env python3
"""developer helper: print the smallest spec/corr disagreement of a check module with the decoded body"""
import sys, importlib
sys.path.insert(0, '/verif')
from vf import core
prop = sys.argv[1]
mod = importlib.import_module('vf.' + prop.lower())
ctx = core.Ctx(prop, 'quick', int(sys.argv[2]) if len(sys.argv) > 2 else 0)
ctx.build()
rq = mod.requests(ctx)
impl = ctx.impl(rq, timeout=900); model = ctx.model(rq, timeout=900)
canon = getattr(mod, 'canon_impl', lambda l: ("panic" if l.startswith("panic:") else l))
bad = []
for r, i0, m in zip(rq, impl, model):
    i = canon(i0); parts = m.split('\t'); mo = parts[0]; sp = parts[1] if len(parts) > 1 else '-'
    fid = parts[2] if len(parts) > 2 else '-'
    if i != mo or (sp != '-' and i != sp and fid == '-'):
        bad.append((len(r), r, i0, mo, sp))
bad.sort()
for _, r, i, mo, sp in bad[:int(sys.argv[3]) if len(sys.argv) > 3 else 2]:
    t = r.split(' ')
    print('REQ', ' '.join(t[:4])[:300])
    try:
        print('BODY', bytes.fromhex(t[-1]) if t[-1] != '-' else b'')
    except ValueError:
        print('ARG', t[-1][:300])
    print(' I', i[:600]); print(' M', mo[:600]); print(' S', sp[:600])
print(len(bad), 'bad of', len(rq))
