#!/bin/bash
# usage: confirm_seed.sh <seed dir (patch.diff, seed_demo.rs)> <scratch worktree> <target dir>
# confirms: patch applies + compiles, the pinned suite fails only its 4 known tests, the demo fails with / passes without the change
set -u
d="$1"; wt="$2"; export CARGO_TARGET_DIR="$3"
cd "$wt" && git checkout -q -- . && rm -f wellen/tests/seed_demo.rs
cp "$d/seed_demo.rs" wellen/tests/seed_demo.rs
echo "== demo on unmodified source"; cargo test -p wellen --offline --test seed_demo 2>&1 | grep -E "^test result" 
git apply "$d/patch.diff" || { echo "PATCH DOES NOT APPLY"; exit 2; }
echo "== demo with the change"; cargo test -p wellen --offline --test seed_demo 2>&1 | grep -E "^test result"
rm -f wellen/tests/seed_demo.rs
echo "== suite with the change (failing tests)"; cargo test -p wellen --offline --no-fail-fast 2>&1 | grep -E "^test .* FAILED|^test result: FAILED" | sort | uniq -c
git checkout -q -- . 
