#!/usr/bin/env python3
"""Writes /verif/MANIFEST.json from the table below (single source of truth for the claimed checks)."""
import json
import os

ROOT = os.path.dirname(os.path.dirname(os.path.abspath(__file__)))
ALL = [f"C{n:02d}" for n in range(1, 19)]

CHECKS = {
    "C05": dict(
        technique="Lean 4 proof (induction; bsearch/scan invariants) + exhaustive small-scope correspondence model~code",
        text="Lean theorems C05_never_panics / C05_none_iff / C05_group / C05_next / C05_value_pos / C05_iter about the model of "
             "get_offset, binary_search and the run scans, for every non-decreasing index array and every query; the model is tied to "
             "signals.rs by a differential run (all non-decreasing lists of length <= 7 over 0..6 x all needles, random long lists, 65535/65536 groups) "
             "through the public API, with the linear-scan spec as oracle.",
        design_ref="DESIGN.md section 5 / C05",
        note="Trusted: Lean kernel + {propext, Classical.choice, Quot.sound}; the hand-written model Model/Offset.lean corresponds to signals.rs "
             "only as far as the differential run shows; u32/usize widths are not modelled (indices are Nat), the u16 truncation of `elements` is (finding F18).",
    ),
    "C04": dict(
        technique="Lean 4 proof (refinement of the abstract waveform by the store via a simulation relation, induction over all histories; pack/unpack and entry-layout round trips; table facts by kernel evaluation) + differential store histories vs Spec.run",
        text="Lean theorems: C04_pack_unpack (write_n_state then n_state_to_bit_string = id for every kind/width/value), C04_entry_roundtrip and "
             "C04_one_bit_roundtrip (entry built by the loader decodes to the symbols written for every widest-kind x local-kind combination, both meta layouts), "
             "C04_align_no_underflow, C04_leb_roundtrip, C04_char_faithful / C04_kind_independent_chars over tables regenerated from the code; STREAM level: C04_stream_fixed / _onebit / _reals / _strings "
             "(the payload of one signal in one block — one chunk per change, any number of changes, any deltas below 2^30 — is decoded by load_fixed_len_signal / load_reals / load_signal_strings into exactly those changes at the running time index) and "
             "C04_encoder_chunk (add_n_bit_change appends exactly such a chunk); BLOCK level: C04_block_slice (the offset table finish_block writes lets get_offset_and_length cut every signal's payload back out of the block data, for every number of signals with and without data), C04_meta_plain / C04_meta_compressed (meta word round trip), and the composition C04_single_block_load: for every block content, compression decision and list of changes, "
             "load_signal returns exactly the changes whose chunk stream the signal recorded; and C04_vcd_block_roundtrip: a fresh multi-bit signal that receives ANY sequence of VCD value tokens at non-decreasing time indices is loaded back, "
             "after finish_block, as one entry per token at its time index (end to end through add_vcd_change, finish_signal, the offset table, the meta word and load_fixed_len_signal), and C04_vcd_block_values: each of these entries decodes to the kind and the symbols of its token; C04_single_block_load_reals / _strings, C04_multi_block_load (ANY number of blocks: the loaded signal is the concatenation of the per-block changes with the time indices shifted by the earlier blocks' table lengths, aligned to the widest kind), C04_vcd_onebit_block_roundtrip (scalar tokens, compact entries) and C04_raw_block_roundtrip: the same end-to-end statement for the pre-encoded path the GHW loader uses, "
             "with C04_compress_is_repack (compress_template = the slicing core repack, whose symbol-level meaning is C13_minimal_repack); "
             "END TO END C04_store_refines_spec / C04_store_refines_spec_all: Store (encoder bookkeeping, roll-over, finish, offsets, meta, loader) = Spec.run for vectors, one-bit signals, reals and strings, all histories and block sizes. "
             "The executable Lean model of Encoder/SignalEncoder/Reader (Model/Store.lean) and the abstract Spec.run are compared with the real store "
             "on generated histories covering every regime of the quantifier (widths, state orders, payload sizes around 32 bytes, 65535-multiples, splits).",
        design_ref="DESIGN.md section 5 / C04",
        note="C04_division_irrelevant: two divisions of the same operations among parser threads (split marks anywhere or nowhere) denote the same time table and change lists (Proofs/SplitFree.lean). Proved end to end (C04_store_refines_spec, C04_store_refines_spec_all): for every signal type (vectors, one-bit signals, reals, strings) and both write paths (VCD tokens and pre-encoded GHW-style add_n_bit_change values), every history, every block size and every compression decision, the finished store has the time table of Spec.run and load_signal returns exactly Spec.run's change list "
             "(simulation of the encoder incl. block roll-over against the specification, multi-block load, loader de-duplication = canon). Encoder::append is part of the theorem (Spec.runSegs: one encoder per segment between the split operations, appended in order; the driver's store model IS runSegs). "
             "lz4_flex is not modelled (compress = id in the model; the compression decision is an arbitrary predicate); the theorem assumes no block larger than 2^36 bytes (32-bit compressed-length field). Trusted: Lean kernel, table translator vf/tables.py, harness, generators.",
    ),
    "C02": dict(
        technique="Lean 4 proof (invariant by induction over operation histories, every block size) + differential store histories around 65535-multiples",
        text="Lean theorems C02_timeTable_exact / C02_timeTable_strict: for every history of time/value operations accepted by the model of wavemem::Encoder and every "
             "block size (BlockTimeIdx::MAX is a parameter), the table returned by finish is strictPrefixMax of the timestamps (C02_mem_iff characterises it), hence strictly "
             "increasing with each step exactly once. The model is compared with the real Encoder on histories with repeated/backwards timestamps, 65534..65537, 131069..131072 "
             "and 200000 steps and encoder splits; Spec.run supplies the expected table and indices. C02_indices_valid: in the waveform a history denotes (Spec.run, the oracle every load is compared with), "
             "every change of every signal carries an index below the length of the time table (invariant by induction over all histories).",
        design_ref="DESIGN.md section 5 / C02",
        note="For multi-threaded loads the table is covered by C03_segs_time_table / C03_mt_time_table (Props/C03.lean). Proved for the wavemem store (VCD and GHW back end). Index validity is a theorem about the oracle Spec.run (C02_indices_valid); that the store returns exactly Spec.run's indices, and the FST time chain, are covered by the differential run "
             "(per-block stream decoding is proved in C04_stream_*). The implicit leading 0 of VCD bodies is part of the C01 model. Trusted: Lean kernel, harness, generators.",
    ),
    "C06": dict(
        technique="Lean 4 proof (canon / minimal-kind / width lemmas by induction; entry injectivity from the round trip) + differential redundant-write histories",
        text="Lean theorems C06_no_repeat, C06_only_repeats_dropped, C06_kind_minimal, C06_write_kind_minimal, C06_width, C06_entry_injective, C06_push_no_repeat: the specification "
             "output is canonical, the loader's byte-wise de-duplication removes exactly the repetitions, kinds are minimal and widths exact. The real store is compared with Spec.run "
             "on histories rich in redundant writes (inside a step, across steps, across the 65535 block boundary, across encoder splits, same value in different kinds).",
        design_ref="DESIGN.md section 5 / C06",
        note="Covers the wavemem path (VCD, GHW). FST SignalWriter and slices are claimed under C10/C13. Stream/block level is differential only. Trusted: Lean kernel, harness, generators.",
    ),
    "C01": dict(
        technique="Lean 4 proof (byte-level state machine = token interpreter, by induction over all byte strings) + differential whole-file loads vs token spec + Spec.run",
        text="Lean theorem C01_lexing: the model of parse_body equals the token-level interpreter on every byte string (so white space, LF/CRLF, blank lines and token "
             "placement are irrelevant and only the listed token classes produce events); C01_time_tokens; C01_chars (table regenerated from the code); C01_load_is_store_run / C01_time_table: a successful "
             "single-threaded load is the store run on the operations its tokens denote and its time table is strictPrefixMax of the timestamp tokens. The full model "
             "(parse_body -> VcdEncoder with id_to_int / hashed id map -> Store -> load) is executable and compared with the real loader on generated files covering the quantifier; "
             "the oracle is the token interpreter composed with Spec.run (canon).",
        design_ref="DESIGN.md section 5 / C01",
        note="Proved: lexing layer and character tables; store layer see C04/C06. The composition events -> loaded changes = canon is validated differentially, not proved. "
             "The header is generated by the harness (declarations are given to the model); header parsing is C09. f64 parsing is supplied by the generator. "
             "Known findings F5a, FMT are reported as KNOWN-FINDING (F24 is fixed).",
    ),
    "C14": dict(
        technique="Lean 4 proof (stop-position irrelevance of the body parser by induction) + differential run of 14 entry-point combinations on generated and corpus files",
        text="Lean theorems C14_stop_irrelevant / C14_reader_eq_mmap: the stream entry point (stop = file length) and the memory-mapped entry point (stop = len-1) of the VCD body parser "
             "produce the same result (the whole encoder, or the same error class) for every body. All entry points of the public API (file / Cursor / BufReader, one-call and two-phase, multi_thread on/off, "
             "progress counter on/off) are run on generated VCDs and the repo's VCD/FST/GHW corpus and compared pairwise, including the reported body length.",
        design_ref="DESIGN.md section 5 / C14",
        note="Partial by nature: mmap / BufReader / Cursor / ProgressTracker semantics and file I/O are runtime behaviour covered by the differential run only; FST and GHW entry points have no model "
             "(pure differential). Multi-threaded differences fall under known finding FMT.",
    ),
    "C15": dict(
        technique="Lean 4 proof (prefix monotonicity of the event stream by induction) + exhaustive truncation offsets of generated files, model vs code",
        text="Lean theorems C15_prefix_events / C15_boundary_exact: for every body and every cut, the events of the prefix are a prefix of the complete file's events up to one last event from the cut token, "
             "exactly a prefix at line boundaries; the parser is total; C15_time_table_prefix lifts this through VcdEncoder / Encoder::time_change / finish to the loaded time table, C15_waveform_agrees_partial to the abstract waveform. Every truncation offset of generated bodies is loaded (under catch_unwind) and the C15 relation is evaluated on the real loads; the Lean model "
             "predicts ok / err / panic for each cut and must agree. At line-boundary cuts the loaded waveform itself must equal the denotation of the lines present (token interpreter of C01 + Spec.run on the prefix).",
        design_ref="DESIGN.md section 5 / C15",
        note="`never panics` is false for the current code (known finding F7): the model reproduces the panics and the check verifies the implementation panics exactly there. The lift of the time table to the store is proved; the lift of the value changes "
             "is proved for the abstract waveform and relies on the store correspondence (C04) for the stored bytes; when the cut token is itself a new-maximum timestamp the changes AT the last common step are covered by the differential run only. Hangs cannot occur in the model (structural recursion); a hang of the real loader would stall the harness and be reported as reply-count mismatch.",
    ),
    "C03": dict(
        technique="Lean 4 proof (chunk arithmetic, hand-over exit only truncates, append concatenates tables, split marks are transparent for the specification, composition mt = st under one lexical assumption) + differential run over every boundary alignment against the Lean model of the chunked parser",
        text="The schedule quantifier collapses in the model (pure per-chunk parsers, ordered collect, sequential append). Lean theorems C03_chunks, C03_chunk_events_prefix, C03_append_table, C03_mt_load_is_store_run (a multi-threaded load that succeeds is Spec.runSegs — one encoder per chunk, appended in order — on the per-chunk operations) and C03_mt_loaded_signal (with the store refinement C04_store_refines_spec_all: each loaded signal is what the abstract specification denotes for those operations); C03_segs_time_table / C03_mt_time_table (the time table a multi-threaded load reports is the specification's table for the divided history: strictly increasing, every new maximum exactly once), C03_worker_reproduces_segment (a worker that resynchronised at a line emits a prefix of what the whole-body parser emits from there), C03_mt_eq_st_undivided (for bodies that are not divided - one worker or at most the minimal chunk size - the lexical assumption is proved and mt = st holds for every signal without assumption), C03_split_transparent (a history with split marks denotes what the same operations recorded by ONE thread denote) and "
             "C03_mt_eq_st_given_handover (if both loads succeed and the per-chunk operations, one after the other, are the whole body's operations — HandoverLexical, the one assumption — both loads report the same change list for every signal). "
             "The multi-threaded loader runs in scoped rayon pools of 2..16 threads with a hook overriding MIN_CHUNK_SIZE so that boundaries land on every byte alignment of small bodies "
             "(plus production chunking on larger ones); results are compared with the executable Lean model of the chunked parser and with the single-threaded load.",
        design_ref="DESIGN.md section 5 / C03",
        note="Proved: everything between the per-chunk events and the loaded signals (VcdEncoder, Encoder incl. append, finish, loader). Not proved: the lexical last step of mt = st, that the per-chunk operations are the operations of the whole body (HandoverLexical); it is DECIDED for every generated body by the driver (evidence counters handover_lexical_holds_on_safe_bodies / _fails_on_safe_bodies) and for hand-over-safe bodies checked differentially against the real loader, for unsafe bodies the property is false in the current code "
             "(known finding FMT = F2/F3/F4/F5b) and the check verifies the implementation does exactly what the model predicts. Trusted: rayon's ordered exactly-once map; real thread "
             "interleavings are varied only through pool sizes.",
    ),
    "C08": dict(
        technique="Lean 4 proof (forest / distinct-sibling invariant by induction over all balanced operation sequences; refinement of the specification by the pointer-level builder model as a simulation proof over all operation sequences) + EXHAUSTIVE small-scope differential of every navigation observer against the real code",
        text="Lean theorems C08_wellformed, C08_sibling_scopes_distinct, C08_children(+_ordered), C08_partition, C08_lookup_first, C08_reopen_continues about the abstract parent-pointer "
             "specification, for every balanced sequence of scope / flattened scope / var / pop operations; C08_builder_refines_spec / C08_walk_refines (Proofs/HierRefine.lean): for every such sequence the pointer-level "
             "model of HierarchyBuilder does not panic and its node arrays, child / next / parent links, scope stack (sentinel, flattened entries, cached last children, find_duplicate_scope / find_last_child on re-opening) "
             "represent exactly the specification's node list, so the item iterator of the top level and of every scope yields the specification's children in declaration order, each once, with the declared name / signal / parent; "
             "C08_full_names (full_name of every scope / variable = the dotted path of ancestor names) and C08_lookups (lookup_scope / lookup_var / lookup_var_with_index return the first declared item the specification designates) for every represented state. The pointer-level Lean model of HierarchyBuilder (child/next/parent links, scope stack, "
             "find_last_child) and the real code are compared with the specification on ALL operation sequences of length <= 6 over 7 operations, ALL sequences of length <= 6 over a second alphabet with same-named variables of different bit index, plus long random sequences; the reply covers "
             "items(), vars()/scopes(), full names, lookup_scope / lookup_var / lookup_var_with_index on present and absent paths, iter_vars/iter_scopes, the signal table and first_scope.",
        design_ref="DESIGN.md section 5 / C08",
        note="The refinement pointer-level model = specification IS a theorem (C08_builder_refines_spec) for the tree structure, names, signals, parents, full_name and the three lookup functions; the signal table (handle_to_node / num_unique_signals) of the pointer-level model and the real code itself are compared with the specification (exhaustive enumeration to length 6, 7 in the thorough tier, random sequences to length 200). "
             "Hierarchies built by the three loaders are covered through the C09/C10/C11/C14 file-level dumps. HashMap / Vec are trusted.",
    ),
    "C09": dict(
        technique="Lean 4 proof (identifier codes ~ signals, bit-range packing, keyword tables, flattening rule) + differential run of generated headers against the byte-level Lean model of the header reader and an abstract declaration interpreter",
        text="Lean theorems C09_share_iff (variables share a signal exactly when they share an identifier code: id_to_int is injective and the hashed map numbers distinct codes distinctly, for every declaration list), "
             "C09_range_parse / C09_single_parse (for EVERY base name, any spaces before / after the bracket and any decimal bounds with optional minus sign, extract_suffix_index returns the name before the range and VarIndex::new(msb, lsb)), "
             "C09_array_scopes (parse_name: a variable written `base [g1] .. [gn] [msb:lsb]` — any spaces in front of each group, n >= 1 — is the variable `[gn]` with that bit range inside the array scopes `base`, `[g1]`, .., `[g(n-1)]`, outermost first; by induction over the group list), C09_index_roundtrip / C09_index_single (VarIndex packing returns the declared bounds, negative ones included, whenever msb-lsb fits an i32), C09_width_zero, C09_keywords_unique (generated tables), "
             "C09_scope_flatten, C09_date_verbatim. The composition text -> tree is differential: headers are generated twice, as an abstract declaration list and as text (random white space incl. tabs / CRLF, "
             "glued / split timescale, 0..3 bracket groups, negative and spaced ranges, widths 0..4096, dense / sparse / long / wrapping id codes, GTKWave-nvc attributes 02/03/04, re-opened and empty scopes, both option values); "
             "the real read_header, the byte-level Lean model (read_command, find_tokens, parse_name, extract_suffix_index, attribute stack, id-map switch, pointer-level builder) and the declaration list interpreted on the "
             "abstract hierarchy of C08 must give the same tree, meta data and header length. A malformed stream checks err / panic agreement.",
        design_ref="DESIGN.md section 5 / C09",
        note="The splitting of additional bracket groups into array scopes (parse_name) is not proved in general (closed examples + differential); the trailing bit range is (C09_range_parse). The generator decides what a text 'declares': a trailing [..] group is the bit range, "
             "white space inside a name is spaces only. Fix F25 (find_tokens split on ' ' only) is a prerequisite. Trusted: str::parse, HashMap.",
    ),
    "C11": dict(
        technique="Lean 4 proof (per-bit vector assembly, std_ulogic table, two's complement, enum widths, element labels) + three-way differential: generated GHW files through the real loader, a BYTE-LEVEL Lean model of wellen/src/ghw and the denotation of the abstract design",
        text="Lean theorems C11_set_get (for every vector buffer, bit position and symbol: writing one bit record changes exactly that symbol of the assembled value, in the addressing the renderer and slice_signal use; "
             "byte lemmas by kernel evaluation over all bytes x positions x symbols), C11_lut (STD_LOGIC_LUT = position in the rendering alphabet of GHDL's literal order), C11_endianness / C11_i64_endianness (for every k and n < 256^k the big-endian bytes read with the big-endian flag and the reversed bytes read without it both give n: times in fs, integers and lengths mean the same in files of either byte order), C11_int32 (the 8 bytes handed to the encoder end in the "
             "32-bit two's complement), C11_enum_bits (minimal width), C11_labels / C11_labels_model_eq_spec (elements are labelled left + k / left - k in declaration order), C11_delta_cycle / C11_new_time (a step at the current time keeps the time table: its entries carry the same index; a later time appends one entry). The composition file -> waveform is differential: "
             "gen/ghw_writer.py serialises random designs (see evidence rule) and the real loader, the byte-level Lean model (header, directory probe, string / type / WKT / hierarchy sections, type classification, add_var, signal "
             "tracker incl. aliases, VecBuffer, snapshot / cycle sections, store, slices, pointer-level builder) and the design's denotation (atoms -> values, no tables, no packing) must agree on the full dump. "
             "Malformed files and all corpus GHW files: implementation vs model (err / panic / dump).",
        design_ref="DESIGN.md section 5 / C11",
        note="The byte-level parser model is validated by correspondence only (no theorem connects it to the design's denotation); the proved facts are the pure components. Release build: debug assertions are not modelled. "
             "Supported subset = what gen/ghw_writer.py emits (no i64 / physical types, no multi-dimensional or unconstrained arrays, dense signal ids). Fixes F23 (downto element labels) and F26 (element subtype names) are prerequisites. "
             "Trusted: leb128, f64::from_le_bytes.",
    ),
    "C12": dict(
        technique="Lean 4 proof (value-at-every-time is invariant under repetition removal; time tables commute with the timescale factor) + cross-format differential: one abstract design written as GHW, VCD and FST, all loaded by the real code and compared with the observation of the design's denotation; corpus VCD/FST pairs",
        text="Lean theorems C12_value_at_canon (for every change list with non-decreasing indices and every time index: the value shown is unchanged by the removal of immediate repetitions — formats differ in exactly this redundancy) and "
             "C12_timescale (strictPrefixMax commutes with multiplying all timestamps by the timescale factor: same table, same indices, for every factor and every timestamp sequence). The cross-format comparison is differential: "
             "random designs are serialised by three independent writers (GHW: per-bit records, fs; VCD: text, 1 fs / 1 ps, shared id codes; FST: blocks with frame / records, exponent -15 / -12, alias handles); the real loader's observation of each file (tree: names, nesting, order, widths; per variable the "
             "value at every time in fs) must equal the observation computed by the Lean specification from the design. All corpus VCD/FST pairs go through the same observation.",
        design_ref="DESIGN.md section 5 / C12",
        note="There is no Lean model composing the three loaders; each loader is tied to its format by C01/C09 (VCD), C10 (FST) and C11 (GHW). The FST side uses gen/fst_writer.py (written from fst-reader's block layout: plain value-change blocks, gzip hierarchy, raw / zlib streams; no LZ4 / FastLZ blocks, no dynamic-alias block kinds, no strings) "
             "plus the corpus VCD/FST pairs produced by vcd2fst. Arrays of scalars / vectors are not expressible in VCD with the same tree and are left out of the generated pairs; the one corpus GHW/FST pair comes from two tools "
             "with different trees (packages, enums as strings) and is left to the repo's own test.",
    ),
    "C13": dict(
        technique="Lean 4 proof (slice/compress = packing of the symbols fetched at the requested bit positions, by induction; entry round trip) + exhaustive sub-range differential in release and debug-assertion builds",
        text="Lean theorems C13_slice_symbols (for every kind, parent width and [msb:lsb]: the produced bytes render as the parent's symbols at those bit positions), C13_minimal_repack, C13_entry; C13_alias_exact / C13_alias_range (the GHW loader's find_or_add_alias / register_bit_vec give a sub-range either a fresh signal reference or the reference of an alias with exactly the same bit offsets of the same vector). "
             "The real slice_signal (hook) is run on parents recorded through the real store for widths 2..40 x ALL sub-ranges x state mixes (plus random wider parents), in the release profile and in a "
             "profile with debug assertions and overflow checks, and compared with the Lean model and with the substring-of-the-parent specification (canon, minimal kind).",
        design_ref="DESIGN.md section 5 / C13",
        note="Four defects found by this check were repaired (F11, F12, F13, F14). Generated GHW files with several sub-ranges per parent are loaded by the real reader and compared with the byte-level Lean model and the denotation (also under C11 / C06). "
             "The composition slice ∘ load is differential, the per-value theorems are unbounded.",
    ),
    "C10": dict(
        technique="Lean 4 proof (refinement: SignalWriter = canon of the callback sequence, by induction over all callback sequences; expand_entries = rewrite under the wider kind, writer entry = loader entry layout; case analysis over all kind triples and width residues) + exhaustive state-order differential + whole FST files written from abstract designs + corpus VCD/FST pairs",
        text="Lean theorem C10_writer_refines_canon (Proofs/FstRefine.lean): for EVERY sequence of callbacks (time index, value characters) of a bit-vector signal of width >= 2 - every order of 2-, 4- and 9-state values, any repetitions - the model of SignalWriter::add_change (widening through expand_entries, entry layout, byte-wise de-duplication) ends with exactly the changes the specification's canon keeps, each stored as the loader's entry of its symbols under the widest kind that occurred; C10_writer_canonical (what the writer keeps has no two consecutive changes with the same value: C06 for FST sources), C10_writer_strings_reals (string and real signals: the writer keeps exactly canon of the callback sequence, stored verbatim), C10_expand_for_every_value (expand_entries is the identity on meaning for every value), C10_cursor_first (the time-index cursor of load_signals), C10_dup_chain (time table of files whose blocks repeat boundary times: model = specification = the file's own chain). Further: C10_expand_is_rewrite (an entry written under a narrower maximum, once widened, is byte for byte the entry written under the wider kind: order independence of 2/4/9-state values), "
             "C10_writer_uses_entry_layout, C10_writer_entry (entry round trip), C10_timescale (for every exponent -15..0 the reported factor x unit is the file's tick). The real SignalWriter (hook) is driven with every sequence of value kinds of length <= 4 at widths 1..24 and random histories "
             "(release and debug-assertion builds) against the Lean model and canon of the callback history; every corpus x.vcd / x.vcd.fst pair is loaded through both paths and compared variable by variable.",
        design_ref="DESIGN.md section 5 / C10",
        note="The FST container (blocks, compression, hierarchy entries, time chain) is parsed by the fst-reader dependency: not modelled byte by byte. It is exercised with whole files written by gen/fst_writer.py "
             "(hierarchy entries with kinds / directions / ranges / alias handles, enum tables and VHDL type attributes (merged variable kinds, type names), 1..n plain value-change blocks, snapshot as frame or records, packed / ASCII / 1-bit records, raw / zlib streams, exponent -15 / -12): the real loader's full dump "
             "must equal the Lean file-level model (callbacks -> SignalWriter model -> pointer-level builder) and the design's denotation; and with the 33 corpus pairs. Not generated: LZ4 / FastLZ streams, dynamic-alias block kinds, "
             "variable-length strings, source locators (corpus only). convert_timescale is modelled and proved (C10_timescale); the generated files use every exponent -15..0.",
    ),
    "C07": dict(
        technique="Lean 4 proof (refinement of the Waveform signal map to an abstract loaded-set by induction over operation sequences; load_signals = map over sorted distinct ids) + differential load/unload sequences",
        text="Lean theorems C07_load_signals (SignalSource::load_signals returns each distinct id once, in order, with a content that is a function of the id alone — also for sliced aliases), "
             "C07_one_entry_per_id, C07_waveform_refines_set (for EVERY sequence of load / load_multi_threaded / unload calls, get_signal is Some(content id) iff id is in the loaded set). "
             "The real Waveform / SignalSource are driven with random call sequences (duplicates, permutations, empty requests, direct source calls) on generated VCDs, corpus VCD/FST files and GHW files "
             "with sliced signals; after each call every signal's content is compared with the same signal loaded alone in a fresh waveform.",
        design_ref="DESIGN.md section 5 / C07",
        note="The back end contract (one signal per id in request order; rayon's ordered par_iter; for FST that a signal's callbacks do not depend on the filter) is a parameter of the model: trusted and "
             "exercised by the differential run, not proved. Universes are truncated to the first 24 signals of a file to keep the alone-load oracle affordable.",
    ),
    "C16": dict(
        technique="Lean 4 proof (acceptance / rejection theorems for is_vcd, classification of white space, termination of the FST block walk under a forward-seek hypothesis, kernel-evaluated counter-examples) + exhaustive small-string differential under a watchdog",
        text="Lean theorems C16_unknown_command_rejected, C16_vcd_accepted, C16_whitespace_unknown, C16_fst_walk_terminates_partial, and the kernel-evaluated counter-examples C16_fst_walk_hangs (F10) and "
             "C16_empty_is_fst (F9). The real detection is run on all strings of length <= 1, length 2 over 40 bytes, length <= 4 over a 12-byte alphabet, prefixes of every magic, header variants, FST-like block chains, "
             "mutations and every corpus file, each under catch_unwind and a 3 s watchdog; for inputs classified Unknown, viewers::read_header must return UnknownFileFormat with a position-tracking reader back at 0.",
        design_ref="DESIGN.md section 5 / C16",
        note="is_fst_file is dependency code (fst-reader 0.8.7), modelled from its source; `never hangs` and `empty is Unknown` are false for it (known findings F10, F9). Seeks beyond 2^31 are excluded from the comparison: "
             "file systems reject offsets beyond their maximum file size while in-memory readers accept them, so path- and reader-based detection legitimately differ there (observed, documented in DESIGN.md). "
             "What happens after a file is classified as one of the formats is outside this property.",
    ),
    "C18": dict(
        technique="Lean 4 proof (value_at_idx / value_at_time = latest change at or before, on top of the proved get_offset model; Python index conventions) + differential run through the real extension module under CPython",
        text="Lean theorems C18_valueAtIdx_none, C18_valueAtIdx_latest, C18_valueAtTime_index, C18_py_index about the model of pywellen's Signal.value_at_idx / value_at_time / TimeTable.__getitem__ "
             "(built on the C05 theorems). pywellen is built from /repo, loaded into CPython and queried on generated VCDs for every variable: all_changes(), value_at_idx for every index 0..len+1, "
             "value_at_time around every table entry and beyond, negative time-table indices; compared with the Lean model and the latest-at-or-before specification evaluated on the Rust-side change list.",
        design_ref="DESIGN.md section 5 / C18",
        note="Partial by nature: pyo3 marshalling (BigUint -> int, Option -> None, str, f64) is trusted and validated through CPython only. all_changes is modelled but its theorem is the C05 position-by-position agreement. "
             "Two defects were repaired (F16, F17). Requires python3 with the CPython ABI pywellen was built for (the sandbox's python3).",
    ),
    "C17": dict(
        technique="Lean 4 proof (round trip ofS ∘ toS = id over the serde data model of every derived type, structural) + differential: real serde_json output reproduced by the model, real round trip preserves every observer",
        text="Lean theorems C17_hier_roundtrip, C17_signal_roundtrip, C17_varindex_roundtrip, C17_rejects_zero over a model of the serde data model (struct = map of fields, newtype = inner, unit variant = name, "
             "Option = null/value, NonZero = integer with zero rejected, HashMap<SignalRef,_> = map keyed by decimal text). The harness (serde1 feature) serialises real hierarchies and signals of corpus and generated "
             "files with serde_json; the Lean driver decodes and re-encodes that JSON with the model and must reproduce it exactly; the real deserialised objects must agree with the originals on every observer.",
        design_ref="DESIGN.md section 5 / C17",
        note="Partial by nature: the expansion of #[derive(Serialize, Deserialize)] and serde_json's text layer are trusted (validated by the differential run); the Lean records contain exactly the serialised fields, "
             "so equal records = identical behaviour under every accessor. The map round trip assumes decimal text parses back (KeyOk hypothesis). Only a self-describing format (JSON) is exercised.",
    ),
}

NOT_YET = "check not built yet in this round (machinery under construction; see DESIGN.md section 10 for the order of work)"


def main():
    checks = []
    for pid in ALL:
        if pid not in CHECKS:
            continue
        c = CHECKS[pid]
        checks.append(dict(
            property_id=pid,
            quick_cmd=f"./check.py {pid} --tier quick",
            thorough_cmd=f"./check.py {pid} --tier thorough",
            evidence_file=f"/verif/evidence/{pid}.json",
            replay_cmd_template=f"./check.py {pid} --replay {{path}}",
            engine="lean4+differential",
            level_claimed=dict(category="proof", text=c["text"], design_ref=c["design_ref"]),
            level_note=c["note"],
            technique=c["technique"],
        ))
    man = dict(
        version=1,
        setup_cmd="./check.py --setup",
        hooks=dict(
            guard="wellen_verif",
            enable="RUSTFLAGS='--cfg wellen_verif' (set in harness/.cargo/config.toml; the harness crate has a path dependency on /repo/wellen)",
            baseline_off_cmd="cd /repo && cargo test --workspace --no-fail-fast --offline",
            source_commits=json.load(open(os.path.join(ROOT, "tools", "hook_commits.json"))),
            add_only=True,
        ),
        engines=[dict(name="lean4+differential", path="/verif/check.py",
                      serves_properties=[c["property_id"] for c in checks],
                      kind_free_text="Lean 4 model + theorems (lean/), Rust harness on the real code (harness/), Python orchestrator (vf/)")],
        checks=checks,
        notes="See DESIGN.md. known_findings.json lists genuine defects that are recorded rather than repaired. Every run rebuilds the property's theorem module, prints #print axioms for each theorem (only propext / Classical.choice / Quot.sound are admitted) and scans for sorry / native_decide / axioms; the thorough tier additionally replays the compiled module with leanchecker.",
        not_applicable=[dict(property_id=p, reason=NOT_YET) for p in ALL if p not in CHECKS],
    )
    with open(os.path.join(ROOT, "MANIFEST.json"), "w") as f:
        json.dump(man, f, indent=1)


if __name__ == "__main__":
    main()
