#!/usr/bin/env python3
"""Writes /verif/MANIFEST.json from the table below (single source of truth for the claimed checks)."""
import json
import os

ROOT = os.path.dirname(os.path.dirname(os.path.abspath(__file__)))
ALL = [f"C{n:02d}" for n in range(1, 19)]

CHECKS = {
    "C05": dict(
        technique="Lean 4 proof (induction; bsearch/scan invariants) + exhaustive small-scope correspondence model~code",
        text="Lean theorems C05_never_panics / C05_none_iff / C05_group / C05_next / C05_value_pos / C05_iter about the model of "
             "get_offset, binary_search and the run scans, for every non-decreasing index array and every query; the model is tied to "
             "signals.rs by a differential run (all non-decreasing lists of length <= 7 over 0..6 x all needles, random long lists, 65535/65536 groups) "
             "through the public API, with the linear-scan spec as oracle.",
        design_ref="DESIGN.md section 5 / C05",
        note="Trusted: Lean kernel + {propext, Classical.choice, Quot.sound}; the hand-written model Model/Offset.lean corresponds to signals.rs "
             "only as far as the differential run shows; u32/usize widths are not modelled (indices are Nat), the u16 truncation of `elements` is (finding F18).",
    ),
    "C04": dict(
        technique="Lean 4 proof (pack/unpack and entry-layout round trips by induction, table facts by kernel evaluation) + differential store histories vs Spec.run",
        text="Lean theorems: C04_pack_unpack (write_n_state then n_state_to_bit_string = id for every kind/width/value), C04_entry_roundtrip and "
             "C04_one_bit_roundtrip (entry built by the loader decodes to the symbols written for every widest-kind x local-kind combination, both meta layouts), "
             "C04_align_no_underflow, C04_leb_roundtrip, C04_char_faithful / C04_kind_independent_chars over tables regenerated from the code. "
             "The executable Lean model of Encoder/SignalEncoder/Reader (Model/Store.lean) and the abstract Spec.run are compared with the real store "
             "on generated histories covering every regime of the quantifier (widths, state orders, payload sizes around 32 bytes, 65535-multiples, splits).",
        design_ref="DESIGN.md section 5 / C04",
        note="Proved: per-value packing and per-entry layout (unbounded). Not proved, validated by the differential run only: the block/stream level "
             "(LEB delta accumulation across blocks, offsets, compressed flag, append). lz4_flex is not modelled (compress = id in the model; "
             "the compression decision is an arbitrary predicate). Trusted: Lean kernel, table translator vf/tables.py, harness, generators.",
    ),
    "C02": dict(
        technique="Lean 4 proof (invariant by induction over operation histories, every block size) + differential store histories around 65535-multiples",
        text="Lean theorems C02_timeTable_exact / C02_timeTable_strict: for every history of time/value operations accepted by the model of wavemem::Encoder and every "
             "block size (BlockTimeIdx::MAX is a parameter), the table returned by finish is strictPrefixMax of the timestamps (C02_mem_iff characterises it), hence strictly "
             "increasing with each step exactly once. The model is compared with the real Encoder on histories with repeated/backwards timestamps, 65534..65537, 131069..131072 "
             "and 200000 steps and encoder splits; Spec.run supplies the expected table and indices.",
        design_ref="DESIGN.md section 5 / C02",
        note="Proved for the wavemem store (VCD and GHW back end). Index validity/monotonicity per signal and the FST time chain are covered by the differential run against "
             "Spec.run only (no theorem yet). The implicit leading 0 of VCD bodies is part of the C01 model. Trusted: Lean kernel, harness, generators.",
    ),
    "C06": dict(
        technique="Lean 4 proof (canon / minimal-kind / width lemmas by induction; entry injectivity from the round trip) + differential redundant-write histories",
        text="Lean theorems C06_no_repeat, C06_only_repeats_dropped, C06_kind_minimal, C06_write_kind_minimal, C06_width, C06_entry_injective, C06_push_no_repeat: the specification "
             "output is canonical, the loader's byte-wise de-duplication removes exactly the repetitions, kinds are minimal and widths exact. The real store is compared with Spec.run "
             "on histories rich in redundant writes (inside a step, across steps, across the 65535 block boundary, across encoder splits, same value in different kinds).",
        design_ref="DESIGN.md section 5 / C06",
        note="Covers the wavemem path (VCD, GHW). FST SignalWriter and slices are claimed under C10/C13. Stream/block level is differential only. Trusted: Lean kernel, harness, generators.",
    ),
}

NOT_YET = "check not built yet in this round (machinery under construction; see DESIGN.md section 10 for the order of work)"


def main():
    checks = []
    for pid in ALL:
        if pid not in CHECKS:
            continue
        c = CHECKS[pid]
        checks.append(dict(
            property_id=pid,
            quick_cmd=f"./check.py {pid} --tier quick",
            thorough_cmd=f"./check.py {pid} --tier thorough",
            evidence_file=f"/verif/evidence/{pid}.json",
            replay_cmd_template=f"./check.py {pid} --replay {{path}}",
            engine="lean4+differential",
            level_claimed=dict(category="proof", text=c["text"], design_ref=c["design_ref"]),
            level_note=c["note"],
            technique=c["technique"],
        ))
    man = dict(
        version=1,
        setup_cmd="./check.py --setup",
        hooks=dict(
            guard="wellen_verif",
            enable="RUSTFLAGS='--cfg wellen_verif' (set in harness/.cargo/config.toml; the harness crate has a path dependency on /repo/wellen)",
            baseline_off_cmd="cd /repo && cargo test --workspace --no-fail-fast --offline",
            source_commits=json.load(open(os.path.join(ROOT, "tools", "hook_commits.json"))),
            add_only=True,
        ),
        engines=[dict(name="lean4+differential", path="/verif/check.py",
                      serves_properties=[c["property_id"] for c in checks],
                      kind_free_text="Lean 4 model + theorems (lean/), Rust harness on the real code (harness/), Python orchestrator (vf/)")],
        checks=checks,
        notes="See DESIGN.md. known_findings.json lists genuine defects that are recorded rather than repaired.",
        not_applicable=[dict(property_id=p, reason=NOT_YET) for p in ALL if p not in CHECKS],
    )
    with open(os.path.join(ROOT, "MANIFEST.json"), "w") as f:
        json.dump(man, f, indent=1)


if __name__ == "__main__":
    main()
