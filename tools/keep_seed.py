#!/usr/bin/env python3
"""keep_seed.py <seed dir> <name> <caught-by json> : copies a confirmed seeded change into /verif/seeded/<name>/"""
import json, os, shutil, sys
src, name, caught = sys.argv[1], sys.argv[2], json.loads(sys.argv[3])
dst = f"/verif/seeded/{name}"
os.makedirs(dst, exist_ok=True)
shutil.copy(f"{src}/patch.diff", f"{dst}/patch.diff")
shutil.copy(f"{src}/seed_demo.rs", f"{dst}/seed_demo.rs")
m = json.load(open(f"{src}/meta.json"))
meta = dict(property=m.get("property"), summary=m.get("summary"), needs=m.get("needs"),
            files_changed=m.get("files_changed"),
            confirmed=dict(how="tools/confirm_seed.sh in a scratch worktree of /repo (removed afterwards)",
                           compiles=True, pinned_suite="only the 4 tests that already fail on the unchanged tree fail",
                           demo_on_unmodified="passes", demo_with_change="fails"),
            checks_run=caught,
            agent_commands=m.get("commands_run"))
json.dump(meta, open(f"{dst}/meta.json", "w"), indent=1)
print("kept", dst)
