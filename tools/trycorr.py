#!/usr/bin/env python3
"""developer helper: run a check module's requests and print the first disagreements"""
import sys, time, importlib
sys.path.insert(0, '/verif')
from vf import core
prop = sys.argv[1]
mod = importlib.import_module('vf.' + prop.lower())
ctx = core.Ctx(prop, sys.argv[2] if len(sys.argv) > 2 else 'quick', 0)
ctx.build()
rq = mod.requests(ctx)
print(len(rq), 'requests', sum(len(r) for r in rq), 'bytes')
t = time.time(); impl = ctx.impl(rq, timeout=900); print('impl', round(time.time() - t, 1))
t = time.time(); model = ctx.model(rq, timeout=900); print('model', round(time.time() - t, 1))
canon = getattr(mod, 'canon_impl', lambda l: ("panic" if l.startswith("panic:") else l))
bad = sbad = na = 0
for r, i0, m in zip(rq, impl, model):
    i = canon(i0)
    if m.startswith('osdep'):
        i = 'osdep'
    parts = m.split('\t')
    mo, sp = parts[0], (parts[1] if len(parts) > 1 else '-')
    if sp == '-':
        na += 1
    if i != mo:
        bad += 1
        if bad < 4:
            print('CORR', r[:400], '\n  I', i0[:400], '\n  M', mo[:400], '\n  S', sp[:400])
    elif sp != '-' and i != sp:
        sbad += 1
        if sbad < 4:
            print('SPEC', r[:400], '\n  I', i[:400], '\n  S', sp[:400])
print('corr-bad', bad, 'spec-bad', sbad, 'spec-na', na, 'n', len(impl), len(model))
