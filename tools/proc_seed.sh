#!/bin/bash
# usage: proc_seed.sh <scratch name, e.g. h-C03> <check id>...   — confirms a candidate seeded change in its scratch worktree, then runs
# the named checks against it (serialised through a lock: the checks run against /repo itself); log in /tmp/seedout/<name>/result.log
set -u
n="$1"; shift
out=/tmp/seedout/$n
{
  echo "== files"; grep "^diff --git" $out/patch.diff
  /verif/tools/confirm_seed.sh $out /tmp/seedwt/$n /tmp/seedtgt/$n 2>&1 | grep -E "^==|test result|FAILED|DOES NOT"
  flock /tmp/seedtest.lock /verif/tools/seedtest.sh $out/patch.diff "$@"
} > $out/result.log 2>&1
