#!/bin/bash
# usage: proc_seed_py.sh <scratch name> <check id>...  — like proc_seed.sh for a change demonstrated by demo.py (pywellen)
set -u
n="$1"; shift
out=/tmp/seedout/$n; wt=/tmp/seedwt/$n; tg=/tmp/seedtgt/$n
{
  echo "== files"; grep "^diff --git" $out/patch.diff
  ( cd $wt; export CARGO_TARGET_DIR=$tg; git checkout -q -- .
    cargo build -p pywellen --release --offline 2>&1 | tail -1; mkdir -p $tg/v_base $tg/v_mut; cp $tg/release/libpywellen.so $tg/v_base/pywellen.so
    PYWELLEN_DIR=$tg/v_base python3 $out/demo.py $tg/v_base >/dev/null 2>&1; echo "demo on unmodified source rc=$?"
    git apply $out/patch.diff || echo "PATCH DOES NOT APPLY"
    cargo build -p pywellen --release --offline 2>&1 | tail -1; cp $tg/release/libpywellen.so $tg/v_mut/pywellen.so
    PYWELLEN_DIR=$tg/v_mut python3 $out/demo.py $tg/v_mut >/dev/null 2>&1; echo "demo with the change rc=$?"
    echo "== suite with the change (failing tests)"; cargo test -p wellen --offline --no-fail-fast 2>&1 | grep -E "^test .* FAILED|^test result: FAILED" | sort | uniq -c
    git checkout -q -- . )
  flock /tmp/seedtest.lock /verif/tools/seedtest.sh $out/patch.diff "$@"
} > $out/result.log 2>&1
