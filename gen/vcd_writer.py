"""VCD rendering of the abstract design + waveform of gen/ghw_writer.py (same data model), for the cross-format check C12.
Scopes, records and arrays become $scope module; vectors carry their [left:right] range; enums are bit vectors of the
minimal width, integers 32-bit two's complement vectors, reals `r` values; std_ulogic values use wellen's 9-state
extension characters. Variables made of the same atoms share an identifier code."""
import struct

STD = "ux01zwlh-"


def bits_for(n):
    return 0 if n <= 1 else (n - 1).bit_length()


def idcode(n):
    out = ""
    n += 1
    while n > 0:
        n -= 1
        out += chr(33 + n % 94)
        n //= 94
    return out


class Leaf:
    def __init__(self, atoms, kind, width):
        self.atoms, self.kind, self.width = atoms, kind, width


def vec_len(d, l, r):
    return (l - r + 1) if d == "d" else (r - l + 1)


def elem_labels(d, l, r):
    n = max(0, vec_len(d, l, r))
    return [l - k if d == "d" else l + k for k in range(n)]


class VcdOut:
    def __init__(self, rng):
        self.rng = rng
        self.lines = []
        self.keys = {}        # atoms tuple -> id
        self.leaves = []      # distinct signals

    def leaf(self, name, rangetxt, atoms, kind, width):
        key = tuple(atoms)
        if key not in self.keys:
            self.keys[key] = len(self.leaves)
            self.leaves.append(Leaf(list(atoms), kind, width))
        code = idcode(self.keys[key])
        if kind == "real":
            self.lines.append(f"$var real 64 {code} {name} $end")
        else:
            sp = self.rng.choice(["", " "])
            self.lines.append(f"$var wire {width} {code} {name}{sp + rangetxt if rangetxt else ''} $end")

    def declare(self, name, t, ids):
        k = t[0]
        if k in ("L", "B"):
            self.leaf(name, "", ids[:1], "nine" if k == "L" else "bit", 1)
            return ids[1:]
        if k in ("LV", "BV"):
            n = max(0, vec_len(t[2], t[3], t[4]))
            if n == 0:
                return ids
            self.leaf(name, f"[{t[3]}:{t[4]}]", ids[:n], "nine" if k == "LV" else "bit", n)
            return ids[n:]
        if k == "E":
            self.leaf(name, "", ids[:1], ("enum", max(1, bits_for(len(t[3])))), max(1, bits_for(len(t[3]))))
            return ids[1:]
        if k == "I":
            self.leaf(name, "", ids[:1], "int", 32)
            return ids[1:]
        if k == "F":
            self.leaf(name, "", ids[:1], "real", 64)
            return ids[1:]
        if k == "R":
            self.lines.append(f"$scope module {name} $end")
            for f, ft in t[1]:
                ids = self.declare(f, ft, ids)
            self.lines.append("$upscope $end")
            return ids
        if k == "A":
            self.lines.append(f"$scope module {name} $end")
            for e in elem_labels(t[1], t[2], t[3]):
                ids = self.declare(f"[{e}]", t[4], ids)
            self.lines.append("$upscope $end")
            return ids
        raise ValueError(t)

    def items(self, items):
        for it in items:
            if it[0] == "S":
                self.lines.append(f"$scope module {it[2]} $end")
                self.items(it[3])
                self.lines.append("$upscope $end")
            elif it[0] == "V":
                self.declare(it[2], it[3], list(it[4]))

    def value(self, lf, vals):
        if lf.kind == "real":
            return "r" + repr(struct.unpack("<d", bytes(vals[lf.atoms[0]]))[0])
        if lf.kind == "nine":
            s = "".join(STD[vals[a]] for a in lf.atoms)
        elif lf.kind == "bit":
            s = "".join(str(vals[a]) for a in lf.atoms)
        elif lf.kind == "int":
            s = format(vals[lf.atoms[0]] % (1 << 32), "032b")
        else:
            s = format(vals[lf.atoms[0]], "0%db" % lf.kind[1])
        return s


def is_part(sub, whole):
    n = len(sub)
    return any(whole[k:k + n] == sub for k in range(len(whole) - n + 1))


UNITS = ["fs", "ps", "ns", "us", "ms", "s"]


def render(rng, items, natoms, snapshot, steps, exp=-15):
    """returns VCD bytes; exp = timescale exponent -15..0 (1 / 10 / 100 of a unit); all times must be multiples of 10^(exp+15) fs"""
    out = VcdOut(rng)
    out.items(items)
    div = 10 ** (exp + 15)
    sep = rng.choice(["", " "])
    hdr = ["$date today $end", f"$timescale {10 ** ((exp + 15) % 3)}{sep}{UNITS[(exp + 15) // 3]} $end"] + out.lines + ["$enddefinitions $end"]
    body = []
    vals = {}
    leaves = out.leaves
    # the signal whose events drive a leaf: itself or the earlier declared vector it is a part of
    drivers = []
    for i, lf in enumerate(leaves):
        d = i
        for j in range(i):
            p = leaves[j]
            if len(p.atoms) > len(lf.atoms) > 0 and is_part(lf.atoms, p.atoms):
                d = j
                break
        drivers.append(d)

    def emit(t, changes):
        for a, v in changes:
            vals[a] = v
        touched = set(a for a, _ in changes)
        body.append(f"#{t // div}")
        for i, lf in enumerate(leaves):
            if any(a in touched for a in leaves[drivers[i]].atoms):
                code = idcode(i)
                v = out.value(lf, vals)
                if lf.kind == "real":
                    body.append(f"{v} {code}")
                elif lf.width == 1:
                    body.append(f"{v}{code}")
                else:
                    body.append(f"b{v} {code}")

    emit(snapshot[0], [(a + 1, v) for a, v in enumerate(snapshot[1])])
    for t, ch in steps:
        emit(t, ch)
    return ("\n".join(hdr) + "\n" + "\n".join(body) + "\n").encode()
