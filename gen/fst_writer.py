"""FST rendering of the abstract design + waveform of gen/ghw_writer.py (same data model), written from the block
layout fst-reader 0.8.7 reads (see DESIGN.md appendix A). Only the stdlib is used (zlib, gzip, struct).
Subset: header, value-change blocks of the plain kind (type 1) with frame, raw or zlib signal streams and the
plain chain table incl. aliases, geometry, gzip hierarchy. FST has no delta cycles: the last value a signal takes
within one time is the one recorded."""
import gzip
import math
import struct
import zlib

from . import vcd_writer

STD = "ux01zwlh-"
RCV = "xzhuwl-?"


def varint(n):
    out = bytearray()
    while True:
        b = n & 0x7F
        n >>= 7
        if n:
            out.append(b | 0x80)
        else:
            out.append(b)
            return bytes(out)


def u64(n):
    return struct.pack(">Q", n)


def chars_of(lf, vals):
    """ASCII value characters of a bit-vector leaf"""
    if lf.kind == "nine":
        return "".join(STD[vals[a]] for a in lf.atoms)
    if lf.kind == "bit":
        return "".join(str(vals[a]) for a in lf.atoms)
    if lf.kind == "int":
        return format(vals[lf.atoms[0]] % (1 << 32), "032b")
    return format(vals[lf.atoms[0]], "0%db" % lf.kind[1])


def record(rng, lf, tdelta, vals):
    if lf.kind == "real":
        return varint((tdelta << 1) | 1) + bytes(vals[lf.atoms[0]])
    s = chars_of(lf, vals)
    if lf.width == 1:
        c = s[0]
        if c in "01":
            return varint((tdelta << 2) | (int(c) << 1))
        return varint((tdelta << 4) | (RCV.index(c) << 1) | 1)
    if all(c in "01" for c in s) and rng.random() < 0.8:
        n = len(s)
        padded = s + "0" * ((8 - n % 8) % 8)
        return varint(tdelta << 1) + bytes(int(padded[i:i + 8], 2) for i in range(0, len(padded), 8))
    return varint((tdelta << 1) | 1) + s.encode()


VT = {"nine": [23, 16, 5, 9, 12, 15], "bit": [22, 16, 2], "enum": [28, 16], "int": [1, 24], "real": [3, 20, 4, 29]}
SCOPE = {3: 17, 4: 19, 5: 18, 6: 12, 7: 21, 14: 0}


def var_type(kind, first_atom):
    k = kind if isinstance(kind, str) else "enum"
    return VT[k][first_atom % len(VT[k])]


def data_type(t):
    """FstVhdlDataType the writer attaches (GHDL style SupVar attribute), from the VHDL type name"""
    k, tn = t[0], t[1].lower()
    if k in ("L", "B"):
        return {"std_ulogic": 4, "std_logic": 6, "bit": 2}.get(tn, 0)
    if k in ("LV", "BV"):
        return {"std_ulogic_vector": 5, "std_logic_vector": 7, "bit_vector": 3}.get(tn, 0)
    if k == "E":
        return 1 if tn == "boolean" else 0
    if k == "I":
        return {"integer": 10, "natural": 12}.get(tn, 0)
    return 11


def render(rng, items, natoms, snapshot, steps, exp=-15, dups=None, srcs=None):
    """exp: timescale exponent -15..0; all times must be multiples of 10^(exp+15) fs.
    dups: when a list is given, later value-change blocks may start their time chain with the LAST time of the previous block
    (the time table then holds that time twice); under the repeated entry either no record at all (`<p>e`) or a record for
    every signal re-writing its current value (`<p>`); p = index of the repeated time among the distinct times, appended to the list"""
    out = vcd_writer.VcdOut(rng)          # reuse the leaf bookkeeping (distinct signals, widths, kinds)
    hier = bytearray()
    nscopes = [0]
    nvars = [0]
    handle_of = {}

    enum_handles = {}

    def leaf_entry(name, rangetxt, atoms, kind, width, pk, t):
        # attributes first: enum table (defined at first use) + reference, VHDL type name and data type
        if t[0] == "E":
            ek = (t[2], tuple(t[3]))
            if ek not in enum_handles:
                enum_handles[ek] = len(enum_handles) + 1
                bits = vcd_writer.bits_for(len(t[3]))
                codes = [format(i, "0%db" % bits) if bits else "0" for i in range(len(t[3]))]
                txt = " ".join([t[2], str(len(t[3]))] + list(t[3]) + codes)
                hier.extend(bytes([252, 0, 7]) + txt.encode() + b"\x00" + varint(enum_handles[ek]))
            hier.extend(bytes([252, 0, 7]) + b"\x00" + varint(enum_handles[ek]))
        hier.extend(bytes([252, 0, 2]) + t[1].encode() + b"\x00" + varint((1 << 10) | data_type(t)))
        key = tuple(atoms)
        is_new = key not in out.keys
        out.leaf(name, rangetxt, atoms, kind, width)
        h = out.keys[key] + 1
        vt = var_type(kind, atoms[0])
        full = name + ((rng.choice(["", " "]) + rangetxt) if rangetxt else "")
        hier.extend(bytes([vt, pk - 16]) + full.encode() + b"\x00" + varint(64 if kind == "real" else width) + varint(0 if is_new else h))
        nvars[0] += 1

    def declare(name, t, ids, pk):
        k = t[0]
        if k in ("L", "B"):
            leaf_entry(name, "", ids[:1], "nine" if k == "L" else "bit", 1, pk, t)
            return ids[1:]
        if k in ("LV", "BV"):
            n = max(0, vcd_writer.vec_len(t[2], t[3], t[4]))
            if n == 0:
                return ids
            leaf_entry(name, f"[{t[3]}:{t[4]}]", ids[:n], "nine" if k == "LV" else "bit", n, pk, t)
            return ids[n:]
        if k == "E":
            w = max(1, vcd_writer.bits_for(len(t[3])))
            leaf_entry(name, "", ids[:1], ("enum", w), w, pk, t)
            return ids[1:]
        if k == "I":
            leaf_entry(name, "", ids[:1], "int", 32, pk, t)
            return ids[1:]
        if k == "F":
            leaf_entry(name, "", ids[:1], "real", 64, pk, t)
            return ids[1:]
        if k == "R":
            scope(name, 15)
            for f, ft in t[1]:
                ids = declare(f, ft, ids, pk)
            hier.append(255)
            return ids
        if k == "A":
            scope(name, 6)
            for e in vcd_writer.elem_labels(t[1], t[2], t[3]):
                ids = declare(f"[{e}]", t[4], ids, pk)
            hier.append(255)
            return ids
        raise ValueError(t)

    def scope(name, tpe):
        hier.extend(bytes([254, tpe]) + name.encode() + b"\x00" + b"\x00")
        nscopes[0] += 1

    # source locators (when `srcs` is a list): path names get ids in no particular order (7, 3, 12, ...: the id is what a source
    # stem refers to, not the position of the path name in the file); a scope may carry a declaration and / or an instantiation stem
    path_ids = {}
    seen_scopes = set()

    def path_id(path):
        if path not in path_ids:
            pid = rng.choice([k for k in range(1, 40) if k not in path_ids.values()])
            path_ids[path] = pid
            hier.extend(bytes([252, 0, 3]) + path.encode() + b"\x00" + varint(pid))
        return path_ids[path]

    def stems(full):
        decl = inst = None
        if rng.random() < 0.6:
            decl = (rng.choice(["rtl/cpu.v", "tb/top.sv", "a.vhd", "lib/x.v"]), rng.randint(1, 900))
        if rng.random() < 0.4:
            inst = (rng.choice(["rtl/cpu.v", "tb/top.sv", "a.vhd", "lib/x.v"]), rng.randint(1, 900))
        for is_inst, loc in ((False, decl), (True, inst)):
            if loc is not None:
                pid = path_id(loc[0])
                hier.extend(bytes([252, 0, 5 if is_inst else 4]) + varint(pid) + b"\x00" + varint(loc[1]))
        if decl or inst:
            f = lambda l: "-" if l is None else f"{l[0].encode().hex()}@{l[1]}"   # noqa: E731
            srcs.append(f"{full.encode().hex()}:{f(decl)}/{f(inst)}")

    def walk(its, prefix=""):
        for it in its:
            if it[0] == "S":
                full = prefix + it[2]
                if srcs is not None and full not in seen_scopes and rng.random() < 0.7:
                    stems(full)
                seen_scopes.add(full)
                scope(it[2], SCOPE[it[1]])
                walk(it[3], full + ".")
                hier.append(255)
            elif it[0] == "V":
                if it[3][0] in ("R", "A"):
                    seen_scopes.add(prefix + it[2])     # records / arrays are scopes too: a later scope of that name re-opens it
                declare(it[2], it[3], list(it[4]), it[1])

    walk(items)
    leaves = out.leaves
    nh = len(leaves)
    drivers = []
    for i, lf in enumerate(leaves):
        d = i
        for j in range(i):
            p = leaves[j]
            if len(p.atoms) > len(lf.atoms) > 0 and vcd_writer.is_part(lf.atoms, p.atoms):
                d = j
                break
        drivers.append(d)

    div = 10 ** (exp + 15)
    # merge the steps of one time (FST has no delta cycles): per distinct time the set of touched atoms and the final values
    vals = {a + 1: v for a, v in enumerate(snapshot[1])}
    t0 = snapshot[0] // div
    times = []          # (time, {leaf index: record values snapshot})
    cur_t = t0
    touched_leaves = set(range(nh))
    pending = dict(vals)
    seq = [(snapshot[0], None)] + list(steps)
    events = []         # (time, set of leaf indices, dict of atom values after the time)
    for t, ch in seq:
        tt = t // div
        if ch is None:
            events.append([tt, set(range(nh)), None])
        else:
            for a, v in ch:
                vals[a] = v
            touched = set(a for a, _ in ch)
            ls = set(i for i, lf in enumerate(leaves) if any(a in touched for a in leaves[drivers[i]].atoms))
            if events and events[-1][0] == tt:
                events[-1][1] |= ls
            else:
                events.append([tt, ls, None])
        events[-1][2] = dict(vals)

    blocks = bytearray()
    nblocks = 0
    # the first event is the snapshot: either the frame of the first block (start_time < first chain time) or plain records
    use_frame = len(events) > 1 and rng.random() < 0.5
    frame_vals = events[0][2]
    rest = events[1:] if use_frame else events
    # split into blocks
    groups = []
    i = 0
    while i < len(rest):
        n = rng.choice([len(rest), len(rest), 1, 2, 5])
        groups.append(rest[i:i + n])
        i += n
    cur_frame = frame_vals
    ev_pos = 1 if use_frame else 0      # index of the group's first event among the distinct times
    for gi, grp in enumerate(groups):
        start_time = t0 if (gi == 0) else grp[0][0]
        if gi == 0 and not use_frame:
            start_time = grp[0][0]
        end_time = grp[-1][0]
        if dups is not None and gi > 0 and rng.random() < 0.75:
            empty = rng.random() < 0.3
            prev_t = groups[gi - 1][-1][0]
            dups.append(f"{ev_pos - 1}e" if empty else f"{ev_pos - 1}")
            grp = [[prev_t, set() if empty else set(range(nh)), cur_frame]] + list(grp)
            start_time = prev_t
        ev_pos += len(groups[gi])
        chain_times = [e[0] for e in grp]
        # per leaf: records
        streams = {}
        last_idx = {}
        for ti, (tt, ls, v) in enumerate(grp):
            for li in sorted(ls):
                lf = leaves[li]
                delta = ti if li not in last_idx else ti - last_idx[li]
                last_idx[li] = ti
                streams.setdefault(li, bytearray()).extend(record(rng, lf, delta, v))
        # frame
        fb = bytearray()
        for lf in leaves:
            if lf.kind == "real":
                fb += bytes(cur_frame[lf.atoms[0]])
            else:
                fb += chars_of(lf, cur_frame).encode()
        fz = zlib.compress(bytes(fb))
        if len(fz) >= len(fb) or rng.random() < 0.5:
            fz = bytes(fb)
        body = bytearray()
        body += varint(len(fb)) + varint(len(fz)) + varint(nh) + fz
        body += varint(nh)
        vc = bytearray()
        pack = rng.choice([b"Z", b"Z", b"4"])
        vc += pack
        chain = bytearray()
        prev_off = 0
        zeros = 0
        for li in range(nh):
            if li in streams:
                if zeros:
                    chain += varint(zeros << 1)
                    zeros = 0
                off = len(vc)
                data = bytes(streams[li])
                if pack == b"Z" and rng.random() < 0.4:
                    vc += varint(len(data)) + zlib.compress(data)
                else:
                    vc += varint(0) + data
                chain += varint(((off - prev_off) << 1) | 1)
                prev_off = off
            else:
                zeros += 1
        if zeros:
            chain += varint(zeros << 1)
        body += vc
        body += chain + u64(len(chain))
        tc = bytearray()
        prev = 0
        for tt in chain_times:
            tc += varint(tt - prev)
            prev = tt
        tz = zlib.compress(bytes(tc))
        if len(tz) >= len(tc) or rng.random() < 0.5:
            tz = bytes(tc)
        body += tz + u64(len(tc)) + u64(len(tz)) + u64(len(chain_times))
        section = u64(0) + u64(start_time) + u64(end_time) + u64(len(fb)) + bytes(body)
        section = u64(len(section)) + section[8:]
        blocks += bytes([1]) + section
        nblocks += 1
        cur_frame = grp[-1][2]

    geo = b"".join(varint(0 if lf.kind == "real" else lf.width) for lf in leaves)
    gz = zlib.compress(geo)
    if len(gz) >= len(geo) or rng.random() < 0.5:
        gz = geo
    geom = bytes([3]) + u64(24 + len(gz)) + u64(len(geo)) + u64(nh) + gz
    hz = gzip.compress(bytes(hier))
    hblock = bytes([4]) + u64(16 + len(hz)) + u64(len(hier)) + hz
    last_time = events[-1][0]
    header = (bytes([0]) + u64(329) + u64(t0) + u64(last_time) + struct.pack("<d", math.e) + u64(0) + u64(nscopes[0]) + u64(nvars[0]) + u64(nh) +
              u64(nblocks) + struct.pack("b", exp) + b"verif fst writer".ljust(128, b"\x00") + b"today".ljust(119, b"\x00") +
              bytes([0]) + u64(0))
    assert len(header) == 330
    return header + bytes(blocks) + geom + hblock
