"""GHW writer: an abstract design (scopes, variables with structured VHDL types, scalar atoms = GHW signal ids)
and a waveform (snapshot + time steps / delta cycles) are serialised the way GHDL does (see DESIGN.md appendix A).
Only the stdlib is used.  The design's token form (design_tokens) is what the Lean specification interprets.

types:  ('L', tname) nine-valued scalar | ('B', tname) two-valued scalar
        ('LV', tname, dir, left, right) | ('BV', tname, dir, left, right)      dir: 't' (to) | 'd' (downto)
        ('E', tname, ename, [literals]) | ('I', tname) | ('F', tname)
        ('R', [(field, type)]) | ('A', dir, left, right, elemtype)
items:  ('S', kind, name, [items]) | ('P', name) | ('V', portkind, name, type, [atom ids])
wave:   snapshot (time, [value per atom]) + steps [(time, [(atom, value)])]; a value is an int (literal index /
        integer) or 8 bytes (IEEE double, little endian)
"""
import struct

STD = ["U", "X", "0", "1", "Z", "W", "L", "H", "-"]


def uleb(n):
    out = bytearray()
    while True:
        b = n & 0x7F
        n >>= 7
        if n:
            out.append(b | 0x80)
        else:
            out.append(b)
            return bytes(out)


def sleb(n):
    out = bytearray()
    while True:
        b = n & 0x7F
        n >>= 7
        if (n == 0 and not (b & 0x40)) or (n == -1 and (b & 0x40)):
            out.append(b)
            return bytes(out)
        out.append(b | 0x80)


def hx(s):
    b = s if isinstance(s, bytes) else s.encode()
    return b.hex() if b else "-"


class Writer:
    def __init__(self, rng, big_endian=False, version=1):
        self.rng = rng
        self.be = big_endian
        self.version = version
        self.strings = ["<anon>"]
        self.types = []          # serialised entries (bytes)
        self.memo = {}
        self.quote = rng.random() < 0.6     # GHDL writes character literals with ticks

    # --- primitives
    def u32(self, n):
        return struct.pack(">i" if self.be else "<i", n)

    def i64(self, n):
        return struct.pack(">q" if self.be else "<q", n)

    def sid(self, s):
        if s is None:
            return 0
        if s not in self.strings:
            if len(s) >= 32:
                # an unreferenced neighbour with a long common prefix: the prefix length in front of `s` then needs two
                # (from 32) or three (from 1024) 5-bit groups
                decoy = s[:-1] + ("~" if s[-1] != "~" else "_")
                if decoy not in self.strings:
                    self.strings.append(decoy)
            self.strings.append(s)
        return self.strings.index(s)

    def add_type(self, key, body):
        if key is not None and key in self.memo:
            return self.memo[key]
        self.types.append(body)
        tid = len(self.types)
        if key is not None:
            self.memo[key] = tid
        return tid

    def lit(self, c):
        return f"'{c}'" if self.quote else c

    # --- well known pieces
    def t_integer(self):
        return self.add_type("integer", bytes([25]) + uleb(self.sid("integer")))

    def t_intidx(self):
        """a constrained integer subtype that admits negative indices (an unconstrained `integer` index has no range:
        the reader then keeps an array of scalars instead of a vector)"""
        base = self.t_integer()
        return self.add_type("int_idx", bytes([34]) + uleb(self.sid("int_idx")) + uleb(base) + bytes([25]) + sleb(-2147483648) + sleb(2147483647))

    def t_natural(self):
        base = self.t_integer()
        return self.add_type("natural", bytes([34]) + uleb(self.sid("natural")) + uleb(base) + bytes([25]) + sleb(0) + sleb(2147483647))

    def t_enum(self, name, lits, kind=23):
        body = bytes([kind]) + uleb(self.sid(name)) + uleb(len(lits)) + b"".join(uleb(self.sid(l)) for l in lits)
        return self.add_type(("enum", name, tuple(lits)), body)

    def t_nine(self, tname):
        if tname == "std_ulogic" or self.rng.random() < 0.3:
            lits = [self.lit(c if self.rng.random() < 0.8 else c.lower()) for c in STD]
            key = ("nine", tname)
            if key in self.memo:
                return self.memo[key]
            return self.add_type(key, bytes([23]) + uleb(self.sid(tname)) + uleb(9) + b"".join(uleb(self.sid(l)) for l in lits))
        key = ("nine", tname)
        if key in self.memo:
            return self.memo[key]
        base = self.t_nine("std_ulogic")
        # subtype covering the whole base: an alias
        return self.add_type(key, bytes([34]) + uleb(self.sid(tname)) + uleb(base) + bytes([23, 0, 8]))

    def t_bit(self, tname):
        key = ("bit", tname)
        if key in self.memo:
            return self.memo[key]
        return self.add_type(key, bytes([22]) + uleb(self.sid(tname)) + uleb(2) + uleb(self.sid(self.lit("0"))) + uleb(self.sid(self.lit("1"))))

    def rng_bytes(self, kind, d, left, right):
        return bytes([kind | (0x80 if d == "d" else 0)]) + sleb(left) + sleb(right)

    def t_vec(self, nine, tname, d, left, right):
        key = ("vec", nine, tname, d, left, right)
        if key in self.memo:
            return self.memo[key]
        default_base = ("std_logic_vector" if nine else "bit_vector")
        anon = self.rng.random() < 0.5
        base_name = tname if anon else self.rng.choice([default_base, tname + "_base"])
        elem = self.t_nine(self.rng.choice(["std_ulogic", "std_logic"])) if nine else self.t_bit("bit")
        # the index type of the unconstrained base: `natural` unless a bound is negative (a sub-range must lie inside the base's range:
        # the reader asserts it in debug builds, and VHDL demands it)
        neg = min(left, right) < 0
        bkey = ("vecbase", nine, base_name, neg)
        if bkey in self.memo:
            base = self.memo[bkey]
        else:
            base = self.add_type(bkey, bytes([31]) + uleb(self.sid(base_name)) + uleb(elem) + uleb(1) + uleb(self.t_intidx() if neg else self.t_natural()))
        body = bytes([35]) + uleb(0 if anon else self.sid(tname)) + uleb(base) + self.rng_bytes(25, d, left, right)
        return self.add_type(key, body)

    def type_id(self, t):
        k = t[0]
        if k == "L":
            return self.t_nine(t[1])
        if k == "B":
            return self.t_bit(t[1])
        if k in ("LV", "BV"):
            return self.t_vec(k == "LV", t[1], t[2], t[3], t[4])
        if k == "E":
            _, tname, ename, lits = t
            base = self.t_enum(ename, lits, kind=22 if (len(lits) == 2 and self.rng.random() < 0.5) else 23)
            if tname == ename:
                return base
            return self.add_type(("ealias", tname, ename, tuple(lits)), bytes([34]) + uleb(self.sid(tname)) + uleb(base) + bytes([23, 0, len(lits) - 1]))
        if k == "I":
            if t[1] == "integer":
                return self.t_integer()
            lo, hi = self.rng.choice([(0, 2147483647), (-128, 127), (1, 2147483647)])
            d = self.rng.choice("td")
            l, r = (lo, hi) if d == "t" else (hi, lo)
            return self.add_type(("isub", t[1]), bytes([34]) + uleb(self.sid(t[1])) + uleb(self.t_integer()) + self.rng_bytes(25, d, l, r))
        if k == "F":
            base = self.add_type("real", bytes([27]) + uleb(self.sid("real")))
            if t[1] == "real":
                return base
            return self.add_type(("fsub", t[1]), bytes([34]) + uleb(self.sid(t[1])) + uleb(base) + bytes([27]) + struct.pack("<d", -1e9) + struct.pack("<d", 1e9))
        if k == "R":
            fields = [(self.sid(f), self.type_id(ft)) for f, ft in t[1]]
            name = "rec%d" % len(self.types)
            return self.add_type(None, bytes([32]) + uleb(self.sid(name)) + uleb(len(fields)) + b"".join(uleb(a) + uleb(b) for a, b in fields))
        if k == "A":
            _, d, left, right, et = t
            elem = self.type_id(et)
            base = self.add_type(None, bytes([31]) + uleb(self.sid("arr%d" % len(self.types))) + uleb(elem) + uleb(1) + uleb(self.t_intidx() if min(left, right) < 0 else self.t_natural()))
            return self.add_type(None, bytes([35]) + uleb(self.sid("sub%d" % len(self.types)) if self.rng.random() < 0.5 else 0) + uleb(base) + self.rng_bytes(25, d, left, right))
        raise ValueError(t)

    # --- hierarchy
    def hier(self, items, out, counts):
        for it in items:
            if it[0] == "S":
                _, kind, name, sub = it
                out += bytes([kind]) + uleb(self.sid(name))
                if kind == 5:
                    out += uleb(self.t_integer()) + sleb(self.rng.randint(0, 7))
                counts[0] += 1
                self.hier(sub, out, counts)
                out += bytes([15])
            elif it[0] == "P":
                out += bytes([13]) + uleb(self.sid(it[1]))
            else:
                _, pk, name, t, ids = it
                out += bytes([pk]) + uleb(self.sid(name)) + uleb(self.type_id(t)) + b"".join(uleb(i) for i in ids)
                counts[1] += 1

    def string_section(self):
        strs = self.strings[1:]
        if self.rng.random() < 0.7:
            # GHDL sorts its string table; ids were handed out already, so only sort when nothing refers to positions yet
            pass
        body = bytearray()
        for i, s in enumerate(strs):
            prev = strs[i - 1].encode() if i else b""
            b = s.encode()
            share = 0
            if self.rng.random() < 0.7:
                while share < len(prev) and share < len(b) and prev[share] == b[share]:
                    share += 1
            if i == 0:
                share = 0
            # the terminator that FOLLOWS string i-1 carries the prefix length of string i: emit it before string i
            if i:
                body += self._term(share)
            body += b[share:]
        body += self._term(0)
        size = sum(len(s) + 1 for s in strs)
        return b"STR\x00" + b"\x00" * 4 + self.u32(len(strs)) + self.u32(size) + bytes(body) + b"EOS\x00"

    @staticmethod
    def _term(n):
        out = bytearray()
        first = True
        while True:
            low = n & 0x1F
            n >>= 5
            if n:
                out.append(0x80 | low)
            else:
                out.append(low)
                return bytes(out)

    def serialise(self, items, natoms, atom_kinds, snapshot, steps, sections=None):
        hier = bytearray()
        counts = [0, 0]
        self.hier(items, hier, counts)
        hier += bytes([0])
        # all strings / types are known now
        tsec = b"TYP\x00" + b"\x00" * 4 + self.u32(len(self.types)) + b"".join(self.types) + b"\x00"
        wkt = b""
        if self.rng.random() < 0.5:
            w = bytearray(b"WKT\x00" + b"\x00" * 4)
            if ("nine", "std_ulogic") in self.memo:
                w += bytes([3]) + uleb(self.memo[("nine", "std_ulogic")])
            if ("bit", "bit") in self.memo:
                w += bytes([2]) + uleb(self.memo[("bit", "bit")])
            w += bytes([0])
            wkt = bytes(w)
        hsec = b"HIE\x00" + b"\x00" * 4 + self.u32(counts[0]) + self.u32(counts[1]) + self.u32(natoms) + bytes(hier)
        out = bytearray(b"GHDLwave\n" + bytes([16, 0, self.version, 2 if self.be else 1, 4, 0, 0]))
        dirents = []

        def sec(tag, b):
            dirents.append((tag, len(out)))
            out.extend(b)

        sec(b"STR\x00", self.string_section())
        sec(b"TYP\x00", tsec)
        if wkt:
            sec(b"WKT\x00", wkt)
        sec(b"HIE\x00", hsec)
        sec(b"EOH\x00", b"EOH\x00")

        def val(atom, v):
            k = atom_kinds[atom]
            if k == "int":
                return sleb(v)
            if k == "real":
                return bytes(v)
            return bytes([v])

        t0, vals = snapshot
        sec(b"SNP\x00", b"SNP\x00" + b"\x00" * 4 + self.i64(t0) + b"".join(val(a + 1, v) for a, v in enumerate(vals)) + b"ESN\x00")
        # group the steps into cycle sections at random
        i = 0
        while i < len(steps):
            n = self.rng.randint(1, 4)
            group = steps[i:i + n]
            i += n
            b = bytearray(b"CYC\x00" + self.i64(group[0][0]))
            cur = group[0][0]
            for gi, (t, changes) in enumerate(group):
                if gi:
                    b += sleb(t - cur)
                    cur = t
                last = 0
                for atom, v in sorted(changes):
                    b += uleb(atom - last) + val(atom, v)
                    last = atom
                b += bytes([0])
            b += sleb(-1) + b"ECY\x00"
            sec(b"CYC\x00", bytes(b))
        dpos = len(out)
        out += b"DIR\x00" + b"\x00" * 4 + self.u32(len(dirents)) + b"".join(t + self.u32(p) for t, p in dirents) + b"EOD\x00"
        out += b"TAI\x00" + b"\x00" * 4 + self.u32(dpos)
        return bytes(out)


def type_tokens(t):
    k = t[0]
    if k in ("L", "B", "I", "F"):
        return [k, hx(t[1])]
    if k in ("LV", "BV"):
        return [k, hx(t[1]), t[2], str(t[3]), str(t[4])]
    if k == "E":
        return ["E", hx(t[1]), hx(t[2]), str(len(t[3]))] + [hx(l) for l in t[3]]
    if k == "R":
        out = ["R", str(len(t[1]))]
        for f, ft in t[1]:
            out += [hx(f)] + type_tokens(ft)
        return out
    if k == "A":
        return ["A", t[1], str(t[2]), str(t[3])] + type_tokens(t[4])
    raise ValueError(t)


def item_tokens(it):
    if it[0] == "S":
        out = ["S", str(it[1]), hx(it[2]), str(len(it[3]))]
        for s in it[3]:
            out += item_tokens(s)
        return out
    if it[0] == "P":
        return ["P", hx(it[1])]
    return ["V", str(it[1]), hx(it[2])] + type_tokens(it[3]) + [str(len(it[4]))] + [str(i) for i in it[4]]


def value_token(v):
    return str(v) if isinstance(v, int) else "x" + bytes(v).hex()


def design_tokens(items, natoms, snapshot, steps):
    out = [str(len(items))]
    for it in items:
        out += item_tokens(it)
    out += [str(natoms), "T", str(snapshot[0])] + [value_token(v) for v in snapshot[1]]
    out += [str(len(steps))]
    for t, ch in steps:
        out += ["C", str(t), str(len(ch))]
        for a, v in sorted(ch):
            out += [str(a), value_token(v)]
    return ",".join(out)
