"""C06 — loaded signals are in canonical form."""
from . import core, storegen, c04

RULE = ("store histories rich in redundant writes: the same value again inside a time step, in the next step, across the 65535-step block "
        "boundary and across encoder splits, in every order of 2/4/9-state values, VCD-text and pre-encoded writes, reals and strings; "
        "real code vs Lean Store model vs Spec.run, whose output is canonical by theorem (C06_no_repeat, C06_kind_minimal, C06_width). "
        "Plus generated GHW files rich in sub-range aliases (values that reach the user through slice_signal / BitVectorBuilder, 1-bit slices of 9-state parents included) through the `ghw` three-way comparison of C11. "
        "non-trivial = at least one change loaded")


def redundant_history(rng):
    types = storegen.rand_types(rng)
    h = storegen.Hist(rng, types)
    t = rng.choice([0, 3])
    for k in range(rng.choice([2, 5, 12, 30])):
        if k > 0 and rng.random() < 0.1:
            h.ops.append("a")
        t += rng.choice([1, 2, 10])
        h.time(t)
        for i in range(len(types)):
            r = rng.random()
            if r < 0.45:
                h.value(i, redundant=True) if i in h.last else h.value(i)
            elif r < 0.8:
                h.value(i)
                if rng.random() < 0.4:
                    h.value(i, redundant=True)
        if rng.random() < 0.1:
            h.time(t)          # repeated timestamp, then redundant writes
            for i in range(len(types)):
                if i in h.last:
                    h.value(i, redundant=True)
    return h.line()


def same_value_other_kind(rng):
    """the same symbols written once with a narrow and once with a wide declared kind (pre-encoded path)"""
    w = rng.choice([2, 3, 4, 7, 8, 9, 16, 33])
    h = storegen.Hist(rng, [f"g{w}"])
    t = 0
    for _ in range(6):
        kind = rng.choice([0, 1, 2])
        syms = storegen.rand_syms(rng, w, kind)
        need = 0 if max(syms) <= 1 else (1 if max(syms) <= 3 else 2)
        for st in [x for x in (0, 1, 2) if x >= need]:
            t += 1
            h.time(t)
            h.ops.append(f"n0:{st}:{storegen.hexs(storegen.pack(st, syms))}")
    return h.line()


def requests(ctx):
    rng = ctx.rng
    quick = ctx.tier == "quick"
    rq = [redundant_history(rng) for _ in range(2500 if quick else 25000)]
    rq += [same_value_other_kind(rng) for _ in range(300 if quick else 3000)]
    # redundancy across the block boundary
    for n in (65535, 65536):
        rq.append(storegen.gen_rollover(rng, n + 3, every=65534))
    # values that reach the user through slice_signal (GHW sub-range aliases, 1-bit slices of 9-state parents included):
    # the smallest kind / no-repetition rule holds for derived signals too
    from . import ghwgen
    for _ in range(150 if quick else 2000):
        d, data = ghwgen.gen_case(rng, nitems=rng.choice([4, 8]), nsteps=rng.choice([4, 10]), alias_prob=0.6, allow_structs=False)
        rq.append(f"ghw {d} {data.hex()}")
    return rq


def run(ctx):
    return c04.run(ctx, prop="C06", rule=RULE, reqs=requests)
