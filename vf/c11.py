"""C11 — GHW files load faithfully."""
import glob
import os
from . import core, ghwgen, tables
from .c05 import corpus_requests

RULE = ("`ghw <design> <file>`: a random VHDL design (nested instances / packages / blocks / generates / processes; std_ulogic, std_logic, custom nine-valued, bit and "
        "custom two-valued scalars; to / downto vectors of widths 0..70 incl. multiples of 8; enums, booleans, integers incl. i32 extremes, reals; records, arrays of "
        "records / vectors / scalars; perfect aliases and sub-range aliases of earlier vectors) with a waveform (snapshot + time steps with delta cycles) is written as a GHW "
        "file by gen/ghw_writer.py (little / big endian, versions 0 / 1, random string prefix sharing, optional WKT section, 1..4 steps per cycle section). Real code: "
        "format detection + read_header + read_body + load of every signal; dump of the tree (kinds, names, directions, encodings, ranges, canonical signal numbers, type "
        "names, enum tables) with every variable's change list, the time table and the timescale. Lean model: byte-level reader of the file; spec: the design's denotation. "
        "Plus a malformed stream (truncations, byte changes in the value sections, broken tags / tailer) and every corpus GHW file (impl vs model). "
        "non-trivial = at least one variable with a change; distinct = distinct (request, reply)")


def requests(ctx):
    rng = ctx.rng
    quick = ctx.tier == "quick"
    rq = []
    for _ in range(1200 if quick else 20000):
        d, data = ghwgen.gen_case(rng)
        rq.append(f"ghw {d} {data.hex()}")
    for _ in range(60 if quick else 600):
        d, data = ghwgen.gen_case(rng, nitems=rng.choice([15, 30]), nsteps=rng.choice([30, 100]), max_width=rng.choice([70, 200]))
        rq.append(f"ghw {d} {data.hex()}")
    for _ in range(500 if quick else 6000):
        d, data = ghwgen.gen_case(rng, nitems=rng.choice([1, 3, 6]), nsteps=rng.choice([0, 2, 5]))
        rq.append(f"ghw - {ghwgen.malform(rng, data).hex()}")
    for f in sorted(glob.glob(os.path.join(core.REPO, "wellen", "inputs", "**", "*.ghw"), recursive=True)):
        rq.append(f"ghw - {open(f, 'rb').read().hex()}")
    return rq


def run(ctx):
    res = ctx.res
    ok = ctx.build()
    if ok:
        tables.regenerate(ctx.wvh)
    proof = core.prove("C11")
    if ok:
        rq = corpus_requests("C11") + requests(ctx)
        impl = [("panic" if l.startswith("panic") else l) for l in ctx.impl(rq)]
        model = ctx.model(rq)
        core.compare_streams(res, rq, impl, model, is_nontrivial=lambda r, i: "=" in i,
                             label="Ghw model ~ ghw::read_header/read_body", sample_every=max(1, len(rq) // 6))
        res.count("files", len(rq))
        res.count("impl_err", sum(1 for i in impl if i == "err"))
        res.count("impl_panic", sum(1 for i in impl if i == "panic"))
        res.count("spec_applicable", sum(1 for m in model if m.split("\t")[1:2] != ["-"]))
    return core.finish(res, proof, rule=RULE)
