"""C07 — signal loading is independent of how it is requested."""
import glob
import os
import subprocess
from . import core, vcdgen, tables
from .c05 import corpus_requests

RULE = ("`loadseq <n> <path> <ops>`: sequences of load_signals / load_signals_multi_threaded / unload_signals calls (with repetitions, permutations, empty and "
        "duplicate requests) and direct SignalSource::load_signals calls on wavemem-backed (generated VCD, corpus VCD, GHW with sliced signals) and file-backed (corpus FST) "
        "sources, plus GHW (alias-rich) and FST files written from generated designs. After every call the harness reports, per signal of the file, whether it is loaded and identical to the same signal loaded ALONE in a fresh waveform; "
        "the Lean model (Waveform map + SignalSource) and the abstract loaded-set predict that report. non-trivial = at least one signal loaded at some point; "
        "distinct = distinct (request, reply)")

SOURCES = ["ghdl/wellen_issue_12.ghw", "ghdl/tb_recv.ghw", "ghdl/oscar/test2.ghw", "surfer/counter.vcd.fst", "amaranth/up_counter.vcd.fst",
           "icarus/rv32_soc_TB.vcd.fst", "surfer/spade.vcd", "vcs/datapath_log.vcd", "systemc/waveform.vcd", "questa-sim/test.vcd.fst",
           "nvc/vhdl_test_bool_issue_16.fst"]


def gen_ops(rng, n, length):
    ops = []
    for _ in range(length):
        k = rng.choice(["l", "l", "m", "u", "d"])
        style = rng.random()
        if style < 0.1:
            ids = []
        elif style < 0.3:
            ids = [rng.randrange(n)]
        elif style < 0.6:
            ids = [rng.randrange(n) for _ in range(rng.randint(2, 6))]
            ids += ids[: rng.randint(0, 2)]           # duplicates
        else:
            pool = list(range(min(n, 12)))
            rng.shuffle(pool)
            ids = pool[: rng.randint(1, len(pool))]
        ops.append(f"{k}:{','.join(map(str, ids)) if ids else '-'}")
    return ";".join(ops)


def long_vcd(rng, path, nsteps):
    sigs = [("!", "wire", 1), ('"', "wire", 8), ("#", "real", 64), ("$x", "string", 1), ("%", "wire", 1), ("&", "wire", 5)]
    hdr = "$timescale 1ns $end\n$scope module top $end\n" + "".join(
        f"$var {kw} {w} {i} s{n} $end\n" for n, (i, kw, w) in enumerate(sigs)) + "$upscope $end\n$enddefinitions $end\n"
    cur = {"!": "0!", '"': "b00000000 \"", "#": "r0.5 #", "$x": "sinit $x", "%": "x%", "&": "b0z1x0 &"}
    out = [hdr, "#0\n"] + [v + "\n" for v in cur.values()]
    en_period = rng.choice([20_000, 30_011])
    for t in range(1, nsteps):
        out.append(f"#{t}\n")
        cur["!"] = f"{t & 1}!"
        out.append(cur["!"] + "\n")
        if t % en_period == 0:
            cur["%"] = f"{(t // en_period) & 1}%"
            out.append(cur["%"] + "\n")
        if t % 9973 == 0:
            cur['"'] = f"b{t % 256:08b} \""
            cur["#"] = f"r{t / 8} #"
            cur["$x"] = f"st{t} $x"
            cur["&"] = "b" + "".join(rng.choice("01xz") for _ in range(5)) + " &"
            out += [cur[k] + "\n" for k in ('"', "#", "$x", "&")]
        if any(abs(t - b) <= 2 for b in (65_535, 131_070)) or t % 21_845 == 0:
            out += [cur[k] + "\n" for k in ('"', "#", "$x", "%", "&")]       # redundant re-dump of unchanged values
    open(path, "w").write("".join(out))
    return path


def requests(ctx):
    rng = ctx.rng
    quick = ctx.tier == "quick"
    files = []
    base = os.path.join(core.REPO, "wellen/inputs")
    for s in SOURCES:
        p = os.path.join(base, s)
        if os.path.exists(p) and os.path.getsize(p) > 0:
            files.append(p)
    # generated VCDs (aliases, all value kinds)
    gen_dir = os.path.join(ctx.work, "gen")
    os.makedirs(gen_dir, exist_ok=True)
    for k in range(6 if quick else 40):
        vars_ = vcdgen.gen_vars(rng, nvars=rng.choice([3, 6, 10]), style="dense")
        body = vcdgen.gen_body(rng, vars_, nsteps=12, line_disciplined=True)
        hdr = b"$timescale 1ns $end\n$scope module top $end\n"
        for i, (idb, t) in enumerate(vars_):
            kw, w = ("real", "64") if t == "r" else (("string", "1") if t == "s" else ("wire", t[1:]))
            hdr += f"$var {kw} {w} ".encode() + idb + f" v{i} $end\n".encode()
        hdr += b"$upscope $end\n$enddefinitions $end"
        p = os.path.join(gen_dir, f"g{k}.vcd")
        open(p, "wb").write(hdr + body)
        files.append(p)
    # long recordings: more than 65 535 time steps = several storage blocks per signal; around every roll-over all current
    # values are dumped again (redundant first entries of a block, like a $dumpall checkpoint), reals / strings included
    for k in range(1 if quick else 4):
        files.append(long_vcd(rng, os.path.join(gen_dir, f"long{k}.vcd"), 66_000 if quick else rng.choice([70_000, 132_000])))
    # generated GHW (alias-rich: sliced signals) and FST files (alias handles, several blocks) from abstract designs
    from . import ghwgen
    for k in range(5 if quick else 30):
        _d, g, _v, f, _e = ghwgen.gen_triple(rng, nitems=rng.choice([6, 10]), nsteps=rng.choice([6, 15]))
        for ext, data in (("ghw", g), ("fst", f)):
            p = os.path.join(gen_dir, f"d{k}.{ext}")
            open(p, "wb").write(data)
            files.append(p)
    for k in range(4 if quick else 20):
        _d, g = ghwgen.gen_case(rng, nitems=8, nsteps=10, alias_prob=0.5, allow_structs=False)
        p = os.path.join(gen_dir, f"a{k}.ghw")
        open(p, "wb").write(g)
        files.append(p)
    # universe sizes from the real loader
    out = os.path.join(ctx.work, "nsig.out")
    subprocess.run([ctx.wvh, "--out", out], input="".join(f"nsig {f}\n" for f in files).encode(),
                   stdout=subprocess.DEVNULL, stderr=subprocess.DEVNULL, timeout=600)
    sizes = [l.strip() for l in open(out).read().split("\n") if l.strip()]
    rq = []
    for f, sz in zip(files, sizes):
        if not sz.isdigit() or int(sz) == 0:
            continue
        n = int(sz)
        for _ in range(14 if quick else 60):
            rq.append(f"loadseq {n} {f} {gen_ops(rng, n, rng.choice([3, 6, 12] if quick else [6, 12, 40]))}")
    return rq


def run(ctx):
    res = ctx.res
    ok = ctx.build()
    if ok:
        tables.regenerate(ctx.wvh)
    proof = core.prove("C07")
    if ok:
        rq = corpus_requests("C07") + requests(ctx)
        impl = [("panic" if l.startswith("panic") else l) for l in ctx.impl(rq)]
        model = ctx.model(rq)
        core.compare_streams(res, rq, impl, model, is_nontrivial=lambda r, i: "L" in i,
                             label="Load model ~ Waveform/SignalSource", sample_every=max(1, len(rq) // 8))
        res.count("sequences", len(rq))
        res.count("sources", len({r.split(" ")[2] for r in rq}))
    return core.finish(res, proof, rule=RULE)
