"""Generator of VCD bodies + declarations for the `vcd <opts> <vars> <realmap> <bodyhex>` requests."""
import struct
from . import storegen

IDCHARS = [chr(c) for c in range(33, 127)]


def id_of_int(n):
    """inverse of id_to_int"""
    n += 1
    out = []
    while n > 0:
        n -= 1
        out.append(IDCHARS[n % 94])
        n //= 94
    return "".join(out)


def gen_vars(rng, nvars=None, style=None):
    """returns list of (id bytes, type string)"""
    nvars = nvars or rng.choice([1, 2, 3, 5, 8])
    style = style or rng.choice(["dense", "dense", "dense", "offset", "sparse", "long", "weird", "wrap", "tails"])
    ids = []
    if style == "dense":
        ids = [id_of_int(i) for i in range(nvars)]
    elif style == "offset":
        base = rng.choice([5, 93, 94, 200, 1000])
        ids = [id_of_int(base + i * rng.choice([1, 1, 2])) for i in range(nvars)]
        ids = list(dict.fromkeys(ids))
    elif style == "sparse":
        ids = list(dict.fromkeys(id_of_int(rng.randint(0, 8000)) for _ in range(nvars)))
    elif style == "wrap":
        # a code of 10+ characters whose base-94 value is 2^64 + k: with wrapping arithmetic it would collide with code k
        ids = [id_of_int(i) for i in range(max(1, nvars - 1))]
        ids.append(id_of_int(2 ** 64 * rng.choice([1, 1, 2]) + rng.randint(0, max(1, nvars - 1))))
    elif style == "tails":
        # long codes (hashed mapping) that agree in their last / first 8..14 characters and differ only before / after them,
        # like the hierarchical names some tools use as identifier codes (`top.a.data_out`, `top.b.data_out`)
        common = "".join(rng.choice(IDCHARS) for _ in range(rng.choice([8, 9, 12, 14])))
        ids = []
        for k in range(nvars):
            var = id_of_int(k) + rng.choice(["", ".", "x"])
            ids.append(var + common if rng.random() < 0.6 else common + var)
        ids = list(dict.fromkeys(ids))
    elif style == "long":
        ids = list(dict.fromkeys("".join(rng.choice(IDCHARS) for _ in range(rng.choice([4, 5, 6, 12]))) for _ in range(nvars)))
    else:
        # ids that look like values / keywords / contain '#' '$'
        pool = ["#", "$", "1", "b", "#1", "$e", "x!", "-", "r1", "s", "0b", "!!", "~"]
        ids = rng.sample(pool, min(nvars, len(pool)))
    rng.shuffle(ids)
    vars_ = []
    for i in ids:
        r = rng.random()
        if r < 0.75:
            tp = f"b{rng.choice(storegen.WIDTHS + [1, 1, 4, 8, 1024] + ([4096] if rng.random() < 0.05 else []))}"
        elif r < 0.88:
            tp = "r"
        else:
            tp = "s"
        vars_.append((i.encode(), tp))
    # aliases: a second variable with the same id (and type)
    if vars_ and rng.random() < 0.25:
        vars_.insert(rng.randrange(len(vars_) + 1), rng.choice(vars_))
    return vars_


REALS = ["0", "1.5", "-2.25", "1e300", "3.141592653589793", "1E5", "+2.5", "0.1", "42", "-0.0", "1e-320", "123456789.125"]


def py_real(text):
    """what str::parse::<f64> returns (None = error) for the texts we generate / cut"""
    t = text
    if "_" in t or t.strip() != t or t == "":
        return None
    low = t.lower().lstrip("+-")
    if low in ("inf", "infinity", "nan"):
        pass
    elif any(c not in "0123456789.eE+-" for c in t):
        return None
    try:
        v = float(t)
    except ValueError:
        return None
    return struct.pack("<d", v)


def realmap_for(body):
    """parse results for every token that starts with r/R"""
    m = {}
    for tok in body.split():
        if tok[:1] in (b"r", b"R"):
            txt = tok[1:]
            try:
                s = txt.decode("ascii")
            except UnicodeDecodeError:
                continue
            le = py_real(s)
            if le is not None:
                m[txt] = le
    return m


def value_token(rng, tp):
    if tp[0] == "b":
        w = int(tp[1:])
        kind = rng.choice([0, 0, 0, 1, 1, 2])
        syms = storegen.rand_syms(rng, w, kind)
        return storegen.vcd_token(rng, w, syms)
    if tp == "r":
        return (rng.choice("rR") + rng.choice(REALS)).encode()
    n = rng.choice([0, 1, 3, 8, 20, 100])
    txt = "".join(rng.choice("abcXYZ019_-+/\\é!$#") for _ in range(n))
    return (rng.choice("sS") + txt).encode("utf-8")


def change_text(rng, var, tok):
    idb, tp = var
    if tp[0] == "b" and int(tp[1:]) == 1 and tok[:1] not in (b"b", b"B"):
        return tok + idb            # scalar: value glued to the id
    sep = rng.choice([b" ", b" ", b" ", b"  ", b"\t"])
    return tok + sep + idb


class Body:
    def __init__(self, rng, vars_, line_disciplined=True, crlf=False):
        self.rng, self.vars = rng, vars_
        self.nl = b"\r\n" if crlf else b"\n"
        self.ld = line_disciplined
        self.parts = []
        self.tmax = None
        self.last_tok = {}

    def sep(self):
        if self.ld:
            return self.nl if self.rng.random() < 0.9 else self.nl * 2
        return self.rng.choice([self.nl, self.nl, b" ", b"\t", b"  ", self.nl + b" ", b" " + self.nl])

    def time(self, t):
        self.parts.append(b"#" + str(t).encode() + (self.nl if self.ld else self.sep()))
        if self.tmax is None or t > self.tmax:
            self.tmax = t

    def change(self, k, redundant=False):
        var = self.vars[k]
        if redundant and k in self.last_tok:
            tok = self.last_tok[k]
        else:
            tok = value_token(self.rng, var[1])
            self.last_tok[k] = tok
        self.parts.append(change_text(self.rng, var, tok) + self.sep())

    def raw(self, b):
        self.parts.append(b)

    def bytes(self):
        return b"".join(self.parts)


def gen_body(rng, vars_, nsteps=None, line_disciplined=None, crlf=None, first_line=None, dumpall_p=0.0,
             back_p=0.06, rep_p=0.08, values_before_time=None, comment_p=0.08):
    ld = rng.random() < 0.6 if line_disciplined is None else line_disciplined
    crlf = rng.random() < 0.15 if crlf is None else crlf
    b = Body(rng, vars_, ld, crlf)
    # the rest of the `$enddefinitions $end` line
    fl = first_line if first_line is not None else rng.choice([b"", b"", b"", b" ", b"\t"])
    b.raw(fl + b.nl)
    nsteps = nsteps if nsteps is not None else rng.choice([0, 1, 2, 4, 8, 20, 50])
    vbt = rng.random() < 0.3 if values_before_time is None else values_before_time
    t = rng.choice([0, 0, 0, 5, 100])
    if vbt and vars_:
        if rng.random() < 0.6:
            b.raw(b"$dumpvars" + b.sep())
        for k in range(len(vars_)):
            if rng.random() < 0.8:
                b.change(k)
        if rng.random() < 0.6:
            b.raw(b"$end" + b.sep())
        t = rng.choice([0, 1, 5])     # a first timestamp of 0 continues the implicit step
    for step in range(nsteps):
        r = rng.random()
        if step > 0 and r < back_p:
            b.time(max(0, (b.tmax or 0) - rng.randint(1, 5)))
        elif step > 0 and r < back_p + rep_p and b.tmax is not None:
            b.time(b.tmax)
        else:
            if b.tmax is not None:
                t = b.tmax + rng.choice([1, 1, 2, 10, 1000])
            b.time(t)
        r = rng.random()
        if r < comment_p:
            words = [rng.choice([b"x", b"#5", b"1!", b"$dumpvars", b"end", b"$en", b"b1", b"hello"]) for _ in range(rng.randint(0, 4))]
            b.raw(b"$comment " + b" ".join(words) + (b" " if words else b"") + b"$end" + b.sep())
        elif r < comment_p + 0.05:
            b.raw(rng.choice([b"$dumpoff", b"$dumpon", b"$dumpvars"]) + b.sep())
            for k in range(len(vars_)):
                if rng.random() < 0.5:
                    b.change(k)
            b.raw(b"$end" + b.sep())
        elif r < comment_p + 0.05 + dumpall_p:
            b.raw(b"$dumpall" + b.sep())
            for k in range(len(vars_)):
                if k in b.last_tok:
                    b.change(k, redundant=True)
            b.raw(b"$end" + b.sep())
        for k in range(len(vars_)):
            r = rng.random()
            if r < 0.5:
                b.change(k)
                if rng.random() < 0.15:
                    b.change(k, redundant=True)
                elif rng.random() < 0.1:
                    b.change(k)
            elif r < 0.58:
                b.change(k, redundant=True)
    out = b.bytes()
    # how the file ends: usually with a line break; sometimes directly after the last token (the parser's end-of-input flush),
    # sometimes with a last timestamp that opens a step without any change and without a line break
    r = rng.random()
    if r < 0.15:
        out = out.rstrip(b" \t\r\n")
    elif r < 0.27 and nsteps > 0:
        out = out.rstrip(b" \t\r\n") + b.nl + b"#" + str((b.tmax or 0) + rng.choice([1, 7, 1000])).encode()
    elif r < 0.32 and nsteps > 0:
        out = out.rstrip(b" \t\r\n") + b.nl + b"#" + str((b.tmax or 0) + 3).encode() + rng.choice([b" ", b"\r", b"\t"])
    return out


def request(opts, vars_, body):
    vs = ",".join(f"{i.hex()}:{t}" for i, t in vars_) if vars_ else "-"
    rm = realmap_for(body)
    rms = ",".join(f"{k.hex() if k else '-'}={v.hex()}" for k, v in rm.items() if k) if any(rm) else "-"
    return f"vcd {opts} {vs} {rms} {body.hex() if body else '-'}"


def malform_body(rng, vars_, body):
    """mutations that leave the well-formed quantifier (err / panic classes must still agree)"""
    kind = rng.choice(["undeclared", "badtoken", "wrongtype", "cut", "badtime", "longvec", "lonechar"])
    toks = body.split(b"\n")
    k = rng.randrange(len(toks)) if toks else 0
    if kind == "undeclared":
        toks.insert(k, rng.choice([b"1~~~~", b"b101 zz", b"0}", b"1" + bytes([33 + rng.randrange(94)])]))
    elif kind == "badtoken":
        toks.insert(k, rng.choice([b"foo", b"$foo", b"#x", b"#-1", b"#18446744073709551616", b"#", b"%", b"@1 !"]))
    elif kind == "wrongtype" and vars_:
        v = rng.choice(vars_)
        toks.insert(k, rng.choice([b"r1.5 ", b"shello ", b"b1010 ", b"bxyz ", b"rabc ", b"r "]) + v[0])
    elif kind == "cut":
        return body[: rng.randrange(len(body) + 1)]
    elif kind == "badtime":
        toks.insert(k, rng.choice([b"#+5", b"#5x", b"#1e3", b"# 5", b"#\xff"]))
    elif kind == "longvec" and vars_:
        v = rng.choice(vars_)
        toks.insert(k, b"b" + b"1" * 5000 + b" " + v[0])
    elif kind == "lonechar":
        toks.insert(k, rng.choice([b"1", b"b", b"x", b"b101", b"r", b"s"]))
    return b"\n".join(toks)
