"""Generator of VCD headers: an abstract declaration list (what is meant) and a text rendering (what is written)."""
from . import vcdgen

SCOPE_KW = ["module", "task", "function", "begin", "fork", "generate", "struct", "union", "class", "interface", "package", "program",
            "vhdl_architecture", "vhdl_procedure", "vhdl_function", "vhdl_record", "vhdl_process", "vhdl_block", "vhdl_for_generate",
            "vhdl_if_generate", "vhdl_generate", "vhdl_package"]
VAR_KW = ["wire", "reg", "parameter", "integer", "string", "event", "real", "real_parameter", "supply0", "supply1", "time", "tri", "triand",
          "trior", "trireg", "tri0", "tri1", "wand", "wor", "logic", "port", "sparray", "realtime", "bit", "int", "shortint", "longint",
          "byte", "enum", "shortread"]
NAMES = ["a", "b", "clk", "data_out", "x1", "Top", "u_core", "sig$1", "n.m", "q"]


def hx(b):
    return b.hex() if b else "-"


def ws(rng, must=True):
    opts = [" ", " ", " ", "  ", "\t", "\n", " \n ", "\r\n"]
    return rng.choice(opts) if must else rng.choice(["", ""] + opts)


def gen_header(rng, nitems=None, id_style=None, attrs=True):
    """returns (decl string, header text bytes)"""
    decls = []
    text = b""
    nitems = nitems or rng.choice([2, 4, 8, 14])
    id_style = id_style or rng.choice(["dense", "dense", "sparse", "long", "wrap", "tails"])
    ids = [i for i, _ in vcdgen.gen_vars(rng, nvars=nitems, style=id_style)] or [b"!"]
    used_ids = []
    depth = 0
    # meta commands in any position
    metas = []
    if rng.random() < 0.7:
        metas.append(("d", rng.choice([b"today", b"Mon Jan 1 2024", b"x  y"])))
    if rng.random() < 0.7:
        metas.append(("r", rng.choice([b"tool 1.0", b"v"])))
    if rng.random() < 0.8:
        metas.append(("t", (rng.choice([1, 10, 100]), rng.choice(["fs", "ps", "ns", "us", "ms", "s"]), rng.random() < 0.5)))
    if rng.random() < 0.3:
        metas.append(("c", b"some comment $en d"))
    rng.shuffle(metas)
    nmeta_first = rng.randint(0, len(metas))

    def emit_meta(m):
        nonlocal text
        k, v = m
        if k == "d":
            decls.append(f"d.{hx(v)}")
            text += b"$date" + ws(rng).encode() + v + ws(rng).encode() + b"$end" + ws(rng).encode()
        elif k == "r":
            decls.append(f"r.{hx(v)}")
            text += b"$version" + ws(rng).encode() + v + ws(rng).encode() + b"$end" + ws(rng).encode()
        elif k == "c":
            decls.append(f"c.{hx(v)}")
            text += b"$comment" + ws(rng).encode() + v + ws(rng).encode() + b"$end" + ws(rng).encode()
        else:
            f, u, glued = v
            decls.append(f"t.{f}.{u}")
            body = f"{f}{u}" if glued else f"{f}{ws(rng)}{u}"
            text += b"$timescale" + ws(rng).encode() + body.encode() + ws(rng).encode() + b"$end" + ws(rng).encode()

    for m in metas[:nmeta_first]:
        emit_meta(m)
    path_ids = {}
    for _ in range(nitems):
        r = rng.random()
        if r < 0.3:
            kw = rng.choice(SCOPE_KW)
            name = rng.choice(NAMES + ["", "", "a", "a"])
            if attrs and rng.random() < (0.15 if name else 0.4):
                pid = rng.randint(1, 3)
                path = rng.choice([b"/src/top.vhd", b"a.v"])
                if pid not in path_ids or rng.random() < 0.3:
                    path_ids[pid] = path
                    decls.append(f"a3.{hx(path)}.{pid}")
                    text += f"$attrbegin misc 03 {path.decode()} {pid} $end\n".encode()
                line = rng.randint(1, 500)
                decls.append(f"a4.{pid}.{line}")
                text += f"$attrbegin misc 04 {pid} {line} $end\n".encode()
            decls.append(f"s.{kw}.{hx(name.encode())}")
            text += b"$scope" + ws(rng).encode() + kw.encode() + (ws(rng).encode() + name.encode() if name else b"") + ws(rng).encode() + b"$end" + ws(rng).encode()
            depth += 1
        elif r < 0.42 and depth > 0:
            decls.append("u")
            text += b"$upscope" + ws(rng).encode() + b"$end" + ws(rng).encode()
            depth -= 1
        else:
            kw = rng.choice(VAR_KW)
            width = rng.choice([1, 1, 8, 0, 32, 64, 4096, rng.randint(2, 300)])
            idb = rng.choice(used_ids) if (used_ids and rng.random() < 0.2) else rng.choice(ids)
            if idb not in used_ids:
                used_ids.append(idb)
            base = rng.choice(NAMES)
            ngroups = rng.choice([0, 0, 0, 1, 2, 3])
            groups = [f"[{rng.choice([0, 1, 7, -2, 15])}]" if rng.random() < 0.8 else f"[{rng.randint(0, 9)}:{rng.randint(0, 9)}]" for _ in range(ngroups)]
            ik = rng.random()
            if groups and ik < 0.35:
                ik = 0.5  # a trailing bracket group IS the bit range: a name that ends in a group always declares one
            if ik < 0.35:
                idx, idx_txt = "-", ""
            elif ik < 0.6:
                n = rng.choice([0, 3, 31, -1, -17, 1000])
                idx, idx_txt = f"i{n}", f"[{n}]"
            else:
                m, l = rng.choice([(7, 0), (0, 7), (31, 16), (-1, -8), (3, 3), (-2, 5), (63, 0), (0, 1), (-1, 0), (6, 7), (1, 0),
                                    (rng.randint(-4, 5), rng.randint(-4, 5)), (rng.randint(-4, 5), rng.randint(-4, 5)),
                                    (2 ** 31 - 1, 0), (0, 2 ** 31 - 2), (-(2 ** 31), -1)])
                idx, idx_txt = f"r{m}_{l}", rng.choice([f"[{m}:{l}]", f"[{m} : {l}]", f"[ {m}:{l} ]"])
            if attrs and rng.random() < 0.12:
                tn = rng.choice([b"std_logic_vector", b"STD_ULOGIC", b"integer", b"my_type"])
                dt = rng.choice([0, 1, 2, 3, 4, 5, 6, 7, 8, 10, 11, 14, 16])
                vt = rng.choice([0, 1, 2])
                arg = (vt << 10) | dt
                decls.append(f"a2.{hx(tn)}.{arg}")
                text += f"$attrbegin misc 02 {tn.decode()} {arg} $end\n".encode()
            decls.append(f"v.{kw}.{width}.{hx(idb)}.{hx(base.encode())}.{','.join(hx(g.encode()) for g in groups) if groups else '-'}.{idx}")
            sp = lambda: rng.choice(["", " ", "  "])  # noqa: E731  (spaces only: inside a name other white space ends up in the name)
            name_txt = base + "".join(sp() + g for g in groups) + (sp() + idx_txt if idx_txt else "")
            text += (b"$var" + ws(rng).encode() + kw.encode() + ws(rng).encode() + str(width).encode() + ws(rng).encode() + idb +
                     ws(rng).encode() + name_txt.encode() + ws(rng).encode() + b"$end" + ws(rng).encode())
    for m in metas[nmeta_first:]:
        emit_meta(m)
    for _ in range(depth if rng.random() < 0.8 else 0):
        decls.append("u")
        text += b"$upscope $end\n"
    text = rng.choice([b"", b"", b" ", b"\n\n", b"\t"]) + text + b"$enddefinitions" + ws(rng).encode() + b"$end"
    decls.append(f"e.{len(text)}")
    return ";".join(decls), text


def malform(rng, text):
    kind = rng.choice(["badkw", "badlen", "fewtok", "noend", "dupdate", "badscope", "extraup", "badattr", "emptyscope"])
    if kind == "badkw":
        return text.replace(b"$var wire", b"$var wirex", 1).replace(b"$var reg", b"$var re g", 1)
    if kind == "badlen":
        return text.replace(b"$var", b"$var wire 1x ! n $end $var", 1)
    if kind == "fewtok":
        return b"$var wire 1 $end " + text
    if kind == "noend":
        return text[: max(0, len(text) - rng.randint(1, 12))]
    if kind == "dupdate":
        return b"$date a $end $date b $end " + text
    if kind == "badscope":
        return b"$scope modul top $end " + text
    if kind == "extraup":
        return b"$upscope $end $var wire 1 ! x $end " + text
    if kind == "badattr":
        return rng.choice([b"$attrbegin misc 05 a 1 $end ", b"$attrbegin misc 04 7 1 $end ", b"$attrbegin foo 02 a 1 $end ", b"$attrbegin misc 02 t 99999 $end "]) + text
    return b"$scope $end " + text
