"""C05 — point queries (signals.rs get_offset & friends)."""
import itertools
from . import core

RULE = ("requests `getoffset[_full] <non-decreasing index list> <needle>` answered by Signal::get_offset / get_time_idx_at / "
        "get_value_at / iter_changes (real code) and by Offset.getOffset (model) / Offset.specOffset (linear-scan spec); "
        "quick: ALL non-decreasing lists of length <= 7 over 0..6 x needles 0..8 (exhaustive) + seeded random long lists with runs "
        "at start/middle/end + the 65535/65536-member groups; non-trivial = reply is not `none`; distinct = distinct (request, reply)")


def nondecreasing(maxlen, maxval):
    for k in range(maxlen + 1):
        for c in itertools.combinations_with_replacement(range(maxval + 1), k):
            yield list(c)


def fmt(l):
    return ",".join(map(str, l)) if l else "-"


def random_list(rng, n):
    out = []
    v = rng.choice([0, 0, 1, 5])
    while len(out) < n:
        run = rng.choice([1, 1, 1, 1, 2, 3, 7, 20]) if rng.random() < 0.9 else rng.randint(1, 200)
        out += [v] * run
        v += rng.choice([1, 1, 1, 2, 3, 10, 1000])
    return out[:n]


def requests(ctx):
    rq = []
    rng = ctx.rng
    for l in nondecreasing(7 if ctx.tier == "quick" else 8, 6):
        for needle in range(0, 9):
            rq.append(f"getoffset {fmt(l)} {needle}")
    for l in nondecreasing(5, 4):
        for needle in range(0, 7):
            rq.append(f"getoffset_full {fmt(l)} {needle}")
    nrand = 2000 if ctx.tier == "quick" else 20000
    for _ in range(nrand):
        n = rng.choice([1, 2, 3, 10, 50, 200, 1000])
        l = random_list(rng, n)
        cands = [0, l[0], l[0] - 1 if l[0] > 0 else 0, l[-1], l[-1] + 1, l[-1] + 1000, rng.choice(l), rng.choice(l) + 1,
                 rng.randint(0, l[-1] + 2)]
        for needle in rng.sample(cands, 3):
            cmd = "getoffset_full" if rng.random() < 0.3 else "getoffset"
            rq.append(f"{cmd} {fmt(l)} {needle}")
    # large groups: the u16 `elements` field (finding F18 at 65536)
    for run in ([65535, 65536] if ctx.tier == "quick" else [65535, 65536, 65537, 131072]):
        for pre, post in [([], []), ([0], [9]), ([0, 1, 1], [])]:
            l = pre + [5] * run + post
            rq.append(f"getoffset {fmt(l)} 5")
            rq.append(f"getoffset {fmt(l)} 7")
    if ctx.tier == "thorough":
        for n in [10_000, 100_000]:
            l = random_list(rng, n)
            for needle in [0, l[0], l[n // 2], l[-1], l[-1] + 5]:
                rq.append(f"getoffset {fmt(l)} {needle}")
    return rq


def run(ctx):
    res = ctx.res
    proof = core.prove("C05")
    if ctx.build():
        rq = corpus_requests("C05") + requests(ctx)
        impl = ctx.impl(rq)
        model = ctx.model(rq)
        core.compare_streams(res, rq, impl, model, is_nontrivial=lambda r, i: not i.startswith("none"),
                             label="Offset.getOffset ~ Signal::get_offset", sample_every=max(1, len(rq) // 10))
        res.count("requests", len(rq))
        res.count("exhaustive_small_lists", 1)
    return core.finish(res, proof, rule=RULE, exhaustive=True,
                       extra_cov=dict(exhaustive_scope="all non-decreasing index lists of length <= 7 over values 0..6 x needles 0..8"))


def corpus_requests(prop):
    import os
    p = os.path.join(core.ROOT, "corpus", f"{prop}.req")
    if os.path.exists(p):
        return [l.rstrip("\n") for l in open(p) if l.strip() and not l.startswith("#")]
    return []
