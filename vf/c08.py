"""C08 — the hierarchy is a well-formed, fully navigable tree."""
import itertools
from . import core, tables
from .c05 import corpus_requests

OPS = ["s:a:0", "s:b:0", "s::0", "s::1", "v:x:0", "v:y:2", "p"]
# a second alphabet with variables that share a name and differ in their bit index (lookup_var_with_index)
OPS_IDX = ["s:a:0", "v:x@1:0", "v:x@2:1", "v:x:2", "p"]
RULE = ("`hier <ops>`: HierarchyBuilder call sequences (hook re-export) over {scope a, scope b, scope '', scope '' flattened, var x, var y, pop}; the reply is a dump "
        "of the whole navigation surface (recursive walk through items(), vars()/scopes() per scope and at the top, iter_vars/iter_scopes full names, lookup_scope / lookup_var / lookup_var_with_index "
        "(same name, different bit indices) for every existing path and absent ones, signal table, first_scope). Real code vs pointer-level Lean model vs the flat parent-pointer specification. "
        "Quick: ALL sequences of length <= 6 (exhaustive) over that alphabet and over {scope a, var x[1], var x[2], var x, pop} + seeded random sequences of length up to 200 with nesting up to 30 and larger alphabets. "
        "non-trivial = the hierarchy has at least one scope and one variable; distinct = distinct (request, reply)")


def rand_seq(rng, n):
    names = rng.choice([["a", "b", ""], ["a", "b", "c", "d", "", "a0"], ["m"]])
    ops = []
    depth = 0
    want_depth = rng.choice([1, 3, 8, 30])
    for _ in range(n):
        r = rng.random()
        if r < 0.3 or (depth < want_depth and r < 0.45):
            nm = rng.choice(names)
            fl = 1 if (nm == "" and rng.random() < 0.6) else (1 if rng.random() < 0.03 else 0)
            ops.append(f"s:{nm}:{fl}")
            depth += 1
        elif r < 0.75:
            idx = rng.choice(["", "", "@0", "@1", "@7", "@3"])
            ops.append(f"v:{rng.choice(['x', 'y', 'z', 'x1'])}{idx}:{rng.choice([0, 1, 2, 3, 7, rng.randint(0, 40)])}")
        elif depth > 0:
            ops.append("p")
            depth -= 1
    ops += ["p"] * (depth if rng.random() < 0.7 else 0)
    return "hier " + (";".join(ops) if ops else "-")


def requests(ctx):
    rng = ctx.rng
    quick = ctx.tier == "quick"
    rq = ["hier -"]
    for k in range(1, (6 if quick else 7) + 1):
        for c in itertools.product(OPS, repeat=k):
            rq.append("hier " + ";".join(c))
    for k in range(1, (6 if quick else 8) + 1):
        for c in itertools.product(OPS_IDX, repeat=k):
            rq.append("hier " + ";".join(c))
    for _ in range(1500 if quick else 20000):
        rq.append(rand_seq(rng, rng.choice([5, 12, 30, 80, 200])))
    return rq


def run(ctx):
    res = ctx.res
    ok = ctx.build()
    if ok:
        tables.regenerate(ctx.wvh)
    proof = core.prove("C08")
    if ok:
        rq = corpus_requests("C08") + requests(ctx)
        impl = [("panic" if l.startswith("panic") else l) for l in ctx.impl(rq)]
        model = ctx.model(rq)
        core.compare_streams(res, rq, impl, model, is_nontrivial=lambda r, i: "S(" in i and "V(" in i,
                             label="Hier model ~ HierarchyBuilder/Hierarchy", sample_every=max(1, len(rq) // 8))
        res.count("sequences", len(rq))
        res.count("balanced", sum(1 for m in model if m.split("\t")[1:2] != ["-"]))
        res.count("impl_panic", sum(1 for i in impl if i == "panic"))
    return core.finish(res, proof, rule=RULE, exhaustive=True,
                       extra_cov=dict(exhaustive_scope=f"all builder call sequences of length <= {6 if ctx.tier == 'quick' else 7} over 7 operations"))
