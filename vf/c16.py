"""C16 — format detection is total and correct."""
import glob
import itertools
import os
from . import core, vcdgen, tables
from .c05 import corpus_requests

RULE = ("`detect <hex>`: the bytes are written to a file and classified by viewers::open_and_detect_file_format, and opened with viewers::read_header over a "
        "position-tracking in-memory reader (error kind must agree with the classification; after UnknownFileFormat the reader must be back at position 0); each call "
        "runs under a 3 s watchdog (hang) and catch_unwind (panic). Lean model: is_vcd / is_fst_file (dependency, modelled from source) / is_ghw. "
        "Quick: all strings of length <= 1, length 2 over 40 bytes, length <= 4 over a 12-byte alphabet (exhaustive), every proper prefix of each format's "
        "magic / first command, valid headers + garbage, `$` + unknown words of 1..300 bytes with non-ASCII / invalid UTF-8 bytes at every offset, random FST-like block chains (lengths to/beyond the end, negative, huge), seeded mutations, generated VCDs; "
        "`detectfile` on every corpus file (expected format = extension). non-trivial = classified as one of the three formats; distinct = distinct (request, reply)")

ALPHA = [0x24, 0x20, 0x0a, 0x47, 0x48, 0x00, 0x01, 0xff, 0x65, 0x6e, 0x64, 0x76]
ALPHA2 = sorted(set(ALPHA + [0x09, 0x0d, 0x02, 0x03, 0x04, 0x08, 0x09, 0xfe, 0x1f, 0x8b, 0x42, 0x5a, 0x44, 0x4c, 0x77, 0x61, 0x23, 0x30,
                             0x31, 0x62, 0x73, 0x74, 0x63, 0x6f, 0x6d, 0x70, 0x10, 0x80, 0x7f, 0x41]))[:40]
GHW_HDR = b"GHDLwave\n" + bytes([16, 0, 1, 1, 4, 1, 0])
VCD_CMDS = [b"date", b"timescale", b"var", b"scope", b"upscope", b"comment", b"version", b"enddefinitions", b"attrbegin"]


def canon_impl(l):
    if l.startswith("panic"):
        return "panic"
    if l == "hang":
        return "hang"
    parts = l.split("|")
    if len(parts) != 3:
        return l
    fmt, outcome, pos = parts
    if outcome == "cursor-fst":
        return "osdep-observed"
    if fmt == "Unknown":
        if outcome != "unknown":
            return f"INCONSISTENT:{l}"
        if pos != "0":
            return f"NOT-REWOUND:{l}"
    return fmt


def fst_chain(rng):
    out = b""
    for _ in range(rng.choice([1, 1, 2, 3])):
        t = rng.choice([0, 1, 2, 3, 4, 5, 6, 7, 8, 254, 255, 9, 100])
        payload = rng.choice([0, 0, 1, 5, 20])
        ln = rng.choice([8 + payload, 8 + payload, 8 + payload + rng.randint(1, 30), rng.randint(0, 7), 2 ** 64 - rng.randint(1, 40),
                         2 ** 63 + rng.randint(0, 5), 2 ** 63 - 1, 329])
        out += bytes([t]) + (ln % 2 ** 64).to_bytes(8, "big") + bytes(rng.randrange(256) for _ in range(payload))
    if rng.random() < 0.3:
        out = out[: rng.randrange(len(out) + 1)]
    return out


def requests(ctx):
    rng = ctx.rng
    quick = ctx.tier == "quick"
    inputs = [b""]
    inputs += [bytes([b]) for b in range(256)]
    inputs += [bytes(c) for c in itertools.product(ALPHA2 if quick else range(256), repeat=2)]
    for k in (2, 3, 4):
        inputs += [bytes(c) for c in itertools.product(ALPHA, repeat=k)]
    # prefixes of the magics / first commands
    samples = [GHW_HDR + b"rest", b"\x1f\x8b" + GHW_HDR, b"BZ" + GHW_HDR, b"  \n$date today $end\n$enddefinitions $end\n",
               b"$scope module a $end", bytes([0]) + (329).to_bytes(8, "big") + bytes(321)]
    for s in samples:
        inputs += [s[:k] for k in range(len(s) + 1)]
    for c in VCD_CMDS:
        for pre in (b"", b" ", b"\r\n\t "):
            for post in (b" x $end", b"\n$end", b" $en", b" $$end", b"$end", b" x$end ", b""):
                inputs.append(pre + b"$" + c + post)
            inputs.append(pre + b"$" + c.upper() + b" x $end")
            inputs.append(pre + b"$" + c[:-1] + b" x $end")
            inputs.append(pre + b"$" + c + b"x y $end")
    # long first commands / long leading white space (detection must not give up after a fixed number of bytes)
    for n in (100, 1000, 1018, 1019, 1020, 1023, 1024, 1025, 2000, 4095, 4096, 5000, 70000):
        inputs.append(b"$comment " + b"x" * n + b" $end\n$enddefinitions $end\n")
        inputs.append(b"$version\n" + b"word " * (n // 5) + b"\n$end\n")
        inputs.append(b" " * n + b"$date today $end\n")
        inputs.append(b"\n" * n + b"$timescale 1ns $end\n$enddefinitions $end\n#0\n")
        inputs.append(b"$comment " + b"x" * n)
    # `$` + a long word that is no VCD command, with bytes that are not ASCII / not valid UTF-8 at every offset (an error
    # message built from the word must not slice it at a fixed byte position)
    for n in list(range(1, 12)) + list(range(24, 44)) + [63, 64, 65, 127, 128, 129, 300]:
        for filler, odd in ((b"a", "é".encode()), (b"a", b"\xff"), (b"\xff", b"a"), ("é".encode(), b"b"), ("€".encode(), b"x"), ("😀".encode(), b"z")):
            for pos in {0, 1, n // 2, max(0, n - 2), max(0, n - 1)}:
                w = filler * pos + odd + filler * (n - pos)
                inputs.append(b"$" + w + b" more words $end\n")
                inputs.append(b"$" + w)
                inputs.append(b"  $" + w + b"\n$end")
    # GHW header variants
    for i in range(9, 16):
        for v in (0, 1, 2, 3, 16, 255):
            h = bytearray(GHW_HDR)
            h[i] = v
            inputs.append(bytes(h))
            inputs.append(bytes(h) + b"tail")
    for _ in range(3000 if quick else 30000):
        inputs.append(fst_chain(rng))
    for _ in range(1500 if quick else 15000):
        base = bytearray(rng.choice(samples + [b"$foo bar $end", b"#0\n1!\n", bytes([255]) + (8).to_bytes(8, "big") + bytes([255]) + (2 ** 64 - 10).to_bytes(8, "big")]))
        for _ in range(rng.choice([1, 1, 2, 4])):
            if base:
                base[rng.randrange(len(base))] = rng.randrange(256)
        inputs.append(bytes(base))
    for _ in range(100 if quick else 1000):
        vars_ = vcdgen.gen_vars(rng, nvars=2)
        body = vcdgen.gen_body(rng, vars_, nsteps=2)
        inputs.append(b"$timescale 1ns $end\n$scope module t $end\n$var wire 1 ! a $end\n$upscope $end\n$enddefinitions $end" + body)
    rq = [f"detect {b.hex() if b else '-'}" for b in inputs]
    return rq


CORPUS_EXCLUDE = ("sigrok/libsigrok.vcd.fst",)


def corpus_file_requests():
    base = os.path.join(core.REPO, "wellen/inputs")
    out = []
    for f in sorted(glob.glob(os.path.join(base, "**/*"), recursive=True)):
        if f.endswith((".vcd", ".fst", ".ghw")) and os.path.getsize(f) > 0 and not f.endswith(CORPUS_EXCLUDE):
            out.append(f)
    return out


def run(ctx):
    res = ctx.res
    ok = ctx.build()
    if ok:
        tables.regenerate(ctx.wvh)
    proof = core.prove("C16")
    if ok:
        rq = corpus_requests("C16") + requests(ctx)
        model = ctx.model(rq)
        # inputs on which the model predicts a hang (finding F10) each cost a watchdog timeout and leave a spinning
        # thread behind: keep the corpus witness and the first three generated ones
        keep, hangs = [], 0
        for k, m in enumerate(model):
            if m.startswith("hang"):
                hangs += 1
                if hangs > 4:
                    continue
            keep.append(k)
        res.count("hang_predicted_inputs_dropped", len(rq) - len(keep))
        rq = [rq[k] for k in keep]
        model = [model[k] for k in keep]
        impl = [canon_impl(l) for l in ctx.impl(rq)]
        # far seeks: file systems and in-memory readers legitimately differ (see DESIGN.md C16); not compared
        for k, m in enumerate(model):
            if m.startswith("osdep"):
                impl[k] = "osdep"
                res.count("os_dependent_far_seek_skipped")
        core.compare_streams(res, rq, impl, model, is_nontrivial=lambda r, i: i in ("Vcd", "Fst", "Ghw"),
                             label="Detect model ~ detect_file_format", sample_every=max(1, len(rq) // 8))
        for k in ("Vcd", "Fst", "Ghw", "Unknown", "hang", "panic"):
            res.count("impl_" + k, sum(1 for i in impl if i == k))
        # corpus files: expected class = extension
        files = corpus_file_requests()
        frq = [f"detectfile {f}" for f in files]
        fimpl = ctx.impl(frq, tag="impl_files")
        fmodel = [{"vcd": "Vcd", "fst": "Fst", "ghw": "Ghw"}[f.rsplit(".", 1)[1]] for f in files]
        core.compare_streams(res, frq, fimpl, [f"{m}\t{m}" for m in fmodel], is_nontrivial=lambda r, i: True,
                             label="corpus files classified by extension", sample_every=max(1, len(frq) // 3))
        res.count("corpus_files", len(files))
    return core.finish(res, proof, rule=RULE, exhaustive=True,
                       extra_cov=dict(exhaustive_scope="all byte strings of length <= 1; length 2 over 40 bytes; length <= 4 over a 12-byte alphabet"))
