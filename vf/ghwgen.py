"""Random GHW designs + waveforms (see gen/ghw_writer.py for the data model)."""
import os
import struct
import sys

sys.path.insert(0, os.path.join(os.path.dirname(os.path.abspath(__file__)), ".."))
from gen import ghw_writer  # noqa: E402

LONG = ("a_very_long_hierarchical_identifier_prefix_shared_between_neighbouring_entries_of_the_string_table_" * 12)


def pick_name(rng, huge=False):
    """mostly short names; sometimes one that shares 32.. / 1024.. leading characters with its neighbour in the string table
    (`huge`: beyond the 511 bytes an FST hierarchy entry may have — GHW-only designs)"""
    r = rng.random()
    if r < 0.05:
        return LONG[:rng.choice([31, 32, 33, 40, 63, 64, 65, 100, 289])] + rng.choice(NAMES)
    if r < 0.057 and huge:
        return LONG[:rng.choice([1023, 1024, 1025, 1100])] + rng.choice(NAMES)
    return rng.choice(NAMES)


NAMES = ["clk", "rst", "data", "q", "cnt", "state", "a", "b", "sel", "x_1", "bus_in", "mem", "r", "v", "top", "u0", "u1", "dut", "gen", "blk"]
ENUM_LITS = ["idle", "run", "stop", "s0", "s1", "s2", "wait_ack", "done", "err", "a", "b", "c", "'a'", "'b'", "'x'", "false", "true", "red", "green"]


def near_std_literals(rng):
    base = rng.choice(["01", "UX01ZWLH-"])
    form = rng.choice(["tick", "tick", "bare"])

    def lit(c):
        c = c.lower() if rng.random() < 0.3 else c
        return f"'{c}'" if form == "tick" else c
    r = rng.random()
    if r < 0.35 and len(base) > 2:
        chars = list(base[:rng.randint(2, len(base) - 1)])          # proper prefix
    elif r < 0.7:
        chars = list(base) + [rng.choice("ZXU-01")] * rng.randint(1, 2)   # extension
    else:
        chars = list(base)
        chars[rng.randrange(len(chars))] = rng.choice("QRS")         # same length, one literal differs
    if chars == ["0", "1"] or len(chars) == 9 and "".join(chars).upper() == "UX01ZWLH-":
        chars.append("Z")
    return [lit(c) for c in chars]


class Gen:
    def __init__(self, rng, allow_alias=True, allow_structs=True, max_width=70, alias_prob=0.15, huge_names=False):
        self.rng = rng
        self.huge_names = huge_names
        self.natoms = 0
        self.kinds = {}            # atom -> 'nine' | 'bit' | ('enum', n) | 'int' | 'real'
        self.vecs = []             # (type, ids) of declared vectors / scalars for aliasing
        self.allow_alias = allow_alias
        self.allow_structs = allow_structs
        self.max_width = max_width
        self.alias_prob = alias_prob

    def atom(self, kind):
        self.natoms += 1
        self.kinds[self.natoms] = kind
        return self.natoms

    def rand_range(self, n):
        d = self.rng.choice("td")
        base = self.rng.choice([0, 0, 0, 1, 3, -2])
        if d == "t":
            return d, base, base + n - 1
        return d, base + n - 1, base

    def width(self):
        r = self.rng.random()
        if r < 0.1:
            return 1
        if r < 0.35:
            return self.rng.choice([8, 16, 24, 32, 64])
        if r < 0.4:
            return 0
        return self.rng.randint(2, self.max_width)

    def rand_type(self, depth=0):
        rng = self.rng
        r = rng.random()
        if r < 0.2:
            return ("L", rng.choice(["std_ulogic", "std_logic", "std_logic", "my_logic"]))
        if r < 0.27:
            return ("B", rng.choice(["bit", "bit", "flag_t"]))
        if r < 0.47:
            n = self.width()
            d, l, rr = self.rand_range(n)
            return ("LV", rng.choice(["std_logic_vector", "std_ulogic_vector", "byte_t", "unsigned"]), d, l, rr)
        if r < 0.55:
            n = self.width()
            d, l, rr = self.rand_range(n)
            return ("BV", rng.choice(["bit_vector", "bits_t"]), d, l, rr)
        if r < 0.67:
            if rng.random() < 0.3:
                return ("E", "boolean", "boolean", ["false", "true"])
            if rng.random() < 0.25:
                # character enums that are NOT bit / std_ulogic but begin like them: a proper prefix or an extension of
                # ('0','1') / ('U','X','0','1','Z','W','L','H','-'), or the full list with one literal altered
                lits = near_std_literals(rng)
                ename = rng.choice(["tri", "logic3", "mvl"]) + str(len(lits))
                return ("E", ename if rng.random() < 0.7 else "sub_" + ename, ename, lits)
            n = rng.choice([2, 3, 4, 5, 8, 9, 17])
            lits = rng.sample(ENUM_LITS, min(n, len(ENUM_LITS)))
            ename = rng.choice(["state_t", "mode_t", "color"]) + str(n)
            return ("E", ename if rng.random() < 0.7 else "sub_" + ename, ename, lits)
        if r < 0.77:
            return ("I", rng.choice(["integer", "integer", "natural", "small_int"]))
        if r < 0.84:
            return ("F", rng.choice(["real", "real", "volt_t"]))
        if depth >= 2 or not self.allow_structs:
            return ("L", "std_logic")
        if r < 0.92:
            nf = rng.randint(1, 4)
            names = rng.sample(NAMES, nf)
            return ("R", [(f, self.rand_type(depth + 1)) for f in names])
        n = rng.randint(1, 4)
        d, l, rr = self.rand_range(n)
        et = self.rand_type(depth + 1)
        while et[0] in ("L", "B"):      # arrays of scalars bits are vectors
            et = self.rand_type(depth + 1)
        return ("A", d, l, rr, et)

    def alloc(self, t):
        """atom ids of a fresh object of type t, in declaration order"""
        k = t[0]
        if k == "L":
            return [self.atom("nine")]
        if k == "B":
            return [self.atom("bit")]
        if k in ("LV", "BV"):
            n = abs(t[4] - t[3]) + 1 if not self.is_null(t) else 0
            return [self.atom("nine" if k == "LV" else "bit") for _ in range(n)]
        if k == "E":
            return [self.atom(("enum", len(t[3])))]
        if k == "I":
            return [self.atom("int")]
        if k == "F":
            return [self.atom("real")]
        if k == "R":
            out = []
            for _, ft in t[1]:
                out += self.alloc(ft)
            return out
        if k == "A":
            n = abs(t[3] - t[2]) + 1
            out = []
            for _ in range(n):
                out += self.alloc(t[4])
            return out
        raise ValueError(t)

    @staticmethod
    def is_null(t):
        d, l, r = t[2], t[3], t[4]
        return (r - l + 1 if d == "t" else l - r + 1) <= 0

    def rand_var(self):
        rng = self.rng
        pk = rng.choice([16, 16, 16, 17, 18, 19, 20, 21])
        name = pick_name(rng, self.huge_names)
        if self.allow_alias and self.vecs and rng.random() < self.alias_prob:
            t, ids = rng.choice(self.vecs)
            last = getattr(self, "last_sub", None)
            if last is not None and rng.random() < 0.5:
                # the same bit offsets as the sub-range declared last, but of ANOTHER vector (`pa => a(5 downto 2), pb => b(5 downto 2)`)
                cands = [(t2, i2) for t2, i2 in self.vecs if t2[0] in ("LV", "BV") and tuple(i2) != last[2] and len(i2) > last[0] + 1]
                if cands:
                    t, ids = rng.choice(cands)
                    lo, hi = len(ids) - 1 - last[0], len(ids) - 1 - last[1]
                    sub = ids[lo:hi + 1]
                    d, l, r = self.rand_range(len(sub))
                    self.last_sub = (last[0], last[1], tuple(ids))
                    if len(sub) == 1:
                        return ("V", pk, name, ("L", "std_logic") if t[0] == "LV" else ("B", "bit"), sub)
                    return ("V", pk, name, (t[0], t[1], d, l, r), sub)
            if t[0] in ("LV", "BV") and len(ids) >= 2 and rng.random() < 0.6:
                # a sub-range of an earlier vector
                lo = rng.randint(0, len(ids) - 1)
                hi = rng.randint(lo, len(ids) - 1)
                if hi - lo + 1 == len(ids):
                    return ("V", pk, name, t, ids)
                sub = ids[lo:hi + 1]
                self.last_sub = (len(ids) - 1 - lo, len(ids) - 1 - hi, tuple(ids))
                if len(sub) == 1 and rng.random() < 0.5:
                    return ("V", pk, name, ("L", "std_logic") if t[0] == "LV" else ("B", "bit"), sub)
                d, l, r = self.rand_range(len(sub))
                return ("V", pk, name, (t[0], t[1], d, l, r), sub)
            return ("V", pk, name, t, ids)
        t = self.rand_type()
        if t[0] in ("LV", "BV") and self.is_null(t):
            t = (t[0], t[1], "t", 0, -1)
        ids = self.alloc(t)
        if t[0] in ("L", "B", "LV", "BV", "E", "I", "F") and ids:
            self.vecs.append((t, ids))
        return ("V", pk, name, t, ids)

    def rand_items(self, n, depth=0):
        rng = self.rng
        items = []
        for _ in range(n):
            r = rng.random()
            if r < 0.2 and depth < 3:
                kind = rng.choice([3, 4, 5, 6, 6, 7, 14])
                items.append(("S", kind, rng.choice(NAMES), self.rand_items(rng.randint(0, 4), depth + 1)))
            elif r < 0.27:
                items.append(("P", rng.choice(NAMES)))
            else:
                items.append(self.rand_var())
        return items

    def rand_value(self, atom):
        rng = self.rng
        k = self.kinds[atom]
        if k == "nine":
            return rng.choice([2, 3, 2, 3, 2, 3, 0, 1, 4, 5, 6, 7, 8])
        if k == "bit":
            return rng.randint(0, 1)
        if k == "int":
            return rng.choice([0, 1, -1, 5, 255, 256, -128, 2147483647, -2147483648, rng.randint(-100000, 100000)])
        if k == "real":
            return struct.pack("<d", rng.choice([0.0, -0.0, 0.0, -0.0, 1.5, -2.25, 3.3e10, 1e-300, float(rng.randint(-1000, 1000)) / 7]))
        return rng.randint(0, k[1] - 1)

    def rand_wave(self, nsteps):
        rng = self.rng
        t = rng.choice([0, 0, 0, 1000, 5])
        snap = (t, [self.rand_value(a) for a in range(1, self.natoms + 1)])
        steps = []
        for i in range(nsteps):
            r = rng.random()
            if i == 0:
                dt = rng.choice([0, 0, 1000])
            elif r < 0.3:
                dt = 0                      # delta cycle
            else:
                dt = rng.choice([1, 1000, 1000000, 5000000, rng.randint(1, 10 ** 9)])
            t += dt
            if self.natoms == 0:
                ch = []
            else:
                k = rng.choice([0, 1, 1, 2, 3, max(1, self.natoms // 3), self.natoms])
                atoms = rng.sample(range(1, self.natoms + 1), min(k, self.natoms))
                ch = [(a, self.rand_value(a)) for a in atoms]
            steps.append((t, ch))
        return snap, steps


def gen_case(rng, nitems=None, nsteps=None, **kw):
    kw.setdefault("huge_names", True)
    g = Gen(rng, **kw)
    items = g.rand_items(nitems if nitems is not None else rng.choice([1, 3, 6, 10]))
    snap, steps = g.rand_wave(nsteps if nsteps is not None else rng.choice([0, 2, 6, 15]))
    w = ghw_writer.Writer(rng, big_endian=rng.random() < 0.3, version=rng.choice([0, 1]))
    data = w.serialise(items, g.natoms, g.kinds, snap, steps)
    return ghw_writer.design_tokens(items, g.natoms, snap, steps), data


def malform(rng, data):
    """truncations anywhere; byte changes only behind the header sections (count fields in the header sections
    size allocations: a flipped count would abort the process instead of returning)"""
    eoh = data.find(b"EOH\x00")
    kind = rng.choice(["trunc", "trunc", "flip", "flip", "flip2", "tag", "notail"])
    if kind == "trunc":
        return data[:rng.randint(1, len(data) - 1)]
    if kind == "notail":
        return data[:len(data) - 12] + bytes(12)
    b = bytearray(data)
    lo = eoh + 4
    if lo >= len(b) - 1:
        return data[:rng.randint(0, len(data) - 1)]
    if kind == "tag":
        for t in (b"ESN\x00", b"ECY\x00", b"SNP\x00", b"CYC\x00", b"EOD\x00", b"DIR\x00", b"TAI\x00"):
            i = data.find(t, lo)
            if i >= 0 and rng.random() < 0.4:
                b[i + rng.randint(0, 2)] ^= 0x20
                return bytes(b)
        return bytes(b[:-1])
    for _ in range(1 if kind == "flip" else 3):
        i = rng.randint(lo, len(b) - 1)
        b[i] = rng.choice([0, 1, 2, 8, 9, 0x7F, 0x80, 0xFF, b[i] ^ (1 << rng.randint(0, 7))])
    return bytes(b)


def gen_pair(rng, nitems=None, nsteps=None):
    """one design as a GHW file and as a VCD file (C12). Arrays of leaves are not expressible in VCD with the same tree
    (a VCD variable cannot be called `[1]`), so arrays only hold records here."""
    from gen import vcd_writer
    g = Gen(rng, alias_prob=0.1)
    orig = g.rand_type

    def rand_type(depth=0):
        t = orig(depth)
        while t[0] == "A" and t[4][0] != "R":
            t = orig(depth)
        return t
    g.rand_type = rand_type
    items = g.rand_items(nitems if nitems is not None else rng.choice([1, 3, 6, 10]))
    snap, steps = g.rand_wave(nsteps if nsteps is not None else rng.choice([0, 2, 6, 15]))
    w = ghw_writer.Writer(rng, big_endian=rng.random() < 0.3, version=rng.choice([0, 1]))
    ghw = w.serialise(items, g.natoms, g.kinds, snap, steps)
    times = [snap[0]] + [t for t, _ in steps]
    exp = -12 if all(t % 1000 == 0 for t in times) and rng.random() < 0.6 else -15
    vcd = vcd_writer.render(rng, items, g.natoms, snap, steps, exp=exp)
    return ghw_writer.design_tokens(items, g.natoms, snap, steps), ghw, vcd


def gen_triple(rng, nitems=None, nsteps=None, dups=None, srcs=None):
    """one design as GHW, VCD and FST (C12 / C10). Restrictions of gen_pair; FST needs at least one signal."""
    from gen import vcd_writer, fst_writer
    while True:
        g = Gen(rng, alias_prob=0.1)
        orig = g.rand_type

        def rand_type(depth=0, orig=orig):
            t = orig(depth)
            while t[0] == "A" and t[4][0] != "R":
                t = orig(depth)
            return t
        g.rand_type = rand_type
        items = g.rand_items(nitems if nitems is not None else rng.choice([1, 3, 6, 10]))
        if g.natoms > 0:
            break
    snap, steps = g.rand_wave(nsteps if nsteps is not None else rng.choice([0, 2, 6, 15]))
    # coarser files: all times become multiples of 10^k fs, so that VCD / FST may use any unit up to 10^k fs
    k = rng.choice([0, 0, 3, 3, 6, 9]) if rng.random() < 0.6 else rng.randint(0, 15)
    while max([snap[0]] + [t for t, _ in steps]) * 10 ** k >= 2 ** 62:
        k -= 1
    snap = (snap[0] * 10 ** k, snap[1])
    steps = [(t * 10 ** k, ch) for t, ch in steps]
    w = ghw_writer.Writer(rng, big_endian=rng.random() < 0.3, version=rng.choice([0, 1]))
    ghw = w.serialise(items, g.natoms, g.kinds, snap, steps)
    times = [snap[0]] + [t for t, _ in steps]
    kk = k
    while kk < 15 and all(t % 10 ** (kk + 1) == 0 for t in times):
        kk += 1
    vcd = vcd_writer.render(rng, items, g.natoms, snap, steps, exp=-15 + rng.randint(0, kk))
    fexp = -15 + rng.randint(0, kk)
    fst = fst_writer.render(rng, items, g.natoms, snap, steps, exp=fexp, dups=dups, srcs=srcs)
    return ghw_writer.design_tokens(items, g.natoms, snap, steps), ghw, vcd, fst, fexp
