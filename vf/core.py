"""Shared machinery of the wellen verification checks (see DESIGN.md section 2).

A check = (1) proof obligations: `lake build` of the property's theorem module, axiom audit,
forbidden-token scan; (2) correspondence: the same request lines are answered by the real code
(`wvh`, Rust harness built from /repo's working tree) and by the compiled Lean model + spec
(`wmdriver`); (3) the decision rule; (4) evidence + replay files.
"""
import fcntl
import hashlib
import json
import os
import random
import re
import subprocess
import sys
import time

ROOT = os.path.dirname(os.path.dirname(os.path.abspath(__file__)))
LEAN = os.path.join(ROOT, "lean")
HARNESS = os.path.join(ROOT, "harness")
BUILD = os.path.join(ROOT, ".build")
TARGET = os.path.join(BUILD, "target")
REPO = "/repo"
CURRENT_TIER = "quick"
ALLOWED_AXIOMS = {"propext", "Classical.choice", "Quot.sound"}
FORBIDDEN = re.compile(
    r"\bsorry\b|\badmit\b|^\s*axiom\s|\bnative_decide\b|\bbv_decide\b|implemented_by|\bunsafe\s|maxHeartbeats\s+0"
)

TRUSTED_BASE = [
    "Lean 4.33.0 kernel; axioms limited to propext, Classical.choice, Quot.sound (audited by #print axioms on every run)",
    "statements of the theorems in lean/WellenModel/Props and of the abstract specs",
    "correspondence check: Rust harness (harness/), Python orchestrator/generators (vf/, gen/), compiled Lean driver (lean/Driver.lean) — same definitions the theorems are about",
    "rustc/cargo; dependencies lz4_flex, leb128, rayon, memmap2, fst-reader, std::io are exercised, not verified",
]


def env_for_cargo():
    e = dict(os.environ)
    e["CARGO_NET_OFFLINE"] = "true"
    return e


class Lock:
    def __init__(self, name):
        os.makedirs(BUILD, exist_ok=True)
        self.path = os.path.join(BUILD, name + ".lock")

    def __enter__(self):
        self.f = open(self.path, "w")
        fcntl.flock(self.f, fcntl.LOCK_EX)
        return self

    def __exit__(self, *a):
        fcntl.flock(self.f, fcntl.LOCK_UN)
        self.f.close()


def run(cmd, cwd=None, env=None, timeout=None, stdin=None, stdout=None):
    return subprocess.run(
        cmd, cwd=cwd, env=env, timeout=timeout, stdin=stdin,
        stdout=stdout if stdout is not None else subprocess.PIPE,
        stderr=subprocess.PIPE if stdout is None else subprocess.PIPE,
        text=(stdout is None),
    )


# ---------------------------------------------------------------------------------------------
# builds

def sync_lockfile():
    src = os.path.join(REPO, "Cargo.lock")
    dst = os.path.join(HARNESS, "Cargo.lock")
    try:
        if open(src, "rb").read() != open(dst, "rb").read():
            # keep harness-only additions: regenerate from the repo lock, cargo adds what is missing offline
            open(dst, "wb").write(open(src, "rb").read())
    except FileNotFoundError:
        pass


def build_harness(profile="release"):
    """Rebuild the harness against /repo's current working tree. Returns (ok, log, binary)."""
    with Lock("cargo"):
        cmd = ["cargo", "build", "--offline", "--profile", profile]
        p = run(cmd, cwd=HARNESS, env=env_for_cargo(), timeout=1800)
        binary = os.path.join(TARGET, profile, "wvh")
        return p.returncode == 0, (p.stdout or "") + (p.stderr or ""), binary


def build_lean(targets):
    """lake build of the given targets. Returns (ok, log)."""
    with Lock("lake"):
        p = run(["lake", "build"] + targets, cwd=LEAN, timeout=3600)
        return p.returncode == 0, (p.stdout or "") + (p.stderr or "")


def driver_path():
    return os.path.join(LEAN, ".lake", "build", "bin", "wmdriver")


# ---------------------------------------------------------------------------------------------
# proof audit

def strip_comments(src):
    # remove /- ... -/ (nested not handled beyond one level, sufficient here) and -- comments
    out = []
    i = 0
    depth = 0
    n = len(src)
    while i < n:
        if src.startswith("/-", i):
            depth += 1
            i += 2
        elif src.startswith("-/", i) and depth > 0:
            depth -= 1
            i += 2
        elif depth > 0:
            if src[i] == "\n":
                out.append("\n")
            i += 1
        elif src.startswith("--", i):
            while i < n and src[i] != "\n":
                i += 1
        else:
            out.append(src[i])
            i += 1
    return "".join(out)


def theorems_in(path):
    """Fully qualified names of the theorems declared in a Lean file (namespace-aware)."""
    src = strip_comments(open(path).read())
    ns = []
    names = []
    for line in src.splitlines():
        m = re.match(r"^\s*namespace\s+(\S+)", line)
        if m:
            ns.append(m.group(1))
            continue
        m = re.match(r"^\s*end\s+(\S+)\s*$", line)
        if m and ns and ns[-1] == m.group(1):
            ns.pop()
            continue
        m = re.match(r"^\s*(?:private\s+|protected\s+)?theorem\s+(\S+)", line)
        if m:
            names.append(".".join(ns + [m.group(1)]))
    return names


def lean_sources():
    res = []
    for d, _, fs in os.walk(LEAN):
        if ".lake" in d:
            continue
        for f in fs:
            if f.endswith(".lean"):
                res.append(os.path.join(d, f))
    return sorted(res)


def forbidden_scan():
    hits = []
    for p in lean_sources():
        src = strip_comments(open(p).read())
        for n, line in enumerate(src.splitlines(), 1):
            if FORBIDDEN.search(line):
                hits.append(f"{os.path.relpath(p, ROOT)}:{n}: {line.strip()}")
    return hits


def audit_axioms(prop, module, thms):
    """Runs #print axioms for every theorem; returns dict name -> list of axioms or None (failed)."""
    os.makedirs(os.path.join(BUILD, "audit"), exist_ok=True)
    path = os.path.join(BUILD, "audit", f"Audit_{prop}.lean")
    with open(path, "w") as f:
        f.write(f"import {module}\n")
        for t in thms:
            f.write(f"#print axioms {t}\n")
    with Lock("lake"):
        p = run(["lake", "env", "lean", path], cwd=LEAN, timeout=1800)
    out = (p.stdout or "") + (p.stderr or "")
    res = {t: None for t in thms}
    for m in re.finditer(r"'([^']+)' depends on axioms: \[([^\]]*)\]", out, re.S):
        res[m.group(1)] = [a.strip() for a in m.group(2).replace("\n", " ").split(",") if a.strip()]
    for m in re.finditer(r"'([^']+)' does not depend on any axioms", out):
        res[m.group(1)] = []
    return res, out


def prove(prop, extra_modules=()):
    """Builds the property's theorem module and audits it.
    Returns dict(obligations, discharged, failed:[(name, why)], log)."""
    module = f"WellenModel.Props.{prop}"
    files = [os.path.join(LEAN, "WellenModel", "Props", f"{prop}.lean")]
    mods = [module] + list(extra_modules)
    for m in extra_modules:
        files.append(os.path.join(LEAN, *m.split(".")) + ".lean")
    ok, log = build_lean(mods + ["wmdriver"])
    thms = []
    for f in files:
        thms += theorems_in(f)
    failed = []
    axioms = {}
    if not ok:
        # which theorems fail? report the module; all its theorems count as not discharged
        drv_ok, drv_log = build_lean(["wmdriver"])
        failed = [(t, "module does not build") for t in thms]
        return dict(obligations=len(thms), discharged=0, failed=failed, log=log, driver_ok=drv_ok,
                    theorems=thms, axioms={}, build_ok=False)
    axioms, alog = audit_axioms(prop, "\nimport ".join(mods), thms)
    for t in thms:
        ax = axioms.get(t)
        if ax is None:
            failed.append((t, "axiom audit produced no result"))
        elif not set(ax) <= ALLOWED_AXIOMS:
            failed.append((t, "inadmissible axioms: " + ",".join(sorted(set(ax) - ALLOWED_AXIOMS))))
    hits = forbidden_scan()
    for h in hits:
        failed.append(("forbidden-token", h))
    if CURRENT_TIER == "thorough":
        # thorough tier: the compiled theorem module is replayed by leanchecker, the toolchain's independent re-checker of .olean files
        with Lock("lake"):
            p = run(["lake", "env", "leanchecker", module], cwd=LEAN, timeout=1800)
        if p.returncode != 0:
            failed.append(("leanchecker", ((p.stdout or "") + (p.stderr or ""))[-400:] or f"exit status {p.returncode}"))
    return dict(obligations=len(thms), discharged=len(thms) - len([f for f in failed if f[0] != "forbidden-token"]),
                failed=failed, log=log, driver_ok=True, theorems=thms, axioms=axioms, build_ok=True)


_STR_FIELD = re.compile(r"=S([0-9a-f]*)")


def lossy_strings(line):
    """String values are reported by the implementation after String::from_utf8_lossy; the Lean model and the specification
    carry the raw bytes (the model of load_signal_strings assumes valid UTF-8). Before comparing, every `=S<hex>` field of a
    model / specification reply is put through the same replacement (each maximal invalid subsequence -> U+FFFD)."""
    return _STR_FIELD.sub(lambda m: "=S" + bytes.fromhex(m.group(1)).decode("utf-8", "replace").encode().hex(), line)


# ---------------------------------------------------------------------------------------------
# correspondence

def run_requests(binary, lines, workdir, tag, timeout=3600, env=None):
    os.makedirs(workdir, exist_ok=True)
    req = os.path.join(workdir, f"{tag}.req")
    with open(req, "w") as f:
        for l in lines:
            f.write(l + "\n")
    outp = os.path.join(workdir, f"{tag}.out")
    if os.path.exists(outp):
        os.remove(outp)
    if os.path.basename(binary).startswith("wvh"):
        # the harness writes replies to --out; wellen's own prints go to stdout and are discarded
        with open(req, "rb") as fin:
            p = subprocess.run([binary, "--out", outp], stdin=fin, stdout=subprocess.DEVNULL,
                               stderr=subprocess.PIPE, timeout=timeout, env=env)
    else:
        with open(req, "rb") as fin, open(outp, "wb") as fout:
            p = subprocess.run([binary], stdin=fin, stdout=fout, stderr=subprocess.PIPE, timeout=timeout, env=env)
    if not os.path.exists(outp):
        open(outp, "w").close()
    out = open(outp, "r", errors="replace").read().split("\n")
    if out and out[-1] == "":
        out.pop()
    return p.returncode, out, p.stderr.decode(errors="replace")


class Findings:
    def __init__(self):
        p = os.path.join(ROOT, "known_findings.json")
        self.items = json.load(open(p)) if os.path.exists(p) else []

    def known(self, prop, fid):
        for it in self.items:
            if it["property"] == prop and it["id"] == fid and it.get("status") == "known":
                return it
        return None


class Result:
    """Accumulates the outcome of a check run."""

    def __init__(self, prop, tier, seed):
        self.prop = prop
        self.tier = tier
        self.seed = seed
        self.t0 = time.time()
        self.evaluations = 0
        self.distinct = set()
        self.samples = []
        self.violations = []      # (kind, replay_path, no_failing_input)
        self.known_hits = {}      # finding id -> count
        self.stats = {}
        self.notes = []
        self.findings = Findings()
        self.corr_breaks = []     # (request, impl, model)
        self.traces = 0

    def count(self, key, n=1):
        self.stats[key] = self.stats.get(key, 0) + n

    def write_replay(self, kind, payload):
        d = os.path.join(ROOT, "replays")
        os.makedirs(d, exist_ok=True)
        h = hashlib.sha1(json.dumps(payload, sort_keys=True).encode()).hexdigest()[:10]
        path = os.path.join(d, f"{self.prop}-{kind}-{self.seed}-{h}.json")
        payload = dict(payload)
        payload.update(property=self.prop, kind=kind, seed=self.seed, tier=self.tier,
                       replay_cmd=f"./check.py {self.prop} --replay {path}")
        with open(path, "w") as f:
            json.dump(payload, f, indent=1)
        return path

    def violation(self, kind, payload, no_input=False):
        path = self.write_replay(kind, payload)
        self.violations.append((kind, path, no_input))
        return path


def compare_streams(res, requests, impl, model_spec, is_nontrivial=None, finding_of=None, label="corr",
                    sample_every=None):
    """The decision rule of DESIGN.md section 2 for one batch of request lines.

    model_spec lines are `<model>\\t<spec>[\\t<finding id>]`; spec `-` = outside the property's
    quantifier (only impl-vs-model is compared)."""
    n = len(requests)
    if len(impl) != n or len(model_spec) != n:
        res.violation("harness", dict(what=f"{label}: reply count mismatch: requests={n} impl={len(impl)} model={len(model_spec)}",
                                      hint="harness or driver crashed (abort / stack overflow / timeout)"), no_input=True)
        n = min(n, len(impl), len(model_spec))
    spec_fail = []
    corr_fail = []
    for k in range(n):
        rq, im = requests[k], impl[k]
        parts = model_spec[k].split("\t")
        mo = parts[0]
        sp = parts[1] if len(parts) > 1 else "-"
        fid = parts[2] if len(parts) > 2 and parts[2] not in ("", "-") else None
        res.evaluations += 1
        res.traces += 1
        if is_nontrivial is None or is_nontrivial(rq, im):
            res.distinct.add(hashlib.sha1((rq + "\x00" + im).encode()).digest()[:8])
        if sample_every and k % sample_every == 0 and len(res.samples) < 12:
            res.samples.append(dict(request=rq[:300], impl=im[:300], model=mo[:300], spec=sp[:300]))
        if sp != "-" and im != sp:
            f = fid or (finding_of(rq, im, mo, sp) if finding_of else None)
            if f and res.findings.known(res.prop, f) and im == mo:
                res.known_hits[f] = res.known_hits.get(f, 0) + 1
                continue
            spec_fail.append((rq, im, mo, sp))
        elif im != mo:
            corr_fail.append((rq, im, mo, sp))
    if spec_fail:
        spec_fail.sort(key=lambda t: len(t[0]))
        rq, im, mo, sp = spec_fail[0]
        res.violation("impl-vs-spec", dict(request=rq, impl=im, model=mo, spec=sp, label=label,
                                           more=len(spec_fail) - 1,
                                           what="the implementation's answer differs from the specification on this input"))
    if corr_fail:
        corr_fail.sort(key=lambda t: len(t[0]))
        rq, im, mo, sp = corr_fail[0]
        res.corr_breaks.append((rq, im, mo))
        if not spec_fail:
            res.violation("correspondence", dict(request=rq, impl=im, model=mo, spec=sp, label=label,
                                                 more=len(corr_fail) - 1,
                                                 what=f"correspondence `{label}` between the Lean model and the implementation no longer holds; "
                                                      "no input on which the implementation contradicts the specification was found in this run"),
                          no_input=True)
    return len(spec_fail), len(corr_fail)


def finish(res, proof, level_note_extra=None, checker_cmd=None, rule="", exhaustive=False, extra_cov=None):
    """Report proof failures, print VIOLATION / KNOWN-FINDING lines, write evidence, return exit code."""
    prop = res.prop
    if proof is not None and proof["failed"]:
        had_input = any(not v[2] for v in res.violations)
        names = [f[0] for f in proof["failed"]][:10]
        payload = dict(theorems=names, reasons=[f[1] for f in proof["failed"]][:10],
                       log_tail=proof["log"][-3000:],
                       what="proof obligations of this property no longer check (lake build / axiom audit)")
        if not had_input:
            res.violation("proof", payload, no_input=True)
        else:
            res.write_replay("proof", payload)
    for fid, cnt in sorted(res.known_hits.items()):
        it = res.findings.known(prop, fid)
        print(f"KNOWN-FINDING: property={prop} {fid}: {it['what']} ({cnt} inputs of this run; witness {it.get('witness', '-')})")
    # order: violations with a failing input first
    res.violations.sort(key=lambda v: v[2])
    for kind, path, no_input in res.violations:
        tail = " no-failing-input-found" if no_input else ""
        print(f"VIOLATION property={prop} replay={path}{tail}")
    cov = dict(
        obligations=proof["obligations"] if proof else 0,
        discharged=proof["discharged"] if proof else 0,
        checker_cmd=checker_cmd or f"cd lean && lake build WellenModel.Props.{prop} && lake env lean .build/audit/Audit_{prop}.lean  (#print axioms per theorem)",
        trusted_base=TRUSTED_BASE + (level_note_extra or []),
        theorems=proof["theorems"] if proof else [],
        axioms_used=sorted({a for v in (proof["axioms"].values() if proof else []) if v for a in v}),
        evaluations=res.evaluations,
        distinct_nontrivial=len(res.distinct),
        rule=rule,
        samples=res.samples[:12] if res.samples else [dict(note="no correspondence cases in this run")],
        traces_validated_against_impl=res.traces,
        exhaustive=exhaustive,
        distribution=res.stats,
        known_findings_hit=res.known_hits,
        notes=res.notes,
    )
    if extra_cov:
        cov.update(extra_cov)
    ev = dict(property_id=prop, tier=res.tier, seed=res.seed, level="proof", coverage=cov,
              assumptions=TRUSTED_BASE + (level_note_extra or []),
              wall_s=round(time.time() - res.t0, 2), violations=len(res.violations))
    os.makedirs(os.path.join(ROOT, "evidence"), exist_ok=True)
    with open(os.path.join(ROOT, "evidence", f"{prop}.json"), "w") as f:
        json.dump(ev, f, indent=1)
    ok = not res.violations
    print(f"[{prop}] tier={res.tier} seed={res.seed} proof {cov['discharged']}/{cov['obligations']} "
          f"evaluations={res.evaluations} distinct_nontrivial={len(res.distinct)} "
          f"violations={len(res.violations)} wall={ev['wall_s']}s")
    return 0 if ok else 1


def rng_for(prop, seed):
    return random.Random(f"{prop}:{seed}")


class Ctx:
    """Per-run context: builds, binaries, work dir."""

    def __init__(self, prop, tier, seed):
        global CURRENT_TIER
        CURRENT_TIER = tier
        self.prop, self.tier, self.seed = prop, tier, seed
        self.work = os.path.join(BUILD, "run", prop)
        os.makedirs(self.work, exist_ok=True)
        self.res = Result(prop, tier, seed)
        self.rng = rng_for(prop, seed)
        self.wvh = None
        self.wvh_checked = None

    def build(self, checked=False):
        sync_lockfile()
        ok, log, binary = build_harness("release")
        if not ok:
            self.res.violation("build", dict(what="harness does not build against /repo's working tree",
                                             log_tail=log[-4000:]), no_input=True)
            return False
        self.wvh = binary
        if checked:
            ok, log, binary = build_harness("checked")
            if ok:
                self.wvh_checked = binary
            else:
                self.res.notes.append("checked profile failed to build")
        return True

    def impl(self, lines, tag="impl", binary=None, timeout=3600):
        rc, out, err = run_requests(binary or self.wvh, lines, self.work, tag, timeout=timeout)
        if rc != 0:
            self.res.notes.append(f"{tag}: harness exit code {rc}: {err[-500:]}")
        return out

    def model(self, lines, tag="model", timeout=3600):
        rc, out, err = run_requests(driver_path(), lines, self.work, tag, timeout=timeout)
        if rc != 0:
            self.res.notes.append(f"{tag}: driver exit code {rc}: {err[-500:]}")
        return out
