"""C04 — storage is transparent (wavemem packing / compression / segmentation)."""
from . import core, storegen, tables
from .c05 import corpus_requests

RULE = ("`store <types> <ops>` histories drive wavemem::Encoder directly (hook) — real code vs Lean Store model vs Spec.run (canon of the "
        "recorded history). Regimes: widths with every residue mod 8/4/2, 2/4/9-state values in every first-appearance order, VCD-text and "
        "pre-encoded (GHW) writes, payloads of 24..40 bytes compressible and incompressible, signals absent from blocks, 65534..65537 and "
        "131069..131072 accepted steps, reals, strings of 0..300 bytes, encoder splits (append). non-trivial = at least one change loaded; "
        "distinct = distinct (request, reply)")


def requests(ctx):
    rng = ctx.rng
    rq = []
    quick = ctx.tier == "quick"
    for _ in range(3000 if quick else 30000):
        rq.append(storegen.gen_history(rng))
    # widths x state orders, exhaustive over orders of first appearance
    import itertools
    wl = range(1, 41) if quick else range(1, 131)
    for w in wl:
        for order in itertools.permutations([0, 1, 2]):
            h = storegen.Hist(rng, [f"b{w}", f"g{w}"])
            t = 0
            for kind in list(order) + [rng.choice([0, 1, 2])]:
                for rep in range(2):
                    t += 1
                    h.time(t)
                    for i in (0, 1):
                        syms = storegen.rand_syms(rng, w, kind, "must" if w > 1 or kind == 0 else "rand")
                        if w == 1:
                            syms = [rng.randint({0: 0, 1: 2, 2: 4}[kind], {0: 1, 1: 3, 2: 8}[kind])]
                        if i == 0:
                            h.ops.append(f"v0:{storegen.hexs(storegen.vcd_token(rng, w, syms))}")
                        else:
                            st = max(kind, rng.choice([0, 2]))
                            data = bytes([syms[0]]) if w == 1 else storegen.pack(st, syms)
                            h.ops.append(f"n1:{st}:{storegen.hexs(data)}")
            rq.append(h.line())
    for size in range(24, 41):
        for comp in (True, False):
            rq.append(storegen.gen_payload_threshold(rng, size, comp))
    for n in ([65534, 65535, 65536, 65537, 131070, 131071] if quick else
              [65534, 65535, 65536, 65537, 131069, 131070, 131071, 131072, 200000]):
        rq.append(storegen.gen_rollover(rng, n, every=rng.choice([1, 50])))
    rq.append(storegen.gen_rollover(rng, 70000, splits=(30000, 65535, 65536)))
    for _ in range(6 if quick else 40):
        rq.append(storegen.gen_gaps(rng))
    # malformed stream: outside the property's quantifier (spec `-`), model and code must still agree (panic or not)
    for _ in range(400 if quick else 4000):
        rq.append(malform(rng, storegen.gen_history(rng, nsteps=rng.choice([1, 2, 4]), split_p=0.2)))
    # the FST loader's own storage (fst::SignalWriter, expand_entries on widening) obeys the same property: every order of state kinds
    from . import c10
    rq += c10.fstw_requests(rng, range(1, 18) if ctx.tier == "quick" else range(1, 34), 3, 300 if ctx.tier == "quick" else 3000)
    return rq


def malform(rng, line):
    head, types, ops = line.split(" ", 2)
    ol = ops.split(";") if ops != "-" else []
    nsig = len(types.split(",")) if types != "-" else 0
    kind = rng.choice(["notime", "badid", "badchar", "toolong", "badlead", "splitfirst", "wrongtype", "empty"])
    vals = [k for k, o in enumerate(ol) if o[0] == "v"]
    if kind == "notime":
        ol = [o for o in ol if o[0] != "t"][:3] or ["v0:31"]
    elif kind == "badid" and vals:
        k = rng.choice(vals)
        f = ol[k][1:].split(":")
        ol[k] = "v" + ":".join([str(nsig + rng.randint(0, 2))] + f[1:])
    elif kind == "badchar" and vals:
        k = rng.choice(vals)
        f = ol[k][1:].split(":")
        f[1] = f[1][:2] + "71" + f[1][2:]
        if len(f) == 3:
            f[2] = "-"          # the external f64 parser rejects the corrupted text
        ol[k] = "v" + ":".join(f)
    elif kind == "toolong" and vals:
        k = rng.choice(vals)
        f = ol[k][1:].split(":")
        if len(f) == 2:
            f[1] = f[1] + "30" * 400
        ol[k] = "v" + ":".join(f)
    elif kind == "badlead" and vals:
        k = rng.choice(vals)
        f = ol[k][1:].split(":")
        f[1] = "62" + rng.choice(["75", "2d", "68", "31"])
        ol[k] = "v" + ":".join(f)
    elif kind == "splitfirst":
        ol = ["a"] + ol
    elif kind == "wrongtype" and vals:
        k = rng.choice(vals)
        f = ol[k][1:].split(":")
        f[1] = rng.choice(["7268656c6c6f", "73303031", "31", "623031"])
        ol[k] = "v" + ":".join(f[:2])
    elif kind == "empty" and vals:
        k = rng.choice(vals)
        f = ol[k][1:].split(":")
        f[1] = rng.choice(["62", "-", "42"])
        ol[k] = "v" + ":".join(f[:2])
    return f"{head} {types} {';'.join(ol) if ol else '-'}"


def nontrivial(rq, reply):
    return "=" in reply.split("|", 1)[-1]


def run(ctx, prop="C04", rule=RULE, reqs=None):
    res = ctx.res
    ok = ctx.build()
    if ok:
        changed, _ = tables.regenerate(ctx.wvh)
        if changed:
            res.notes.append("Gen/Tables.lean was regenerated from the code (content changed)")
    proof = core.prove(prop)
    if ok:
        rq = corpus_requests(prop) + (reqs or requests)(ctx)
        impl = ctx.impl(rq)
        model = [core.lossy_strings(m) for m in ctx.model(rq)]
        impl = [("panic" if l.startswith("panic:") else "err" if l.startswith("err:") else l) for l in impl]
        core.compare_streams(res, rq, impl, model, is_nontrivial=nontrivial,
                             label="Store model ~ wavemem::Encoder/Reader", sample_every=max(1, len(rq) // 8))
        res.count("histories", len(rq))
        res.count("spec_applicable", sum(1 for m in model if "\t-" not in m))
    return core.finish(res, proof, rule=rule)
