"""C03 — multi-threaded VCD loading equals single-threaded loading."""
from . import core, vcdgen, tables
from .c05 import corpus_requests

RULE = ("`vcdmt mt:<threads>:<minchunk> <vars> <realmap> <body>`: the generated file is loaded with multi_thread=true inside a scoped rayon pool of the given "
        "size (hook: minimum chunk size override, so small bodies are divided; `prod` = production arithmetic) and compared with the Lean model of the chunked "
        "parser (model) and with the single-threaded load of the same body (spec). Quick: hand-over-safe line-disciplined bodies (LF and CRLF) x 2..8 threads x EVERY "
        "padding 0..chunk-1 of the first line (a boundary at every byte alignment), bodies with chunks holding no timestamp, plus unsafe bodies "
        "(repeated / backwards / mid-line timestamps, multi-line comments, free-form layout) on which the implementation must do exactly what the model predicts "
        "(known finding FMT). non-trivial = load succeeds with >= 2 time steps; distinct = distinct (request, reply)"
        " `chunks <threads> <len>`: the production chunk arithmetic (no override) in pools of 1..16 (32) threads for body lengths 0..2^40 (around every multiple of the minimum chunk size, powers of two, random): chunk list vs the Lean formula, covering predicate (contiguous from 0, reaches the end, at most one chunk per thread) vs the specification.")


def canon_impl(l):
    if l.startswith("panic") or l.startswith("err"):
        return "fail"
    return l


def safe_body(rng, vars_, crlf=False, nsteps=None):
    # strictly increasing timestamps, line-disciplined, single-line comments
    return vcdgen.gen_body(rng, vars_, nsteps=nsteps or rng.choice([3, 6, 10, 16]), line_disciplined=True, crlf=crlf, first_line=b"",
                           back_p=0.0, rep_p=0.0, values_before_time=rng.random() < 0.3, comment_p=0.1)


def requests(ctx):
    rng = ctx.rng
    quick = ctx.tier == "quick"
    rq = []

    def small_vars():
        vs = vcdgen.gen_vars(rng, nvars=rng.choice([1, 2, 3]), style=rng.choice(["dense", "dense", "offset", "long"]))
        return [(i, t if not t.startswith("b") or int(t[1:]) <= 33 else "b5") for i, t in vs]

    # every alignment of the boundaries: pad the (skipped) first line
    for n in range(40 if quick else 400):
        vars_ = small_vars()
        body = safe_body(rng, vars_, crlf=(n % 5 == 0))
        threads = rng.choice([2, 3, 4, 8])
        chunk = rng.choice([24, 40, 64, 100])
        for pad in range(0, chunk):
            b = b" " * pad + body
            rq.append(" ".join(["vcdmt", f"mt:{threads}:{chunk}"] + vcdgen.request("st", vars_, b).split(" ")[2:]))
    # chunks without any timestamp: long steps
    for n in range(60 if quick else 600):
        vars_ = small_vars() + small_vars()
        body = safe_body(rng, vars_, nsteps=2)
        rq.append(" ".join(["vcdmt", f"mt:{rng.choice([3, 5, 8])}:{rng.choice([16, 20, 32])}"] + vcdgen.request("st", vars_, body).split(" ")[2:]))
    # body starts with a chunk-sized comment (first chunk records nothing, fixed F20) / empty body (fixed F19)
    for n in range(20):
        vars_ = small_vars()
        body = b"\n$comment " + b"x " * rng.randint(20, 60) + b"$end\n" + safe_body(rng, vars_)[1:]
        rq.append(" ".join(["vcdmt", f"mt:4:{rng.choice([16, 32])}"] + vcdgen.request("st", vars_, body).split(" ")[2:]))
    rq.append("vcdmt mt:4:prod 21:b1 - -")
    rq.append("vcdmt mt:4:16 21:b1 - 0a")
    # unsafe bodies: the implementation must behave as the model of the chunked parser says
    for n in range(500 if quick else 5000):
        vars_ = small_vars()
        body = vcdgen.gen_body(rng, vars_, nsteps=rng.choice([3, 6, 12]), back_p=0.15, rep_p=0.2, comment_p=0.2)
        rq.append(" ".join(["vcdmt", f"mt:{rng.choice([2, 3, 4, 8])}:{rng.choice([16, 32, 64, 128])}"] + vcdgen.request("st", vars_, body).split(" ")[2:]))
    # production chunking on larger bodies
    for n in range(6 if quick else 60):
        vars_ = vcdgen.gen_vars(rng, nvars=6, style="dense")
        body = safe_body(rng, vars_, nsteps=rng.choice([200, 400]))
        rq.append(" ".join(["vcdmt", f"mt:{rng.choice([2, 4, 16])}:prod"] + vcdgen.request("st", vars_, body).split(" ")[2:]))
    # the production chunk arithmetic itself (no override), for every pool size and body lengths from 0 to 2^40:
    # around every multiple of the minimum chunk size, powers of two, random
    lens = set([0, 1, 2, 3, 100, 8191, 8192, 8193])
    for k in range(1, 40):
        for d in (-1, 0, 1):
            lens.add(max(0, k * 8192 + d))
            lens.add(max(0, (1 << k) + d))
    for _ in range(200 if quick else 5000):
        lens.add(rng.randrange(0, 1 << rng.choice([14, 18, 22, 26, 32, 40])))
    for n in sorted(lens):
        for t in (1, 2, 3, 4, 7, 8, 16) if quick else range(1, 33):
            rq.append(f"chunks {t} {n}")
    return rq


def split_chunks(rq, impl, model):
    r2, i2, m2 = [], [], []
    for r, i, m in zip(rq, impl, model):
        if r.startswith("chunks ") and ";" in i and ";" in m.split("\t")[0]:
            mm, sp = (m.split("\t") + ["-"])[:2]
            r2.append(r); i2.append(i); m2.append(mm + "\t-")                                   # list: implementation vs model
            r2.append(r + " #covers"); i2.append(i.split(";")[0]); m2.append(mm.split(";")[0] + "\t" + sp)   # predicate vs spec
        else:
            r2.append(r); i2.append(i); m2.append(m)
    return r2, i2, m2


def run(ctx):
    res = ctx.res
    ok = ctx.build()
    if ok:
        tables.regenerate(ctx.wvh)
    proof = core.prove("C03")
    if ok:
        rq = corpus_requests("C03") + requests(ctx)
        impl = [canon_impl(l) for l in ctx.impl(rq)]
        model = ctx.model(rq)
        # `chunks`: the list is compared with the model (correspondence), the covering predicate with the specification
        rq, impl, model = split_chunks(rq, impl, model)
        core.compare_streams(res, rq, impl, model,
                             is_nontrivial=lambda r, i: i.startswith("tt=") and i.split("|")[0].count(",") >= 1,
                             label="chunked parser model ~ multi-threaded load", sample_every=max(1, len(rq) // 8))
        res.count("loads", len(rq))
        res.count("handover_safe", sum(1 for m in model if m.split("\t")[2:3] == ["-"]))
        res.count("handover_unsafe", sum(1 for m in model if m.split("\t")[2:3] == ["FMT"]))
        # evidence for the one assumption of C03_mt_eq_st_given_handover (model side only, never a violation): on how many
        # hand-over-safe bodies do the per-chunk operations, one after the other, equal the whole body's operations
        lexrq = ["handoverlex " + r.split(" ", 1)[1] for r in rq if r.startswith("vcdmt ")]
        lex = [m.split("\t")[0] for m in ctx.model(lexrq, tag="model_lex")]
        res.count("handover_lexical_holds_on_safe_bodies", sum(1 for l in lex if l == "safe=1;lex=1"))
        res.count("handover_lexical_fails_on_safe_bodies", sum(1 for l in lex if l == "safe=1;lex=0"))
        res.count("handover_lexical_not_applicable_or_unsafe", sum(1 for l in lex if not l.startswith("safe=1;lex=") or l.endswith("na")))
    return core.finish(res, proof, rule=RULE)
