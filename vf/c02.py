"""C02 — the time table is the strictly increasing list of recorded time steps."""
from . import core, storegen, c04, vcdgen

RULE = ("store histories (hook-driven wavemem::Encoder) with repeated / backwards / equal-after-backwards timestamps, first timestamp > 0, "
        "65534..65537, 131069..131072 and 200000 accepted steps, encoder splits; real code vs Lean Store model vs Spec.run "
        "(time table = strictPrefixMax of the timestamps; indices recorded against it). Plus whole VCD files (`vcd` requests of C01: path and reader entry points) "
        "whose bodies are rich in timestamps: steps without any change, a last timestamp directly at the end of the file or followed by a blank / CR only, "
        "repeated and backwards stamps. non-trivial = table has >= 2 entries")


def requests(ctx):
    rng = ctx.rng
    rq = []
    quick = ctx.tier == "quick"
    for _ in range(1500 if quick else 15000):
        rq.append(storegen.gen_history(rng, nsteps=rng.choice([1, 3, 10, 40, 120]), back_p=0.2, rep_p=0.2,
                                       split_p=0.05, types=[f"b{rng.choice([1, 3, 8])}" for _ in range(rng.choice([1, 2]))],
                                       density=rng.choice([0.1, 0.6])))
    for n in ([65534, 65535, 65536, 65537, 131069, 131070, 131071, 131072, 200000] if quick else
              [65534, 65535, 65536, 65537, 131069, 131070, 131071, 131072, 196605, 196606, 200000, 1000000]):
        rq.append(storegen.gen_rollover(rng, n, nsig=rng.choice([1, 2]), every=rng.choice([1, 7, 1000])))
    rq.append(storegen.gen_rollover(rng, 140000, splits=(65535, 65536, 70000, 131070)))
    # recordings that end (or pause) right behind a roll-over: the last block holds nothing but time steps
    for n in (65536, 65537, 131071, 131075):
        rq.append(storegen.gen_rollover(rng, n, nsig=1, every=1000, quiet=True))
    # the same property at the file level: which `#` tokens of a VCD open a time step
    for _ in range(400 if quick else 6000):
        vars_ = vcdgen.gen_vars(rng, nvars=rng.choice([1, 2]), style="dense")
        body = vcdgen.gen_body(rng, vars_, nsteps=rng.choice([1, 2, 5, 12]), back_p=0.15, rep_p=0.15, comment_p=0.03)
        rq.append(vcdgen.request(rng.choice(["st", "rd"]), vars_, body))
    # the same property for the other formats: GHW files (several cycle sections, snapshots at a time other than 0) and FST files
    # (several value-change blocks, repeated block-boundary times) written from abstract designs; the reply carries the time table
    from . import ghwgen
    for _ in range(120 if quick else 1500):
        d, g = ghwgen.gen_case(rng, nitems=rng.choice([1, 3]), nsteps=rng.choice([2, 6, 15]))
        rq.append(f"ghw {d} {g.hex()}")
    for _ in range(60 if quick else 800):
        dups = []
        d, _g, _v, f, e = ghwgen.gen_triple(rng, nitems=rng.choice([1, 3]), nsteps=rng.choice([2, 6, 15]), dups=dups)
        rq.append(f"fstfile {d} {e} {f.hex()}" + (f" {','.join(dups)}" if dups else ""))
    return rq


def nontrivial(rq, reply):
    return reply.startswith("tt=") and "," in reply.split("|", 1)[0]


def run(ctx):
    c04.nontrivial = nontrivial
    return c04.run(ctx, prop="C02", rule=RULE, reqs=requests)
