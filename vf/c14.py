"""C14 — all entry points load the same waveform."""
import glob
import os
from . import core, vcdgen, tables
from .c05 import corpus_requests

RULE = ("`entryvcd <vars> <realmap> <body>` (generated VCD) and `entryfile <path>` (corpus files of all three formats): the file is loaded through "
        "read_header_from_file+read_body, read_header+read_body over Cursor and over BufReader<File> (each with multi_thread on/off, with and without "
        "a progress counter), over BufReader::with_capacity(c, ..) for c in 1, 2, 3, 5, 16, 17, 33, 64, 100, 509, 4096 (a token / section marker / block header may straddle a refill) "
        "and through simple::read_with_options / read_from_reader; the option-taking entry points are run a second time with remove_scopes_with_empty_name=true (a group of its own) and every generated VCD a second time wrapped into an empty-named scope and a third time behind a `$comment` of 7..40 KB as first header command; GHW / FST / VCD files written from generated designs are included; hierarchy dump, body length, time table and every signal are "
        "compared pairwise (real code). For generated VCDs the Lean model answers with its three body-driver modes (mmap single, stream, multi). "
        "non-trivial = loads succeed; distinct = distinct requests")

EXCLUDE = ("libsigrok.vcd.fst",)   # not an FST file (the repo's own detect test ignores it)


def corpus_files(quick):
    files = sorted(glob.glob(os.path.join(core.REPO, "wellen/inputs/**/*"), recursive=True))
    files = [f for f in files if f.endswith((".vcd", ".fst", ".ghw")) and not f.endswith(EXCLUDE) and os.path.getsize(f) > 0]
    limit = 300_000 if quick else 40_000_000
    return [f for f in files if os.path.getsize(f) <= limit]


def requests(ctx):
    rng = ctx.rng
    quick = ctx.tier == "quick"
    rq = []
    for _ in range(250 if quick else 3000):
        vars_ = vcdgen.gen_vars(rng)
        body = vcdgen.gen_body(rng, vars_, line_disciplined=True if rng.random() < 0.8 else None)
        rq.append(" ".join(["entryvcd"] + vcdgen.request("st", vars_, body).split(" ")[2:]))
    for f in corpus_files(quick):
        rq.append(f"entryfile {f}")
    # GHW / FST / VCD files written from abstract designs (small: every buffered-reader capacity is tried on them)
    import os
    from . import ghwgen
    gen_dir = os.path.join(ctx.work, "gen")
    os.makedirs(gen_dir, exist_ok=True)
    for k in range(25 if quick else 300):
        _d, g, v, f, _e = ghwgen.gen_triple(rng, nitems=rng.choice([2, 5, 9]), nsteps=rng.choice([1, 4, 10]))
        for ext, data in (("ghw", g), ("fst", f), ("vcd", v)):
            p = os.path.join(gen_dir, f"e{k}.{ext}")
            open(p, "wb").write(data)
            rq.append(f"entryfile {p}")
    # CRLF recordings of several production chunks (body > 32 KiB): a periodic body shifted byte by byte, so that the chunk
    # boundaries of the memory-mapped multi-threaded driver fall on every position relative to the `\r\n#<time>` lines
    for k in range(13 if quick else 26):
        p = os.path.join(gen_dir, f"crlf{k}.vcd")
        hdr = b"$timescale 1ns $end\r\n$scope module top $end\r\n$var wire 1 ! a $end\r\n$var wire 8 # b $end\r\n$upscope $end\r\n$enddefinitions $end\r\n"
        lines = [b"$comment " + b"p" * k + b" $end", b"#1000", b"0!", b"b00000000 #"]
        for t in range(1001, 1001 + (3300 if k < 13 else 9000)):
            lines.append(b"#%d" % t)
            lines.append(b"%d!" % (t & 1))
            if t % 64 == 0:
                lines.append(b"b%s #" % format(t % 256, "08b").encode())
        open(p, "wb").write(hdr + b"\r\n".join(lines) + b"\r\n")
        rq.append(f"entryfile {p}")
    # a last time step that runs over several production chunks (workers that reach the end of the file far behind their stop
    # position without meeting a timestamp), with and without a final line break
    for k in range(2 if quick else 6):
        p = os.path.join(gen_dir, f"longstep{k}.vcd")
        hdr = b"$timescale 1ns $end\n$scope module top $end\n$var wire 1 ! a $end\n$var wire 8 # b $end\n$upscope $end\n$enddefinitions $end\n"
        lines = [b"#0", b"0!", b"b00000000 #"]
        for t in range(1, 1500):
            lines += [b"#%d" % t, b"%d!" % (t & 1)]
        lines.append(b"#2000")
        for j in range(3000 + 500 * k):
            lines.append(b"b%s #" % format(j % 256, "08b").encode())
        open(p, "wb").write(hdr + b"\n".join(lines) + (b"\n" if k % 2 == 0 else b""))
        rq.append(f"entryfile {p}")
    return rq


def run(ctx):
    res = ctx.res
    ok = ctx.build(checked=True)
    if ok:
        tables.regenerate(ctx.wvh)
    proof = core.prove("C14")
    if ok:
        rq = corpus_requests("C14") + requests(ctx)
        impl = ctx.impl(rq)
        model = ctx.model(rq)
        # corpus VCDs whose multi-threaded loads differ: is the body in the known hand-over finding class (FMT)?
        # (no Lean model run for corpus files: the class is computed from the body bytes alone)
        fmt = {}
        ask = []
        for r, i in zip(rq, impl):
            if r.startswith("entryfile") and r.endswith(".vcd") and i.startswith("DIFF:"):
                second = i.split("!=")[1]
                if second.startswith("file2p:mt=true") or second.startswith("simple_path:mt=true"):
                    data = open(r.split(" ", 1)[1], "rb").read()
                    k = data.find(b"$enddefinitions")
                    j = data.find(b"$end", k + 15)
                    if k >= 0 and j >= 0:
                        ask.append((r, f"fmtclass 4 {data[j + 4:].hex()}"))
        if ask:
            ans = ctx.model([a for _, a in ask], tag="model_fmtclass")
            for (r, _), a in zip(ask, ans):
                fmt[r] = a.split("\t")[0]
        # corpus files that fail to load identically through every entry point are outside the quantifier
        impl2, model2 = [], []
        for r, i, m in zip(rq, impl, model):
            if r.startswith("entryfile") and i in ("same:err", "same:panic"):
                res.count("corpus_unloadable_consistently")
                m = i + "\t-"
            if i.startswith("DIFF:"):
                second = i.split("!=")[1]
                # only the memory-mapped multi-threaded loads may differ under the known hand-over finding
                if second.startswith("file2p:mt=true") or second.startswith("simple_path:mt=true"):
                    i = "DIFF"
                    if fmt.get(r) == "FMT":
                        m = "DIFF\tsame:ok\tFMT"
            impl2.append(i)
            model2.append(m)
        core.compare_streams(res, rq, impl2, model2, is_nontrivial=lambda r, i: i == "same:ok",
                             label="body-driver modes ~ entry points", sample_every=max(1, len(rq) // 8))
        # the multi-chunk files once more in the profile with debug assertions and overflow checks (progress arithmetic, chunk arithmetic)
        if ctx.wvh_checked is not None:
            sub = [(r, m) for r, m in zip(rq, model2) if "/crlf" in r or "/longstep" in r]
            if sub:
                impl_c = ctx.impl([r for r, _ in sub], tag="impl_checked", binary=ctx.wvh_checked)
                impl_c = [("DIFF" if i.startswith("DIFF:") else i) for i in impl_c]
                core.compare_streams(res, [r for r, _ in sub], impl_c, [m for _, m in sub], is_nontrivial=lambda r, i: i == "same:ok",
                                     label="entry points, multi-chunk files (debug-assertion profile)", sample_every=max(1, len(sub) // 2))
        res.count("generated_vcd", sum(1 for r in rq if r.startswith("entryvcd")))
        res.count("corpus_files", sum(1 for r in rq if r.startswith("entryfile")))
    return core.finish(res, proof, rule=RULE)
