"""C09 — VCD declarations appear in the hierarchy as declared."""
from . import core, hdrgen, tables
from .c05 import corpus_requests

RULE = ("`vcdhdr <opts> <decls> <text>`: a header is generated twice — as an abstract declaration list (scope / upscope / var with keyword, width, id code, base name, "
        "bracket groups, bit range / date / version / timescale / GTKWave-nvc misc attributes) and as text with random white space (spaces, tabs, LF, CRLF), glued or split "
        "timescale, bit ranges with and without spaces. Real code: viewers::read_header over a Cursor with both values of remove_scopes_with_empty_name; dump of the "
        "tree with kinds, names, encodings, bit ranges, signal numbers, type names, source locators, date/version/timescale and the header length. Lean model: the byte-level "
        "header reader + callback + pointer-level builder; spec: the declaration list interpreted on the abstract hierarchy. Plus a malformed stream (err / panic must agree). "
        "non-trivial = at least one variable; distinct = distinct (request, reply)")


def requests(ctx):
    rng = ctx.rng
    quick = ctx.tier == "quick"
    rq = []
    for _ in range(2000 if quick else 30000):
        decls, text = hdrgen.gen_header(rng)
        opts = rng.choice(["n", "n", "f"])
        tail = rng.choice([b"", b"\n#0\n", b" \n$dumpvars\n"])
        rq.append(f"vcdhdr {opts} {decls} {(text + tail).hex()}")
    for _ in range(500 if quick else 5000):
        decls, text = hdrgen.gen_header(rng, nitems=rng.choice([1, 3, 6]))
        rq.append(f"vcdhdr {rng.choice(['n', 'f'])} - {hdrgen.malform(rng, text).hex()}")
    return rq


def run(ctx):
    res = ctx.res
    ok = ctx.build()
    if ok:
        tables.regenerate(ctx.wvh)
    proof = core.prove("C09")
    if ok:
        rq = corpus_requests("C09") + requests(ctx)
        impl = [("panic" if l.startswith("panic") else l) for l in ctx.impl(rq)]
        model = ctx.model(rq)
        core.compare_streams(res, rq, impl, model, is_nontrivial=lambda r, i: "V(" in i,
                             label="VcdHeader model ~ vcd::read_header", sample_every=max(1, len(rq) // 8))
        res.count("headers", len(rq))
        res.count("impl_err", sum(1 for i in impl if i == "err"))
        res.count("impl_panic", sum(1 for i in impl if i == "panic"))
        res.count("spec_applicable", sum(1 for m in model if m.split("\t")[1:2] != ["-"]))
    return core.finish(res, proof, rule=RULE)
