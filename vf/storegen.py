"""Generators of store histories (`store <types> <ops>` requests), see DESIGN.md C02/C04/C06."""
import struct

WIDTHS = [1, 1, 2, 3, 4, 5, 6, 7, 8, 9, 12, 15, 16, 17, 24, 31, 32, 33, 63, 64, 65, 100, 127, 128, 129, 300]
SYMS = "01xzhuwl-"
BITS = {0: 1, 1: 2, 2: 4}


def hexs(b):
    return b.hex() if b else "-"


def pack(states, syms):
    """internal right-aligned big-endian packing of symbol numbers (what write_n_state produces)"""
    sb = BITS[states]
    bib = 8 // sb
    n = 0
    for v in syms:
        n = (n << sb) | v
    nbytes = (len(syms) + bib - 1) // bib
    return n.to_bytes(nbytes, "big")


def rand_syms(rng, w, kind, style=None):
    """w symbol numbers of the given kind (0 two, 1 four, 2 nine); kind is the *maximum* allowed"""
    hi = {0: 1, 1: 3, 2: 8}[kind]
    style = style or rng.choice(["rand", "rand", "const", "sparse", "must"])
    if style == "const":
        v = rng.randint(0, hi)
        s = [v] * w
    elif style == "sparse":
        s = [0] * w
        for _ in range(rng.randint(0, 2)):
            s[rng.randrange(w)] = rng.randint(0, hi)
    else:
        s = [rng.randint(0, hi) for _ in range(w)]
    if style == "must" and kind > 0:
        # make sure the kind is really needed
        lo = {1: 2, 2: 4}[kind]
        s[rng.randrange(w)] = rng.randint(lo, hi)
    return s


def vcd_token(rng, w, syms):
    """a VCD value token for symbols `syms` (list of symbol numbers, length w): maybe shortened,
    random letter case, b/B prefix, optional pymtl 0b prefix."""
    chars = [SYMS[v] for v in syms]
    if w == 1:
        c = chars[0]
        c = c.upper() if rng.random() < 0.3 else c
        r = rng.random()
        if r < 0.12:
            return (rng.choice("bB") + c).encode()              # a scalar written as a one-character vector
        if r < 0.2:
            return (rng.choice("bB") + "0b" + c).encode()       # ... with the pymtl3 `0b` prefix
        return c.encode()
    # shorten: strip leading repeats of the extension character where legal
    if rng.random() < 0.5:
        lead = chars[0]
        if lead in "0xz" or (lead == "1" and False):
            k = 0
            while k < len(chars) - 1 and chars[k] == lead:
                k += 1
            # keep one copy of x/z; for 0 we may drop all leading zeros if the next is 0/1
            if lead == "0":
                # after stripping zeros the first char must be 0 or 1, otherwise keep one 0
                cut = k
                if chars[cut] not in "01":
                    cut -= 1
                cut = rng.randint(0, max(0, cut))
                chars = chars[cut:]
            else:
                cut = rng.randint(0, max(0, k - 1)) if k >= 1 else 0
                # need first char to stay lead: keep at least one
                chars = chars[cut:]
    s = "".join(c.upper() if rng.random() < 0.2 else c for c in chars)
    if rng.random() < 0.08 and len(s) > 0:
        s = "0b" + s
    return (rng.choice("bbbB") + s).encode()


class Hist:
    def __init__(self, rng, types):
        self.rng = rng
        self.types = types
        self.ops = []
        self.tmax = None
        self.last = {}

    def time(self, t):
        self.ops.append(f"t{t}")
        if self.tmax is None or t > self.tmax:
            self.tmax = t

    def value(self, i, redundant=False):
        rng = self.rng
        tp = self.types[i]
        if redundant and i in self.last:
            self.ops.append(self.last[i])
            return
        if tp[0] == "b" or tp[0] == "g":
            w = int(tp[1:])
            kind = rng.choice([0, 0, 0, 1, 1, 2])
            syms = rand_syms(rng, w, kind)
            if tp[0] == "b":
                op = f"v{i}:{hexs(vcd_token(rng, w, syms))}"
            else:
                # raw path (GHW): the caller's states may be wider than needed
                st = max(kind, rng.choice([0, 0, 2]))
                if w == 1:
                    data = bytes([syms[0]])
                else:
                    data = pack(st, syms)
                    if rng.random() < 0.2:
                        data = bytes(rng.randint(1, 3)) + data
                op = f"n{i}:{st}:{hexs(data)}"
        elif tp == "r":
            val = rng.choice([0.0, 1.5, -2.25, 1e300, 3.141592653589793, float(rng.randint(-5, 5)), rng.random(),
                              0.0, -0.0, -0.0, float("nan"), float("nan"), float("inf"), float("-inf")])
            le = struct.pack("<d", val)
            if rng.random() < 0.5:
                if val != val and rng.random() < 0.5:
                    le = struct.pack("<Q", 0x7ff8000000000000 | rng.choice([1, 0x8000000000000000]))   # another NaN bit pattern
                op = f"f{i}:{hexs(le)}"
            else:
                txt = repr(val)
                op = f"v{i}:{hexs((rng.choice('rR') + txt).encode())}:{hexs(le)}"
        else:
            n = rng.choice([0, 1, 2, 5, 5, 10, 40, 130, 300])
            alphabet = "abcXYZ019_-+é"
            txt = "".join(rng.choice(alphabet) for _ in range(n)) if rng.random() < 0.7 else rng.choice("ab") * n
            raw = txt.encode("utf-8")
            if rng.random() < 0.12:
                # not valid UTF-8 (latin-1 text, stray bytes): reported through from_utf8_lossy; the four choices keep distinct images
                raw = rng.choice([b"caf\xe9", b"\xffx", b"\xe9\xe9", b"ab\xc3"])
            op = f"v{i}:{hexs(rng.choice(b'sS').to_bytes(1, 'big') + raw)}"
        self.last[i] = op
        self.ops.append(op)

    def line(self, extra=""):
        lt = []
        for t in self.types:
            lt.append("b" + t[1:] if t[0] == "g" else t)
        return f"store {','.join(lt) if lt else '-'} {';'.join(self.ops) if self.ops else '-'}{extra}"


def rand_types(rng):
    n = rng.choice([1, 1, 2, 3, 5])
    types = []
    for _ in range(n):
        r = rng.random()
        if r < 0.6:
            types.append(f"b{rng.choice(WIDTHS)}")
        elif r < 0.8:
            types.append(f"g{rng.choice(WIDTHS)}")
        elif r < 0.9:
            types.append("r")
        else:
            types.append("s")
    return types


def gen_history(rng, nsteps=None, split_p=0.03, back_p=0.05, rep_p=0.08, types=None, density=None):
    types = types or rand_types(rng)
    h = Hist(rng, types)
    nsteps = nsteps if nsteps is not None else rng.choice([0, 1, 2, 5, 10, 30, 80])
    density = density if density is not None else rng.choice([0.2, 0.5, 0.9])
    t = rng.choice([0, 0, 1, 7, 1000])
    if split_p > 0 and rng.random() < 0.06:
        h.ops.append("a")                                   # the first store records nothing (a first chunk without time steps)
    for k in range(nsteps):
        r = rng.random()
        if k > 0 and r < back_p:
            h.time(max(0, t - rng.randint(1, 5)))          # backwards: skipped
        elif k > 0 and r < back_p + rep_p:
            h.time(h.tmax)                                  # repeated maximum: continues the step
        else:
            if k > 0 and rng.random() < split_p:
                h.ops.append("a")
                if h.tmax is not None and rng.random() < 0.25:
                    # the next store starts by repeating the time the previous one ended with (outside the specification: what
                    # `Encoder::append` does at an equal seam is compared with the model only)
                    h.time(h.tmax)
            t = (h.tmax if h.tmax is not None else t - 1) + rng.choice([1, 1, 1, 2, 10, 1000])
            h.time(t)
        for i in range(len(types)):
            if rng.random() < density:
                h.value(i)
                r2 = rng.random()
                if r2 < 0.15:
                    h.value(i, redundant=True)      # same value again inside the step
                elif r2 < 0.25:
                    h.value(i)                       # several changes in one step
            elif rng.random() < 0.1:
                h.value(i, redundant=True)           # redundant write in a later step
    return h.line()


def gen_payload_threshold(rng, size, compressible):
    """one signal whose block payload is about `size` bytes: 8-bit vector, entries of 2 bytes"""
    h = Hist(rng, ["b8", "b3"])
    t = 0
    n = max(1, size // 2)
    for k in range(n):
        t += 1
        h.time(t)
        if compressible:
            syms = [0] * 7 + [k % 2]
        else:
            syms = [rng.randint(0, 1) for _ in range(8)]
        h.ops.append(f"v0:{hexs(('b' + ''.join(SYMS[v] for v in syms)).encode())}")
        if k == n // 2:
            h.value(1)
    return h.line()


def gen_rollover(rng, nsteps, nsig=2, every=1, splits=(), quiet=False):
    """nsteps accepted time steps (plus some repeated / backwards timestamps) with sparse changes; quiet: no value change in the
    last steps nor right behind a roll-over (a block that holds nothing but time steps)"""
    types = [f"b{rng.choice([1, 4, 9])}" for _ in range(nsig)]
    h = Hist(rng, types)
    t = rng.choice([0, 5])
    ops = h.ops
    acc = 0
    toggle = 0
    while acc < nsteps:
        if acc in splits:
            ops.append("a")
        t += rng.choice([1, 1, 3])
        ops.append(f"t{t}")
        acc += 1
        if acc % every == 0 or (not quiet and (acc > nsteps - 3 or (acc % 65535) in (0, 1, 2, 65534))):
            toggle ^= 1
            for i, tp in enumerate(types):
                w = int(tp[1:])
                if w == 1:
                    ops.append(f"v{i}:{hexs(SYMS[toggle].encode())}")
                else:
                    s = format((acc * 7 + i) % (1 << w), f"0{w}b")
                    ops.append(f"v{i}:{hexs(('b' + s).encode())}")
        r = rng.random()
        near = (acc % 65535) in (0, 1, 65534)
        if quiet:
            r = 0.5
        elif near:
            # repeated / backwards timestamps exactly at (and next to) the block roll-over
            r = rng.choice([0.0, 0.0007, 0.5])
        if r < 0.0005:
            ops.append(f"t{t}")             # repeated timestamp
            toggle ^= 1
            ops.append(f"v0:{hexs(SYMS[toggle].encode() if types[0] == 'b1' else ('b' + format((acc * 5 + 1) % (1 << int(types[0][1:])), '0' + types[0][1:] + 'b')).encode())}")
        elif r < 0.001:
            ops.append(f"t{max(0, t - 2)}")  # backwards (skipped) ...
            ops.append(f"v0:{hexs(b'1' if types[0] == 'b1' else ('b' + '1' * int(types[0][1:])).encode())}")
            ops.append(f"t{t}")             # ... and back to the current maximum
    h.tmax = t
    return h.line()


def gen_gaps(rng, types=None):
    """signals that stay unchanged for long stretches inside one block: deltas of 2^12..2^16 time steps
    (the LEB128 delta / meta packing must not truncate them)"""
    types = types or [rng.choice(["b1", "b2", "b5", "b8", "b33", "g2", "g9", "g16", "r", "s"]) for _ in range(rng.choice([1, 2, 3]))]
    h = Hist(rng, types)
    gaps = [rng.choice([4095, 4096, 8191, 8192, 16383, 16384, 16385, 20000, 32767, 32768, 40000, 65533, 65534]) for _ in range(3)]
    change_at = {0}
    pos = 0
    for g in gaps:
        pos += g
        change_at.add(pos)
        if rng.random() < 0.5:
            change_at.add(pos + 1)
    total = max(change_at) + 2
    t = 0
    for k in range(total):
        t += 1
        h.ops.append(f"t{t}")
        if k in change_at:
            for i in range(len(types)):
                h.value(i)
    h.tmax = t
    return h.line()
