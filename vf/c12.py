"""C12 — the same waveform loads identically from VCD, FST and GHW."""
from . import core, ghwgen, tables
from .c05 import corpus_requests
from .c10 import corpus_pairs

RULE = ("`pairhex <design> <ghw file> <vcd file> <fst file>`: ONE abstract design + waveform (scopes, records, arrays of records, std_ulogic / bit scalars and vectors, enums, integers, reals, "
        "aliases, delta cycles) is written as a GHW file (gen/ghw_writer.py: per-bit records, fs), as a VCD file (gen/vcd_writer.py: text values, 9-state extension characters, "
        "any timescale 1 / 10 / 100 fs .. s that divides the times, shared id codes for aliases) and as an FST file (gen/fst_writer.py: 1..n value-change blocks, snapshot as frame or as records, packed / ASCII / "
        "1-bit record forms, raw / zlib streams, alias handles, any exponent -15..0 that divides the times). All files go through format detection + read_header + read_body + load; the format-independent observation — tree "
        "(names, nesting, order, widths) and per variable the value at every time (time x timescale in fs, last value of a time step, unchanged steps dropped) — of each file must equal "
        "the observation of the design's denotation computed by the Lean specification. `pairfile <x.vcd> <x.vcd.fst>`: every VCD/FST pair of the corpus (vcd2fst output) "
        "through the same observation. non-trivial = at least one variable with a value; distinct = distinct (request, reply)")


def requests(ctx):
    rng = ctx.rng
    quick = ctx.tier == "quick"
    rq = []
    for _ in range(600 if quick else 8000):
        d, g, v, f, _e = ghwgen.gen_triple(rng)
        rq.append(f"pairhex {d} {g.hex()} {v.hex()} {f.hex()}")
    for _ in range(30 if quick else 300):
        d, g, v, f, _e = ghwgen.gen_triple(rng, nitems=rng.choice([15, 30]), nsteps=rng.choice([30, 100]))
        rq.append(f"pairhex {d} {g.hex()} {v.hex()} {f.hex()}")
    return rq


def run(ctx):
    res = ctx.res
    ok = ctx.build()
    if ok:
        tables.regenerate(ctx.wvh)
    proof = core.prove("C12")
    if ok:
        rq = corpus_requests("C12") + requests(ctx) + corpus_pairs(ctx.tier == "quick")
        impl = [("panic" if l.startswith("panic") else ("same" if l.startswith("same:") else l)) for l in ctx.impl(rq)]
        model = ctx.model(rq)
        core.compare_streams(res, rq, impl, model, is_nontrivial=lambda r, i: "=" in i or i == "same",
                             label="observation of the design ~ observation of both files", sample_every=max(1, len(rq) // 6))
        res.count("generated_pairs", sum(1 for r in rq if r.startswith("pairhex")))
        res.count("corpus_pairs", sum(1 for r in rq if r.startswith("pairfile")))
        res.count("spec_applicable", sum(1 for m in model if m.split("\t")[1:2] != ["-"]))
    return core.finish(res, proof, rule=RULE)
