"""C17 — serialised hierarchies and signals survive a round trip (serde1 feature)."""
import glob
import os
from . import core, vcdgen, tables
from .c05 import corpus_requests

RULE = ("`serdert <path>`: Hierarchy and up to 40 Signals of a file are serialised with serde_json, deserialised again, and every observer (recursive walk, names, kinds, indices, "
        "lookups, slice information, enum tables, source locators, change iteration, point queries) is compared before/after (real code). `serdeh/serdes <json>`: the real JSON of the "
        "hierarchy and of signals is parsed by the Lean driver, decoded with the model's ofS and re-encoded with toS; it must reproduce the real JSON exactly (the Lean schema = the derive output). "
        "Sources: corpus VCD/FST/GHW files (slices, enum tables, source locators, VHDL types) and generated VCDs with negative / zero-width bit ranges, reals, strings, 2/4/9-state signals. "
        "non-trivial = the file has at least one signal; distinct = distinct (request, reply)")

SOURCES = ["ghdl/wellen_issue_12.ghw", "ghdl/tb_recv.ghw", "ghdl/oscar/test.ghw", "ghdl/oscar/test2.ghw", "surfer/counter.vcd", "surfer/counter.vcd.fst",
           "nvc/vhdl_test_bool_issue_16.fst", "nvc/overlay_tb_issue_21.fst", "nvc/xwb_fofb_shaper_filt_tb.fst", "ghdl/alu.vcd", "icarus/test1.vcd.fst",
           "amaranth/up_counter.vcd", "specs/tracefile.vcd", "treadle/GCD.vcd.fst", "vcs/datapath_log.vcd", "xilinx_isim/test.vcd"]


def gen_files(ctx):
    rng = ctx.rng
    d = os.path.join(ctx.work, "files")
    os.makedirs(d, exist_ok=True)
    files = []
    for k in range(30 if ctx.tier == "quick" else 300):
        vars_ = vcdgen.gen_vars(rng, nvars=rng.choice([2, 4, 7]), style=rng.choice(["dense", "long"]))
        vars_ = [(i, t if not t.startswith("b") or int(t[1:]) <= 130 else "b33") for i, t in vars_]
        body = vcdgen.gen_body(rng, vars_, nsteps=rng.choice([2, 6, 12]), line_disciplined=True, first_line=b"")
        # every timescale unit incl. unknown ones (`1`, `10 NS`, `1 sec`) and no timescale at all; all scope keywords
        ts = rng.choice(["$timescale 10 ps $end\n", "$timescale 1fs $end\n", "$timescale 100 ns $end\n", "$timescale 1 us $end\n", "$timescale 10ms $end\n",
                         "$timescale 1 s $end\n", "$timescale 1 $end\n", "$timescale 10 NS $end\n", "$timescale 1 sec $end\n", ""])
        skw = rng.choice(["module", "task", "function", "begin", "fork", "generate", "struct", "union", "class", "interface", "package", "program",
                          "vhdl_architecture", "vhdl_record", "vhdl_block", "vhdl_if_generate"])
        hdr = (rng.choice(["$date today $end\n", ""]) + rng.choice(["$version v1 $end\n", ""]) + "$comment hello $end\n" + ts + f"$scope {skw} top $end\n").encode()
        for i, (idb, t) in enumerate(vars_):
            kw, w = ("real", "64") if t == "r" else (("string", "1") if t == "s" else (rng.choice(["wire", "reg", "integer", "logic", "bit", "tri", "wand", "supply0", "time", "parameter", "event", "port"]), t[1:]))
            idx = rng.choice(["", " [3:0]", "[-4:-1]", " [5]", "[0:0]", " [-1]", "[7:0][2:1]", ""])
            hdr += f"$var {kw} {w} ".encode() + idb + f" v{i}{idx} $end\n".encode()
            if i == 1:
                hdr += b"$scope begin inner $end\n"
        if len(vars_) > 1:
            hdr += b"$upscope $end\n"
        hdr += b"$upscope $end\n$enddefinitions $end"
        p = os.path.join(d, f"s{k}.vcd")
        open(p, "wb").write(hdr + body)
        files.append(p)
    return files


def run(ctx):
    res = ctx.res
    ok = ctx.build()
    if ok:
        tables.regenerate(ctx.wvh)
    proof = core.prove("C17")
    if ok:
        base = os.path.join(core.REPO, "wellen/inputs")
        files = [os.path.join(base, s) for s in SOURCES if os.path.exists(os.path.join(base, s)) and os.path.getsize(os.path.join(base, s)) > 0]
        files += gen_files(ctx)
        # names that are not ASCII (multi-byte UTF-8 in scope and variable names, $date / $version): behavioural round trip only
        # (the Lean JSON printer escapes such characters differently from serde_json)
        ufiles = []
        for k, (sc, names) in enumerate([("prüfstand", ["zähler", "größe", "Δt"]), ("top", ["a", "名前", "ü"]), ("Ω", ["x", "y"])]):
            p = os.path.join(ctx.work, "files", f"u{k}.vcd")
            hdr = f"$date Größe {k} $end\n$version vé $end\n$timescale 1ns $end\n$scope module {sc} $end\n"
            ids = "!\"#"
            for i, n in enumerate(names):
                hdr += f"$var wire {4 if i else 1} {ids[i]} {n}{' [3:0]' if i else ''} $end\n"
            hdr += "$scope module inner_ß $end\n$var real 64 % r $end\n$upscope $end\n$upscope $end\n$enddefinitions $end\n"
            body = "#0\n0!\nb0101 \"\nr1.5 %\n#5\n1!\n#7\nbx1 \"\n"
            open(p, "w", encoding="utf-8").write(hdr + body)
            ufiles.append(p)
        # (1) behavioural round trip in the real code
        rq = corpus_requests("C17") + [f"serdert {f}" for f in files + ufiles]
        impl = [("same" if l.startswith("same:") else ("panic" if l.startswith("panic") else l)) for l in ctx.impl(rq)]
        model = ctx.model(rq)
        core.compare_streams(res, rq, impl, model, is_nontrivial=lambda r, i: i == "same",
                             label="real serde_json round trip preserves all observers", sample_every=max(1, len(rq) // 4))
        # (2) the Lean schema reproduces the real JSON
        jrq = []
        for f in files:
            jrq.append(f"serdejson {f} h")
            for k in range(5):
                jrq.append(f"serdejson {f} {k}")
        jsons = ctx.impl(jrq, tag="impl_json")
        rq2 = []
        for r, j in zip(jrq, jsons):
            if j in ("none", "err") or j.startswith("panic"):
                continue
            rq2.append(("serdeh " if r.endswith(" h") else "serdes ") + j)
        model2 = ctx.model(rq2, tag="model_json")
        core.compare_streams(res, rq2, ["eq"] * len(rq2), model2, is_nontrivial=lambda r, i: True,
                             label="Serde.toS ∘ Serde.ofS reproduces the real serde_json output", sample_every=max(1, len(rq2) // 4))
        res.samples = [dict(request=s["request"][:120] + "…", impl=s["impl"], model=s["model"], spec=s["spec"]) for s in res.samples]
        res.count("files", len(files))
        res.count("json_documents", len(rq2))
    return core.finish(res, proof, rule=RULE)
