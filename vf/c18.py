"""C18 — the Python binding reports what the Rust API reports."""
import os
import shutil
import subprocess
from . import core, vcdgen, tables
from .c05 import corpus_requests

RULE = ("generated VCD files (several changes per time step = delta groups, gaps between table entries, first timestamp > 0, vectors of 63..200 bits) are loaded by the real pywellen extension module "
        "under CPython (built from /repo with cargo) and by the Rust API (harness `pydump`); for every variable the Python side reports all_changes(), value_at_idx(i) for "
        "i = 0..len+1, value_at_time(t) for t = entry-1, entry, entry+1 of every table entry, 0 and max+10, and time_table[i] for i = -1, 0, len, -len, every i in -len-3..len+2, -2len-7 and ±1000000. The Lean model of the binding "
        "(on top of the get_offset model) and the latest-at-or-before specification are evaluated on the Rust-side change list. non-trivial = the variable has a change; "
        "distinct = distinct (request, reply)")

PYTARGET = os.path.join(core.BUILD, "pytarget")
PYDIR = os.path.join(core.BUILD, "pywellen")


def build_pywellen():
    env = core.env_for_cargo()
    env["CARGO_TARGET_DIR"] = PYTARGET
    with core.Lock("cargo"):
        p = subprocess.run(["cargo", "build", "-p", "pywellen", "--offline", "--release"], cwd=core.REPO, env=env,
                           capture_output=True, text=True, timeout=3600)
    if p.returncode != 0:
        return False, p.stdout + p.stderr
    os.makedirs(PYDIR, exist_ok=True)
    shutil.copy(os.path.join(PYTARGET, "release", "libpywellen.so"), os.path.join(PYDIR, "pywellen.so"))
    return True, ""


def gen_files(ctx):
    rng = ctx.rng
    d = os.path.join(ctx.work, "files")
    os.makedirs(d, exist_ok=True)
    files = []
    for k in range(40 if ctx.tier == "quick" else 600):
        vars_ = vcdgen.gen_vars(rng, nvars=rng.choice([1, 2, 4]), style="dense")
        vars_ = [(i, t if not t.startswith("b") or int(t[1:]) <= 70 else "b9") for i, t in vars_]
        if k % 4 == 0:
            # wide vectors around the 64-bit boundary and beyond (Python ints are unbounded: every bit must arrive)
            vars_ = [(i, "b" + str(rng.choice([63, 64, 65, 66, 68, 71, 72, 73, 127, 128, 129, 200]))) for i, _ in vars_]
        body = vcdgen.gen_body(rng, vars_, nsteps=rng.choice([1, 3, 6, 12]), line_disciplined=True, first_line=b"",
                               back_p=0.05, rep_p=0.15, comment_p=0.0)
        hdr = b"$timescale 1ns $end\n$scope module top $end\n"
        for i, (idb, t) in enumerate(vars_):
            kw, w = ("real", "64") if t == "r" else (("string", "1") if t == "s" else ("wire", t[1:]))
            hdr += f"$var {kw} {w} ".encode() + idb + f" v{i} $end\n".encode()
        hdr += b"$upscope $end\n$enddefinitions $end"
        p = os.path.join(d, f"f{k}.vcd")
        open(p, "wb").write(hdr + body)
        files.append(p)
    # time tables that are irregular but span exactly (first step) x (entries - 1), evenly spaced ones and two-entry tables:
    # value_at_time must find the entry by its time, not by arithmetic on the spacing
    tables_ = [[0, 10, 15, 30], [100, 104, 105, 106, 107, 120], [0, 5, 6, 15], [3, 6, 7, 8, 15], [0, 10, 20, 30], [7, 9], [0, 1, 2, 3, 4, 5, 6, 21]]
    for _ in range(6 if ctx.tier == "quick" else 60):
        n = rng.randint(3, 9)
        step = rng.randint(2, 12)
        inner = sorted(rng.sample(range(1, step * (n - 1)), n - 2))
        tables_.append([0] + inner + [step * (n - 1)])
    for k, tt in enumerate(tables_):
        lines = ["$timescale 1ns $end", "$scope module top $end", "$var wire 1 ! a $end", "$var wire 8 # b $end", "$upscope $end", "$enddefinitions $end"]
        for j, t in enumerate(tt):
            lines += [f"#{t}", f"{j & 1}!"]
            if j % 2 == 0:
                lines.append(f"b{(j * 37) % 256:08b} #")
        p = os.path.join(d, f"tt{k}.vcd")
        open(p, "w").write("\n".join(lines) + "\n")
        files.append(p)
    return files


def run(ctx):
    res = ctx.res
    ok = ctx.build()
    if ok:
        tables.regenerate(ctx.wvh)
    proof = core.prove("C18")
    if ok:
        okpy, log = build_pywellen()
        if not okpy:
            res.violation("build", dict(what="pywellen does not build from /repo's working tree", log_tail=log[-3000:]), no_input=True)
            return core.finish(res, proof, rule=RULE)
        import glob
        files = sorted(glob.glob(os.path.join(core.ROOT, 'corpus', 'C18', '*.vcd'))) + gen_files(ctx)
        # Rust side
        rust = ctx.impl([f"pydump {f}" for f in files], tag="rust_side")
        # Python side
        pyout = os.path.join(ctx.work, "py.out")
        p = subprocess.run(["python3", os.path.join(core.ROOT, "pyharness", "run_pywellen.py"), PYDIR, pyout] + files,
                           capture_output=True, text=True, timeout=3600)
        if p.returncode != 0:
            res.violation("harness", dict(what="the Python harness failed", log_tail=(p.stdout + p.stderr)[-3000:]), no_input=True)
            return core.finish(res, proof, rule=RULE)
        py = {}
        for line in open(pyout):
            f, name, val = line.rstrip("\n").split("\t")
            py[(f, name)] = val
        rq, impl = [], []
        for f, r in zip(files, rust):
            parts = r.split(" ")
            if not parts[0].startswith("tt="):
                continue
            tt = parts[0][3:]
            for ent in parts[1:]:
                name, dump = ent.split("=", 1)
                dump = dump.replace(":", "=")
                rq.append(f"pyq {tt} {dump}")
                impl.append(py.get((f, name), "missing"))
        model = ctx.model(rq)
        core.compare_streams(res, rq, impl, model, is_nontrivial=lambda r, i: "AC=;" not in i,
                             label="Py model ~ pywellen through CPython", sample_every=max(1, len(rq) // 8))
        res.count("files", len(files))
        res.count("variables", len(rq))
    return core.finish(res, proof, rule=RULE)
