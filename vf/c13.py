"""C13 — a variable aliasing a sub-range of a vector reports exactly that sub-range."""
import itertools
from . import core, storegen, tables
from .c05 import corpus_requests

RULE = ("`slice <width> <ops> <msb> <lsb>`: a parent signal is recorded through the real store (VCD-text or pre-encoded GHW-style writes, mixes of 2/4/9-state values), "
        "loaded, and cut with signals::slice_signal (hook re-export); real code (release AND debug-assertion profile) vs Lean Slice model vs the spec (substring of the parent's "
        "symbols, canon, minimal kind). Quick: parent widths 2..40 x ALL sub-ranges [hi:lo] (exhaustive) x state mixes; random wider parents to 130. "
        "Plus generated GHW files rich in sub-range aliases (`ghw <design> <bytes>`, the three-way comparison of C11: several sub-ranges of one parent, sharing their left or "
        "right bound, nested and overlapping), so that the alias lookup of the GHW loader (find_or_add_alias / register_bit_vec) is covered under this property too. "
        "non-trivial = the slice has at least one change / the file loads; distinct = distinct (request, reply)")


def parent_ops(rng, w, raw, mix):
    h = storegen.Hist(rng, [("g" if raw else "b") + str(w)])
    t = 0
    for k in range(rng.choice([2, 3, 5])):
        t += rng.choice([1, 2])
        h.time(t)
        kind = rng.choice(mix)
        syms = storegen.rand_syms(rng, w, kind, rng.choice(["rand", "rand", "must", "sparse"]))
        if raw:
            st = max(kind, rng.choice(mix))
            h.ops.append(f"n0:{st}:{storegen.hexs(storegen.pack(st, syms))}")
        else:
            h.ops.append(f"v0:{storegen.hexs(storegen.vcd_token(rng, w, syms))}")
        if rng.random() < 0.3:
            # a change that only touches bits outside many sub-ranges
            t += 1
            h.time(t)
            s2 = list(syms)
            s2[rng.randrange(w)] = rng.choice([0, 1] if kind == 0 else [0, 1, 2, 3] if kind == 1 else list(range(9)))
            if raw:
                st = max(kind, rng.choice(mix))
                h.ops.append(f"n0:{st}:{storegen.hexs(storegen.pack(st, s2))}")
            else:
                h.ops.append(f"v0:{storegen.hexs(storegen.vcd_token(rng, w, s2))}")
    return ";".join(h.ops)


MIXES = [[0], [0, 1], [0, 2], [0, 1, 2], [2]]


def requests(ctx):
    rng = ctx.rng
    quick = ctx.tier == "quick"
    rq = []
    for w in (range(2, 41) if quick else range(2, 131)):
        cases = [(rng.random() < 0.5, rng.choice(MIXES)) for _ in range(2 if quick else 3)]
        for raw, mix in cases:
            ops = parent_ops(rng, w, raw, mix)
            for hi in range(w):
                for lo in range(hi + 1):
                    if hi - lo + 1 < w:
                        rq.append(f"slice {w} {ops} {hi} {lo}")
    for _ in range(600 if quick else 6000):
        w = rng.choice([41, 63, 64, 65, 100, 127, 128, 129])
        ops = parent_ops(rng, w, rng.random() < 0.5, rng.choice(MIXES))
        hi = rng.randrange(w)
        lo = rng.randint(0, hi)
        if hi - lo + 1 < w:
            rq.append(f"slice {w} {ops} {hi} {lo}")
    from . import ghwgen
    for _ in range(200 if quick else 2500):
        d, data = ghwgen.gen_case(rng, nitems=rng.choice([4, 8, 12]), nsteps=rng.choice([3, 6]), alias_prob=0.7, allow_structs=False)
        rq.append(f"ghw {d} {data.hex()}")
    return rq


def run(ctx):
    res = ctx.res
    ok = ctx.build(checked=True)
    if ok:
        tables.regenerate(ctx.wvh)
    proof = core.prove("C13")
    if ok:
        rq = corpus_requests("C13") + requests(ctx)
        model = ctx.model(rq)
        for tag, binary in (("release", ctx.wvh), ("checked", ctx.wvh_checked)):
            if binary is None:
                continue
            impl = [("panic" if l.startswith("panic") else l) for l in ctx.impl(rq, tag="impl_" + tag, binary=binary)]
            core.compare_streams(res, rq, impl, model, is_nontrivial=lambda r, i: "=" in i or (r.startswith("ghw") and i.startswith("S(")),
                                 label=f"Slice model ~ slice_signal ({tag} profile)", sample_every=max(1, len(rq) // 6))
            res.count("requests_" + tag, len(rq))
    return core.finish(res, proof, rule=RULE, exhaustive=True,
                       extra_cov=dict(exhaustive_scope="all sub-ranges [hi:lo] of parents of width 2..40 (130 in the thorough tier)"))
