"""C01 — VCD value changes are reported faithfully."""
from . import core, vcdgen, tables
from .c05 import corpus_requests

RULE = ("`vcd <opts> <vars> <realmap> <body>`: a generated header + the body bytes are written to a file and loaded through "
        "simple::read_with_options / read_from_reader (real code); the Lean model runs parse_body -> VcdEncoder -> Store -> load on the same bytes; "
        "the spec is the token interpreter + Spec.run (canon). Generator: dense/offset/sparse/long/weird identifier codes (direct and hashed lookup), aliases, "
        "widths 1..4096, scalar/vector/real/string syntaxes in both cases, shortened vectors, 0b prefix, LF/CRLF/tabs/blank lines, free-form and "
        "line-disciplined layouts, $dumpvars/$dumpoff/$dumpon/$comment blocks, values before the first timestamp, repeated/backwards timestamps, "
        "redundant writes, files that end directly after their last token or with a bare last timestamp (end-of-input flush); plus a malformed stream (spec not applicable, err/panic class compared with the model). "
        "non-trivial = some change loaded; distinct = distinct (request, reply)")


def canon_impl(l):
    if l.startswith("panic:"):
        return "panic"
    if l.startswith("err:"):
        return "err"
    return l


def requests(ctx):
    rng = ctx.rng
    quick = ctx.tier == "quick"
    rq = []
    for _ in range(2000 if quick else 30000):
        vars_ = vcdgen.gen_vars(rng)
        body = vcdgen.gen_body(rng, vars_)
        opts = rng.choice(["st", "st", "st", "rd", "mt:4:prod"])
        rq.append(vcdgen.request(opts, vars_, body))
    for _ in range(600 if quick else 6000):
        vars_ = vcdgen.gen_vars(rng)
        body = vcdgen.malform_body(rng, vars_, vcdgen.gen_body(rng, vars_, nsteps=rng.choice([1, 3, 6])))
        rq.append(vcdgen.request(rng.choice(["st", "rd"]), vars_, body))
    # known-finding witnesses: tokens on the `$enddefinitions` line (F5a), `$dumpall` after time 0 (F24, fixed)
    for _ in range(40 if quick else 400):
        vars_ = vcdgen.gen_vars(rng, style="dense")
        body = vcdgen.gen_body(rng, vars_, first_line=rng.choice([b" #5", b" #0 ", b" $dumpvars"]), values_before_time=False)
        rq.append(vcdgen.request("st", vars_, body))
        body = vcdgen.gen_body(rng, vars_, dumpall_p=0.4, nsteps=6, line_disciplined=True)
        rq.append(vcdgen.request("st", vars_, body))
    # long recordings: variables that stay unchanged for thousands of time steps (time-index deltas of 4 095 .. 9 000 inside a
    # block: the delta shares its word with the value bits) next to one that toggles on every step
    for k in range(3 if quick else 12):
        vars_, body = long_gap_body(rng, 9000 if quick else rng.choice([9000, 20000, 70000]))
        rq.append(vcdgen.request(["st", "rd", "mt:4:prod"][k % 3], vars_, body))
    # a backwards and a repeated timestamp right behind the 65 535th time step (the storage segment rolls over there)
    for opts in (["st"] if quick else ["st", "rd"]):
        vars_, body = long_gap_body(rng, 65_560, glitch_at=65_535)
        rq.append(vcdgen.request(opts, vars_, body))
    return rq


def long_gap_body(rng, nsteps, glitch_at=None):
    vars_ = [(b"!", "b1"), (b"%", "b1"), (b"&", "b8"), (b"'", "b1"), (b"(", "r"), (b")", "b3")]
    out = [b"", b"#0", b"0!", b"0%", b"b00000000 &", b"x'", b"r0.5 (", b"b0z1 )"]
    # change points of the quiet variables: right around 4096 = 2^12 steps after their previous change, and later ones
    quiet = {b"%": [4094, 4095, 4096, 4097, 8193, 8200], b"'": [4096, 8192 + 4096 - 1], b"&": [4097, 4098, 8500],
             b"(": [4096 + rng.randint(0, 3)], b")": [4095 + rng.randint(0, 2), 8700]}
    flip = {i: 0 for i in quiet}
    for t in range(1, nsteps):
        if glitch_at is not None and t == glitch_at:
            # exactly `glitch_at` steps (0 .. glitch_at-1) have been accepted: a backwards step (its changes are left out), then
            # a repetition of the current time (continues the step)
            out += [b"#3", b"1%", b"b11111111 &", b"#%d" % (t - 1), b"1'"]
        out.append(b"#%d" % t)
        out.append(b"%d!" % (t & 1))
        for i, pts in quiet.items():
            if t in pts:
                flip[i] += 1
                if i == b"&":
                    out.append(b"b%s &" % format((flip[i] * 37) % 256, "08b").encode())
                elif i == b"(":
                    out.append(b"r%d.25 (" % flip[i])
                elif i == b")":
                    out.append(b"b%s )" % rng.choice([b"101", b"x1z", b"1"]))
                else:
                    out.append(b"%d" % (flip[i] & 1) + i)
    return vars_, b"\n".join(out) + b"\n"


def nontrivial(rq, reply):
    return reply.startswith("tt=") and "=" in reply.split("|", 1)[-1]


def run(ctx, prop="C01", rule=RULE, reqs=None):
    res = ctx.res
    ok = ctx.build()
    if ok:
        tables.regenerate(ctx.wvh)
    proof = core.prove(prop)
    if ok:
        rq = corpus_requests(prop) + (reqs or requests)(ctx)
        impl = [canon_impl(l) for l in ctx.impl(rq)]
        model = [core.lossy_strings(m) for m in ctx.model(rq)]
        core.compare_streams(res, rq, impl, model, is_nontrivial=nontrivial,
                             label="VcdBody+Store model ~ vcd::read_body", sample_every=max(1, len(rq) // 8))
        res.count("files", len(rq))
        res.count("spec_applicable", sum(1 for m in model if m.split("\t")[1:2] != ["-"]))
        res.count("impl_err", sum(1 for i in impl if i == "err"))
        res.count("impl_panic", sum(1 for i in impl if i == "panic"))
    return core.finish(res, proof, rule=rule)
