"""C10 — FST files load faithfully (wellen's part: SignalWriter; container parsing is the fst-reader dependency)."""
import itertools
import struct
from . import core, storegen, tables
from .c05 import corpus_requests

RULE = ("`fstw <type> <idx=value,...>`: the callback sequence of one signal drives the real fst::SignalWriter (hook) — real code (release and "
        "debug-assertion profile) vs Lean Fst model vs canon of the history. Quick: EVERY order of 2/4/9-state values (all sequences of kinds of length <= 4) x widths 1..24 "
        "(exhaustive), random histories to width 300 with redundant values, reals, strings. "
        "`fstfile <design> <exponent> <file>`: random designs written as whole FST files by gen/fst_writer.py (scopes and variables with kinds / directions / ranges / alias handles, "
        "enum tables + references, GHDL-style VHDL type attributes, path names (ids in no particular order) with declaration / instantiation source stems on scopes, 1..n value-change blocks (a later block may repeat the last time of its predecessor), snapshot as frame or as records, packed / ASCII / 1-bit record forms, raw / zlib "
        "streams, every timescale exponent -15..0) through the real loader; full dump vs the Lean file-level model (callbacks -> SignalWriter model -> pointer-level builder) vs the "
        "design's denotation. `pairfile`: corpus VCD/FST pairs. non-trivial = at least one change; distinct = distinct (request, reply)")

CH = {0: "01", 1: "01xz", 2: "01xzhuwl-"}


def chars_of(rng, w, kind, force=True):
    syms = storegen.rand_syms(rng, w, kind, "must" if (force and w > 1) else "rand")
    if w == 1 and force:
        syms = [rng.randint({0: 0, 1: 2, 2: 4}[kind], {0: 1, 1: 3, 2: 8}[kind])]
    s = "".join(storegen.SYMS[v] for v in syms)
    s = "".join(c.upper() if rng.random() < 0.15 else c for c in s)
    return s.encode().hex()


def fstw_requests(rng, widths, maxlen, nrandom):
    """callback sequences for the real fst::SignalWriter: every order of 2/4/9-state values up to `maxlen` for the widths, plus random
    histories (redundant values, reals, strings)"""
    rq = []
    for w in widths:
        for n in range(1, maxlen + 1):
            for kinds in itertools.product([0, 1, 2], repeat=n):
                parts = []
                t = 0
                for k in kinds:
                    t += rng.choice([0, 1, 1, 2])
                    parts.append(f"{t}={chars_of(rng, w, k)}")
                rq.append(f"fstw b{w} {','.join(parts)}")
    for _ in range(nrandom):
        r = rng.random()
        t = 0
        parts = []
        n = rng.choice([1, 3, 8, 20])
        if r < 0.8:
            w = rng.choice(storegen.WIDTHS)
            last = None
            for _ in range(n):
                t += rng.choice([0, 1, 1, 3])
                if last is not None and rng.random() < 0.25:
                    v = last
                else:
                    v = chars_of(rng, w, rng.choice([0, 0, 1, 2]), force=False)
                last = v
                parts.append(f"{t}={v}")
            rq.append(f"fstw b{w} {','.join(parts)}")
        elif r < 0.9:
            last = None
            for _ in range(n):
                t += rng.choice([0, 1, 2])
                v = struct.pack("<d", rng.choice([0.0, -0.0, 0.0, -0.0, 1.5, -2.0, 1e10, float("nan"), float("inf")])).hex() if (last is None or rng.random() < 0.7) else last
                last = v
                parts.append(f"{t}={v}")
            rq.append(f"fstw r {','.join(parts)}")
        else:
            last = None
            for _ in range(n):
                t += rng.choice([0, 1, 2])
                if rng.random() < 0.2:
                    # values that are not valid UTF-8 (pairwise distinct after the lossy conversion), often emitted again unchanged
                    fresh = rng.choice([b"caf\xe9", b"\xff\xfe", b"a\x80b", b"\xc3(", b"\xe2\x82", b"ok\xf0\x9f"]).hex()
                else:
                    fresh = "".join(rng.choice("abz09 ") for _ in range(rng.choice([0, 1, 4, 30]))).encode().hex() or "-"
                v = fresh if (last is None or rng.random() < 0.6) else last
                last = v
                parts.append(f"{t}={v}")
            rq.append(f"fstw s {','.join(parts)}")
    return rq


def requests(ctx):
    rng = ctx.rng
    quick = ctx.tier == "quick"
    rq = fstw_requests(rng, range(1, 25) if quick else range(1, 41), 4 if quick else 5, 2500 if quick else 25000)
    # whole FST files written from abstract designs (gen/fst_writer.py): hierarchy entries with kinds / directions / ranges / aliases,
    # 1..n value-change blocks, snapshot as frame or as records, packed / ASCII / 1-bit record forms, raw / zlib streams
    from . import ghwgen
    for _ in range(400 if quick else 6000):
        dups = [] if rng.random() < 0.6 else None
        srcs = [] if rng.random() < 0.5 else None
        d, _g, _v, f, e = ghwgen.gen_triple(rng, dups=dups, srcs=srcs)
        # a 5th field lists the time-table positions a later block repeats (the table then holds that time twice), a 6th the source
        # locators the hierarchy attaches to scopes (path names with ids in no particular order)
        rq.append(f"fstfile {d} {e} {f.hex()} {','.join(dups) if dups else '-'} {';'.join(srcs) if srcs else '-'}")
    return rq


PAIR_EXCLUDE = {
    "VCD_file_with_errors.vcd": "malformed on purpose",
    "my-hdl/sigmoid_tb.vcd": "the VCD writes non-real values to a real variable",
    "sigrok/libsigrok.vcd": "the .fst is not an FST file (the repo's detect test ignores it)",
    "surfer/picorv32.vcd": "the FST omits the value of a parameter variable",
    "surfer/verilator_empty_scope.vcd": "vcd2fst artefact: the empty scope name became `$end`",
}


def corpus_pairs(quick):
    import glob
    import os
    base = os.path.join(core.REPO, "wellen/inputs")
    out = []
    for f in sorted(glob.glob(os.path.join(base, "**/*.vcd.fst"), recursive=True)):
        v = f[:-4]
        rel = os.path.relpath(v, base)
        if rel in PAIR_EXCLUDE or not os.path.exists(v) or os.path.getsize(v) == 0:
            continue
        if os.path.getsize(v) > (400_000 if quick else 50_000_000):
            continue
        out.append(f"pairfile {v} {f}")
    return out


def run(ctx):
    res = ctx.res
    ok = ctx.build(checked=True)
    if ok:
        tables.regenerate(ctx.wvh)
    proof = core.prove("C10")
    if ok:
        rq = corpus_requests("C10") + requests(ctx) + corpus_pairs(ctx.tier == "quick")
        model = [core.lossy_strings(m) for m in ctx.model(rq)]
        for tag, binary in (("release", ctx.wvh), ("checked", ctx.wvh_checked)):
            if binary is None:
                continue
            impl = [("panic" if l.startswith("panic") else ("same" if l.startswith("same:") else l))
                    for l in ctx.impl(rq, tag="impl_" + tag, binary=binary)]
            core.compare_streams(res, rq, impl, model, is_nontrivial=lambda r, i: "=" in i or i == "same",
                                 label=f"Fst.runWriter ~ SignalWriter ({tag} profile)", sample_every=max(1, len(rq) // 6))
            res.count("requests_" + tag, len(rq))
    return core.finish(res, proof, rule=RULE, exhaustive=True,
                       extra_cov=dict(exhaustive_scope="all state-kind sequences of length <= 4 x widths 1..24"))
