"""C15 — a truncated VCD loads as a prefix of the complete one."""
from . import core, vcdgen, tables
from .c05 import corpus_requests

RULE = ("`vcdcut <opts> <vars> <realmap> <body> <k> <lb>`: the complete generated file and the file cut after k body bytes are both loaded "
        "(real code, each load under catch_unwind); the reply is `ok` when the truncated load is a prefix of the complete one in the sense of "
        "the property, `err`, or panic; at line boundaries of line-disciplined files the reply is `ok:<loaded waveform>` and must EQUAL the waveform the lines "
        "present denote (token interpreter + Spec.run of the prefix; not demanded where the C01 finding class F5a applies). The Lean model computes the same from its own "
        "loads. EVERY cut offset of every generated body is tried (exhaustive per body), single-threaded path, reader and multi-threaded. "
        "non-trivial = the truncated load succeeds with at least one time step; distinct = distinct (request, reply)")


def canon_impl(l):
    if l.startswith("panic"):
        return "panic"
    if l.startswith("err"):
        return "err"
    if l.startswith("full-panic"):
        return "full-panic"
    if l.startswith("full-err"):
        return "full-err"
    return l


def requests(ctx):
    rng = ctx.rng
    quick = ctx.tier == "quick"
    rq = []
    nbodies = 36 if quick else 400
    for n in range(nbodies):
        vars_ = vcdgen.gen_vars(rng, nvars=rng.choice([1, 2, 3, 4]), style=rng.choice(["dense", "dense", "offset", "long"]))
        vars_ = [(i, t if not t.startswith("b") or int(t[1:]) <= 40 else "b8") for i, t in vars_]
        ld = rng.random() < 0.7
        body = vcdgen.gen_body(rng, vars_, nsteps=rng.choice([2, 4, 7]), line_disciplined=ld, crlf=(rng.random() < 0.15),
                               first_line=b"", comment_p=0.15)
        if len(body) > 700:
            body = body[:700]
        # multi-threaded loads also with chunks shorter than a line (a worker whose whole chunk lies inside one line)
        opts = rng.choice(["st", "st", "rd", "mt:3:64"]) if n % 6 else rng.choice(["mt:2:32", "mt:8:16", "mt:6:8"])
        head = vcdgen.request(opts, vars_, body).split(" ")
        base = " ".join(["vcdcut"] + head[1:])
        for k in range(len(body) + 1):
            # at line-boundary cuts the loaded waveform must be exactly what the lines present denote — for multi-threaded loads
            # too (the driver classifies unsafe hand-overs of the prefix / the complete body as FMT)
            lb = 1 if (ld and (k == 0 or body[k - 1:k] == b"\n")) else 0
            rq.append(f"{base} {k} {lb}")
    return rq


def run(ctx):
    res = ctx.res
    ok = ctx.build()
    if ok:
        tables.regenerate(ctx.wvh)
    proof = core.prove("C15")
    if ok:
        rq = corpus_requests("C15") + requests(ctx)
        impl = [canon_impl(l) for l in ctx.impl(rq)]
        model = ctx.model(rq)
        # multi-threaded loads: err and panic are not distinguishable (rayon may skip chunks after an error)
        impl2, model2 = [], []
        for r, i, m in zip(rq, impl, model):
            if " mt:" in r[:20]:
                i = "fail" if i in ("err", "panic") else i
                parts = m.split("\t")
                parts[0] = "fail" if parts[0] in ("err", "panic") else parts[0]
                if len(parts) > 1 and parts[1] in ("err",):
                    parts[1] = "fail"
                m = "\t".join(parts)
            # line-boundary cuts carry the loaded waveform (`ok:<dump>`); where the exactness specification does not apply
            # (`ok:-`) only the prefix relation is demanded
            parts = m.split("\t")
            if len(parts) > 1 and parts[1] == "ok:-":
                parts[1] = "ok"
                if parts[0].startswith("ok:"):
                    parts[0] = "ok"
                if i.startswith("ok:"):
                    i = "ok"
                m = "\t".join(parts)
            impl2.append(i)
            model2.append(m)
        core.compare_streams(res, rq, impl2, model2, is_nontrivial=lambda r, i: i.startswith("ok"),
                             label="VcdBody model ~ truncated loads", sample_every=max(1, len(rq) // 8))
        res.count("cuts", len(rq))
        for cls in ("ok", "err", "panic", "fail"):
            res.count("impl_" + cls, sum(1 for i in impl2 if i == cls or i.startswith(cls + ":")))
        res.count("line_boundary_exact", sum(1 for i in impl2 if i.startswith("ok:")))
    return core.finish(res, proof, rule=RULE, exhaustive=True,
                       extra_cov=dict(exhaustive_scope="every truncation offset of each generated body"))
