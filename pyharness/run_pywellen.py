#!/usr/bin/env python3
"""Drives the real pywellen extension module (C18). usage: run_pywellen.py <dir with pywellen.so> <out file> <vcd files...>
One line per (file, variable): `<file>\t<full name hex>\tAC=...;VI=...;VT=...;TT=...` in the format of the Lean driver's `pyq`."""
import struct
import sys

sys.path.insert(0, sys.argv[1])
import pywellen  # noqa: E402


def show(v):
    if v is None:
        return "n"
    if isinstance(v, bool):
        return "?"
    if isinstance(v, int):
        return f"i{v}"
    if isinstance(v, float):
        return "f" + struct.pack("<d", v).hex()
    if isinstance(v, str):
        return "s" + v.encode("utf-8").hex()
    return "?"


def opt(v):
    return "-" if v is None else str(v)


def main():
    out = open(sys.argv[2], "w")
    for path in sys.argv[3:]:
        try:
            w = pywellen.Waveform(path, multi_threaded=False)
        except BaseException as e:  # noqa: BLE001
            out.write(f"{path}\t-\terr:{type(e).__name__}\n")
            continue
        tt = []
        while True:
            t = w.time_table[len(tt)]
            if t is None:
                break
            tt.append(t)
        n = len(tt)
        times = []
        for t in [x for tv in tt for x in (max(tv - 1, 0), tv, tv + 1)] + [0, (tt[-1] if tt else 0) + 10]:
            if t not in times:
                times.append(t)
        h = w.hierarchy
        for var in h.all_vars():
            name = var.full_name(h)
            try:
                sig = w.get_signal(var)
                ac = ",".join(f"{t}:{show(v)}" for t, v in sig.all_changes())
                vi = ",".join(show(sig.value_at_idx(i)) for i in range(n + 2))
                vt = ",".join(f"{t}:{show(sig.value_at_time(t))}" for t in times)
                ttq = ",".join(opt(w.time_table[i]) for i in ([-1, 0, n, -n] + list(range(-n - 3, n + 3)) + [-2 * n - 7, -1000000, 1000000]))
                line = f"AC={ac};VI={vi};VT={vt};TT={ttq}"
            except BaseException as e:  # noqa: BLE001  (pyo3 panics surface as BaseException)
                line = f"panic:{type(e).__name__}"
            out.write(f"{path}\t{name.encode('utf-8').hex()}\t{line}\n")
    out.close()


if __name__ == "__main__":
    main()
