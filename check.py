#!/usr/bin/env python3
"""Entry point:  ./check.py <Cxx> [--tier quick|thorough] [--seed n] [--replay file]   |   ./check.py --setup"""
import argparse
import importlib
import json
import os
import sys

sys.path.insert(0, os.path.dirname(os.path.abspath(__file__)))
from vf import core  # noqa: E402


def setup():
    ok1, log1 = core.build_lean(["WellenModel", "wmdriver"])
    print(log1[-2000:])
    core.sync_lockfile()
    ok2, log2, _ = core.build_harness("release")
    print(log2[-2000:])
    ok3, log3, _ = core.build_harness("checked")
    print(log3[-1000:])
    from vf import c18
    ok4, log4 = c18.build_pywellen()
    print(log4[-1000:])
    return 0 if (ok1 and ok2 and ok3 and ok4) else 1


def replay(prop, path):
    """Re-runs the request lines of a replay file against the current tree."""
    data = json.load(open(path))
    ctx = core.Ctx(prop, "quick", data.get("seed", 0))
    core.build_lean(["wmdriver"])
    if not ctx.build():
        print("harness does not build")
        return 1
    rq = data.get("requests") or ([data["request"]] if "request" in data else [])
    if not rq:
        print(json.dumps(data, indent=1)[:4000])
        print("replay file carries no request lines (proof / correspondence name only)")
        return 1
    impl = ctx.impl(rq, tag="replay_impl")
    model = ctx.model(rq, tag="replay_model")
    bad = 0
    for r, i, m in zip(rq, impl, model):
        parts = m.split("\t")
        mo, sp = parts[0], (parts[1] if len(parts) > 1 else "-")
        status = "ok"
        if sp != "-" and i != sp:
            status = "IMPL!=SPEC"
            bad += 1
        elif i != mo:
            status = "IMPL!=MODEL"
            bad += 1
        print(f"{status}\n  request: {r[:400]}\n  impl:    {i[:400]}\n  model:   {mo[:400]}\n  spec:    {sp[:400]}")
    return 1 if bad else 0


def main():
    ap = argparse.ArgumentParser()
    ap.add_argument("prop", nargs="?")
    ap.add_argument("--tier", default=os.environ.get("VERIF_TIER", "quick"))
    ap.add_argument("--replay")
    ap.add_argument("--seed", type=int, default=None, help="PRNG seed (default: $VERIF_SEED or 0)")
    ap.add_argument("--setup", action="store_true")
    a = ap.parse_args()
    if a.setup:
        sys.exit(setup())
    if not a.prop:
        ap.error("property id required")
    if a.replay:
        sys.exit(replay(a.prop, a.replay))
    seed = a.seed if a.seed is not None else int(os.environ.get("VERIF_SEED", "0") or 0)
    tier = a.tier if a.tier in ("quick", "thorough") else "quick"
    mod = importlib.import_module(f"vf.{a.prop.lower()}")
    ctx = core.Ctx(a.prop, tier, seed)
    sys.exit(mod.run(ctx))


if __name__ == "__main__":
    main()
