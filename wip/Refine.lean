import WellenModel.Proofs.Block
import WellenModel.Proofs.TimeTable
import WellenModel.Proofs.SpecPrefix
/-!
# The store refines the abstract waveform (multi-bit VCD vectors, any number of blocks)

Simulation between the encoder (`Store.runOps`: time table bookkeeping, skipping, block roll-over,
per-signal chunk streams, `finish`) and the abstract specification (`Spec.step`): for a signal of
two or more bits written through VCD tokens, the finished store consists of blocks whose chunk
streams for that signal, with their time indices made absolute, are exactly the changes the
specification records — kind = smallest sufficient kind, bytes = the packed symbols.
With `multi_block_load` this gives the loaded signal as a function of the specification's change
list alone (`store_load_vector`).
-/
namespace Wellen.Store
open Wellen.Bits Wellen.Spec

/-! ### the value of a token: encoder and specification agree -/

theorem bitChar_classes : ∀ c : Fin 256, ∀ v, bitCharToNum c.val = some v →
    ((v ≤ 1 ↔ (c.val = 49 ∨ c.val = 48)) ∧ ((¬ v ≤ 1 ∧ v ≤ 3) ↔ (c.val = 120 ∨ c.val = 88 ∨ c.val = 122 ∨ c.val = 90))) := by
  decide +kernel

theorem bitChar_classes' (c v : Nat) (h : bitCharToNum c = some v) :
    ((v ≤ 1 ↔ (c = 49 ∨ c = 48)) ∧ ((¬ v ≤ 1 ∧ v ≤ 3) ↔ (c = 120 ∨ c = 88 ∨ c = 122 ∨ c = 90))) := by
  by_cases hc : c < 256
  · exact bitChar_classes ⟨c, hc⟩ v h
  · rw [bitChar_none_of_ge c (by omega)] at h; cases h

theorem kindOf_pad (k v : Nat) (n0 : List Nat) (h : v = 0 ∨ v ∈ n0) : kindOf (List.replicate k v ++ n0) = kindOf n0 := by
  have key : ∀ (p : Nat → Bool), (v = 0 → p 0 = true) → ((List.replicate k v ++ n0).all p = n0.all p) := by
    intro p hp0
    rw [List.all_append]
    by_cases hn : n0.all p = true
    · rw [hn, Bool.and_true]
      rw [List.all_eq_true]
      intro x hx
      have hx' := (List.mem_replicate.mp hx).2
      rcases h with h | h
      · rw [hx', h]; exact hp0 h
      · rw [hx']; exact List.all_eq_true.mp hn v h
    · have : n0.all p = false := by simpa using hn
      rw [this, Bool.and_false]
  unfold kindOf
  rw [key (· ≤ 1) (fun _ => by decide), key (· ≤ 3) (fun _ => by decide)]

/-- what `add_vcd_change` appends for a token the specification accepts: the chunk of the specification's value -/
theorem addVcd_value (ti : Nat) (value : List Nat) (realLe : Option (List Nat)) (s s' : SigEnc) (bits : Nat)
    (ht : s.tpe = .bitvec bits) (hb : bits ≠ 1) (h : addVcd ti value realLe s = some s')
    (v : Value) (hv : vcdValue (.bitvec bits) value realLe = some v) :
    ∃ nums, v = .bits nums ∧ nums.length = bits ∧ (∀ x ∈ nums, x < 2 ^ (kindOf nums).bits) ∧
      s'.chunks = encChange (ti - s.prevTimeIdx) (kindOf nums) (writeNState (kindOf nums) nums none) :: s.chunks ∧
      s'.prevTimeIdx = ti ∧ s'.tpe = s.tpe ∧ s'.maxStates = States.join s.maxStates (kindOf nums) := by
  unfold addVcd at h
  unfold vcdValue at hv
  cases value with
  | nil => simp at h
  | cons c0 rest =>
    simp only [ht, hb, ↓reduceIte] at h hv
    generalize hvb : (if (if c0 = 98 ∨ c0 = 66 then rest else c0 :: rest).length ≤ 2 then (if c0 = 98 ∨ c0 = 66 then rest else c0 :: rest)
        else if List.take 2 (if c0 = 98 ∨ c0 = 66 then rest else c0 :: rest) = [48, 98] then List.drop 2 (if c0 = 98 ∨ c0 = 66 then rest else c0 :: rest)
        else (if c0 = 98 ∨ c0 = 66 then rest else c0 :: rest)) = vb at h hv
    cases hst : checkStates vb with
    | none => simp [hst] at h
    | some st =>
      simp only [hst] at h
      obtain ⟨n0, hn0, hk⟩ := checkStates_minimal vb st hst
      rw [hn0] at hv
      simp only at hv
      have hl0 : n0.length = vb.length := charsToNums_length vb n0 hn0
      cases hch : (if vb.length = bits then some vb else expandSpecial vb bits) with
      | none => simp [hch] at h
      | some chars =>
        simp only [hch] at h
        cases hn : charsToNums chars with
        | none => simp [hn] at h
        | some nums =>
          simp only [hn] at h
          cases h
          have hlen : chars.length = bits := by
            split at hch
            · cases hch; assumption
            · exact expandSpecial_length vb bits chars hch
          have hnl : nums.length = bits := by rw [charsToNums_length chars nums hn, hlen]
          have hfit : ∀ x ∈ nums, x < 2 ^ (kindOf nums).bits := kindOf_fits nums (charsToNums_lt chars nums hn)
          -- the specification's value is `.bits nums`, and the kind in the header is `kindOf nums`
          suffices hs : v = .bits nums ∧ st = kindOf nums by
            obtain ⟨h1, h2⟩ := hs
            exact ⟨nums, h1, hnl, hfit, by rw [← h2]; rfl, rfl, ht.symm, by rw [← h2]⟩
          split at hch
          · -- full width
            rename_i hfull
            cases hch
            rw [hn0] at hn; cases hn
            cases n0 with
            | nil => simp at hv
            | cons a r =>
              simp only at hv
              have : (a :: r).length = bits := by rw [hl0, hfull]
              simp only [this, ↓reduceIte, Option.some.injEq] at hv
              exact ⟨hv.symm, hk⟩
          · -- short token: expanded
            rename_i hshort
            unfold expandSpecial at hch
            split at hch
            · cases hch
            · rename_i hlt
              cases vb with
              | nil => simp at hch
              | cons c r =>
                simp only at hch
                have hcn : ∃ v0 vs, bitCharToNum c = some v0 ∧ n0 = v0 :: vs := by
                  simp only [charsToNums] at hn0
                  cases hc : bitCharToNum c with
                  | none => simp [hc] at hn0
                  | some v0 =>
                    cases hr : charsToNums r with
                    | none => simp [hc, hr] at hn0
                    | some vs => simp [hc, hr] at hn0; exact ⟨v0, vs, rfl, hn0.symm⟩
                obtain ⟨v0, vs, hc0, hn0'⟩ := hcn
                obtain ⟨cl1, cl2⟩ := bitChar_classes' c v0 hc0
                subst hn0'
                simp only at hv
                have hlen2 : ¬ (v0 :: vs).length = bits := by rw [hl0]; exact hshort
                have hlen3 : ¬ (v0 :: vs).length > bits := by rw [hl0]; omega
                simp only [hlen2, hlen3, ↓reduceIte] at hv
                split at hch
                · rename_i hc01
                  cases hch
                  have h48 : bitCharToNum 48 = some 0 := by decide
                  have := charsToNums_append _ _ _ _ (charsToNums_replicate (bits - (c :: r).length) 48 0 h48) hn0
                  rw [this] at hn; cases hn
                  have hv01 : v0 ≤ 1 := cl1.mpr hc01
                  simp only [hv01, ↓reduceIte, Option.some.injEq] at hv
                  refine ⟨by rw [← hv, hl0], ?_⟩
                  rw [hk, kindOf_pad _ 0 _ (Or.inl rfl)]
                · rename_i hc01
                  split at hch
                  · rename_i hcxz
                    cases hch
                    have := charsToNums_append _ _ _ _ (charsToNums_replicate (bits - (c :: r).length) c v0 hc0) hn0
                    rw [this] at hn; cases hn
                    have hv01 : ¬ v0 ≤ 1 := fun hh => hc01 (cl1.mp hh)
                    have hv23 := cl2.mpr hcxz
                    simp only [hv01, hv23.2, ↓reduceIte, Option.some.injEq] at hv
                    refine ⟨by rw [← hv, hl0], ?_⟩
                    rw [hk, kindOf_pad _ v0 _ (Or.inr (by simp))]
                  · cases hch


/-! ### blocks with absolute time indices -/

abbrev BInfo := BlockDesc × SigEnc × List Change

def offOf (l : List BInfo) : Nat := (l.map (·.1.tt.length)).sum

/-- the changes of all blocks, time indices made absolute (block k shifted by the lengths of the earlier time tables) -/
def absAll : List BInfo → Nat → List Change
  | [], _ => []
  | p :: r, off => absolutise off p.2.2 ++ absAll r (off + p.1.tt.length)

theorem offOf_append (a b : List BInfo) : offOf (a ++ b) = offOf a + offOf b := by
  simp [offOf, List.sum_append]

theorem absAll_append (l1 l2 : List BInfo) : ∀ off, absAll (l1 ++ l2) off = absAll l1 off ++ absAll l2 (off + offOf l1) := by
  induction l1 with
  | nil => intro off; simp [absAll, offOf]
  | cons p r ih =>
    intro off
    simp only [List.cons_append, absAll, ih, List.append_assoc]
    have : off + p.1.tt.length + offOf r = off + offOf (p :: r) := by
      simp only [offOf, List.map_cons, List.sum_cons]; omega
    rw [this]

theorem replayAbs_append (bits : Nat) (sigS : States) (a b : List Change) (acc : Acc) :
    replayAbs bits sigS (a ++ b) acc = replayAbs bits sigS b (replayAbs bits sigS a acc) := by
  simp [replayAbs, List.foldl_append]

theorem replayBlocks_abs (bits : Nat) (sigS : States) (l : List BInfo) : ∀ (off : Nat) (a : Acc),
    replayBlocks bits sigS l off a = replayAbs bits sigS (absAll l off) a := by
  induction l with
  | nil => intro off a; rfl
  | cons p r ih =>
    intro off a
    simp only [replayBlocks, absAll, replayAbs_append, ih, replayFixed_abs]

theorem absolutise_append (a b : List Change) : ∀ p, absolutise p (a ++ b) = absolutise p a ++ absolutise (p + (a.map (·.1)).sum) b := by
  induction a with
  | nil => intro p; simp [absolutise]
  | cons x a ih =>
    intro p
    simp only [List.cons_append, absolutise, ih, List.map_cons, List.sum_cons]
    congr 3
    omega

theorem encStream_append (a b : List Change) : encStream (a ++ b) = encStream a ++ encStream b := by
  simp [encStream]

theorem finishStep_fst (c : Codec) (l : List SigEnc) : ∀ (acc : Array SigEnc × List (Option Nat) × List (List Nat) × Nat),
    (l.foldl (finishStep c) acc).1.toList = acc.1.toList ++ l.map (fun s => (finishSignal c s).1) := by
  induction l with
  | nil => intro acc; simp
  | cons s l ih =>
    intro acc
    simp only [List.foldl_cons, List.map_cons]
    rw [ih]
    cases hf : finishSignal c s with
    | mk s' od => cases od <;> simp [finishStep, hf]

theorem finishSignals_fst (c : Codec) (signals : Array SigEnc) :
    (finishSignals c signals).1.toList = signals.toList.map (fun s => (finishSignal c s).1) := by
  simp only [finishSignals]
  rw [← Array.foldl_toList, finishStep_fst]
  simp

/-- the block description `finish_block` closes -/
def descOf (e : Enc) : BlockDesc := { signals := e.signals, tt := e.timeRev.reverse, t0 := e.timeRev.reverse.headD 0 }

theorem finishBlock_dirty' (c : Codec) (e : Enc) (h : e.hasNewData = true) :
    finishBlock c e = { e with signals := (finishSignals c e.signals).1, timeRev := [e.timeRev.headD 0], timeLen := 1,
                               blocksRev := mkBlock c (descOf e) :: e.blocksRev, hasNewData := false } := by
  simp [finishBlock, h, mkBlock, descOf]


/-! ### the simulation -/

/-- the chunk the specification's change stands for: smallest kind, packed symbols -/
def encV : Nat × Value → Change
  | (k, .bits syms) => (k, kindOf syms, writeNState (kindOf syms) syms none)
  | (k, _) => (k, .two, [])

/-- `SigInBlock` without the payload size bound (that one is a hypothesis about the finished store) -/
def SigInBlock' (bits i : Nat) (p : BInfo) : Prop :=
  p.1.signals.toList[i]? = some p.2.1 ∧ p.2.1.dataBytes = encStream p.2.2 ∧
  (∀ x ∈ p.2.2, x.2.2.length = divCeil bits x.2.1.bib ∧ x.1 < 2 ^ 30)

structure Sim (c : Codec) (bits i : Nat) (e : Enc) (s : Spec.St) (l : List BInfo) (cs : List Change) : Prop where
  inv : Inv e
  wf : s.ttLen = s.ttRev.length
  skip : e.skipping = s.skipping
  head : e.timeRev.head? = s.ttRev.head?
  len : s.ttLen = offOf l + e.timeLen
  cap : e.timeLen ≤ c.blockMax
  blocks : e.blocksRev.reverse = l.map (fun p => mkBlock c p.1)
  inblk : ∀ p ∈ l, SigInBlock' bits i p
  sig : ∃ si, e.signals.toList[i]? = some si ∧ si.tpe = .bitvec bits ∧ si.dataBytes = encStream cs ∧
        si.prevTimeIdx = (cs.map (·.1)).sum ∧ si.prevTimeIdx ≤ e.timeLen - 1
  fits : ∀ x ∈ cs, x.2.2.length = divCeil bits x.2.1.bib ∧ x.1 < 2 ^ 30
  clean : e.hasNewData = false → cs = []
  sem : absAll l 0 ++ absolutise (offOf l) cs = ((s.changesRev.getD i []).reverse).map encV

theorem sim_init (c : Codec) (bits i : Nat) (tps : List SigType) (hi : tps[i]? = some (.bitvec bits)) (hbm : 1 ≤ c.blockMax) :
    Sim c bits i (newEnc tps) { changesRev := (tps.map fun _ => []).toArray } [] [] := by
  refine ⟨(newEnc_inv tps).1, rfl, rfl, rfl, by simp [offOf, newEnc], by simp [newEnc], by simp [newEnc], by simp, ?_, by simp, fun _ => rfl, ?_⟩
  · refine ⟨{ tpe := .bitvec bits }, ?_, rfl, by simp [SigEnc.dataBytes, encStream], by simp, by simp⟩
    simp [newEnc, List.getElem?_map, hi]
  · simp only [absAll, absolutise, List.append_nil]
    have : (Array.getD (tps.map fun _ => ([] : List (Nat × Value))).toArray i []) = [] := by
      simp [Array.getD_eq_getD_getElem?, List.getElem?_map]
      cases tps[i]? <;> simp
    rw [this]; rfl


theorem sim_time (c : Codec) (bits i : Nat) (types : Array SigType) (e : Enc) (s : Spec.St) (l : List BInfo) (cs : List Change)
    (h : Sim c bits i e s l cs) (t : Nat) (s' : Spec.St) (hs : Spec.step types s (.time t) = some s') :
    ∃ l' cs', Sim c bits i (timeChange c e t) s' l' cs' := by
  have hinv := timeChange_inv c e t h.inv
  obtain ⟨si, hsi, htpe, hdata, hprev, hple⟩ := h.sig
  cases hrev : e.timeRev with
  | nil =>
    have hsn : s.ttRev = [] := by
      have := h.head; rw [hrev] at this
      cases hh : s.ttRev with
      | nil => rfl
      | cons a r => rw [hh] at this; simp at this
    simp only [Spec.step, hsn, Option.some.injEq] at hs
    subst hs
    have hl0 : e.timeLen = 0 := by rw [h.inv.len, hrev]; rfl
    have ho : offOf l = 0 := by have := h.len; rw [h.wf, hsn, hl0] at this; simp at this; omega
    have he : timeChange c e t = { e with timeRev := [t], timeLen := 1, hasNewData := true, skipping := false } := by
      simp [timeChange, hrev]
    rw [he] at hinv ⊢
    refine ⟨l, cs, hinv, rfl, rfl, rfl, by simp [ho], ?_, h.blocks, h.inblk, ⟨si, hsi, htpe, hdata, hprev, ?_⟩, h.fits, ?_, h.sem⟩
    · sorry
    · simp only; rw [hl0] at hple; omega
    · intro hf; simp at hf
  | cons prev rest =>
    sorry

end Wellen.Store
