//! C17: `serdert <path>`: serialise Hierarchy + every Signal with serde_json, deserialise, and compare every
//! observer (navigation dump, names/kinds/indices, lookups, slice info, change iteration, point queries).
//! `serdejson <path> <k>`: hex of the canonical JSON of the hierarchy (k = h) or of signal number k.
use crate::dump::*;
use crate::entry::hier_str;
use crate::hier::dump_navigation;
use crate::util::*;
use wellen::{Hierarchy, LoadOptions, Signal, SignalRef};

fn load(path: &str) -> Option<(Hierarchy, Vec<(SignalRef, Signal)>)> {
    let o = LoadOptions { multi_thread: false, remove_scopes_with_empty_name: false };
    let header = wellen::viewers::read_header_from_file(path, &o).ok()?;
    let body = wellen::viewers::read_body(header.body, &header.hierarchy, None).ok()?;
    let h = header.hierarchy;
    let mut refs: Vec<SignalRef> = h.iter_vars().map(|v| v.signal_ref()).collect();
    refs.sort();
    refs.dedup();
    refs.truncate(40);
    let mut source = body.source;
    let sigs = source.load_signals(&refs, &h, false);
    Some((h, sigs))
}

fn hier_observers(h: &Hierarchy) -> String {
    let slices: Vec<String> = (0..h.num_unique_signals())
        .map(|i| match h.get_slice_info(SignalRef::from_index(i).unwrap()) {
            Some(s) => format!("{}:{}:{}", s.msb, s.lsb, s.sliced_signal.index()),
            None => "-".to_string(),
        })
        .collect();
    let enums: Vec<String> = h
        .iter_vars()
        .map(|v| match v.enum_type(h) {
            Some((n, m)) => format!("{n}{m:?}"),
            None => "-".to_string(),
        })
        .collect();
    let types: Vec<String> = h.iter_vars().map(|v| v.vhdl_type_name(h).unwrap_or("-").to_string()).collect();
    let locs: Vec<String> = h
        .iter_scopes()
        .map(|s| format!("{:?}{:?}{:?}", s.source_loc(h), s.instantiation_source_loc(h), s.component(h)))
        .collect();
    format!(
        "{}##{}##{}##{}##{}##{}##{:?}",
        dump_navigation(h),
        hier_str(h),
        slices.join(","),
        enums.join(","),
        types.join(","),
        locs.join(","),
        h.file_format()
    )
}

fn signal_observers(s: &Signal) -> String {
    let mut out = signal_str(s);
    let maxi = s.time_indices().last().cloned().unwrap_or(0) + 2;
    for i in 0..maxi.min(300) {
        match s.get_offset(i) {
            None => out.push_str("|n"),
            Some(d) => out.push_str(&format!(
                "|{}:{}:{}:{:?}:{}",
                d.start,
                d.elements,
                d.time_match,
                d.next_index,
                value_str(&s.get_value_at(&d, d.elements - 1))
            )),
        }
    }
    out
}

pub fn serdert(toks: &[&str]) -> String {
    let (h, sigs) = match load(toks[1]) {
        Some(x) => x,
        None => return "err".to_string(),
    };
    let json = serde_json::to_string(&h).unwrap();
    let h2: Hierarchy = match serde_json::from_str(&json) {
        Ok(x) => x,
        Err(e) => return format!("DIFF:hierarchy does not deserialise: {e}"),
    };
    if hier_observers(&h) != hier_observers(&h2) {
        return "DIFF:hierarchy observers".to_string();
    }
    for (r, s) in sigs.iter() {
        let js = serde_json::to_string(s).unwrap();
        let s2: Signal = match serde_json::from_str(&js) {
            Ok(x) => x,
            Err(e) => return format!("DIFF:signal {} does not deserialise: {e}", r.index()),
        };
        if signal_observers(s) != signal_observers(&s2) {
            return format!("DIFF:signal {} observers", r.index());
        }
    }
    format!("same:{}", sigs.len())
}

pub fn serdejson(toks: &[&str]) -> String {
    let (h, sigs) = match load(toks[1]) {
        Some(x) => x,
        None => return "err".to_string(),
    };
    let v = if toks[2] == "h" {
        serde_json::to_value(&h).unwrap()
    } else {
        let k: usize = toks[2].parse().unwrap();
        match sigs.get(k) {
            Some((_, s)) => serde_json::to_value(s).unwrap(),
            None => return "none".to_string(),
        }
    };
    to_hex(serde_json::to_string(&v).unwrap().as_bytes())
}
