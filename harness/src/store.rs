//! `store <types> <ops>`: drives wavemem::Encoder directly (hook re-export) and dumps what loads.
use crate::dump::*;
use crate::util::*;
use wellen::verif::{Encoder, HierarchyBuilder, States};
use wellen::{FileFormat, Hierarchy, SignalEncoding, SignalRef, VarDirection, VarType};

pub fn mk_hierarchy(types: &str) -> (Hierarchy, Vec<SignalRef>) {
    let mut h = HierarchyBuilder::new(FileFormat::Vcd);
    let mut ids = vec![];
    if types != "-" {
        for (i, t) in types.split(',').enumerate() {
            let name = h.add_string(format!("s{i}"));
            let (enc, vt) = match t.as_bytes()[0] {
                b'r' => (SignalEncoding::Real, VarType::Real),
                b's' => (SignalEncoding::String, VarType::String),
                _ => (
                    SignalEncoding::bit_vec_of_len(t[1..].parse::<u32>().unwrap()),
                    VarType::Wire,
                ),
            };
            let id = SignalRef::from_index(i).unwrap();
            h.add_var(name, vt, enc, VarDirection::Unknown, None, id, None, None);
            ids.push(id);
        }
    }
    (h.finish(), ids)
}

pub fn states_of(n: &str) -> States {
    match n {
        "0" => States::Two,
        "1" => States::Four,
        _ => States::Nine,
    }
}

/// `slice <width> <ops> <msb> <lsb>`: one parent signal, then `slice_signal`
pub fn slice(toks: &[&str]) -> String {
    let types = format!("b{}", toks[1]);
    let (h, ids) = mk_hierarchy(&types);
    let mut enc = Encoder::new(&h);
    if toks[2] != "-" {
        for op in toks[2].split(';') {
            if !apply_op(&mut enc, op) {
                return "bad-request".to_string();
            }
        }
    }
    let (mut source, _tt) = enc.finish();
    let signals = source.load_signals(&ids, &h, false);
    let msb: u32 = toks[3].parse().unwrap();
    let lsb: u32 = toks[4].parse().unwrap();
    let sliced = wellen::verif::slice_signal(SignalRef::from_index(1).unwrap(), &signals[0].1, msb, lsb);
    signal_str(&sliced)
}

fn apply_op(enc: &mut Encoder, op: &str) -> bool {
    let b = op.as_bytes();
    match b[0] {
        b't' => enc.time_change(op[1..].parse::<u64>().unwrap()),
        b'v' => {
            let f: Vec<&str> = op[1..].split(':').collect();
            enc.vcd_value_change(f[0].parse::<u64>().unwrap(), &hex_bytes(f[1]));
        }
        b'n' => {
            let f: Vec<&str> = op[1..].split(':').collect();
            let id = SignalRef::from_index(f[0].parse::<usize>().unwrap()).unwrap();
            enc.raw_value_change(id, &hex_bytes(f[2]), states_of(f[1]));
        }
        _ => return false,
    }
    true
}

pub fn store(toks: &[&str]) -> String {
    let (h, ids) = mk_hierarchy(toks[1]);
    let mut done: Vec<Encoder> = vec![];
    let mut enc = Encoder::new(&h);
    if toks[2] != "-" {
        for op in toks[2].split(';') {
            let b = op.as_bytes();
            match b[0] {
                b't' => enc.time_change(op[1..].parse::<u64>().unwrap()),
                b'v' => {
                    let f: Vec<&str> = op[1..].split(':').collect();
                    enc.vcd_value_change(f[0].parse::<u64>().unwrap(), &hex_bytes(f[1]));
                }
                b'n' => {
                    let f: Vec<&str> = op[1..].split(':').collect();
                    let id = SignalRef::from_index(f[0].parse::<usize>().unwrap()).unwrap();
                    enc.raw_value_change(id, &hex_bytes(f[2]), states_of(f[1]));
                }
                b'f' => {
                    let f: Vec<&str> = op[1..].split(':').collect();
                    let id = SignalRef::from_index(f[0].parse::<usize>().unwrap()).unwrap();
                    let le: [u8; 8] = hex_bytes(f[1]).try_into().unwrap();
                    enc.real_change(id, f64::from_le_bytes(le));
                }
                b'a' => {
                    done.push(std::mem::replace(&mut enc, Encoder::new(&h)));
                }
                _ => return "bad-request".to_string(),
            }
        }
    }
    done.push(enc);
    let mut it = done.into_iter();
    let mut first = it.next().unwrap();
    for other in it {
        first.append(other);
    }
    let (mut source, tt) = first.finish();
    let multi = toks.len() > 3 && toks[3] == "mt";
    let signals = source.load_signals(&ids, &h, multi);
    let mut out = format!("tt={}", nat_list_str(&tt));
    for (_, s) in signals.iter() {
        out.push('|');
        out.push_str(&signal_str(s));
    }
    out
}
