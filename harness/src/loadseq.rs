//! C07: `nsig <path>` and `loadseq <n> <path> <ops>`.
//! The universe is the sorted list of distinct signal refs of the file's variables; ops refer to
//! positions in it: `l:<ids>` load_signals, `m:<ids>` load_signals_multi_threaded, `u:<ids>` unload,
//! `d:<ids>` SignalSource::load_signals called directly (fresh source) returning the ids it yields.
//! After every op the reply lists, per universe position, `L` (loaded and identical to the signal
//! loaded alone in a fresh waveform), `X` (loaded but different) or `-` (not loaded).
use crate::dump::*;
use wellen::simple::Waveform;
use wellen::{LoadOptions, SignalRef};

fn open(path: &str) -> Waveform {
    let o = LoadOptions { multi_thread: false, remove_scopes_with_empty_name: false };
    wellen::simple::read_with_options(path, &o).unwrap()
}

fn universe(w: &Waveform) -> Vec<SignalRef> {
    let mut refs: Vec<SignalRef> = w.hierarchy().iter_vars().map(|v| v.signal_ref()).collect();
    refs.sort();
    refs.dedup();
    // keep the oracle (every signal loaded alone) affordable on large files
    refs.truncate(24);
    refs
}

pub fn nsig(toks: &[&str]) -> String {
    let w = open(toks[1]);
    format!("{}", universe(&w).len())
}

fn ids_of(s: &str, uni: &[SignalRef]) -> Vec<SignalRef> {
    if s == "-" || s.is_empty() {
        return vec![];
    }
    s.split(',').map(|t| uni[t.parse::<usize>().unwrap()]).collect()
}

pub fn loadseq(toks: &[&str]) -> String {
    let n: usize = toks[1].parse().unwrap();
    let path = toks[2];
    let mut w = open(path);
    let uni = universe(&w);
    if uni.len() != n {
        return format!("bad-universe:{}", uni.len());
    }
    // oracle: every signal loaded alone in a fresh waveform
    let alone: Vec<String> = uni
        .iter()
        .map(|r| {
            let mut f = open(path);
            f.load_signals(&[*r]);
            signal_str(f.get_signal(*r).unwrap())
        })
        .collect();
    let mut out: Vec<String> = vec![];
    for op in toks[3].split(';') {
        let (k, rest) = op.split_once(':').unwrap();
        let ids = ids_of(rest, &uni);
        match k {
            "l" => w.load_signals(&ids),
            "m" => w.load_signals_multi_threaded(&ids),
            "u" => w.unload_signals(&ids),
            "d" => {
                // a direct call on a fresh source: which ids come back, in which order, and are they right
                let o = LoadOptions { multi_thread: false, remove_scopes_with_empty_name: false };
                let header = wellen::viewers::read_header_from_file(path, &o).unwrap();
                let body = wellen::viewers::read_body(header.body, &header.hierarchy, None).unwrap();
                let mut source = body.source;
                let res = source.load_signals(&ids, &header.hierarchy, false);
                let mut parts = vec![];
                for (r, s) in res.iter() {
                    let pos = uni.iter().position(|u| u == r).unwrap();
                    let good = signal_str(s) == alone[pos];
                    parts.push(format!("{}{}", pos, if good { "" } else { "!" }));
                }
                out.push(format!("d={}", if parts.is_empty() { "-".to_string() } else { parts.join(",") }));
                continue;
            }
            _ => return "bad-request".to_string(),
        }
        let state: String = uni
            .iter()
            .enumerate()
            .map(|(i, r)| match w.get_signal(*r) {
                None => '-',
                Some(s) => {
                    if signal_str(s) == alone[i] {
                        'L'
                    } else {
                        'X'
                    }
                }
            })
            .collect();
        out.push(state);
    }
    out.join("|")
}
