//! `hier <ops>`: drives the real HierarchyBuilder (hook re-export) and dumps the whole public
//! navigation surface of the finished Hierarchy. ops: `s:<name>:<0|1>` | `v:<name>:<sig>` | `p`, `;`-separated.
use wellen::verif::HierarchyBuilder;
use wellen::{
    FileFormat, GetItem, Hierarchy, HierarchyItem, Scope, ScopeType, SignalEncoding, SignalRef, VarDirection, VarType,
};

/// a variable's key: `<name>` or `<name>@<index>` (declared with a one-bit index)
fn var_key(h: &Hierarchy, v: &wellen::Var) -> String {
    match v.index() {
        Some(i) => format!("{}@{}", v.name(h), i.msb()),
        None => v.name(h).to_string(),
    }
}

fn var_key_full(h: &Hierarchy, v: &wellen::Var) -> String {
    match v.index() {
        Some(i) => format!("{}@{}", v.full_name(h), i.msb()),
        None => v.full_name(h),
    }
}

fn walk(h: &Hierarchy, items: wellen_items::Items, path: &mut Vec<String>, out: &mut String, ls: &mut Vec<String>, lv: &mut Vec<String>, lvi: &mut Vec<String>) {
    let mut first = true;
    for item in items {
        if !first {
            out.push(',');
        }
        first = false;
        match item {
            HierarchyItem::Scope(s) => {
                let name = s.name(h).to_string();
                path.push(name.clone());
                let r = h.lookup_scope(&path[..]);
                ls.push(format!("{}={}", path.join("/"), r.map(|x| x.index().to_string()).unwrap_or("-".into())));
                let mut absent = path.clone();
                absent.push("~none~".to_string());
                ls.push(format!("{}={}", absent.join("/"), h.lookup_scope(&absent[..]).map(|x| x.index().to_string()).unwrap_or("-".into())));
                out.push_str(&format!("S({}){{", name));
                walk(h, wellen_items::Items::Scope(s, h), path, out, ls, lv, lvi);
                out.push('}');
                path.pop();
            }
            HierarchyItem::Var(v) => {
                let name = v.name(h).to_string();
                let key = var_key(h, v);
                out.push_str(&format!("V({},{})", key, v.signal_ref().index()));
                let r = h.lookup_var(&path[..], &name);
                lv.push(format!("{}:{}={}", path.join("/"), key, r.map(|x| x.index().to_string()).unwrap_or("-".into())));
                if let Some(idx) = v.index() {
                    let r = h.lookup_var_with_index(&path[..], &name, &Some(idx));
                    lvi.push(format!("{}:{}={}", path.join("/"), key, r.map(|x| x.index().to_string()).unwrap_or("-".into())));
                    // the same name with another index (<index>9)
                    let other: i64 = format!("{}9", idx.msb()).parse().unwrap();
                    let r = h.lookup_var_with_index(&path[..], &name, &Some(wellen::VarIndex::new(other, other)));
                    lvi.push(format!("{}:{}9={}", path.join("/"), key, r.map(|x| x.index().to_string()).unwrap_or("-".into())));
                }
            }
        }
    }
}

pub mod wellen_items {
    use wellen::{Hierarchy, HierarchyItem, Scope};
    pub enum Items<'a> {
        Top(&'a Hierarchy),
        Scope(&'a Scope, &'a Hierarchy),
    }
    impl<'a> IntoIterator for Items<'a> {
        type Item = HierarchyItem<'a>;
        type IntoIter = Box<dyn Iterator<Item = HierarchyItem<'a>> + 'a>;
        fn into_iter(self) -> Self::IntoIter {
            match self {
                Items::Top(h) => Box::new(h.items()),
                Items::Scope(s, h) => Box::new(s.items(h)),
            }
        }
    }
}

pub fn dump_navigation(h: &Hierarchy) -> String {
    let mut tree = String::new();
    let mut ls = vec![];
    let mut lv = vec![];
    let mut lvi = vec![];
    let mut path = vec![];
    walk(h, wellen_items::Items::Top(h), &mut path, &mut tree, &mut ls, &mut lv, &mut lvi);
    let top_vars: Vec<String> = h.vars().map(|v| var_key(h, h.get(v))).collect();
    let top_scopes: Vec<String> = h.scopes().map(|s| h.get(s).name(h).to_string()).collect();
    let mut sc = vec![format!("<top>[{}|{}]", top_vars.join(","), top_scopes.join(","))];
    for s in h.iter_scopes() {
        let s: &Scope = s;
        let vars: Vec<String> = s.vars(h).map(|v| format!("{}#{}", var_key(h, h.get(v)), v.index())).collect();
        let scopes: Vec<String> = s.scopes(h).map(|c| format!("{}#{}", h.get(c).name(h), c.index())).collect();
        sc.push(format!("{}[{}|{}]", s.full_name(h), vars.join(","), scopes.join(",")));
    }
    let iv: Vec<String> = h.iter_vars().map(|v| var_key_full(h, v)).collect();
    let is: Vec<String> = h.iter_scopes().map(|s| s.full_name(h)).collect();
    let ns = h.num_unique_signals();
    let st: String = (0..ns + 1)
        .map(|i| if h.get_signal_tpe(SignalRef::from_index(i).unwrap()).is_some() { '1' } else { '0' })
        .collect();
    let us: Vec<String> = h
        .get_unique_signals_vars()
        .iter()
        .map(|v| v.as_ref().map(|v| var_key_full(h, v)).unwrap_or("-".to_string()))
        .collect();
    let sigok = h.iter_vars().all(|v| v.signal_ref().index() < ns && h.get_signal_tpe(v.signal_ref()).is_some());
    let fs = h.first_scope().map(|s| s.full_name(h)).unwrap_or("-".to_string());
    format!(
        "T={};SC={};IV={};IS={};LS={};LV={};LVI={};NS={};ST={};US={};OK={};FS={}",
        tree,
        sc.join(" "),
        iv.join(","),
        is.join(","),
        ls.join(" "),
        lv.join(" "),
        lvi.join(" "),
        ns,
        st,
        us.join(","),
        sigok as u8,
        fs
    )
}

pub fn hier(toks: &[&str]) -> String {
    let mut b = HierarchyBuilder::new(FileFormat::Vcd);
    let mut nscopes = 0usize;
    if toks[1] != "-" {
        for op in toks[1].split(';') {
            let f: Vec<&str> = op.split(':').collect();
            match f[0] {
                "s" => {
                    let name = b.add_string(f[1].to_string());
                    // the kind of a scope plays no part in the tree structure (C08: sibling scopes are told apart by name
                    // alone): every add_scope call uses another kind
                    const KINDS: [ScopeType; 5] =
                        [ScopeType::Module, ScopeType::Begin, ScopeType::Struct, ScopeType::VhdlArray, ScopeType::Fork];
                    let kind = KINDS[nscopes % KINDS.len()];
                    nscopes += 1;
                    b.add_scope(name, None, kind, None, None, f[2] == "1");
                }
                "v" => {
                    // `<name>` or `<name>@<index>`
                    let (base, idx) = match f[1].split_once('@') {
                        Some((n, i)) => (n, Some(i.parse::<i64>().unwrap())),
                        None => (f[1], None),
                    };
                    let name = b.add_string(base.to_string());
                    let sig = SignalRef::from_index(f[2].parse::<usize>().unwrap()).unwrap();
                    let index = idx.map(|i| wellen::VarIndex::new(i, i));
                    b.add_var(name, VarType::Wire, SignalEncoding::bit_vec_of_len(1), VarDirection::Unknown, index, sig, None, None);
                }
                "p" => b.pop_scope(),
                _ => return "bad-request".to_string(),
            }
        }
    }
    let h = b.finish();
    dump_navigation(&h)
}
