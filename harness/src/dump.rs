//! canonical text dumps of signals / time tables / hierarchies
use crate::util::*;
use wellen::{Signal, SignalValue};

pub fn value_str(v: &SignalValue) -> String {
    match v {
        SignalValue::Binary(_, _) => format!("B{}", v.to_bit_string().unwrap()),
        SignalValue::FourValue(_, _) => format!("F{}", v.to_bit_string().unwrap()),
        SignalValue::NineValue(_, _) => format!("N{}", v.to_bit_string().unwrap()),
        SignalValue::Real(r) => format!("R{}", to_hex(&r.to_le_bytes())),
        SignalValue::String(s) => format!("S{}", to_hex(s.as_bytes())),
    }
}

/// `idx=value,idx=value,...` or `-`
pub fn signal_str(s: &Signal) -> String {
    let parts: Vec<String> = s
        .iter_changes()
        .map(|(t, v)| format!("{}={}", t, value_str(&v)))
        .collect();
    if parts.is_empty() {
        "-".to_string()
    } else {
        parts.join(",")
    }
}
