//! C05: Signal::get_offset / get_time_idx_at / get_value_at / iter_changes through the public API.
use crate::util::*;
use wellen::{Signal, SignalRef, SignalValue};

fn mk_signal(idx: &[u64]) -> Signal {
    let time_indices: Vec<u32> = idx.iter().map(|x| *x as u32).collect();
    let strings: Vec<String> = (0..idx.len()).map(|i| format!("v{i}")).collect();
    Signal::new_var_len(SignalRef::from_index(0).unwrap(), time_indices, strings)
}

/// getoffset <idx list> <needle>  ->  none | some <start> <elements> <tm> <next|->
pub fn getoffset(toks: &[&str]) -> String {
    let idx = nat_list(toks[1]);
    let needle: u32 = toks[2].parse().unwrap();
    let s = mk_signal(&idx);
    match s.get_offset(needle) {
        None => "none".to_string(),
        Some(d) => format!(
            "some {} {} {} {}",
            d.start,
            d.elements,
            if d.time_match { 1 } else { 0 },
            d.next_index.map(|n| n.get().to_string()).unwrap_or("-".to_string())
        ),
    }
}

/// getoffset_full <idx list> <needle>: in addition checks get_time_idx_at, get_value_at for every
/// element of the group and iter_changes against time_indices; replies `ok <time idx> <v names>`
pub fn getoffset_full(toks: &[&str]) -> String {
    let idx = nat_list(toks[1]);
    let needle: u32 = toks[2].parse().unwrap();
    let s = mk_signal(&idx);
    // iter_changes agrees with time_indices position by position
    let it: Vec<(u32, String)> = s
        .iter_changes()
        .map(|(t, v)| match v {
            SignalValue::String(x) => (t, x.to_string()),
            _ => (t, "?".to_string()),
        })
        .collect();
    let mut iter_ok = it.len() == idx.len() && s.time_indices().len() == idx.len();
    for (p, (t, v)) in it.iter().enumerate() {
        if *t as u64 != idx[p] || *v != format!("v{p}") || s.time_indices()[p] as u64 != idx[p] {
            iter_ok = false;
        }
    }
    // ... also when the iterator is not simply read front to back: resumed after some items, skipped, stepped, `nth` twice
    let name = |v: SignalValue| match v {
        SignalValue::String(x) => x.to_string(),
        _ => "?".to_string(),
    };
    let expect = |ps: Vec<usize>| -> Vec<(u32, String)> { ps.into_iter().filter(|p| *p < idx.len()).map(|p| (idx[p] as u32, format!("v{p}"))).collect() };
    let n = idx.len();
    {
        let mut a = s.iter_changes();
        let _ = a.next();
        let got: Vec<(u32, String)> = a.skip(1).map(|(t, v)| (t, name(v))).collect();
        iter_ok &= got == expect((2..n).collect());
        let got: Vec<(u32, String)> = s.iter_changes().step_by(2).take(n + 2).map(|(t, v)| (t, name(v))).collect();
        iter_ok &= got == expect((0..n).step_by(2).collect());
        let got: Vec<(u32, String)> = s.iter_changes().skip(3).step_by(3).take(n + 2).map(|(t, v)| (t, name(v))).collect();
        iter_ok &= got == expect((3..n).step_by(3).collect());
        let mut b = s.iter_changes();
        let x1 = b.nth(1).map(|(t, v)| (t, name(v)));
        let x2 = b.nth(1).map(|(t, v)| (t, name(v)));
        iter_ok &= x1 == expect(vec![1]).into_iter().next() && x2 == expect(vec![3]).into_iter().next();
        iter_ok &= s.iter_changes().count() == n && s.iter_changes().last().map(|(t, v)| (t, name(v))) == expect(vec![n.wrapping_sub(1)]).into_iter().next();
    }
    match s.get_offset(needle) {
        None => format!("none iter={}", iter_ok as u8),
        Some(d) => {
            let t = s.get_time_idx_at(&d);
            let mut vals = vec![];
            for e in 0..d.elements {
                match s.get_value_at(&d, e) {
                    SignalValue::String(x) => vals.push(x.to_string()),
                    _ => vals.push("?".to_string()),
                }
            }
            format!("some t={} vals={} iter={}", t, vals.join(","), iter_ok as u8)
        }
    }
}
