//! `fstw <type> <idx=hex,...>`: drives the real fst::SignalWriter through the hook
use crate::dump::*;
use crate::util::*;
use wellen::verif::fst::{signal_writer_run, WriterValue};
use wellen::SignalEncoding;

pub fn fstw(toks: &[&str]) -> String {
    let tpe = match toks[1].as_bytes()[0] {
        b'r' => SignalEncoding::Real,
        b's' => SignalEncoding::String,
        _ => SignalEncoding::bit_vec_of_len(toks[1][1..].parse::<u32>().unwrap()),
    };
    let mut store: Vec<(u32, Vec<u8>)> = vec![];
    if toks[2] != "-" {
        for c in toks[2].split(',') {
            let (i, v) = c.split_once('=').unwrap();
            store.push((i.parse::<u32>().unwrap(), hex_bytes(v)));
        }
    }
    let changes: Vec<(u32, WriterValue)> = store
        .iter()
        .map(|(i, v)| {
            if tpe == SignalEncoding::Real {
                (*i, WriterValue::Real(f64::from_le_bytes(v.as_slice().try_into().unwrap())))
            } else {
                (*i, WriterValue::Bits(v))
            }
        })
        .collect();
    signal_str(&signal_writer_run(tpe, &changes))
}
