//! C14: the same file through every entry point.
//! `entryvcd <vars> <realmap> <bodyhex>` (generated VCD) / `entryfile <path>` (any format).
//! Reply: `same:<class>` when all entry points agree (class = ok | err | panic), else `DIFF:<a>!=<b>`.
use crate::dump::*;
use crate::util::*;
use crate::vcdcmd::*;
use std::io::Write;
use std::sync::atomic::AtomicU64;
use std::sync::Arc;
use wellen::simple::Waveform;
use wellen::viewers;
use wellen::{Hierarchy, LoadOptions, SignalRef, WellenError};

fn err_str(e: WellenError) -> String {
    match e {
        WellenError::FailedToLoad(f, _) => format!("err:{f:?}"),
        WellenError::UnknownFileFormat => "err:unknown".to_string(),
        WellenError::Io(_) => "err:io".to_string(),
    }
}

pub fn hier_str(h: &Hierarchy) -> String {
    let mut out = String::new();
    for v in h.iter_vars() {
        out.push_str(&format!(
            "{}:{:?}:{:?}:{:?}:{:?}:{};",
            v.full_name(h),
            v.var_type(),
            v.direction(),
            v.index().map(|i| (i.msb(), i.lsb())),
            v.signal_encoding(),
            v.signal_ref().index()
        ));
    }
    for s in h.iter_scopes() {
        out.push_str(&format!("{}:{:?};", s.full_name(h), s.scope_type()));
    }
    out.push_str(&format!("{:?}|{}|{}", h.timescale(), h.date(), h.version()));
    out
}

fn two_phase_dump<R: std::io::BufRead + std::io::Seek + Send + Sync + 'static>(
    header: wellen::Result<viewers::HeaderResult<R>>,
    progress: bool,
) -> String {
    let header = match header {
        Ok(h) => h,
        Err(e) => return err_str(e),
    };
    let body_len = header.body_len;
    let p = if progress { Some(Arc::new(AtomicU64::new(0))) } else { None };
    let body = match viewers::read_body(header.body, &header.hierarchy, p) {
        Ok(b) => b,
        Err(e) => return err_str(e),
    };
    let h = header.hierarchy;
    let refs: Vec<SignalRef> = h.iter_vars().map(|v| v.signal_ref()).collect();
    let mut source = body.source;
    let sigs = source.load_signals(&refs, &h, false);
    let mut map = std::collections::HashMap::new();
    for (r, s) in sigs {
        map.insert(r, signal_str(&s));
    }
    let mut out = format!("len={}|h={}|tt={}", body_len, hier_str(&h), nat_list_str(&body.time_table));
    for r in refs {
        out.push('|');
        out.push_str(&map[&r]);
    }
    out
}

fn simple_dump(r: wellen::Result<Waveform>, body_len: &str) -> String {
    match r {
        Err(e) => err_str(e),
        Ok(mut w) => {
            let refs: Vec<SignalRef> = w.hierarchy().iter_vars().map(|v| v.signal_ref()).collect();
            w.load_signals(&refs);
            let mut out = format!(
                "len={}|h={}|tt={}",
                body_len,
                hier_str(w.hierarchy()),
                nat_list_str(w.time_table())
            );
            for r in refs {
                out.push('|');
                out.push_str(&signal_str(w.get_signal(r).unwrap()));
            }
            out
        }
    }
}

fn guarded(f: impl FnOnce() -> String + std::panic::UnwindSafe) -> String {
    std::panic::catch_unwind(f).unwrap_or_else(|_| "panic".to_string())
}

pub fn all_entry_points(path: &std::path::Path, threads: usize) -> String {
    let bytes = std::fs::read(path).unwrap();
    let mut results: Vec<(String, String)> = vec![];
    let pool = rayon::ThreadPoolBuilder::new().num_threads(threads).build().unwrap();
    for mt in [false, true] {
        let o = LoadOptions { multi_thread: mt, remove_scopes_with_empty_name: false };
        for progress in [false, true] {
            let p = path.to_path_buf();
            let r = pool.install(|| guarded(move || two_phase_dump(viewers::read_header_from_file(&p, &o), progress)));
            results.push((format!("file2p:mt={mt}:pg={progress}"), r));
            let b = bytes.clone();
            let r = pool.install(|| guarded(move || two_phase_dump(viewers::read_header(std::io::Cursor::new(b), &o), progress)));
            results.push((format!("cursor2p:mt={mt}:pg={progress}"), r));
            let p = path.to_path_buf();
            let r = pool.install(|| {
                guarded(move || {
                    let f = std::io::BufReader::new(std::fs::File::open(&p).unwrap());
                    two_phase_dump(viewers::read_header(f, &o), progress)
                })
            });
            results.push((format!("bufreader2p:mt={mt}:pg={progress}"), r));
        }
    }
    // body length as reported by the two-phase API (the simple API does not expose it)
    let body_len = results[0].1.split('|').next().unwrap_or("").strip_prefix("len=").unwrap_or("?").to_string();
    for mt in [false, true] {
        let o = LoadOptions { multi_thread: mt, remove_scopes_with_empty_name: false };
        let p = path.to_path_buf();
        let bl = body_len.clone();
        let r = pool.install(|| guarded(move || simple_dump(wellen::simple::read_with_options(&p, &o), &bl)));
        results.push((format!("simple_path:mt={mt}"), r));
    }
    let b = bytes.clone();
    let bl = body_len.clone();
    let r = pool.install(|| guarded(move || simple_dump(wellen::simple::read_from_reader(std::io::Cursor::new(b)), &bl)));
    results.push(("simple_cursor".to_string(), r));
    let p = path.to_path_buf();
    let bl = body_len.clone();
    let r = pool.install(|| {
        guarded(move || {
            let f = std::io::BufReader::new(std::fs::File::open(&p).unwrap());
            simple_dump(wellen::simple::read_from_reader(f), &bl)
        })
    });
    results.push(("simple_bufreader".to_string(), r));
    // buffered readers with small capacities: a section marker / token / block header may straddle a refill boundary
    // (capped by the file size: each capacity costs one load)
    let caps: Vec<usize> = if bytes.len() < 200_000 { vec![1, 2, 3, 5, 16, 17, 33, 64, 100, 509, 4096] } else { vec![4096] };
    for cap in caps {
        for progress in [false, true] {
            let p = path.to_path_buf();
            let o = LoadOptions { multi_thread: false, remove_scopes_with_empty_name: false };
            let r = pool.install(|| {
                guarded(move || {
                    let f = std::io::BufReader::with_capacity(cap, std::fs::File::open(&p).unwrap());
                    two_phase_dump(viewers::read_header(f, &o), progress)
                })
            });
            results.push((format!("bufreader2p:cap={cap}:pg={progress}"), r));
        }
        let b = bytes.clone();
        let bl = body_len.clone();
        let r = pool.install(|| {
            guarded(move || simple_dump(wellen::simple::read_from_reader(std::io::BufReader::with_capacity(cap, std::io::Cursor::new(b))), &bl))
        });
        results.push((format!("simple_bufcursor:cap={cap}"), r));
    }
    // the same entry points with the other value of LoadOptions::remove_scopes_with_empty_name: the entry points that take
    // options must agree among themselves (the option changes the hierarchy, so this is a group of its own)
    let mut flat: Vec<(String, String)> = vec![];
    for mt in [false, true] {
        let o = LoadOptions { multi_thread: mt, remove_scopes_with_empty_name: true };
        let progress = mt;
        let p = path.to_path_buf();
        let r = pool.install(|| guarded(move || two_phase_dump(viewers::read_header_from_file(&p, &o), progress)));
        flat.push((format!("file2p:rse:mt={mt}"), r));
        let b = bytes.clone();
        let r = pool.install(|| guarded(move || two_phase_dump(viewers::read_header(std::io::Cursor::new(b), &o), progress)));
        flat.push((format!("cursor2p:rse:mt={mt}"), r));
        let p = path.to_path_buf();
        let r = pool.install(|| {
            guarded(move || {
                let f = std::io::BufReader::new(std::fs::File::open(&p).unwrap());
                two_phase_dump(viewers::read_header(f, &o), progress)
            })
        });
        flat.push((format!("bufreader2p:rse:mt={mt}"), r));
        let p = path.to_path_buf();
        let bl = body_len.clone();
        let r = pool.install(|| guarded(move || simple_dump(wellen::simple::read_with_options(&p, &o), &bl)));
        flat.push((format!("simple_path:rse:mt={mt}"), r));
    }
    for group in [&results, &flat] {
        let (n0, r0) = &group[0];
        for (n, r) in group.iter().skip(1) {
            if r != r0 {
                // errors of different entry points count as the same class
                let c0 = r0.split(':').next().unwrap();
                let c = r.split(':').next().unwrap();
                if (c0 == "err" || c0 == "panic") && c0 == c {
                    continue;
                }
                return format!("DIFF:{n0}!={n}");
            }
        }
    }
    let r0 = &results[0].1;
    let class = if r0.starts_with("err") { "err" } else if r0.starts_with("panic") { "panic" } else { "ok" };
    format!("same:{class}")
}

pub fn entryvcd(toks: &[&str]) -> String {
    let mut bytes = header_for(toks[1]);
    bytes.extend_from_slice(&hex_bytes(toks[3]));
    let path = tmp_dir().join("entry.vcd");
    std::fs::File::create(&path).unwrap().write_all(&bytes).unwrap();
    let r = all_entry_points(&path, 4);
    if !r.starts_with("same:ok") {
        return r;
    }
    // the same file with its scope wrapped into a scope with an empty name (LoadOptions::remove_scopes_with_empty_name matters)
    let h = header_for(toks[1]);
    let pre: &[u8] = b"$timescale 1ns $end\n";
    let post: &[u8] = b"$enddefinitions $end";
    assert!(h.starts_with(pre) && h.ends_with(post));
    let mut bytes: Vec<u8> = pre.to_vec();
    bytes.extend_from_slice(b"$scope module  $end\n");
    bytes.extend_from_slice(&h[pre.len()..h.len() - post.len()]);
    bytes.extend_from_slice(b"$upscope $end\n");
    bytes.extend_from_slice(post);
    bytes.extend_from_slice(&hex_bytes(toks[3]));
    std::fs::File::create(&path).unwrap().write_all(&bytes).unwrap();
    let r2 = all_entry_points(&path, 4);
    if r2.starts_with("DIFF") {
        return format!("{r2}:empty-scope");
    }
    // ... and with a first header command longer than any fixed-size look-ahead a format probe might use
    let mut bytes: Vec<u8> = b"$comment ".to_vec();
    let n = 1000 + (toks[3].len() % 7) * 700;
    bytes.extend(std::iter::repeat(b"banner ".iter().copied()).take(n).flatten());
    bytes.extend_from_slice(b"$end\n");
    bytes.extend_from_slice(&header_for(toks[1]));
    bytes.extend_from_slice(&hex_bytes(toks[3]));
    std::fs::File::create(&path).unwrap().write_all(&bytes).unwrap();
    let r3 = all_entry_points(&path, 4);
    if r3.starts_with("DIFF") || r3 != r { format!("DIFF:long-first-command:{r3}") } else { r }
}

pub fn entryfile(toks: &[&str]) -> String {
    all_entry_points(std::path::Path::new(toks[1]), 4)
}
