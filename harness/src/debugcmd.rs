//! developer helper: `dumpfile <path> <st|mt|cursor>` prints the full dump of one entry point
use crate::vcdcmd::*;
use wellen::LoadOptions;
pub fn dumpfile(toks: &[&str]) -> String {
    let path = std::path::Path::new(toks[1]);
    match toks[2] {
        "st" => result_str(wellen::simple::read_with_options(path, &LoadOptions { multi_thread: false, remove_scopes_with_empty_name: false })),
        "mt" => result_str(wellen::simple::read_with_options(path, &LoadOptions { multi_thread: true, remove_scopes_with_empty_name: false })),
        _ => result_str(wellen::simple::read_from_reader(std::io::Cursor::new(std::fs::read(path).unwrap()))),
    }
}

/// `isfst <hex>`: fst_reader::is_fst_file on a Cursor and on a BufReader<File>
pub fn isfst(toks: &[&str]) -> String {
    use std::io::Write;
    let bytes = crate::util::hex_bytes(toks[1]);
    let path = crate::vcdcmd::tmp_dir().join("isfst.bin");
    std::fs::File::create(&path).unwrap().write_all(&bytes).unwrap();
    let a = fst_reader::is_fst_file(&mut std::io::Cursor::new(bytes.clone()));
    let mut f = std::io::BufReader::new(std::fs::File::open(&path).unwrap());
    let b = fst_reader::is_fst_file(&mut f);
    format!("cursor={a} file={b}")
}

/// `pydump <path>`: the Rust-side view pywellen is compared with: `tt=<list>` then, for every unique
/// signal's variable (the enumeration pywellen's `all_vars` uses), ` <full name hex>=<signal dump>`
pub fn pydump(toks: &[&str]) -> String {
    use wellen::LoadOptions;
    let o = LoadOptions { multi_thread: false, remove_scopes_with_empty_name: false };
    let mut w = match wellen::simple::read_with_options(toks[1], &o) {
        Ok(w) => w,
        Err(_) => return "err".to_string(),
    };
    let vars: Vec<wellen::Var> = w.hierarchy().get_unique_signals_vars().into_iter().flatten().collect();
    let refs: Vec<wellen::SignalRef> = vars.iter().map(|v| v.signal_ref()).collect();
    w.load_signals(&refs);
    let mut out = format!("tt={}", crate::util::nat_list_str(w.time_table()));
    for v in vars.iter() {
        let name = v.full_name(w.hierarchy());
        out.push(' ');
        out.push_str(&crate::util::to_hex(name.as_bytes()));
        out.push('=');
        out.push_str(&crate::dump::signal_str(w.get_signal(v.signal_ref()).unwrap()).replace('=', ":"));
    }
    out
}
