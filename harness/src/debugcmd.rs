//! developer helper: `dumpfile <path> <st|mt|cursor>` prints the full dump of one entry point
use crate::vcdcmd::*;
use wellen::LoadOptions;
pub fn dumpfile(toks: &[&str]) -> String {
    let path = std::path::Path::new(toks[1]);
    match toks[2] {
        "st" => result_str(wellen::simple::read_with_options(path, &LoadOptions { multi_thread: false, remove_scopes_with_empty_name: false })),
        "mt" => result_str(wellen::simple::read_with_options(path, &LoadOptions { multi_thread: true, remove_scopes_with_empty_name: false })),
        _ => result_str(wellen::simple::read_from_reader(std::io::Cursor::new(std::fs::read(path).unwrap()))),
    }
}
