//! `vcd <opts> <vars> <realmap> <bodyhex>`: builds a VCD file (generated header + given body bytes),
//! loads it through the public API and dumps time table + every declared variable's signal.
//! opts: `st` | `mt:<threads>:<minchunk|prod>` | `rd` (read_from_reader over a Cursor)
use crate::dump::*;
use crate::util::*;
use std::io::Write;
use wellen::simple::Waveform;
use wellen::{LoadOptions, SignalRef, WellenError};

pub fn tmp_dir() -> std::path::PathBuf {
    let d = std::path::PathBuf::from(format!("/verif/.build/tmp/{}", std::process::id()));
    std::fs::create_dir_all(&d).unwrap();
    d
}

pub fn header_for(vars: &str) -> Vec<u8> {
    let mut h: Vec<u8> = Vec::new();
    h.extend_from_slice(b"$timescale 1ns $end\n$scope module top $end\n");
    if vars != "-" {
        for (i, v) in vars.split(',').enumerate() {
            let (id, tpe) = v.split_once(':').unwrap();
            let idb = hex_bytes(id);
            let (kw, w) = match tpe.as_bytes()[0] {
                b'r' => ("real", "64".to_string()),
                b's' => ("string", "1".to_string()),
                _ => ("wire", tpe[1..].to_string()),
            };
            h.extend_from_slice(format!("$var {kw} {w} ").as_bytes());
            h.extend_from_slice(&idb);
            h.extend_from_slice(format!(" v{i} $end\n").as_bytes());
        }
    }
    h.extend_from_slice(b"$upscope $end\n$enddefinitions $end");
    h
}

pub fn dump_wave(mut wave: Waveform) -> String {
    let refs: Vec<SignalRef> = wave.hierarchy().iter_vars().map(|v| v.signal_ref()).collect();
    wave.load_signals(&refs);
    let tt: Vec<u64> = wave.time_table().to_vec();
    let mut out = format!("tt={}", nat_list_str(&tt));
    for r in refs.iter() {
        out.push('|');
        out.push_str(&signal_str(wave.get_signal(*r).unwrap()));
    }
    out
}

pub fn result_str(r: wellen::Result<Waveform>) -> String {
    match r {
        Ok(w) => dump_wave(w),
        Err(WellenError::FailedToLoad(f, _)) => format!("err:{f:?}"),
        Err(WellenError::UnknownFileFormat) => "err:unknown".to_string(),
        Err(WellenError::Io(_)) => "err:io".to_string(),
    }
}

pub fn load_with(opts: &str, file: &std::path::Path, bytes: &[u8]) -> String {
    let f: Vec<&str> = opts.split(':').collect();
    match f[0] {
        "st" => {
            let o = LoadOptions { multi_thread: false, remove_scopes_with_empty_name: false };
            result_str(wellen::simple::read_with_options(file, &o))
        }
        "rd" => result_str(wellen::simple::read_from_reader(std::io::Cursor::new(bytes.to_vec()))),
        "mt" => {
            let threads: usize = f[1].parse().unwrap();
            let minchunk: Option<usize> = if f[2] == "prod" { None } else { Some(f[2].parse().unwrap()) };
            let pool = rayon::ThreadPoolBuilder::new().num_threads(threads).build().unwrap();
            let file = file.to_path_buf();
            pool.install(move || {
                wellen::verif::vcd::set_min_chunk_size(minchunk);
                let o = LoadOptions { multi_thread: true, remove_scopes_with_empty_name: false };
                let r = result_str(wellen::simple::read_with_options(&file, &o));
                wellen::verif::vcd::set_min_chunk_size(None);
                r
            })
        }
        _ => "bad-request".to_string(),
    }
}

pub fn vcd(toks: &[&str]) -> String {
    let mut bytes = header_for(toks[2]);
    bytes.extend_from_slice(&hex_bytes(toks[4]));
    let path = tmp_dir().join("case.vcd");
    {
        let mut f = std::fs::File::create(&path).unwrap();
        f.write_all(&bytes).unwrap();
    }
    load_with(toks[1], &path, &bytes)
}

/// `chunks <threads> <body_len>`: the production `determine_thread_chunks` inside a pool of the given size.
/// Reply `covers=<bool>;<start>:<len>,...` where covers = the chunks are contiguous from 0 and reach the end of the body.
pub fn chunks(toks: &[&str]) -> String {
    let threads: usize = toks[1].parse().unwrap();
    let n: usize = toks[2].parse().unwrap();
    let pool = rayon::ThreadPoolBuilder::new().num_threads(threads).build().unwrap();
    let cs = pool.install(|| {
        wellen::verif::vcd::set_min_chunk_size(None);
        wellen::verif::vcd::determine_thread_chunks(n)
    });
    let mut pos = 0usize;
    let mut contiguous = !cs.is_empty();
    for (s, l) in cs.iter() {
        if *s != pos {
            contiguous = false;
        }
        pos = s + l;
    }
    let covers = contiguous && pos >= n && cs.len() <= std::cmp::max(1, threads);
    format!("covers={};{}", covers, cs.iter().map(|(s, l)| format!("{s}:{l}")).collect::<Vec<_>>().join(","))
}
