//! `tables`: exhaustive graphs of the finite-domain functions the Lean theorems rest on, as one JSON line.
use wellen::verif;
use wellen::verif::States;

fn st(s: States) -> u8 {
    s as u8
}

pub fn tables(toks: &[&str]) -> String {
    let mut m = serde_json::Map::new();
    // bit_char_to_num on all 256 bytes (-1 = None)
    let b: Vec<i64> = (0..=255u8)
        .map(|c| verif::bit_char_to_num(c).map(|v| v as i64).unwrap_or(-1))
        .collect();
    m.insert("bit_char_to_num".into(), serde_json::json!(b));
    // rendering of every symbol number by n_state_to_bit_string (1-symbol vectors)
    let mut lookups = vec![];
    for (s, n) in [(States::Two, 2u8), (States::Four, 4u8), (States::Nine, 9u8)] {
        let chars: Vec<u32> = (0..n)
            .map(|v| {
                let r = verif::signals::n_state_to_bit_string(s, &[v], 1);
                r.chars().next().unwrap() as u32
            })
            .collect();
        lookups.push(chars);
    }
    m.insert("state_lookup".into(), serde_json::json!(lookups));
    let fv: Vec<u8> = (0..16u8).map(|v| st(verif::wavemem::states_from_value(v))).collect();
    m.insert("states_from_value".into(), serde_json::json!(fv));
    m.insert("std_logic_lut".into(), serde_json::json!(verif::ghw::STD_LOGIC_LUT.to_vec()));
    m.insert("std_logic_values".into(), serde_json::json!(verif::ghw::STD_LOGIC_VALUES.to_vec()));
    m.insert("min_size_to_compress".into(), serde_json::json!(verif::wavemem::MIN_SIZE_TO_COMPRESS));
    m.insert("block_time_idx_max".into(), serde_json::json!(verif::wavemem::BLOCK_TIME_IDX_MAX));
    m.insert("min_chunk_size".into(), serde_json::json!(verif::vcd::MIN_CHUNK_SIZE));
    // keyword tables: the candidate words are passed in by the translator (parsed from the match arms
    // of the current source plus the standard keyword lists); the classification is the real function's
    let mut scope = serde_json::Map::new();
    let mut var = serde_json::Map::new();
    let mut unit = serde_json::Map::new();
    let mut cmds = serde_json::Map::new();
    for w in toks.iter().skip(1) {
        let wb = w.as_bytes();
        scope.insert(w.to_string(), match verif::vcd::convert_scope_tpe(wb) {
            Some(t) => serde_json::json!(format!("{t:?}")),
            None => serde_json::Value::Null,
        });
        var.insert(w.to_string(), match verif::vcd::convert_var_tpe(wb) {
            Some(t) => serde_json::json!(format!("{t:?}")),
            None => serde_json::Value::Null,
        });
        unit.insert(w.to_string(), serde_json::json!(format!("{:?}", verif::vcd::convert_timescale_unit(wb))));
        cmds.insert(w.to_string(), serde_json::json!(verif::vcd::is_vcd_command(wb)));
    }
    m.insert("scope_kw".into(), serde_json::Value::Object(scope));
    m.insert("var_kw".into(), serde_json::Value::Object(var));
    m.insert("unit_kw".into(), serde_json::Value::Object(unit));
    m.insert("vcd_cmd".into(), serde_json::Value::Object(cmds));
    serde_json::Value::Object(m).to_string()
}
