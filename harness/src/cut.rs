//! `vcdcut <opts> <vars> <realmap> <fullbodyhex> <k> <lb>`: loads the complete file and the file cut
//! after k body bytes; replies `ok` when the truncated load is a prefix of the complete one in the
//! sense of property C15 (`lb=1`: the cut is at a line boundary and the stronger relation is required),
//! `err` when the truncated load returns an error, `BAD:<why>` otherwise.
use crate::util::*;
use crate::vcdcmd::*;
use std::io::Write;

type Dump = (Vec<u64>, Vec<Vec<(u64, String)>>);

pub fn parse_dump(d: &str) -> Option<Dump> {
    let mut parts = d.split('|');
    let tt = parts.next()?.strip_prefix("tt=")?;
    let tt = nat_list(tt);
    let mut sigs = vec![];
    for p in parts {
        let mut l = vec![];
        if p != "-" {
            for e in p.split(',') {
                let (i, v) = e.split_once('=')?;
                l.push((i.parse::<u64>().ok()?, v.to_string()));
            }
        }
        sigs.push(l);
    }
    Some((tt, sigs))
}

/// the C15 relation between the truncated (p) and the complete (f) load
pub fn relation(p: &Dump, f: &Dump, line_boundary: bool) -> String {
    let (ptt, psig) = p;
    let (ftt, fsig) = f;
    if psig.len() != fsig.len() {
        return "BAD:vars".to_string();
    }
    let n = ptt.len();
    let keep = if line_boundary { n } else { n.saturating_sub(1) };
    if keep > ftt.len() || ptt[..keep] != ftt[..keep] {
        return "BAD:tt".to_string();
    }
    let last = n.saturating_sub(1) as u64;
    for (ps, fs) in psig.iter().zip(fsig.iter()) {
        let pb: Vec<_> = ps.iter().filter(|(i, _)| n > 0 && *i < last).collect();
        let fb: Vec<_> = fs.iter().filter(|(i, _)| n > 0 && *i < last).collect();
        if pb != fb {
            return "BAD:changes".to_string();
        }
        if line_boundary {
            // the changes of the last time step present must be a prefix of the complete file's
            let pl: Vec<_> = ps.iter().filter(|(i, _)| *i == last).collect();
            let fl: Vec<_> = fs.iter().filter(|(i, _)| *i == last).collect();
            if pl.len() > fl.len() || pl[..] != fl[..pl.len()] {
                return "BAD:last-step".to_string();
            }
        }
    }
    "ok".to_string()
}

thread_local! {
    static FULL_CACHE: std::cell::RefCell<(String, String)> = std::cell::RefCell::new((String::new(), String::new()));
}

pub fn vcdcut(toks: &[&str]) -> String {
    let key = format!("{} {} {}", toks[1], toks[2], toks[4]);
    let header = header_for(toks[2]);
    let body = hex_bytes(toks[4]);
    let k: usize = toks[5].parse().unwrap();
    let lb = toks[6] == "1";
    let full = FULL_CACHE.with(|c| {
        let c = c.borrow();
        if c.0 == key { Some(c.1.clone()) } else { None }
    });
    let full = match full {
        Some(f) => f,
        None => {
            let mut bytes = header.clone();
            bytes.extend_from_slice(&body);
            let path = tmp_dir().join("full.vcd");
            std::fs::File::create(&path).unwrap().write_all(&bytes).unwrap();
            let r = std::panic::catch_unwind(|| load_with(toks[1], &path, &bytes)).unwrap_or("panic".to_string());
            FULL_CACHE.with(|c| *c.borrow_mut() = (key, r.clone()));
            r
        }
    };
    let fd = match parse_dump(&full) {
        Some(d) => d,
        None => return format!("full-{}", full.split(':').next().unwrap()),
    };
    let mut bytes = header;
    bytes.extend_from_slice(&body[..k]);
    let path = tmp_dir().join("cut.vcd");
    std::fs::File::create(&path).unwrap().write_all(&bytes).unwrap();
    let r = load_with(toks[1], &path, &bytes);
    match parse_dump(&r) {
        Some(pd) => {
            let rel = relation(&pd, &fd, lb);
            // at a line boundary the load must be EXACTLY the waveform of the lines present: report it
            if rel == "ok" && lb {
                format!("ok:{}", r)
            } else {
                rel
            }
        }
        None => r.split(':').next().unwrap().to_string(),
    }
}
