//! C11/C12: `ghw <design tokens> <filehex>` loads the bytes (format detection + header + body) and dumps the
//! waveform canonically: tree with kinds / names / directions / encodings / ranges / canonical signal numbers /
//! type names / enum tables and every variable's change list, the time table and the timescale.
//! `wavedump <filehex>` is the format-independent part of the same dump (C12).
use crate::dump::*;
use crate::util::*;
use std::collections::HashMap;
use wellen::viewers;
use wellen::{Hierarchy, HierarchyItem, LoadOptions, SignalEncoding, SignalRef, WellenError};

fn enc_str(e: SignalEncoding) -> String {
    match e {
        SignalEncoding::String => "S".to_string(),
        SignalEncoding::Real => "R".to_string(),
        SignalEncoding::BitVector(l) => format!("B{}", l.get()),
    }
}

struct Ctx<'a> {
    h: &'a Hierarchy,
    sigs: HashMap<SignalRef, String>,
    canon: HashMap<SignalRef, usize>,
    full: bool,
}

fn walk<'a>(c: &mut Ctx<'a>, items: impl Iterator<Item = HierarchyItem<'a>>, out: &mut String) {
    let h = c.h;
    let mut first = true;
    for item in items {
        if !first {
            out.push(',');
        }
        first = false;
        match item {
            HierarchyItem::Scope(s) => {
                if c.full {
                    out.push_str(&format!("S({:?},{})", s.scope_type(), hex_or_dash(s.name(h).as_bytes())));
                } else {
                    out.push_str(&format!("S({})", hex_or_dash(s.name(h).as_bytes())));
                }
                out.push('{');
                walk(c, s.items(h), out);
                out.push('}');
            }
            HierarchyItem::Var(v) => {
                let n = c.canon.len();
                let sig = *c.canon.entry(v.signal_ref()).or_insert(n);
                let changes = c.sigs.get(&v.signal_ref()).cloned().unwrap_or("?".to_string());
                if c.full {
                    let en = match v.enum_type(h) {
                        None => "-".to_string(),
                        Some((name, lits)) => format!(
                            "{}[{}]",
                            hex_or_dash(name.as_bytes()),
                            lits.iter().map(|(a, b)| format!("{}:{}", a, hex_or_dash(b.as_bytes()))).collect::<Vec<_>>().join(";")
                        ),
                    };
                    out.push_str(&format!(
                        "V({:?},{},{:?},{},{},{},{},{},{})",
                        v.var_type(),
                        hex_or_dash(v.name(h).as_bytes()),
                        v.direction(),
                        enc_str(v.signal_encoding()),
                        v.index().map(|i| format!("{}:{}", i.msb(), i.lsb())).unwrap_or("-".to_string()),
                        sig,
                        v.vhdl_type_name(h).map(|t| hex_or_dash(t.as_bytes())).unwrap_or("-".to_string()),
                        en,
                        changes
                    ));
                } else {
                    out.push_str(&format!("V({},{},{},{})", hex_or_dash(v.name(h).as_bytes()), enc_str(v.signal_encoding()), sig, changes));
                }
            }
        }
    }
}

fn hex_or_dash(b: &[u8]) -> String {
    if b.is_empty() {
        "-".to_string()
    } else {
        to_hex(b)
    }
}

fn changes_str(s: &wellen::Signal) -> String {
    let parts: Vec<String> = s.iter_changes().map(|(t, v)| format!("{}={}", t, value_str(&v))).collect();
    if parts.is_empty() {
        "-".to_string()
    } else {
        parts.join("/")
    }
}

pub fn wave_dump(bytes: Vec<u8>, full: bool) -> String {
    let o = LoadOptions { multi_thread: false, remove_scopes_with_empty_name: false };
    let header = match viewers::read_header(std::io::Cursor::new(bytes), &o) {
        Ok(h) => h,
        Err(e) => {
            if std::env::var("WVH_DEBUG").is_ok() {
                eprintln!("header error: {e:?}");
            }
            return match e {
                WellenError::FailedToLoad(_, _) | WellenError::UnknownFileFormat | WellenError::Io(_) => "err".to_string(),
            };
        }
    };
    let body = match viewers::read_body(header.body, &header.hierarchy, None) {
        Ok(b) => b,
        Err(e) => {
            if std::env::var("WVH_DEBUG").is_ok() {
                eprintln!("body error: {e:?}");
            }
            return "err".to_string();
        }
    };
    let h = header.hierarchy;
    let mut refs: Vec<SignalRef> = h.iter_vars().map(|v| v.signal_ref()).collect();
    refs.sort();
    refs.dedup();
    let mut source = body.source;
    let mut sigs = HashMap::new();
    for (r, s) in source.load_signals(&refs, &h, false) {
        sigs.insert(r, changes_str(&s));
    }
    let mut c = Ctx { h: &h, sigs, canon: HashMap::new(), full };
    let mut out = String::new();
    walk(&mut c, h.items(), &mut out);
    let ts = h.timescale().map(|t| format!("{}:{:?}", t.factor, t.unit)).unwrap_or("-".to_string());
    // source locators of scopes (FST): `<full name>:<declaration>/<instantiation>`, only when there are any
    let hx = |s: &str| s.as_bytes().iter().map(|b| format!("{b:02x}")).collect::<String>();
    let mut srcs = vec![];
    for sc in h.iter_scopes() {
        let d = sc.source_loc(&h);
        let i = sc.instantiation_source_loc(&h);
        if d.is_some() || i.is_some() {
            let f = |l: Option<(&str, u64)>| l.map(|(p, n)| format!("{}@{}", hx(p), n)).unwrap_or("-".to_string());
            srcs.push(format!("{}:{}/{}", hx(&sc.full_name(&h)), f(d), f(i)));
        }
    }
    let src = if srcs.is_empty() { String::new() } else { format!("|src={}", srcs.join(";")) };
    format!("{}|tt={}|ts={}{}", out, nat_list_str(&body.time_table), ts, src)
}

pub fn ghw(toks: &[&str]) -> String {
    wave_dump(hex_bytes(toks[2]), true)
}

pub fn wavedump(toks: &[&str]) -> String {
    wave_dump(hex_bytes(toks[1]), false)
}

// ---------------------------------------------------------------------------------------------
// C12: the format-independent observation of a waveform: tree (names, nesting, order, widths) and, per
// variable, the value at every time (time in fs; the last value of a time step; unchanged steps dropped)

fn scale_fs(h: &Hierarchy) -> u128 {
    use wellen::TimescaleUnit::*;
    match h.timescale() {
        None => 1,
        Some(ts) => {
            let exp = match ts.unit {
                FemtoSeconds => 0,
                PicoSeconds => 3,
                NanoSeconds => 6,
                MicroSeconds => 9,
                MilliSeconds => 12,
                Seconds => 15,
                Unknown => 0,
            };
            ts.factor as u128 * 10u128.pow(exp)
        }
    }
}

fn obs_changes(s: &wellen::Signal, tt: &[u64], sc: u128) -> String {
    let mut out: Vec<(u128, String)> = vec![];
    for (idx, v) in s.iter_changes() {
        let t = tt[idx as usize] as u128 * sc;
        let vs = match v {
            wellen::SignalValue::Real(r) => format!("r{:016x}", r.to_bits()),
            wellen::SignalValue::String(s) => format!("s{}", to_hex(s.as_bytes())),
            other => other.to_bit_string().unwrap(),
        };
        if let Some(last) = out.last_mut() {
            if last.0 == t {
                last.1 = vs;
                continue;
            }
        }
        out.push((t, vs));
    }
    let mut canon: Vec<String> = vec![];
    let mut prev: Option<String> = None;
    for (t, v) in out {
        if prev.as_ref() != Some(&v) {
            canon.push(format!("{t}={v}"));
            prev = Some(v);
        }
    }
    if canon.is_empty() {
        "-".to_string()
    } else {
        canon.join("/")
    }
}

fn obs_walk<'a>(h: &'a Hierarchy, sigs: &HashMap<SignalRef, String>, items: impl Iterator<Item = HierarchyItem<'a>>, out: &mut String) {
    let mut first = true;
    for item in items {
        if !first {
            out.push(',');
        }
        first = false;
        match item {
            HierarchyItem::Scope(s) => {
                out.push_str(&format!("S({})", hex_or_dash(s.name(h).as_bytes())));
                out.push('{');
                obs_walk(h, sigs, s.items(h), out);
                out.push('}');
            }
            HierarchyItem::Var(v) => {
                let w = match v.signal_encoding() {
                    SignalEncoding::String => "string".to_string(),
                    SignalEncoding::Real => "real".to_string(),
                    SignalEncoding::BitVector(l) => l.get().to_string(),
                };
                out.push_str(&format!(
                    "V({},{},{})",
                    hex_or_dash(v.name(h).as_bytes()),
                    w,
                    sigs.get(&v.signal_ref()).cloned().unwrap_or("?".to_string())
                ));
            }
        }
    }
}

pub fn observe(bytes: Vec<u8>) -> String {
    let o = LoadOptions { multi_thread: false, remove_scopes_with_empty_name: false };
    let header = match viewers::read_header(std::io::Cursor::new(bytes), &o) {
        Ok(h) => h,
        Err(_) => return "err".to_string(),
    };
    let body = match viewers::read_body(header.body, &header.hierarchy, None) {
        Ok(b) => b,
        Err(_) => return "err".to_string(),
    };
    let h = header.hierarchy;
    let mut refs: Vec<SignalRef> = h.iter_vars().map(|v| v.signal_ref()).collect();
    refs.sort();
    refs.dedup();
    let sc = scale_fs(&h);
    let mut source = body.source;
    let mut sigs = HashMap::new();
    for (r, s) in source.load_signals(&refs, &h, false) {
        sigs.insert(r, obs_changes(&s, &body.time_table, sc));
    }
    let mut out = String::new();
    obs_walk(&h, &sigs, h.items(), &mut out);
    // the time table in fs (C12: the same time table up to the files' timescales)
    out.push_str("|tt=");
    out.push_str(&body.time_table.iter().map(|t| ((*t as u128) * sc).to_string()).collect::<Vec<_>>().join(","));
    out
}

/// `pairhex <design> <file hex>...`: the observations of all files joined by `#`
pub fn pairhex(toks: &[&str]) -> String {
    toks[2..].iter().map(|h| observe(hex_bytes(h))).collect::<Vec<_>>().join("#")
}
