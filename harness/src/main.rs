//! `wvh` — line-protocol server around the real wellen code.
//! One request per line on stdin, one reply per line on stdout. Every request runs under
//! `catch_unwind`; a panic is reported as `panic:<class>` where the class is derived from the
//! panic message prefix / source file (never a line number).
use std::io::{BufRead, Write};
use std::panic::{catch_unwind, AssertUnwindSafe};

mod util;
mod c05;
mod tables;
mod dump;
mod store;
mod vcdcmd;
mod cut;
mod entry;
mod debugcmd;
mod hier;
mod fstw;
mod pair;
mod loadseq;
mod detect;
mod serdecmd;
mod hdr;
mod ghwcmd;

thread_local! {
    pub static LAST_PANIC: std::cell::RefCell<String> = std::cell::RefCell::new(String::new());
}

fn classify_panic(msg: &str) -> String {
    // msg = "<file>|<message>"
    let (file, text) = msg.split_once('|').unwrap_or(("?", msg));
    let file = file.rsplit('/').next().unwrap_or(file);
    let mut words: Vec<&str> = text.split_whitespace().take(4).collect();
    if words.is_empty() {
        words.push("?");
    }
    let short: String = words
        .join("_")
        .chars()
        .filter(|c| c.is_ascii_alphanumeric() || *c == '_')
        .collect();
    format!("panic:{}:{}", file, short)
}

pub fn dispatch(line: &str) -> String {
    let toks: Vec<&str> = line.split_whitespace().collect();
    if toks.is_empty() {
        return "bad-request".to_string();
    }
    match toks[0] {
        "tables" => tables::tables(&toks),
        "vcdhdr" => hdr::vcdhdr(&toks),
        "ghw" => ghwcmd::ghw(&toks),
        "wavedump" => ghwcmd::wavedump(&toks),
        "pairhex" => ghwcmd::pairhex(&toks),
        "fstfile" => ghwcmd::wave_dump(crate::util::hex_bytes(toks[3]), true),
        "serdert" => serdecmd::serdert(&toks),
        "serdejson" => serdecmd::serdejson(&toks),
        "detect" => detect::detect(&toks),
        "detectfile" => detect::detectfile(&toks),
        "nsig" => loadseq::nsig(&toks),
        "loadseq" => loadseq::loadseq(&toks),
        "pairfile" => pair::pairfile(&toks),
        "fstw" => fstw::fstw(&toks),
        "hier" => hier::hier(&toks),
        "pydump" => debugcmd::pydump(&toks),
        "isfst" => debugcmd::isfst(&toks),
        "dumpfile" => debugcmd::dumpfile(&toks),
        "entryvcd" => entry::entryvcd(&toks),
        "entryfile" => entry::entryfile(&toks),
        "vcdcut" => cut::vcdcut(&toks),
        "vcd" | "vcdmt" => vcdcmd::vcd(&toks),
        "chunks" => vcdcmd::chunks(&toks),
        "slice" => store::slice(&toks),
        "store" => store::store(&toks),
        "getoffset" => c05::getoffset(&toks),
        "getoffset_full" => c05::getoffset_full(&toks),
        _ => "bad-request".to_string(),
    }
}

fn main() {
    std::panic::set_hook(Box::new(|info| {
        let loc = info
            .location()
            .map(|l| l.file().to_string())
            .unwrap_or_else(|| "?".to_string());
        let msg = if let Some(s) = info.payload().downcast_ref::<&str>() {
            s.to_string()
        } else if let Some(s) = info.payload().downcast_ref::<String>() {
            s.clone()
        } else {
            "?".to_string()
        };
        LAST_PANIC.with(|p| *p.borrow_mut() = format!("{}|{}", loc, msg));
    }));
    // replies go to the file named by `--out` (wellen itself prints warnings on stdout)
    let args: Vec<String> = std::env::args().collect();
    let out_path = args
        .iter()
        .position(|a| a == "--out")
        .map(|i| args[i + 1].clone())
        .unwrap_or_else(|| "/dev/stderr".to_string());
    let stdin = std::io::stdin();
    let mut out = std::io::BufWriter::new(std::fs::File::create(out_path).unwrap());
    for line in stdin.lock().lines() {
        let line = line.unwrap();
        let reply = match catch_unwind(AssertUnwindSafe(|| dispatch(&line))) {
            Ok(r) => r,
            Err(_) => LAST_PANIC.with(|p| classify_panic(&p.borrow())),
        };
        writeln!(out, "{}", reply.replace('\n', " ").replace('\r', " ")).unwrap();
    }
    out.flush().unwrap();
}
