//! parsing helpers for the line protocol
pub fn nat_list(s: &str) -> Vec<u64> {
    if s == "-" {
        vec![]
    } else {
        s.split(',').map(|t| t.parse::<u64>().unwrap()).collect()
    }
}

pub fn hex_bytes(s: &str) -> Vec<u8> {
    if s == "-" {
        return vec![];
    }
    let b = s.as_bytes();
    assert!(b.len() % 2 == 0);
    (0..b.len() / 2)
        .map(|i| u8::from_str_radix(&s[2 * i..2 * i + 2], 16).unwrap())
        .collect()
}

pub fn to_hex(b: &[u8]) -> String {
    if b.is_empty() {
        return "-".to_string();
    }
    let mut s = String::with_capacity(b.len() * 2);
    for x in b {
        s.push_str(&format!("{:02x}", x));
    }
    s
}

pub fn nat_list_str(l: &[u64]) -> String {
    if l.is_empty() {
        "-".to_string()
    } else {
        l.iter().map(|x| x.to_string()).collect::<Vec<_>>().join(",")
    }
}
