//! `pairfile <file a> <file b>`: the same waveform stored in two formats (e.g. x.vcd and x.vcd.fst):
//! compares the scope/variable tree (names, nesting, order, widths) and, for every variable, the
//! value at every time of either time table. Reply `same:<n vars>:<n changes>` or `DIFF:<what>`.
use wellen::simple::Waveform;
use wellen::{GetItem, Hierarchy, LoadOptions, SignalRef, SignalValue, TimescaleUnit};

fn tree(h: &Hierarchy) -> Vec<String> {
    let mut out = vec![];
    for s in h.iter_scopes() {
        out.push(format!("S:{}", s.full_name(h)));
    }
    for v in h.iter_vars() {
        out.push(format!(
            "V:{}:{}",
            v.full_name(h),
            v.length().map(|l| l.to_string()).unwrap_or(if v.is_real() { "real".into() } else { "string".into() })
        ));
    }
    out
}

fn scale(h: &Hierarchy) -> Option<u128> {
    let ts = h.timescale()?;
    let exp = match ts.unit {
        TimescaleUnit::FemtoSeconds => 0,
        TimescaleUnit::PicoSeconds => 3,
        TimescaleUnit::NanoSeconds => 6,
        TimescaleUnit::MicroSeconds => 9,
        TimescaleUnit::MilliSeconds => 12,
        TimescaleUnit::Seconds => 15,
        TimescaleUnit::Unknown => return None,
    };
    Some(ts.factor as u128 * 10u128.pow(exp))
}

fn val_str(v: &SignalValue) -> String {
    match v {
        SignalValue::Real(r) => format!("r{:016x}", r.to_bits()),
        SignalValue::String(s) => format!("s{s}"),
        other => other.to_bit_string().unwrap(),
    }
}

/// (time in fs, value) list of a variable: the last value written in each time step
fn changes(w: &Waveform, r: SignalRef, sc: u128) -> Vec<(u128, String)> {
    let s = w.get_signal(r).unwrap();
    let tt = w.time_table();
    let mut out: Vec<(u128, String)> = vec![];
    for (idx, v) in s.iter_changes() {
        let t = tt[idx as usize] as u128 * sc;
        let vs = val_str(&v);
        if let Some(last) = out.last_mut() {
            if last.0 == t {
                last.1 = vs;
                continue;
            }
        }
        out.push((t, vs));
    }
    // drop steps that do not change the value (a delta cycle that returns to the old value)
    let mut canon: Vec<(u128, String)> = vec![];
    for (t, v) in out {
        if canon.last().map(|l| l.1 != v).unwrap_or(true) {
            canon.push((t, v));
        }
    }
    canon
}

pub fn pairfile(toks: &[&str]) -> String {
    let o = LoadOptions { multi_thread: false, remove_scopes_with_empty_name: false };
    let mut a = match wellen::simple::read_with_options(toks[1], &o) {
        Ok(w) => w,
        Err(_) => return "err:a".to_string(),
    };
    let mut b = match wellen::simple::read_with_options(toks[2], &o) {
        Ok(w) => w,
        Err(_) => return "err:b".to_string(),
    };
    let (ta, tb) = (tree(a.hierarchy()), tree(b.hierarchy()));
    if ta != tb {
        let k = ta.iter().zip(tb.iter()).position(|(x, y)| x != y).unwrap_or(ta.len().min(tb.len()));
        return format!(
            "DIFF:tree[{k}] {} != {}",
            ta.get(k).cloned().unwrap_or("-".into()),
            tb.get(k).cloned().unwrap_or("-".into())
        );
    }
    let (sa, sb) = match (scale(a.hierarchy()), scale(b.hierarchy())) {
        (Some(x), Some(y)) => (x, y),
        _ => (1, 1),
    };
    let ra: Vec<SignalRef> = a.hierarchy().iter_vars().map(|v| v.signal_ref()).collect();
    let rb: Vec<SignalRef> = b.hierarchy().iter_vars().map(|v| v.signal_ref()).collect();
    a.load_signals(&ra);
    b.load_signals(&rb);
    let mut n = 0;
    for (k, (x, y)) in ra.iter().zip(rb.iter()).enumerate() {
        let (ca, cb) = (changes(&a, *x, sa), changes(&b, *y, sb));
        if ca != cb {
            let j = ca.iter().zip(cb.iter()).position(|(p, q)| p != q).unwrap_or(ca.len().min(cb.len()));
            let name = a.hierarchy().iter_vars().nth(k).unwrap().full_name(a.hierarchy());
            return format!("DIFF:var {name} change[{j}] {:?} != {:?}", ca.get(j), cb.get(j));
        }
        n += ca.len();
    }
    format!("same:{}:{}", ra.len(), n)
}
