//! C16: `detect <hex>`: format detection on arbitrary bytes, under a watchdog.
//! Reply: `<format by path>|<outcome of viewers::read_header on a position-tracking cursor>|<position after>`
//! where outcome = `ok:<format>` | `unknown` | `failed:<format>`; `hang` if detection does not return in 3 s.
use crate::util::*;
use crate::vcdcmd::tmp_dir;
use std::io::{BufRead, Read, Seek, SeekFrom, Write};
use std::sync::atomic::{AtomicU64, Ordering};
use std::sync::Arc;
use wellen::{LoadOptions, WellenError};

/// an in-memory reader that publishes its position
struct Tracking {
    inner: std::io::Cursor<Vec<u8>>,
    pos: Arc<AtomicU64>,
}
impl Read for Tracking {
    fn read(&mut self, buf: &mut [u8]) -> std::io::Result<usize> {
        let n = self.inner.read(buf)?;
        self.pos.store(self.inner.position(), Ordering::SeqCst);
        Ok(n)
    }
}
impl BufRead for Tracking {
    fn fill_buf(&mut self) -> std::io::Result<&[u8]> {
        self.inner.fill_buf()
    }
    fn consume(&mut self, amt: usize) {
        self.inner.consume(amt);
        self.pos.store(self.inner.position(), Ordering::SeqCst);
    }
}
impl Seek for Tracking {
    fn seek(&mut self, pos: SeekFrom) -> std::io::Result<u64> {
        let r = self.inner.seek(pos)?;
        self.pos.store(self.inner.position(), Ordering::SeqCst);
        Ok(r)
    }
}

fn with_watchdog<T: Send + 'static>(f: impl FnOnce() -> T + Send + 'static) -> Option<T> {
    let (tx, rx) = std::sync::mpsc::channel();
    std::thread::spawn(move || {
        let r = std::panic::catch_unwind(std::panic::AssertUnwindSafe(f));
        let _ = tx.send(r);
    });
    match rx.recv_timeout(std::time::Duration::from_secs(3)) {
        Ok(Ok(v)) => Some(v),
        Ok(Err(_)) => std::panic::resume_unwind(Box::new("panic in detection")),
        Err(_) => None,
    }
}

pub fn detect(toks: &[&str]) -> String {
    let bytes = hex_bytes(toks[1]);
    let path = tmp_dir().join("detect.bin");
    std::fs::File::create(&path).unwrap().write_all(&bytes).unwrap();
    let p2 = path.clone();
    let by_path = match with_watchdog(move || wellen::viewers::open_and_detect_file_format(&p2)) {
        Some(f) => format!("{f:?}"),
        None => return "hang".to_string(),
    };
    // the probe must not depend on how much the reader hands out at once: tiny buffers over the same file
    for cap in [1usize, 2, 7, 16, 64] {
        let p3 = path.clone();
        let r = with_watchdog(move || {
            let mut rd = std::io::BufReader::with_capacity(cap, std::fs::File::open(&p3).unwrap());
            wellen::verif::viewers::detect_file_format(&mut rd)
        });
        match r {
            None => return "hang".to_string(),
            Some(f) => {
                if format!("{f:?}") != by_path {
                    return format!("DIFFBUF:cap={cap}:{f:?}!={by_path}");
                }
            }
        }
    }
    if by_path != "Unknown" {
        // what happens when a file of a recognised format is opened is not detection's business
        // (C14 and the loaders' own checks cover it; broken FST/GHW content may crash the dependency)
        return format!("{by_path}|-|*");
    }
    // the in-memory reader may disagree with the file about far seeks (file systems reject offsets beyond
    // their maximum file size, a Cursor does not): do not hand such an input to the FST loader
    {
        let b3 = bytes.clone();
        let is_vcd_like = false;
        let cursor_fst = with_watchdog(move || fst_reader::is_fst_file(&mut std::io::Cursor::new(b3)));
        match cursor_fst {
            None => return "hang".to_string(),
            Some(true) if !is_vcd_like => return "Unknown|cursor-fst|*".to_string(),
            _ => {}
        }
    }
    let pos = Arc::new(AtomicU64::new(0));
    let pos2 = pos.clone();
    let b2 = bytes.clone();
    let outcome = with_watchdog(move || {
        let input = Tracking { inner: std::io::Cursor::new(b2), pos: pos2 };
        match wellen::viewers::read_header(input, &LoadOptions::default()) {
            Ok(h) => format!("ok:{:?}", h.file_format),
            Err(WellenError::UnknownFileFormat) => "unknown".to_string(),
            Err(WellenError::FailedToLoad(f, _)) => format!("failed:{f:?}"),
            Err(WellenError::Io(_)) => "io".to_string(),
        }
    });
    let outcome = match outcome {
        Some(o) => o,
        None => return "hang".to_string(),
    };
    format!("{by_path}|{outcome}|{}", pos.load(Ordering::SeqCst))
}

/// `detectfile <path>`: classification of an existing file
pub fn detectfile(toks: &[&str]) -> String {
    let p = std::path::PathBuf::from(toks[1]);
    match with_watchdog(move || wellen::viewers::open_and_detect_file_format(&p)) {
        Some(f) => format!("{f:?}"),
        None => "hang".to_string(),
    }
}
