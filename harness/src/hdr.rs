//! C09: `vcdhdr <opts> <decls> <texthex>`: the header text is read with viewers::read_header (Cursor) and the
//! hierarchy is dumped with kinds, names, widths, bit ranges, signal numbers, VHDL type names, source locators.
//! opts contains `f` = remove_scopes_with_empty_name.
use crate::util::*;
use wellen::{Hierarchy, HierarchyItem, LoadOptions, Scope, SignalEncoding, Var, WellenError};

fn enc_str(v: &Var) -> String {
    match v.signal_encoding() {
        SignalEncoding::String => "S".to_string(),
        SignalEncoding::Real => "R".to_string(),
        SignalEncoding::BitVector(l) => format!("B{}", l.get()),
    }
}

fn var_str(h: &Hierarchy, v: &Var) -> String {
    format!(
        "V({:?},{},{},{},{},{})",
        v.var_type(),
        to_hex(v.name(h).as_bytes()),
        enc_str(v),
        v.index().map(|i| format!("{}:{}", i.msb(), i.lsb())).unwrap_or("-".to_string()),
        v.signal_ref().index(),
        v.vhdl_type_name(h).map(|t| to_hex(t.as_bytes())).unwrap_or("-".to_string())
    )
}

fn scope_open(h: &Hierarchy, s: &Scope) -> String {
    format!(
        "S({:?},{},{})",
        s.scope_type(),
        to_hex(s.name(h).as_bytes()),
        s.source_loc(h).map(|(p, l)| format!("{}@{}", to_hex(p.as_bytes()), l)).unwrap_or("-".to_string())
    )
}

fn walk<'a>(h: &'a Hierarchy, items: impl Iterator<Item = HierarchyItem<'a>>, out: &mut String) {
    let mut first = true;
    for item in items {
        if !first {
            out.push(',');
        }
        first = false;
        match item {
            HierarchyItem::Scope(s) => {
                out.push_str(&scope_open(h, s));
                out.push('{');
                walk(h, s.items(h), out);
                out.push('}');
            }
            HierarchyItem::Var(v) => out.push_str(&var_str(h, v)),
        }
    }
}

pub fn header_dump(h: &Hierarchy, header_len: u64) -> String {
    let mut out = String::new();
    walk(h, h.items(), &mut out);
    let ts = h.timescale().map(|t| format!("{}:{:?}", t.factor, t.unit)).unwrap_or("-".to_string());
    format!(
        "{}|date={}|ver={}|ts={}|hl={}",
        out,
        to_hex(h.date().as_bytes()),
        to_hex(h.version().as_bytes()),
        ts,
        header_len
    )
}

pub fn vcdhdr(toks: &[&str]) -> String {
    let bytes = hex_bytes(toks[3]);
    let total = bytes.len() as u64;
    let o = LoadOptions { multi_thread: false, remove_scopes_with_empty_name: toks[1].contains('f') };
    match wellen::viewers::read_header(std::io::Cursor::new(bytes), &o) {
        Ok(hr) => header_dump(&hr.hierarchy, total - hr.body_len),
        Err(WellenError::FailedToLoad(_, _)) => "err".to_string(),
        Err(WellenError::UnknownFileFormat) => "err".to_string(),
        Err(WellenError::Io(_)) => "err".to_string(),
    }
}
