-- Root of the `WellenModel` library.
import WellenModel.Gen.Tables
import WellenModel.Model.Proto
import WellenModel.Model.Offset
import WellenModel.Model.Bits
import WellenModel.Model.Store
import WellenModel.Model.Spec
import WellenModel.Proofs.Offset
import WellenModel.Props.C05
