-- Root of the `WellenModel` library.
import WellenModel.Gen.Tables
import WellenModel.Model.Proto
import WellenModel.Model.Offset
import WellenModel.Model.Bits
import WellenModel.Model.Store
import WellenModel.Model.Spec
import WellenModel.Proofs.Offset
import WellenModel.Proofs.Pack
import WellenModel.Proofs.Entry
import WellenModel.Proofs.EntryRoundtrip
import WellenModel.Proofs.Tables
import WellenModel.Proofs.TimeTable
import WellenModel.Proofs.Canon
import WellenModel.Props.C02
import WellenModel.Props.C04
import WellenModel.Props.C05
import WellenModel.Props.C06
