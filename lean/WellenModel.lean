-- Root of the `WellenModel` library.
import WellenModel.Model.Proto
import WellenModel.Model.Offset
import WellenModel.Proofs.Offset
import WellenModel.Props.C05
