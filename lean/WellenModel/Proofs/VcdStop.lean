import WellenModel.Proofs.VcdLex
/-! Stop-position irrelevance (entry points) and prefix monotonicity of the event stream (truncation). -/
namespace Wellen.VcdBody

/-- a stop position at or beyond the end of the input never triggers the hand-over exit -/
theorem step_stop_irrelevant (s : Nat) (m : M) (b : Nat) (h : m.pos ≤ s + 1) :
    step (some s) m b = step none m b := by
  unfold step
  cases hst : m.st with
  | skipNl => rfl
  | idTok => rfl
  | lookEnd => rfl
  | first =>
    simp only
    by_cases hw : isWs b = true
    · simp only [hw, ↓reduceIte]
      by_cases he : m.first.isEmpty = true
      · simp only [he, ↓reduceIte]
      · simp only [he, Bool.false_eq_true, ↓reduceIte]
        cases hp : parseFirst m.first.reverse with
        | time t =>
          simp only
          have hc : (decide (m.pos - m.first.reverse.length - 1 > s)) = false := by
            simp only [decide_eq_false_iff_not]; omega
          simp only [hc, Bool.false_eq_true, ↓reduceIte]
        | oneBit => rfl
        | multiBit => rfl
        | commentStart => rfl
        | ignored => rfl
        | bad => rfl
    · simp only [hw, Bool.false_eq_true, ↓reduceIte]

/-- what one step does to position and events -/
theorem step_shape (stop : Option Nat) (m : M) (b : Nat) :
    (∃ m', step stop m b = .cont m' ∧ m'.pos = m.pos + 1 ∧ (m'.evs = m.evs ∨ ∃ x, m'.evs = x :: m.evs)) ∨
    step stop m b = .exit m.evs.reverse ∨ step stop m b = .error m.evs.reverse := by
  unfold step
  cases hst : m.st with
  | skipNl =>
    simp only
    by_cases hb : b = 10
    · simp only [hb, ↓reduceIte]; left; exact ⟨_, rfl, rfl, Or.inl rfl⟩
    · simp only [hb, ↓reduceIte]; left; exact ⟨_, rfl, rfl, Or.inl rfl⟩
  | idTok =>
    simp only
    by_cases hw : isWs b = true
    · simp only [hw, ↓reduceIte]
      by_cases he : m.id.isEmpty = true
      · simp only [he, ↓reduceIte]; left; exact ⟨_, rfl, rfl, Or.inl rfl⟩
      · simp only [he, Bool.false_eq_true, ↓reduceIte]; left; exact ⟨_, rfl, rfl, Or.inr ⟨_, rfl⟩⟩
    · simp only [hw, Bool.false_eq_true, ↓reduceIte]; left; exact ⟨_, rfl, rfl, Or.inl rfl⟩
  | lookEnd =>
    simp only
    by_cases hw : isWs b = true
    · simp only [hw, ↓reduceIte]
      by_cases he : m.first.isEmpty = true
      · simp only [he, ↓reduceIte]; left; exact ⟨_, rfl, rfl, Or.inl rfl⟩
      · simp only [he, Bool.false_eq_true, ↓reduceIte]
        by_cases hk : m.first.reverse = kwEnd
        · simp only [hk, ↓reduceIte]; left; exact ⟨_, rfl, rfl, Or.inl rfl⟩
        · simp only [hk, ↓reduceIte]; left; exact ⟨_, rfl, rfl, Or.inl rfl⟩
    · simp only [hw, Bool.false_eq_true, ↓reduceIte]; left; exact ⟨_, rfl, rfl, Or.inl rfl⟩
  | first =>
    simp only
    by_cases hw : isWs b = true
    · simp only [hw, ↓reduceIte]
      by_cases he : m.first.isEmpty = true
      · simp only [he, ↓reduceIte]; left; exact ⟨_, rfl, rfl, Or.inl rfl⟩
      · simp only [he, Bool.false_eq_true, ↓reduceIte]
        cases hp : parseFirst m.first.reverse with
        | time t =>
          simp only
          cases stop with
          | none => simp only [Bool.false_eq_true, ↓reduceIte]; left; exact ⟨_, rfl, rfl, Or.inr ⟨_, rfl⟩⟩
          | some s =>
            simp only
            by_cases hc : decide (m.pos - m.first.reverse.length - 1 > s) = true
            · simp only [hc, ↓reduceIte]; right; left; trivial
            · simp only [hc, Bool.false_eq_true, ↓reduceIte]; left; exact ⟨_, rfl, rfl, Or.inr ⟨_, rfl⟩⟩
        | oneBit => left; exact ⟨_, rfl, rfl, Or.inr ⟨_, rfl⟩⟩
        | multiBit => left; exact ⟨_, rfl, rfl, Or.inl rfl⟩
        | commentStart => left; exact ⟨_, rfl, rfl, Or.inl rfl⟩
        | ignored => left; exact ⟨_, rfl, rfl, Or.inl rfl⟩
        | bad => right; right; rfl
    · simp only [hw, Bool.false_eq_true, ↓reduceIte]; left; exact ⟨_, rfl, rfl, Or.inl rfl⟩

theorem step_pos (stop : Option Nat) (m m' : M) (b : Nat) (h : step stop m b = .cont m') : m'.pos = m.pos + 1 := by
  rcases step_shape stop m b with ⟨m2, h2, hp, _⟩ | h2 | h2
  · rw [h2] at h; cases h; exact hp
  · rw [h2] at h; cases h
  · rw [h2] at h; cases h

theorem run_stop_irrelevant (s : Nat) (bs : List Nat) : ∀ (m : M), m.pos + bs.length ≤ s + 2 →
    run (some s) m bs = run none m bs := by
  induction bs with
  | nil => intro m _; rfl
  | cons b bs ih =>
    intro m h
    simp only [List.length_cons] at h
    simp only [run]
    rw [step_stop_irrelevant s m b (by omega)]
    cases hs : step none m b with
    | cont m' =>
      simp only
      have := step_pos none m m' b hs
      exact ih m' (by omega)
    | exit e => rfl
    | error e => rfl

/-- **every stop position ≥ len − 1 gives the same events**: the memory-mapped path passes
`len − 1`, the reader path the length of the whole file. -/
theorem parseBody_stop_irrelevant (bs : List Nat) (s : Nat) (nl : Bool) (h : bs.length ≤ s + 2) :
    parseBody (some s) bs nl = parseBody none bs nl := by
  unfold parseBody
  exact run_stop_irrelevant s bs (initM nl) (by simpa [initM] using h)

/-! ### prefixes -/

def evsOf : Out → List Ev
  | .ok e => e
  | .err e => e

/-- state after consuming `bs`, or the early result -/
def runM (stop : Option Nat) (m : M) : List Nat → StepRes
  | [] => .cont m
  | b :: bs => match step stop m b with
    | .cont m' => runM stop m' bs
    | r => r

theorem run_append (stop : Option Nat) (bs1 bs2 : List Nat) : ∀ (m : M),
    run stop m (bs1 ++ bs2) = match runM stop m bs1 with
      | .cont m' => run stop m' bs2
      | .exit e => .ok e
      | .error e => .err e := by
  induction bs1 with
  | nil => intro m; rfl
  | cons b bs ih =>
    intro m
    simp only [List.cons_append, run, runM]
    cases step stop m b with
    | cont m' => exact ih m'
    | exit e => rfl
    | error e => rfl

theorem step_evs (stop : Option Nat) (m : M) (b : Nat) :
    match step stop m b with
    | .cont m' => m'.evs = m.evs ∨ ∃ x, m'.evs = x :: m.evs
    | .exit e => e = m.evs.reverse
    | .error e => e = m.evs.reverse := by
  rcases step_shape stop m b with ⟨m2, h2, _, he⟩ | h2 | h2
  · rw [h2]; exact he
  · rw [h2]
  · rw [h2]

theorem flush_evs (m : M) :
    evsOf (flush m) = m.evs.reverse ∨ ∃ x, evsOf (flush m) = m.evs.reverse ++ [x] := by
  unfold flush
  cases m.st with
  | skipNl => simp [evsOf]
  | lookEnd => simp [evsOf]
  | idTok => right; simp [evsOf]
  | first =>
    simp only
    split
    · simp [evsOf]
    · cases parseFirst m.first.reverse <;> simp [evsOf]

theorem run_evs_prefix (stop : Option Nat) (bs : List Nat) : ∀ (m : M),
    m.evs.reverse <+: evsOf (run stop m bs) := by
  induction bs with
  | nil =>
    intro m
    simp only [run]
    rcases flush_evs m with h | ⟨x, h⟩ <;> rw [h]
    · exact List.prefix_refl _
    · exact List.prefix_append _ _
  | cons b bs ih =>
    intro m
    simp only [run]
    have hs := step_evs stop m b
    cases hstep : step stop m b with
    | cont m' =>
      simp only [hstep] at hs ⊢
      have := ih m'
      rcases hs with h | ⟨x, h⟩
      · rw [h] at this; exact this
      · rw [h] at this
        simp only [List.reverse_cons] at this
        exact List.IsPrefix.trans (List.prefix_append _ _) this
    | exit e => simp only [hstep] at hs ⊢; rw [hs]; exact List.prefix_refl _
    | error e => simp only [hstep] at hs ⊢; rw [hs]; exact List.prefix_refl _

/-- **truncation**: the events of a prefix of the input are — up to at most one last event, the
one made from the cut token — a prefix of the events of the whole input. -/
theorem prefix_events (stop : Option Nat) (bs1 bs2 : List Nat) (nl : Bool) :
    ∃ c, c <+: evsOf (parseBody stop (bs1 ++ bs2) nl) ∧
      (evsOf (parseBody stop bs1 nl) = c ∨ ∃ x, evsOf (parseBody stop bs1 nl) = c ++ [x]) := by
  unfold parseBody
  have h1 := run_append stop bs1 bs2 (initM nl)
  have h2 := run_append stop bs1 [] (initM nl)
  simp only [List.append_nil] at h2
  cases hm : runM stop (initM nl) bs1 with
  | cont m' =>
    rw [hm] at h1 h2
    simp only at h1 h2
    refine ⟨m'.evs.reverse, ?_, ?_⟩
    · rw [h1]; exact run_evs_prefix stop bs2 m'
    · rw [h2]; simp only [run]; exact flush_evs m'
  | exit e =>
    rw [hm] at h1 h2
    simp only at h1 h2
    exact ⟨e, by rw [h1]; exact List.prefix_refl _, by rw [h2]; left; rfl⟩
  | error e =>
    rw [hm] at h1 h2
    simp only at h1 h2
    exact ⟨e, by rw [h1]; exact List.prefix_refl _, by rw [h2]; left; rfl⟩

/-- a cut after a complete line (white space consumed, no vector value waiting for its id):
the prefix's events are exactly a prefix of the whole input's events -/
theorem prefix_events_at_boundary (stop : Option Nat) (bs1 bs2 : List Nat) (nl : Bool) (m' : M)
    (hm : runM stop (initM nl) bs1 = .cont m') (hb : m'.first = []) (hst : m'.st ≠ .idTok) :
    evsOf (parseBody stop bs1 nl) <+: evsOf (parseBody stop (bs1 ++ bs2) nl) ∧
    parseBody stop bs1 nl = .ok m'.evs.reverse := by
  unfold parseBody
  have h1 := run_append stop bs1 bs2 (initM nl)
  have h2 := run_append stop bs1 [] (initM nl)
  simp only [List.append_nil] at h2
  rw [hm] at h1 h2
  simp only at h1 h2
  have hf : flush m' = .ok m'.evs.reverse := by
    unfold flush
    cases h : m'.st with
    | idTok => exact absurd h hst
    | first => simp [hb]
    | skipNl => rfl
    | lookEnd => rfl
  constructor
  · rw [h2, h1]; simp only [run, hf, evsOf]; exact run_evs_prefix stop bs2 m'
  · rw [h2]; simp only [run, hf]

end Wellen.VcdBody
