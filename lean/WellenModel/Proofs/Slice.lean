import WellenModel.Model.Slice
import WellenModel.Proofs.Pack
/-! `slice_n_states` / `compress_template` = packing of the symbols fetched at the requested bit positions. -/
namespace Wellen.Slice
open Wellen.Bits Wellen.Store

/-- the symbols fetched by `repack`, highest position first -/
def fetched (s : States) (data : List Nat) (lsb n : Nat) : List Nat :=
  (List.range n).reverse.map fun ob => symAt s data (lsb + ob)

theorem fetched_succ (s : States) (data : List Nat) (lsb n : Nat) :
    fetched s data lsb (n + 1) = symAt s data (lsb + n) :: fetched s data lsb n := by
  simp [fetched, List.range_succ]

theorem fetched_length (s : States) (data : List Nat) (lsb n : Nat) : (fetched s data lsb n).length = n := by
  simp [fetched]

theorem and_mask_lt (s : States) (x : Nat) : x &&& s.mask < 2 ^ s.bits := by
  rw [mask_eq, Nat.and_two_pow_sub_one_eq_mod]
  exact Nat.mod_lt _ (Nat.two_pow_pos _)

theorem symAt_lt (s : States) (data : List Nat) (i : Nat) : symAt s data i < 2 ^ s.bits := and_mask_lt s _

/-- `repack` is `write_n_state` applied to the fetched symbols -/
theorem repack_eq_write (inS outS : States) (data : List Nat) (lsb : Nat) (n w : Nat) :
    repack inS outS data lsb n w = writeAux outS (fetched inS data lsb n) w none := by
  induction n generalizing w with
  | zero => simp [repack, fetched, writeAux]
  | succ n ih =>
    rw [fetched_succ]
    simp only [repack, writeAux, fetched_length]
    have hc : (n % outS.bib = 0) ↔ ((n * outS.bits) % 8 = 0) := (push_cond outS n).symm
    by_cases h : n % outS.bib = 0
    · have h' := hc.mp h
      simp only [h, h', ↓reduceIte]
      rw [ih 0]
    · have h' : ¬ (n * outS.bits) % 8 = 0 := fun e => h (hc.mpr e)
      simp only [h, h', ↓reduceIte]
      rw [ih]

/-- **`slice_n_states`**: the bytes produced render as exactly the parent's symbols at bit
positions `msb … lsb` (most significant first), for every kind, parent width and range. -/
theorem sliceNStates_spec (s : States) (data : List Nat) (msb lsb : Nat) (out : List Nat)
    (h : sliceNStates s data msb lsb = some out) :
    toSyms s out (msb - lsb + 1) = fetched s data lsb (msb - lsb + 1) := by
  unfold sliceNStates at h
  split at h
  · cases h
  · simp only [Option.some.injEq] at h
    subst h
    rw [repack_eq_write]
    have := pack_unpack s (fetched s data lsb (msb - lsb + 1)) (fun v hv => by
      simp only [fetched, List.mem_map] at hv
      obtain ⟨ob, _, rfl⟩ := hv
      exact symAt_lt s data _)
    rw [fetched_length] at this
    exact this

/-- **`compress_template`** (used when a slice needs fewer states than the parent value): re-packing
with a narrower kind keeps the symbols, provided they fit -/
theorem compress_spec (inS outS : States) (data : List Nat) (bits : Nat)
    (hfit : ∀ i, i < bits → symAt inS data i < 2 ^ outS.bits) :
    toSyms outS (repack inS outS data 0 bits 0) bits = fetched inS data 0 bits := by
  rw [repack_eq_write]
  have := pack_unpack outS (fetched inS data 0 bits) (fun v hv => by
    simp only [fetched, List.mem_map, List.mem_reverse, List.mem_range] at hv
    obtain ⟨ob, hob, rfl⟩ := hv
    have := hfit ob hob
    simp only [Nat.zero_add]
    exact this)
  rw [fetched_length] at this
  exact this

end Wellen.Slice
