import WellenModel.Proofs.Block
import WellenModel.Proofs.TimeTable
import WellenModel.Proofs.SpecPrefix
/-!
# The store refines the abstract waveform (multi-bit VCD vectors, any number of blocks)

Simulation between the encoder (`Store.runOps`: time table bookkeeping, skipping, block roll-over,
per-signal chunk streams, `finish`) and the abstract specification (`Spec.step`): for a signal of
two or more bits written through VCD tokens, the finished store consists of blocks whose chunk
streams for that signal, with their time indices made absolute, are exactly the changes the
specification records — kind = smallest sufficient kind, bytes = the packed symbols.
With `multi_block_load` this gives the loaded signal as a function of the specification's change
list alone (`store_load_vector`).
-/
namespace Wellen.Store
open Wellen.Bits Wellen.Spec

/-! ### the value of a token: encoder and specification agree -/

theorem bitChar_classes : ∀ c : Fin 256, ∀ v, bitCharToNum c.val = some v →
    ((v ≤ 1 ↔ (c.val = 49 ∨ c.val = 48)) ∧ ((¬ v ≤ 1 ∧ v ≤ 3) ↔ (c.val = 120 ∨ c.val = 88 ∨ c.val = 122 ∨ c.val = 90))) := by
  decide +kernel

theorem bitChar_classes' (c v : Nat) (h : bitCharToNum c = some v) :
    ((v ≤ 1 ↔ (c = 49 ∨ c = 48)) ∧ ((¬ v ≤ 1 ∧ v ≤ 3) ↔ (c = 120 ∨ c = 88 ∨ c = 122 ∨ c = 90))) := by
  by_cases hc : c < 256
  · exact bitChar_classes ⟨c, hc⟩ v h
  · rw [bitChar_none_of_ge c (by omega)] at h; cases h

theorem kindOf_pad (k v : Nat) (n0 : List Nat) (h : v = 0 ∨ v ∈ n0) : kindOf (List.replicate k v ++ n0) = kindOf n0 := by
  have key : ∀ (p : Nat → Bool), (v = 0 → p 0 = true) → ((List.replicate k v ++ n0).all p = n0.all p) := by
    intro p hp0
    rw [List.all_append]
    by_cases hn : n0.all p = true
    · rw [hn, Bool.and_true]
      rw [List.all_eq_true]
      intro x hx
      have hx' := (List.mem_replicate.mp hx).2
      rcases h with h | h
      · rw [hx', h]; exact hp0 h
      · rw [hx']; exact List.all_eq_true.mp hn v h
    · have : n0.all p = false := by simpa using hn
      rw [this, Bool.and_false]
  unfold kindOf
  rw [key (· ≤ 1) (fun _ => by decide), key (· ≤ 3) (fun _ => by decide)]

/-- what `add_vcd_change` appends for a token the specification accepts: the chunk of the specification's value -/
theorem addVcd_value (ti : Nat) (value : List Nat) (realLe : Option (List Nat)) (s s' : SigEnc) (bits : Nat)
    (ht : s.tpe = .bitvec bits) (hb : bits ≠ 1) (h : addVcd ti value realLe s = some s')
    (v : Value) (hv : vcdValue (.bitvec bits) value realLe = some v) :
    ∃ nums, v = .bits nums ∧ nums.length = bits ∧ (∀ x ∈ nums, x < 2 ^ (kindOf nums).bits) ∧
      s'.chunks = encChange (ti - s.prevTimeIdx) (kindOf nums) (writeNState (kindOf nums) nums none) :: s.chunks ∧
      s'.prevTimeIdx = ti ∧ s'.tpe = s.tpe ∧ s'.maxStates = States.join s.maxStates (kindOf nums) := by
  unfold addVcd at h
  unfold vcdValue at hv
  cases value with
  | nil => simp at h
  | cons c0 rest =>
    simp only [ht, hb, ↓reduceIte] at h hv
    generalize hvb : (if (if c0 = 98 ∨ c0 = 66 then rest else c0 :: rest).length ≤ 2 then (if c0 = 98 ∨ c0 = 66 then rest else c0 :: rest)
        else if List.take 2 (if c0 = 98 ∨ c0 = 66 then rest else c0 :: rest) = [48, 98] then List.drop 2 (if c0 = 98 ∨ c0 = 66 then rest else c0 :: rest)
        else (if c0 = 98 ∨ c0 = 66 then rest else c0 :: rest)) = vb at h hv
    cases hst : checkStates vb with
    | none => simp [hst] at h
    | some st =>
      simp only [hst] at h
      obtain ⟨n0, hn0, hk⟩ := checkStates_minimal vb st hst
      rw [hn0] at hv
      simp only at hv
      have hl0 : n0.length = vb.length := charsToNums_length vb n0 hn0
      cases hch : (if vb.length = bits then some vb else expandSpecial vb bits) with
      | none => simp [hch] at h
      | some chars =>
        simp only [hch] at h
        cases hn : charsToNums chars with
        | none => simp [hn] at h
        | some nums =>
          simp only [hn] at h
          cases h
          have hlen : chars.length = bits := by
            split at hch
            · cases hch; assumption
            · exact expandSpecial_length vb bits chars hch
          have hnl : nums.length = bits := by rw [charsToNums_length chars nums hn, hlen]
          have hfit : ∀ x ∈ nums, x < 2 ^ (kindOf nums).bits := kindOf_fits nums (charsToNums_lt chars nums hn)
          -- the specification's value is `.bits nums`, and the kind in the header is `kindOf nums`
          suffices hs : v = .bits nums ∧ st = kindOf nums by
            obtain ⟨h1, h2⟩ := hs
            exact ⟨nums, h1, hnl, hfit, by rw [← h2]; rfl, rfl, ht.symm, by rw [← h2]⟩
          split at hch
          · -- full width
            rename_i hfull
            cases hch
            rw [hn0] at hn; cases hn
            cases n0 with
            | nil => simp at hv
            | cons a r =>
              simp only at hv
              have : (a :: r).length = bits := by rw [hl0, hfull]
              simp only [this, ↓reduceIte, Option.some.injEq] at hv
              exact ⟨hv.symm, hk⟩
          · -- short token: expanded
            rename_i hshort
            unfold expandSpecial at hch
            split at hch
            · cases hch
            · rename_i hlt
              cases vb with
              | nil => simp at hch
              | cons c r =>
                simp only at hch
                have hcn : ∃ v0 vs, bitCharToNum c = some v0 ∧ n0 = v0 :: vs := by
                  simp only [charsToNums] at hn0
                  cases hc : bitCharToNum c with
                  | none => simp [hc] at hn0
                  | some v0 =>
                    cases hr : charsToNums r with
                    | none => simp [hc, hr] at hn0
                    | some vs => simp [hc, hr] at hn0; exact ⟨v0, vs, rfl, hn0.symm⟩
                obtain ⟨v0, vs, hc0, hn0'⟩ := hcn
                obtain ⟨cl1, cl2⟩ := bitChar_classes' c v0 hc0
                subst hn0'
                simp only at hv
                have hlen2 : ¬ (v0 :: vs).length = bits := by rw [hl0]; exact hshort
                have hlen3 : ¬ (v0 :: vs).length > bits := by rw [hl0]; omega
                simp only [hlen2, hlen3, ↓reduceIte] at hv
                split at hch
                · rename_i hc01
                  cases hch
                  have h48 : bitCharToNum 48 = some 0 := by decide
                  have := charsToNums_append _ _ _ _ (charsToNums_replicate (bits - (c :: r).length) 48 0 h48) hn0
                  rw [this] at hn; cases hn
                  have hv01 : v0 ≤ 1 := cl1.mpr hc01
                  simp only [hv01, ↓reduceIte, Option.some.injEq] at hv
                  refine ⟨by rw [← hv, hl0], ?_⟩
                  rw [hk, kindOf_pad _ 0 _ (Or.inl rfl)]
                · rename_i hc01
                  split at hch
                  · rename_i hcxz
                    cases hch
                    have := charsToNums_append _ _ _ _ (charsToNums_replicate (bits - (c :: r).length) c v0 hc0) hn0
                    rw [this] at hn; cases hn
                    have hv01 : ¬ v0 ≤ 1 := fun hh => hc01 (cl1.mp hh)
                    have hv23 := cl2.mpr hcxz
                    simp only [hv01, hv23.2, ↓reduceIte, Option.some.injEq] at hv
                    refine ⟨by rw [← hv, hl0], ?_⟩
                    rw [hk, kindOf_pad _ v0 _ (Or.inr (by simp))]
                  · cases hch


/-! ### blocks with absolute time indices -/

abbrev BInfo := BlockDesc × SigEnc × List Change

def offOf (l : List BInfo) : Nat := (l.map (·.1.tt.length)).sum

/-- the changes of all blocks, time indices made absolute (block k shifted by the lengths of the earlier time tables) -/
def absAll : List BInfo → Nat → List Change
  | [], _ => []
  | p :: r, off => absolutise off p.2.2 ++ absAll r (off + p.1.tt.length)

theorem offOf_append (a b : List BInfo) : offOf (a ++ b) = offOf a + offOf b := by
  simp [offOf, List.sum_append]

theorem absAll_append (l1 l2 : List BInfo) : ∀ off, absAll (l1 ++ l2) off = absAll l1 off ++ absAll l2 (off + offOf l1) := by
  induction l1 with
  | nil => intro off; simp [absAll, offOf]
  | cons p r ih =>
    intro off
    simp only [List.cons_append, absAll, ih, List.append_assoc]
    have : off + p.1.tt.length + offOf r = off + offOf (p :: r) := by
      simp only [offOf, List.map_cons, List.sum_cons]; omega
    rw [this]

theorem replayAbs_append (bits : Nat) (sigS : States) (a b : List Change) (acc : Acc) :
    replayAbs bits sigS (a ++ b) acc = replayAbs bits sigS b (replayAbs bits sigS a acc) := by
  simp [replayAbs, List.foldl_append]

theorem replayBlocks_abs (bits : Nat) (sigS : States) (l : List BInfo) : ∀ (off : Nat) (a : Acc),
    replayBlocks bits sigS l off a = replayAbs bits sigS (absAll l off) a := by
  induction l with
  | nil => intro off a; rfl
  | cons p r ih =>
    intro off a
    simp only [replayBlocks, absAll, replayAbs_append, ih, replayFixed_abs]

theorem absolutise_append (a b : List Change) : ∀ p, absolutise p (a ++ b) = absolutise p a ++ absolutise (p + (a.map (·.1)).sum) b := by
  induction a with
  | nil => intro p; simp [absolutise]
  | cons x a ih =>
    intro p
    simp only [List.cons_append, absolutise, ih, List.map_cons, List.sum_cons]
    congr 3
    omega

theorem encStream_append (a b : List Change) : encStream (a ++ b) = encStream a ++ encStream b := by
  simp [encStream]

theorem finishStep_fst (c : Codec) (l : List SigEnc) : ∀ (acc : Array SigEnc × List (Option Nat) × List (List Nat) × Nat),
    (l.foldl (finishStep c) acc).1.toList = acc.1.toList ++ l.map (fun s => (finishSignal c s).1) := by
  induction l with
  | nil => intro acc; simp
  | cons s l ih =>
    intro acc
    simp only [List.foldl_cons, List.map_cons]
    rw [ih]
    cases hf : finishSignal c s with
    | mk s' od => cases od <;> simp [finishStep, hf]

theorem finishSignals_fst (c : Codec) (signals : Array SigEnc) :
    (finishSignals c signals).1.toList = signals.toList.map (fun s => (finishSignal c s).1) := by
  simp only [finishSignals]
  rw [← Array.foldl_toList, finishStep_fst]
  simp

theorem finishSignal_fst (c : Codec) (s : SigEnc) : (finishSignal c s).1 = { s with prevTimeIdx := 0, chunks := [] } := by
  unfold finishSignal
  simp only
  split
  · rfl
  · split
    · rfl
    · split <;> rfl

/-- the block description `finish_block` closes -/
def descOf (e : Enc) : BlockDesc := { signals := e.signals, tt := e.timeRev.reverse, t0 := e.timeRev.reverse.headD 0 }

theorem finishBlock_dirty' (c : Codec) (e : Enc) (h : e.hasNewData = true) :
    finishBlock c e = { e with signals := (finishSignals c e.signals).1, timeRev := [e.timeRev.headD 0], timeLen := 1,
                               blocksRev := mkBlock c (descOf e) :: e.blocksRev, hasNewData := false } := by
  simp [finishBlock, h, mkBlock, descOf]


/-! ### the simulation -/

/-- the chunk the specification's change stands for: smallest kind, packed symbols -/
def encV : Nat × Value → Change
  | (k, .bits syms) => (k, kindOf syms, writeNState (kindOf syms) syms none)
  | (k, _) => (k, .two, [])

/-- `SigInBlock` without the payload size bound (that one is a hypothesis about the finished store) -/
def SigInBlock' (bits i : Nat) (p : BInfo) : Prop :=
  p.1.signals.toList[i]? = some p.2.1 ∧ p.2.1.dataBytes = encStream p.2.2 ∧
  (∀ x ∈ p.2.2, x.2.2.length = divCeil bits x.2.1.bib ∧ x.1 < 2 ^ 30) ∧
  (∀ x ∈ p.2.2, x.2.1.toNat ≤ p.2.1.maxStates.toNat)

structure Sim (c : Codec) (bits i : Nat) (e : Enc) (s : Spec.St) (l : List BInfo) (cs : List Change) : Prop where
  inv : Inv e
  wf : s.ttLen = s.ttRev.length
  skip : e.skipping = s.skipping
  head : e.timeRev.head? = s.ttRev.head?
  len : s.ttLen = offOf l + e.timeLen
  cap : e.timeLen ≤ c.blockMax
  blocks : e.blocksRev.reverse = l.map (fun p => mkBlock c p.1)
  inblk : ∀ p ∈ l, SigInBlock' bits i p
  sig : ∃ si, e.signals.toList[i]? = some si ∧ si.tpe = .bitvec bits ∧ si.dataBytes = encStream cs ∧
        si.prevTimeIdx = (cs.map (·.1)).sum ∧ si.prevTimeIdx ≤ e.timeLen - 1 ∧
        (∀ x ∈ cs, x.2.1.toNat ≤ si.maxStates.toNat)
  fits : ∀ x ∈ cs, x.2.2.length = divCeil bits x.2.1.bib ∧ x.1 < 2 ^ 30
  clean : e.hasNewData = false → cs = []
  sem : absAll l 0 ++ absolutise (offOf l) cs = ((s.changesRev.getD i []).reverse).map encV
  vals : ∀ x ∈ s.changesRev.getD i [], ∃ syms, x.2 = .bits syms ∧ syms.length = bits ∧ ∀ u ∈ syms, u < 2 ^ (kindOf syms).bits

theorem sim_init (c : Codec) (bits i : Nat) (tps : List SigType) (hi : tps[i]? = some (.bitvec bits)) :
    Sim c bits i (newEnc tps) { changesRev := (tps.map fun _ => []).toArray } [] [] := by
  have hget : (Array.getD (tps.map fun _ => ([] : List (Nat × Value))).toArray i []) = [] := by
    simp [Array.getD_eq_getD_getElem?, List.getElem?_map]
    cases tps[i]? <;> simp
  refine ⟨(newEnc_inv tps).1, rfl, rfl, rfl, by simp [offOf, newEnc], by simp [newEnc], by simp [newEnc], by simp, ?_, by simp, fun _ => rfl, ?_, ?_⟩
  · refine ⟨{ tpe := .bitvec bits }, ?_, rfl, by simp [SigEnc.dataBytes, encStream], by simp, by simp, by simp⟩
    simp [newEnc, List.getElem?_map, hi]
  · simp only [absAll, absolutise, List.append_nil]
    rw [hget]; rfl
  · rw [hget]; simp


theorem sim_time (c : Codec) (bits i : Nat) (types : Array SigType) (e : Enc) (s : Spec.St) (l : List BInfo) (cs : List Change)
    (hbm : 1 ≤ c.blockMax) (h : Sim c bits i e s l cs) (t : Nat) (s' : Spec.St) (hs : Spec.step types s (.time t) = some s') :
    ∃ l' cs', Sim c bits i (timeChange c e t) s' l' cs' := by
  have hinv := timeChange_inv c e t h.inv
  obtain ⟨si, hsi, htpe, hdata, hprev, hple, hkind⟩ := h.sig
  cases hrev : e.timeRev with
  | nil =>
    have hsn : s.ttRev = [] := by
      have := h.head; rw [hrev] at this
      cases hh : s.ttRev with
      | nil => rfl
      | cons a r => rw [hh] at this; simp at this
    simp only [Spec.step, hsn, Option.some.injEq] at hs
    subst hs
    have hl0 : e.timeLen = 0 := by rw [h.inv.len, hrev]; rfl
    have ho : offOf l = 0 := by have := h.len; rw [h.wf, hsn, hl0] at this; simp at this; omega
    have he : timeChange c e t = { e with timeRev := [t], timeLen := 1, hasNewData := true, skipping := false } := by
      simp [timeChange, hrev]
    rw [he] at hinv ⊢
    refine ⟨l, cs, hinv, rfl, rfl, rfl, by simp [ho], ?_, h.blocks, h.inblk, ⟨si, hsi, htpe, hdata, hprev, ?_, hkind⟩, h.fits, ?_, h.sem, h.vals⟩
    · exact hbm
    · simp only; rw [hl0] at hple; omega
    · intro hf; simp at hf
  | cons prev rest =>
    have hsh : s.ttRev.head? = some prev := by rw [← h.head, hrev]; rfl
    obtain ⟨srest, hsr⟩ : ∃ r, s.ttRev = prev :: r := by
      cases hh : s.ttRev with
      | nil => rw [hh] at hsh; cases hsh
      | cons a r => rw [hh] at hsh; simp at hsh; exact ⟨r, by rw [hsh]⟩
    have hlen1 : 1 ≤ e.timeLen := by rw [h.inv.len, hrev]; simp
    simp only [Spec.step, hsr] at hs
    by_cases hgt : t > prev
    · simp only [hgt, ↓reduceIte, Option.some.injEq] at hs
      subst hs
      have hne : ¬ prev = t := by omega
      have hng : ¬ prev > t := by omega
      by_cases hroll : e.timeLen ≥ c.blockMax
      · -- roll-over: the current block is closed, a new one starts with `t` at index 0
        have hdirty : e.hasNewData = true := h.inv.dirty (by rw [hrev]; simp)
        have he : timeChange c e t = { e with signals := (finishSignals c e.signals).1, timeRev := [t], timeLen := 1,
                                              blocksRev := mkBlock c (descOf e) :: e.blocksRev, hasNewData := true, skipping := false } := by
          simp [timeChange, hrev, hne, hng, hroll, finishBlock_dirty' c e hdirty]
        rw [he] at hinv ⊢
        have hoff : offOf (l ++ [(descOf e, si, cs)]) = offOf l + e.timeLen := by
          rw [offOf_append]; simp [offOf, descOf, h.inv.len]
        refine ⟨l ++ [(descOf e, si, cs)], [], hinv, by simp [h.wf, hsr], rfl, by simp, ?_, hbm, ?_, ?_, ?_, by simp, fun _ => rfl, ?_, h.vals⟩
        · simp only [hoff]; have := h.len; omega
        · simp only [List.reverse_cons, h.blocks, List.map_append, List.map_cons, List.map_nil]
        · intro p hp
          rcases List.mem_append.mp hp with hp | hp
          · exact h.inblk p hp
          · simp only [List.mem_singleton] at hp; subst hp
            exact ⟨hsi, hdata, h.fits, hkind⟩
        · refine ⟨(finishSignal c si).1, ?_, ?_, ?_, ?_, ?_, by simp⟩
          · simp only [finishSignals_fst, List.getElem?_map, hsi, Option.map_some]
          · rw [finishSignal_fst]; exact htpe
          · rw [finishSignal_fst]; simp [SigEnc.dataBytes, encStream]
          · rw [finishSignal_fst]; simp
          · rw [finishSignal_fst]; simp
        · rw [absAll_append]
          simp only [absAll, absolutise, List.append_nil, Nat.zero_add]
          exact h.sem
      · have he : timeChange c e t = { e with timeRev := t :: e.timeRev, timeLen := e.timeLen + 1, hasNewData := true, skipping := false } := by
          simp [timeChange, hrev, hne, hng, hroll]
        rw [he] at hinv ⊢
        refine ⟨l, cs, hinv, by simp [h.wf, hsr], rfl, by simp, ?_, ?_, h.blocks, h.inblk, ⟨si, hsi, htpe, hdata, hprev, ?_, hkind⟩, h.fits, ?_, h.sem, h.vals⟩
        · simp only; have := h.len; omega
        · simp only; omega
        · simp only; omega
        · intro hf; simp at hf
    · simp only [hgt, ↓reduceIte] at hs
      split at hs
      · cases hs
      · split at hs
        · rename_i heq
          simp only [Option.some.injEq] at hs; subst hs
          have he : timeChange c e t = { e with skipping := false } := by simp [timeChange, hrev, heq]
          rw [he] at hinv ⊢
          exact ⟨l, cs, hinv, by simp [h.wf, hsr], rfl, by simp [hrev], h.len, h.cap, h.blocks, h.inblk, ⟨si, hsi, htpe, hdata, hprev, hple, hkind⟩, h.fits, h.clean, h.sem, h.vals⟩
        · rename_i hneq
          simp only [Option.some.injEq] at hs; subst hs
          have hne : ¬ prev = t := fun hh => hneq hh.symm
          have hg : prev > t := by omega
          have he : timeChange c e t = { e with skipping := true } := by simp [timeChange, hrev, hne, hg]
          rw [he] at hinv ⊢
          exact ⟨l, cs, hinv, by simp [h.wf, hsr], rfl, by simp [hrev], h.len, h.cap, h.blocks, h.inblk, ⟨si, hsi, htpe, hdata, hprev, hple, hkind⟩, h.fits, h.clean, h.sem, h.vals⟩


/-- what the specification does on a value operation for signal `j` -/
theorem spec_value_step (types : Array SigType) (s s' : Spec.St) (op : Op) (j : Nat)
    (hop : (∃ v r, op = .vcd j v r) ∨ (∃ st b, op = .raw j st b) ∨ (∃ le, op = .real j le))
    (hs : Spec.step types s op = some s') :
    s.ttRev ≠ [] ∧ ∃ v, (if s.skipping then some s else record s j v) = some s' ∧
      (∀ value r, op = .vcd j value r → ∃ tp, types[j]? = some tp ∧ vcdValue tp value r = some v) := by
  rcases hop with ⟨value, r, rfl⟩ | ⟨st, b, rfl⟩ | ⟨le, rfl⟩
  · simp only [Spec.step] at hs
    split at hs
    · cases hs
    · rename_i hc
      have hne : s.ttRev ≠ [] := by intro hh; apply hc; right; simp [hh]
      split at hs
      · cases hs
      · rename_i tp htp
        split at hs
        · cases hs
        · rename_i v hv
          refine ⟨hne, v, hs, ?_⟩
          intro value' r' heq
          cases heq
          exact ⟨tp, htp, hv⟩
  · simp only [Spec.step] at hs
    split at hs
    · cases hs
    · rename_i hc
      have hne : s.ttRev ≠ [] := by intro hh; apply hc; right; simp [hh]
      split at hs
      · cases hs
      · split at hs
        · cases hs
        · rename_i v hv
          exact ⟨hne, v, hs, by intro _ _ heq; cases heq⟩
  · simp only [Spec.step] at hs
    split at hs
    · cases hs
    · rename_i hc
      have hne : s.ttRev ≠ [] := by intro hh; apply hc; right; simp [hh]
      split at hs
      · split at hs
        · exact ⟨hne, .real le, hs, by intro _ _ heq; cases heq⟩
        · cases hs
      · cases hs

theorem record_getD_ne (s s' : Spec.St) (j i : Nat) (v : Value) (h : record s j v = some s') (hij : j ≠ i) :
    s'.changesRev.getD i [] = s.changesRev.getD i [] ∧ s'.ttRev = s.ttRev ∧ s'.ttLen = s.ttLen ∧ s'.skipping = s.skipping := by
  unfold record at h
  split at h
  · simp only [Option.some.injEq] at h; subst h
    simp [Array.getD_eq_getD_getElem?, hij]
  · cases h

theorem record_getD_eq (s s' : Spec.St) (i : Nat) (v : Value) (h : record s i v = some s') :
    s'.changesRev.getD i [] = (s.ttLen - 1, v) :: s.changesRev.getD i [] ∧ s'.ttRev = s.ttRev ∧ s'.ttLen = s.ttLen ∧ s'.skipping = s.skipping := by
  unfold record at h
  split at h
  · rename_i hi
    simp only [Option.some.injEq] at h; subst h
    simp [Array.getD_eq_getD_getElem?, hi]
  · cases h

theorem updSig_skipping (e e' : Enc) (id : Nat) (f : SigEnc → Option SigEnc) (h : updSig e id f = some e') :
    e'.skipping = e.skipping := by
  unfold updSig at h
  split at h
  · split at h
    · cases h
    · cases h; rfl
  · cases h

/-- a value operation on another signal leaves signal `i` alone -/
theorem sim_value_other (c : Codec) (bits i : Nat) (e e' : Enc) (s s' : Spec.St) (l : List BInfo) (cs : List Change)
    (h : Sim c bits i e s l cs) (j : Nat) (hij : j ≠ i) (f : Nat → SigEnc → Option SigEnc)
    (he : valueChange e j f = some e') (v : Value) (hs : (if s.skipping then some s else record s j v) = some s') :
    Sim c bits i e' s' l cs := by
  obtain ⟨hinv', _⟩ := valueChange_frame e e' j f he h.inv
  unfold valueChange at he
  split at he
  · cases he
  · split at he
    · rename_i hsk
      cases he
      have : s.skipping = true := by rw [← h.skip]; exact hsk
      simp only [this, ↓reduceIte, Option.some.injEq] at hs
      subst hs; exact h
    · rename_i hsk
      have hsk' : s.skipping = false := by rw [← h.skip]; simpa using hsk
      simp only [hsk', Bool.false_eq_true, ↓reduceIte] at hs
      obtain ⟨r1, r2, r3, r4⟩ := record_getD_ne s s' j i v hs hij
      obtain ⟨u1, u2, u3, u4⟩ := updSig_frame e e' j _ he
      obtain ⟨si, hsi, rest⟩ := h.sig
      have hsig : e'.signals.toList[i]? = some si := by
        unfold updSig at he
        split at he
        · split at he
          · cases he
          · cases he
            simp only [Array.toList_set]
            rw [List.getElem?_set_ne hij]; exact hsi
        · cases he
      refine ⟨hinv', by rw [r3, r2]; exact h.wf, by rw [r4, updSig_skipping e e' j _ he]; exact h.skip, by rw [u1, r2]; exact h.head, by rw [r3, u2]; exact h.len,
        by rw [u2]; exact h.cap, by rw [u3]; exact h.blocks, h.inblk, ⟨si, hsig, by rw [u2]; exact rest⟩, h.fits, ?_, by rw [r1]; exact h.sem, by rw [r1]; exact h.vals⟩
      intro hf; rw [u4] at hf; cases hf


/-- a VCD value change of signal `i` itself: one more chunk, one more change of the specification -/
theorem sim_value_same (c : Codec) (bits i : Nat) (hb2 : 2 ≤ bits) (hbmax : c.blockMax ≤ 2 ^ 30)
    (e e' : Enc) (s s' : Spec.St) (l : List BInfo) (cs : List Change)
    (h : Sim c bits i e s l cs) (value : List Nat) (realLe : Option (List Nat))
    (he : vcdChange e i value realLe = some e') (v : Value) (hs : (if s.skipping then some s else record s i v) = some s')
    (hv : vcdValue (.bitvec bits) value realLe = some v) :
    ∃ cs', Sim c bits i e' s' l cs' := by
  obtain ⟨hinv', _⟩ := valueChange_frame e e' i _ he h.inv
  unfold vcdChange valueChange at he
  split at he
  · cases he
  · rename_i hl0
    split at he
    · rename_i hsk
      cases he
      have : s.skipping = true := by rw [← h.skip]; exact hsk
      simp only [this, ↓reduceIte, Option.some.injEq] at hs
      subst hs; exact ⟨cs, h⟩
    · rename_i hsk
      have hsk' : s.skipping = false := by rw [← h.skip]; simpa using hsk
      simp only [hsk', Bool.false_eq_true, ↓reduceIte] at hs
      obtain ⟨r1, r2, r3, r4⟩ := record_getD_eq s s' i v hs
      obtain ⟨u1, u2, u3, u4⟩ := updSig_frame e e' i _ he
      have u5 := updSig_skipping e e' i _ he
      obtain ⟨si, hsi, htpe, hdata, hprev, hple, hkind⟩ := h.sig
      unfold updSig at he
      split at he
      · rename_i hlt
        have hsi' : e.signals[i] = si := by
          have : e.signals.toList[i]? = some e.signals[i] := by simp [hlt]
          rw [this] at hsi; exact Option.some.inj hsi
        rw [hsi'] at he
        split at he
        · cases he
        · rename_i snew hadd
          obtain ⟨nums, hvn, hnl, hfit, hch, hpn, htn, hmx⟩ :=
            addVcd_value (e.timeLen - 1) value realLe si snew bits htpe (by omega) hadd v hv
          have hsig : e'.signals.toList[i]? = some snew := by
            cases he
            simp only [Array.toList_set]
            rw [List.getElem?_set_self (by simpa using hlt)]
          have hti : si.prevTimeIdx ≤ e.timeLen - 1 := hple
          refine ⟨cs ++ [(e.timeLen - 1 - si.prevTimeIdx, kindOf nums, writeNState (kindOf nums) nums none)],
            hinv', by rw [r3, r2]; exact h.wf, by rw [r4, u5]; exact h.skip, by rw [u1, r2]; exact h.head,
            by rw [r3, u2]; exact h.len, by rw [u2]; exact h.cap, by rw [u3]; exact h.blocks, h.inblk,
            ⟨snew, hsig, by rw [htn]; exact htpe, ?_, ?_, by rw [hpn, u2]; exact Nat.le_refl _, ?_⟩, ?_, ?_, ?_, ?_⟩
          · rw [dataBytes_cons snew _ _ hch, encStream_append]
            have : si.chunks.reverse.flatten = si.dataBytes := rfl
            rw [this, hdata]
            simp [encStream]
          · rw [hpn]; simp only [List.map_append, List.map_cons, List.map_nil, List.sum_append, List.sum_cons, List.sum_nil]
            rw [← hprev]; omega
          · intro x hx
            rw [hmx]
            rcases List.mem_append.mp hx with hx | hx
            · exact Nat.le_trans (hkind x hx) (join_ge_left _ _)
            · simp only [List.mem_singleton] at hx; subst hx
              exact join_ge_right _ _
          · intro x hx
            rcases List.mem_append.mp hx with hx | hx
            · exact h.fits x hx
            · simp only [List.mem_singleton] at hx; subst hx
              refine ⟨by rw [Wellen.Store.writeNState_length, hnl], ?_⟩
              have := h.cap
              simp only
              omega
          · intro hf; rw [u4] at hf; cases hf
          · rw [r1, absolutise_append]
            simp only [List.reverse_cons, List.map_append, List.map_cons, List.map_nil, absolutise, ← List.append_assoc]
            rw [h.sem]
            congr 1
            have hlen := h.len
            have : offOf l + (cs.map (·.1)).sum + (e.timeLen - 1 - si.prevTimeIdx) = s.ttLen - 1 := by
              rw [← hprev]; omega
            rw [hvn]
            simp only [encV, this]
          · intro x hx
            rw [r1] at hx
            rcases List.mem_cons.mp hx with hx | hx
            · subst hx; exact ⟨nums, hvn, hnl, hfit⟩
            · exact h.vals x hx
      · cases he


/-- the simulation along any history (signal `i`: two or more bits, written through VCD tokens) -/
theorem sim_run (c : Codec) (bits i : Nat) (hb2 : 2 ≤ bits) (hbm : 1 ≤ c.blockMax) (hbmax : c.blockMax ≤ 2 ^ 30)
    (types : Array SigType) (hti : types[i]? = some (.bitvec bits)) (ops : List Op) :
    ∀ (e : Enc) (s : Spec.St) (l : List BInfo) (cs : List Change), Sim c bits i e s l cs →
      (∀ op ∈ ops, ∀ st b, op ≠ .raw i st b) →
      ∀ e' s', runOps c e ops = some e' → foldSpec types ops s = some s' → ∃ l' cs', Sim c bits i e' s' l' cs' := by
  induction ops with
  | nil =>
    intro e s l cs h _ e' s' he hs
    simp only [runOps, Option.some.injEq] at he
    simp only [foldSpec, List.foldl_nil, Option.some.injEq] at hs
    subst he hs
    exact ⟨l, cs, h⟩
  | cons op rest ih =>
    intro e s l cs h hraw e' s' he hs
    simp only [runOps] at he
    rw [foldSpec_cons] at hs
    cases he1 : stepOp c e op with
    | none => rw [he1] at he; cases he
    | some e1 =>
      rw [he1] at he
      simp only at he
      cases hs1 : Spec.step types s op with
      | none => rw [hs1] at hs; cases hs
      | some s1 =>
        rw [hs1] at hs
        simp only [Option.bind_some] at hs
        have hraw' : ∀ op ∈ rest, ∀ st b, op ≠ .raw i st b := fun o ho => hraw o (List.mem_cons_of_mem _ ho)
        suffices hstep : ∃ l1 cs1, Sim c bits i e1 s1 l1 cs1 by
          obtain ⟨l1, cs1, h1⟩ := hstep
          exact ih e1 s1 l1 cs1 h1 hraw' e' s' he hs
        cases op with
        | time t =>
          simp only [stepOp, Option.some.injEq] at he1
          subst he1
          exact sim_time c bits i types e s l cs hbm h t s1 hs1
        | vcd j value r =>
          have he1' : vcdChange e j value r = some e1 := he1
          obtain ⟨_, v, hrec, hval⟩ := spec_value_step types s s1 (.vcd j value r) j (Or.inl ⟨value, r, rfl⟩) hs1
          by_cases hji : j = i
          · subst hji
            obtain ⟨tp, htp, hvv⟩ := hval value r rfl
            rw [hti] at htp
            cases htp
            obtain ⟨cs1, h1⟩ := sim_value_same c bits j hb2 hbmax e e1 s s1 l cs h value r he1' v hrec hvv
            exact ⟨l, cs1, h1⟩
          · exact ⟨l, cs, sim_value_other c bits i e e1 s s1 l cs h j hji (fun ti => addVcd ti value r) he1' v hrec⟩
        | raw j st b =>
          have he1' : valueChange e j (fun ti => addNBit ti b st) = some e1 := he1
          obtain ⟨_, v, hrec, _⟩ := spec_value_step types s s1 (.raw j st b) j (Or.inr (Or.inl ⟨st, b, rfl⟩)) hs1
          have hji : j ≠ i := by
            intro hh; subst hh
            exact hraw (.raw j st b) (by simp) st b rfl
          exact ⟨l, cs, sim_value_other c bits i e e1 s s1 l cs h j hji _ he1' v hrec⟩
        | real j le =>
          have he1' : valueChange e j (fun ti => addReal ti le) = some e1 := he1
          obtain ⟨_, v, hrec, _⟩ := spec_value_step types s s1 (.real j le) j (Or.inr (Or.inr ⟨le, rfl⟩)) hs1
          have hji : j ≠ i := by
            intro hh; subst hh
            simp only [Spec.step, hti] at hs1
            split at hs1 <;> cases hs1
          exact ⟨l, cs, sim_value_other c bits i e e1 s s1 l cs h j hji _ he1' v hrec⟩
        | split => simp [stepOp] at he1


/-- the initial state of the specification for a list of signal types -/
def specInit (tps : List SigType) : Spec.St := { changesRev := (tps.map fun _ => []).toArray }

/-- **the finished store, block by block, is the specification's change list** (multi-bit VCD vector, any history, any number of
blocks): the store consists of blocks built by `finish_block` from per-signal chunk streams, and the changes of those streams
with their time indices made absolute are exactly the changes recorded by the specification -/
theorem store_blocks_refine_spec (c : Codec) (bits i : Nat) (hb2 : 2 ≤ bits) (hbm : 1 ≤ c.blockMax) (hbmax : c.blockMax ≤ 2 ^ 30)
    (tps : List SigType) (hti : tps[i]? = some (.bitvec bits)) (ops : List Op) (hraw : ∀ op ∈ ops, ∀ st b, op ≠ .raw i st b)
    (e : Enc) (he : runOps c (newEnc tps) ops = some e) (s : Spec.St) (hs : foldSpec tps.toArray ops (specInit tps) = some s) :
    ∃ lf : List BInfo, (finish c e).1.blocks = lf.map (fun p => mkBlock c p.1) ∧ (∀ p ∈ lf, SigInBlock' bits i p) ∧
      absAll lf 0 = ((s.changesRev.getD i []).reverse).map encV ∧
      (∀ x ∈ s.changesRev.getD i [], ∃ syms, x.2 = .bits syms ∧ syms.length = bits ∧ ∀ u ∈ syms, u < 2 ^ (kindOf syms).bits) := by
  obtain ⟨l, cs, h⟩ := sim_run c bits i hb2 hbm hbmax tps.toArray (by simpa using hti) ops (newEnc tps) (specInit tps) [] []
    (sim_init c bits i tps hti) hraw e s he hs
  obtain ⟨si, hsi, _, hdata, _, _, hkind⟩ := h.sig
  by_cases hd : e.hasNewData = true
  · refine ⟨l ++ [(descOf e, si, cs)], ?_, ?_, ?_, h.vals⟩
    · simp only [finish, finishBlock_dirty' c e hd, List.reverse_cons, h.blocks, List.map_append, List.map_cons, List.map_nil]
    · intro p hp
      rcases List.mem_append.mp hp with hp | hp
      · exact h.inblk p hp
      · simp only [List.mem_singleton] at hp; subst hp
        exact ⟨hsi, hdata, h.fits, hkind⟩
    · rw [absAll_append]
      simp only [absAll, List.append_nil, Nat.zero_add]
      exact h.sem
  · have hd' : e.hasNewData = false := by simpa using hd
    refine ⟨l, ?_, h.inblk, ?_, h.vals⟩
    · simp only [finish, finishBlock_clean c e hd', h.blocks]
    · have := h.sem
      rw [h.clean hd'] at this
      simpa [absolutise] using this


theorem payload_le_data (c : Codec) (d : BlockDesc) (i : Nat) (s : SigEnc) (hs : d.signals.toList[i]? = some s) :
    s.dataBytes.length ≤ (mkBlock c d).data.length := by
  by_cases hne : s.dataBytes = []
  · simp [hne]
  · obtain ⟨comp, hp, _⟩ := finishSignal_payload c s hne
    have hd : (d.signals.toList.map fun s => (finishSignal c s).2)[i]? = some (some (lebWrite (metaEncode s.maxStates comp) ++ s.dataBytes)) := by
      rw [List.getElem?_map, hs]; simp [hp]
    obtain ⟨off, len, _, hsl⟩ := block_slice c d.signals i _ hd
    simp only at hsl
    have h1 : (lebWrite (metaEncode s.maxStates comp) ++ s.dataBytes).length ≤ (finishSignals c d.signals).2.2.length := by
      rw [← hsl, List.length_take, List.length_drop]; omega
    simp only [List.length_append] at h1
    simp only [mkBlock]
    omega

/-- **the loaded signal is a function of the specification's change list alone**: for any history the store accepts and the
specification accepts, a VCD vector signal of two or more bits is loaded — across any number of blocks, whatever the compression
decisions — as the loader's replay (alignment to the widest kind, removal of immediate repetitions) of the changes the
specification records, each as (time index, smallest sufficient kind, packed symbols).
`hsmall` excludes stores whose blocks exceed 2^36 bytes (the compressed-length field of the meta word is 32 bits wide). -/
theorem store_load_vector (c : Codec) (bits i : Nat) (hb2 : 2 ≤ bits) (hbm : 1 ≤ c.blockMax) (hbmax : c.blockMax ≤ 2 ^ 30)
    (tps : List SigType) (hti : tps[i]? = some (.bitvec bits)) (ops : List Op) (hraw : ∀ op ∈ ops, ∀ st b, op ≠ .raw i st b)
    (e : Enc) (he : runOps c (newEnc tps) ops = some e) (s : Spec.St) (hs : foldSpec tps.toArray ops (specInit tps) = some s)
    (hsmall : ∀ b ∈ (finish c e).1.blocks, b.data.length < 2 ^ 36) :
    ∃ sigS, loadSignal (finish c e).1 i (.bitvec bits) =
      some { maxStates := sigS,
             times := (replayAbs bits sigS (((s.changesRev.getD i []).reverse).map encV) {}).timesRev.reverse,
             entries := (replayAbs bits sigS (((s.changesRev.getD i []).reverse).map encV) {}).entriesRev.reverse } := by
  obtain ⟨lf, hblocks, hin, hsem, _⟩ := store_blocks_refine_spec c bits i hb2 hbm hbmax tps hti ops hraw e he s hs
  have hfull : ∀ p ∈ lf, SigInBlock bits i p := by
    intro p hp
    obtain ⟨h1, h2, h3, _⟩ := hin p hp
    refine ⟨h1, h2, fun x hx => ⟨(h3 x hx).1, hdr_bound x.1 x.2.1 (h3 x hx).2⟩, ?_⟩
    have hb : (mkBlock c p.1).data.length < 2 ^ 36 :=
      hsmall _ (by rw [hblocks]; exact List.mem_map.mpr ⟨p, hp, rfl⟩)
    have := payload_le_data c p.1 i p.2.1 h1
    unfold divCeil
    omega
  have hload := multi_block_load c bits (by omega) i lf hfull
  have hreader : (finish c e).1 = { blocks := lf.map fun p => mkBlock c p.1 } := by
    cases hf : (finish c e).1 with
    | mk blocks => rw [hf] at hblocks; simp only at hblocks; rw [hblocks]
  rw [hreader, hload]
  refine ⟨joinedStates c lf, ?_⟩
  rw [replayBlocks_abs, hsem]


/-! ### the loader's byte-wise de-duplication is `canon` -/

/-- a well-formed vector value: `bits` symbols below 9 whose smallest kind fits the widest kind of the signal -/
def WFV (bits : Nat) (sigS : States) (v : Value) : Prop :=
  ∃ syms, v = .bits syms ∧ syms.length = bits ∧ (∀ u ∈ syms, u < 2 ^ (kindOf syms).bits) ∧ (kindOf syms).toNat ≤ sigS.toNat

/-- the entry the loader stores for a change -/
def entryOf (bits : Nat) (sigS : States) (x : Nat × Value) : List Nat :=
  alignEntry sigS (encV x).2.1 bits (encV x).2.2

theorem entry_injective (maxS l1 l2 : States) (s1 s2 : List Nat)
    (hlen : s1.length = s2.length) (hb : 2 ≤ s1.length)
    (hv1 : ∀ v ∈ s1, v < 2 ^ l1.bits) (hv2 : ∀ v ∈ s2, v < 2 ^ l2.bits)
    (hle1 : l1.toNat ≤ maxS.toNat) (hle2 : l2.toNat ≤ maxS.toNat)
    (he : alignEntry maxS l1 s1.length (writeNState l1 s1 none) =
          alignEntry maxS l2 s2.length (writeNState l2 s2 none)) : l1 = l2 ∧ s1 = s2 := by
  obtain ⟨d1, hd1, ht1⟩ := entry_roundtrip maxS l1 s1 hb hv1 hle1
  obtain ⟨d2, hd2, ht2⟩ := entry_roundtrip maxS l2 s2 (by omega) hv2 hle2
  rw [he, hlen] at hd1
  rw [hd1] at hd2
  simp at hd2
  obtain ⟨e1, e2⟩ := hd2
  subst e1 e2
  refine ⟨rfl, ?_⟩
  rw [← ht1, ← ht2, hlen]

theorem entryOf_inj (bits : Nat) (hb2 : 2 ≤ bits) (sigS : States) (k1 k2 : Nat) (v1 v2 : Value)
    (h1 : WFV bits sigS v1) (h2 : WFV bits sigS v2) (he : entryOf bits sigS (k1, v1) = entryOf bits sigS (k2, v2)) : v1 = v2 := by
  obtain ⟨s1, rfl, hl1, hv1, hle1⟩ := h1
  obtain ⟨s2, rfl, hl2, hv2, hle2⟩ := h2
  simp only [entryOf, encV] at he
  rw [← hl1] at he
  have he' : alignEntry sigS (kindOf s1) s1.length (writeNState (kindOf s1) s1 none) =
      alignEntry sigS (kindOf s2) s2.length (writeNState (kindOf s2) s2 none) := by
    rw [he]; congr 1; omega
  have := entry_injective sigS (kindOf s1) (kindOf s2) s1 s2 (by omega) (by omega)
    hv1 hv2 hle1 hle2 he'
  rw [this.2]

/-- replaying the specification's changes from an accumulator whose last entry is the entry of `prev` -/
theorem replay_go (bits : Nat) (hb2 : 2 ≤ bits) (sigS : States) (xs : List (Nat × Value)) :
    ∀ (a : Acc) (pk : Nat) (prev : Value) (er : List (List Nat)), WFV bits sigS prev → (∀ x ∈ xs, WFV bits sigS x.2) →
      a.entriesRev = entryOf bits sigS (pk, prev) :: er →
      replayAbs bits sigS (xs.map encV) a =
        { timesRev := ((canon.go prev xs).map (·.1)).reverse ++ a.timesRev,
          entriesRev := ((canon.go prev xs).map (entryOf bits sigS)).reverse ++ a.entriesRev } := by
  induction xs with
  | nil => intro a pk prev er _ _ _; simp [replayAbs, canon.go]
  | cons y r ih =>
    intro a pk prev er hp hx hhead
    have hy := hx y (by simp)
    have hr : ∀ x ∈ r, WFV bits sigS x.2 := fun x hxr => hx x (by simp [hxr])
    simp only [List.map_cons, replayAbs, List.foldl_cons]
    have hpush : a.push (encV y).1 (alignEntry sigS (encV y).2.1 bits (encV y).2.2) =
        if y.2 = prev then a else { timesRev := y.1 :: a.timesRev, entriesRev := entryOf bits sigS y :: a.entriesRev } := by
      unfold Acc.push
      rw [hhead]
      simp only
      have hk : (encV y).1 = y.1 := by
        obtain ⟨k, v⟩ := y
        cases v <;> rfl
      by_cases hv : y.2 = prev
      · have : entryOf bits sigS (pk, prev) = alignEntry sigS (encV y).2.1 bits (encV y).2.2 := by
          obtain ⟨k, v⟩ := y
          simp only at hv; subst hv
          obtain ⟨syms, rfl, _⟩ := hp
          rfl
        rw [if_pos this, if_pos hv]
      · have : ¬ entryOf bits sigS (pk, prev) = alignEntry sigS (encV y).2.1 bits (encV y).2.2 := by
          intro he
          apply hv
          have : entryOf bits sigS (pk, prev) = entryOf bits sigS (y.1, y.2) := he
          exact (entryOf_inj bits hb2 sigS pk y.1 prev y.2 hp hy this).symm
        rw [if_neg this, if_neg hv, hk]
        rfl
    show replayAbs bits sigS (r.map encV) (a.push (encV y).1 (alignEntry sigS (encV y).2.1 bits (encV y).2.2)) = _
    rw [hpush]
    by_cases hv : y.2 = prev
    · simp only [if_pos hv, canon.go]
      exact ih a pk prev er hp hr hhead
    · simp only [if_neg hv, canon.go]
      rw [ih _ y.1 y.2 a.entriesRev hy hr rfl]
      simp

/-- **the loader's replay of the specification's changes is `canon`**: times and entries of the kept changes -/
theorem replay_canon (bits : Nat) (hb2 : 2 ≤ bits) (sigS : States) (xs : List (Nat × Value)) (hx : ∀ x ∈ xs, WFV bits sigS x.2) :
    (replayAbs bits sigS (xs.map encV) {}).timesRev.reverse = (canon xs).map (·.1) ∧
    (replayAbs bits sigS (xs.map encV) {}).entriesRev.reverse = (canon xs).map (entryOf bits sigS) := by
  cases xs with
  | nil => simp [replayAbs, canon]
  | cons y r =>
    have hy := hx y (by simp)
    have hr : ∀ x ∈ r, WFV bits sigS x.2 := fun x hxr => hx x (by simp [hxr])
    simp only [List.map_cons, replayAbs, List.foldl_cons]
    have hk : (encV y).1 = y.1 := by
      obtain ⟨k, v⟩ := y
      cases v <;> rfl
    have h0 : ({} : Acc).push (encV y).1 (alignEntry sigS (encV y).2.1 bits (encV y).2.2) =
        { timesRev := [y.1], entriesRev := [entryOf bits sigS y] } := by
      simp [Acc.push, hk, entryOf]
    show (replayAbs bits sigS (r.map encV) (({} : Acc).push (encV y).1 (alignEntry sigS (encV y).2.1 bits (encV y).2.2))).timesRev.reverse = _ ∧
         (replayAbs bits sigS (r.map encV) (({} : Acc).push (encV y).1 (alignEntry sigS (encV y).2.1 bits (encV y).2.2))).entriesRev.reverse = _
    rw [h0, replay_go bits hb2 sigS r _ y.1 y.2 [] hy hr rfl]
    simp [canon]


theorem joinAll_ge (l : List States) (x : States) (hx : x ∈ l) : x.toNat ≤ (joinAll l).toNat := by
  cases l with
  | nil => cases hx
  | cons a r =>
    simp only [joinAll]
    obtain ⟨h1, h2⟩ := foldl_join_ge r a
    rcases List.mem_cons.mp hx with rfl | hx
    · exact h1
    · exact h2 x hx

theorem mem_metasOf (c : Codec) (l : List BInfo) : ∀ (off : Nat) (p : BInfo), p ∈ l → p.2.2 ≠ [] →
    p.2.1.maxStates ∈ (metasOf c l off).map (fun b => b.2.2.1) := by
  induction l with
  | nil => intro _ p hp; cases hp
  | cons q r ih =>
    intro off p hp hne
    simp only [metasOf, List.map_append, List.mem_append]
    rcases List.mem_cons.mp hp with rfl | hp
    · left; simp [hne]
    · right; exact ih _ p hp hne

theorem mem_absolutise (cs : List Change) : ∀ (p : Nat) (y : Change), y ∈ absolutise p cs → ∃ x ∈ cs, y.2 = x.2 := by
  induction cs with
  | nil => intro p y hy; cases hy
  | cons x r ih =>
    intro p y hy
    simp only [absolutise, List.mem_cons] at hy
    rcases hy with rfl | hy
    · exact ⟨x, by simp, rfl⟩
    · obtain ⟨z, hz, e⟩ := ih _ y hy
      exact ⟨z, by simp [hz], e⟩

theorem mem_absAll (l : List BInfo) : ∀ (off : Nat) (y : Change), y ∈ absAll l off → ∃ p ∈ l, ∃ x ∈ p.2.2, y.2 = x.2 := by
  induction l with
  | nil => intro _ y hy; cases hy
  | cons q r ih =>
    intro off y hy
    simp only [absAll, List.mem_append] at hy
    rcases hy with hy | hy
    · obtain ⟨x, hx, e⟩ := mem_absolutise q.2.2 off y hy
      exact ⟨q, by simp, x, hx, e⟩
    · obtain ⟨p, hp, x, hx, e⟩ := ih _ y hy
      exact ⟨p, by simp [hp], x, hx, e⟩

/-- every stored entry decodes to the kind and the symbols of its value -/
theorem entryOf_decodes (bits : Nat) (hb2 : 2 ≤ bits) (sigS : States) (k : Nat) (v : Value) (h : WFV bits sigS v) :
    ∃ syms d, v = .bits syms ∧
      decodeEntry sigS bits (getLenAndMeta sigS bits).2 (entryOf bits sigS (k, v)) = some (kindOf syms, d) ∧
      toSyms (kindOf syms) d bits = syms := by
  obtain ⟨syms, rfl, hl, hv, hle⟩ := h
  obtain ⟨d, hd, ht⟩ := entry_roundtrip sigS (kindOf syms) syms (by omega) (by simpa [B] using hv) hle
  rw [hl] at hd ht
  exact ⟨syms, d, rfl, hd, ht⟩

/-- **Store = specification, vector signals**: for every history accepted by the store and by the specification, a VCD vector
signal of two or more bits loads — across any number of blocks and compression decisions — with exactly the time indices of
`canon` of the specification's change list (immediate repetitions removed, nothing else), and the entry stored for each kept
change is the aligned packing of that change's symbols in their smallest kind (`entryOf_decodes`: it decodes to them). -/
theorem store_load_vector_canon (c : Codec) (bits i : Nat) (hb2 : 2 ≤ bits) (hbm : 1 ≤ c.blockMax) (hbmax : c.blockMax ≤ 2 ^ 30)
    (tps : List SigType) (hti : tps[i]? = some (.bitvec bits)) (ops : List Op) (hraw : ∀ op ∈ ops, ∀ st b, op ≠ .raw i st b)
    (e : Enc) (he : runOps c (newEnc tps) ops = some e) (s : Spec.St) (hs : foldSpec tps.toArray ops (specInit tps) = some s)
    (hsmall : ∀ b ∈ (finish c e).1.blocks, b.data.length < 2 ^ 36) :
    ∃ sigS, loadSignal (finish c e).1 i (.bitvec bits) =
      some { maxStates := sigS,
             times := (canon (s.changesRev.getD i []).reverse).map (·.1),
             entries := (canon (s.changesRev.getD i []).reverse).map (entryOf bits sigS) } ∧
      ∀ x ∈ (s.changesRev.getD i []).reverse, WFV bits sigS x.2 := by
  obtain ⟨lf, hblocks, hin, hsem, hvals⟩ := store_blocks_refine_spec c bits i hb2 hbm hbmax tps hti ops hraw e he s hs
  have hfull : ∀ p ∈ lf, SigInBlock bits i p := by
    intro p hp
    obtain ⟨h1, h2, h3, _⟩ := hin p hp
    refine ⟨h1, h2, fun x hx => ⟨(h3 x hx).1, hdr_bound x.1 x.2.1 (h3 x hx).2⟩, ?_⟩
    have hb : (mkBlock c p.1).data.length < 2 ^ 36 :=
      hsmall _ (by rw [hblocks]; exact List.mem_map.mpr ⟨p, hp, rfl⟩)
    have := payload_le_data c p.1 i p.2.1 h1
    unfold divCeil
    omega
  have hload := multi_block_load c bits (by omega) i lf hfull
  have hreader : (finish c e).1 = { blocks := lf.map fun p => mkBlock c p.1 } := by
    cases hf : (finish c e).1 with
    | mk blocks => rw [hf] at hblocks; simp only at hblocks; rw [hblocks]
  have hwf : ∀ x ∈ (s.changesRev.getD i []).reverse, WFV bits (joinedStates c lf) x.2 := by
    intro x hx
    obtain ⟨syms, hv, hl, hfit⟩ := hvals x (List.mem_reverse.mp hx)
    refine ⟨syms, hv, hl, hfit, ?_⟩
    have hmem : encV x ∈ absAll lf 0 := by rw [hsem]; exact List.mem_map.mpr ⟨x, hx, rfl⟩
    obtain ⟨p, hp, y, hy, e2⟩ := mem_absAll lf 0 _ hmem
    have hk : (encV x).2.1 = kindOf syms := by
      obtain ⟨k, v⟩ := x
      simp only at hv; subst hv; rfl
    have hyk : y.2.1 = kindOf syms := by rw [← hk, e2]
    obtain ⟨_, _, _, h4⟩ := hin p hp
    have h5 := h4 y hy
    have hne : p.2.2 ≠ [] := by intro hh; rw [hh] at hy; cases hy
    have h6 := joinAll_ge _ _ (mem_metasOf c lf 0 p hp hne)
    unfold joinedStates
    rw [← hyk]; omega
  obtain ⟨ht, hen⟩ := replay_canon bits hb2 (joinedStates c lf) _ hwf
  refine ⟨joinedStates c lf, ?_, hwf⟩
  rw [hreader, hload, replayBlocks_abs, hsem, ht, hen]


/-! ### the specification's own time table, and `Spec.run` in terms of the fold -/

theorem spec_step_table (types : Array SigType) (s s' : Spec.St) (op : Op) (pre : List Nat)
    (ht : s.ttRev.reverse = strictPrefixMax pre) (h : Spec.step types s op = some s') :
    s'.ttRev.reverse = strictPrefixMax (pre ++ timesOf [op]) := by
  have keep : s'.ttRev = s.ttRev → s'.ttRev.reverse = strictPrefixMax pre := fun e => by rw [e]; exact ht
  have hrec : ∀ j v, (if s.skipping then some s else record s j v) = some s' → s'.ttRev = s.ttRev := by
    intro j v hh
    split at hh
    · cases hh; rfl
    · unfold record at hh
      split at hh
      · cases hh; rfl
      · cases hh
  cases op with
  | time t =>
    simp only [timesOf]
    rw [spm_snoc, ← ht]
    simp only [Spec.step] at h
    cases hr : s.ttRev with
    | nil =>
      rw [hr] at h; simp only [Option.some.injEq] at h; subst h
      simp
    | cons m r =>
      rw [hr] at h
      simp only at h
      simp only [List.reverse_cons, List.getLast?_append, List.getLast?_singleton, Option.some_or]
      by_cases hgt : t > m
      · simp only [hgt, ↓reduceIte, Option.some.injEq] at h ⊢; subst h; simp [hr]
      · simp only [hgt, ↓reduceIte] at h ⊢
        split at h
        · cases h
        · split at h <;> (simp only [Option.some.injEq] at h; subst h; simp [hr])
  | split =>
    simp only [timesOf, List.append_nil]
    simp only [Spec.step] at h
    split at h <;> (simp only [Option.some.injEq] at h; subst h; exact ht)
  | vcd j value r =>
    simp only [timesOf, List.append_nil]
    obtain ⟨_, v, hh, _⟩ := spec_value_step types s s' (.vcd j value r) j (Or.inl ⟨value, r, rfl⟩) h
    exact keep (hrec j v hh)
  | raw j st b =>
    simp only [timesOf, List.append_nil]
    obtain ⟨_, v, hh, _⟩ := spec_value_step types s s' (.raw j st b) j (Or.inr (Or.inl ⟨st, b, rfl⟩)) h
    exact keep (hrec j v hh)
  | real j le =>
    simp only [timesOf, List.append_nil]
    obtain ⟨_, v, hh, _⟩ := spec_value_step types s s' (.real j le) j (Or.inr (Or.inr ⟨le, rfl⟩)) h
    exact keep (hrec j v hh)

theorem timesOf_cons (op : Op) (ops : List Op) : timesOf (op :: ops) = timesOf [op] ++ timesOf ops := by
  cases op <;> simp [timesOf]

/-- the specification's time table is the list of timestamps greater than all earlier ones -/
theorem spec_table (types : Array SigType) (ops : List Op) : ∀ (s s' : Spec.St) (pre : List Nat),
    s.ttRev.reverse = strictPrefixMax pre → foldSpec types ops s = some s' →
    s'.ttRev.reverse = strictPrefixMax (pre ++ timesOf ops) := by
  induction ops with
  | nil => intro s s' pre ht h; simp only [foldSpec, List.foldl_nil, Option.some.injEq] at h; subst h; simpa [timesOf] using ht
  | cons op r ih =>
    intro s s' pre ht h
    rw [foldSpec_cons] at h
    cases hs : Spec.step types s op with
    | none => rw [hs] at h; cases h
    | some s1 =>
      rw [hs] at h
      have := ih s1 s' (pre ++ timesOf [op]) (spec_step_table types s s1 op pre ht hs) h
      rw [timesOf_cons, ← List.append_assoc]; exact this

/-- `Spec.run` unfolded: the fold, then `canon` of every change list -/
theorem run_fold (tps : List SigType) (ops : List Op) (tt : List Nat) (sigs : List (List (Nat × Value)))
    (h : run tps ops = some (tt, sigs)) :
    ∃ s, foldSpec tps.toArray ops (specInit tps) = some s ∧ tt = s.ttRev.reverse ∧
      sigs = s.changesRev.toList.map (fun l => canon l.reverse) := by
  unfold run at h
  simp only at h
  split at h
  · cases h
  · rename_i s hs
    split at h
    · cases h
    · simp only [Option.some.injEq, Prod.mk.injEq] at h
      exact ⟨s, hs, h.1.symm, h.2.symm⟩

end Wellen.Store
