import WellenModel.Model.Hier
/-! Invariants of the abstract hierarchy specification under every operation sequence. -/
namespace Wellen.Hier

theorem findIdx?_spec (p : FNode → Bool) (l : List FNode) (k j : Nat) (h : findIdx? p l k = some j) :
    k ≤ j ∧ j < k + l.length ∧ (∃ n, l[j - k]? = some n ∧ p n = true) ∧
    ∀ i, i < j - k → ∀ n, l[i]? = some n → p n = false := by
  induction l generalizing k with
  | nil => simp [findIdx?] at h
  | cons a r ih =>
    simp only [findIdx?] at h
    by_cases hp : p a = true
    · simp only [hp, ↓reduceIte, Option.some.injEq] at h
      subst h
      refine ⟨Nat.le_refl _, by simp, ⟨a, by simp, hp⟩, ?_⟩
      intro i hi; omega
    · simp only [hp, Bool.false_eq_true, ↓reduceIte] at h
      obtain ⟨h1, h2, ⟨n, h3, h4⟩, h5⟩ := ih (k + 1) h
      refine ⟨by omega, by simp; omega, ⟨n, ?_, h4⟩, ?_⟩
      · have : j - k = (j - (k + 1)) + 1 := by omega
        rw [this]; simpa using h3
      · intro i hi m hm
        cases i with
        | zero => simp at hm; subst hm; simpa using hp
        | succ i => simp at hm; exact h5 i (by omega) m hm

theorem findIdx?_none (p : FNode → Bool) (l : List FNode) (k : Nat) (h : findIdx? p l k = none) :
    ∀ n ∈ l, p n = false := by
  induction l generalizing k with
  | nil => simp
  | cons a r ih =>
    simp only [findIdx?] at h
    by_cases hp : p a = true
    · simp [hp] at h
    · simp only [hp, Bool.false_eq_true, ↓reduceIte] at h
      intro n hn
      rcases List.mem_cons.mp hn with rfl | hn
      · simpa using hp
      · exact ih (k + 1) h n hn

structure Inv (s : SpecSt) : Prop where
  /-- parents are scopes declared earlier: the structure is a forest in declaration order -/
  parents : ∀ (i : Nat) (n : FNode), s.nodes[i]? = some n → ∀ p, n.parent = some p → p < i ∧ ∃ m : FNode, s.nodes[p]? = some m ∧ m.isScope = true
  /-- no two sibling scopes share a name -/
  distinct : ∀ (i j : Nat) (a b : FNode), i < j → s.nodes[i]? = some a → s.nodes[j]? = some b →
    a.isScope = true → b.isScope = true → a.parent = b.parent → a.name ≠ b.name
  /-- open scopes exist -/
  stack : ∀ j, SEntry.scope j ∈ s.stack → ∃ m : FNode, s.nodes[j]? = some m ∧ m.isScope = true

theorem curParent_mem (st : List SEntry) (p : Nat) (h : curParent st = some p) : SEntry.scope p ∈ st := by
  induction st with
  | nil => simp [curParent] at h
  | cons e r ih =>
    cases e with
    | flat => simp only [curParent] at h; exact List.mem_cons_of_mem _ (ih h)
    | scope j => simp only [curParent, Option.some.injEq] at h; subst h; simp

theorem getElem?_snoc (l : List FNode) (x : FNode) (i : Nat) (n : FNode) (h : (l ++ [x])[i]? = some n) :
    (i < l.length ∧ l[i]? = some n) ∨ (i = l.length ∧ n = x) := by
  by_cases hi : i < l.length
  · left; rw [List.getElem?_append_left hi] at h; exact ⟨hi, h⟩
  · right
    rw [List.getElem?_append_right (by omega)] at h
    have : i - l.length = 0 := by
      cases hk : i - l.length with
      | zero => rfl
      | succ k => rw [hk] at h; simp at h
    rw [this] at h; simp at h
    exact ⟨by omega, h.symm⟩

theorem snoc_left (l : List FNode) (x : FNode) (i : Nat) (n : FNode) (h : l[i]? = some n) :
    (l ++ [x])[i]? = some n := by
  have hi : i < l.length := by
    rcases Nat.lt_or_ge i l.length with h' | h'
    · exact h'
    · rw [List.getElem?_eq_none h'] at h; cases h
  rw [List.getElem?_append_left hi]; exact h

theorem inv_init : Inv {} := by
  refine ⟨?_, ?_, ?_⟩ <;> simp

/-- adding a node whose parent is the current scope keeps the forest well-formed, provided a new
scope's name is not yet used by a sibling scope -/
theorem inv_add (s : SpecSt) (x : FNode) (st' : List SEntry) (hi : Inv s)
    (hpar : x.parent = curParent s.stack)
    (hnew : x.isScope = true → ∀ n ∈ s.nodes, (n.isScope && n.parent == x.parent && n.name == x.name) = false)
    (hst : ∀ j, SEntry.scope j ∈ st' → SEntry.scope j ∈ s.stack ∨ (j = s.nodes.length ∧ x.isScope = true)) :
    Inv { nodes := s.nodes ++ [x], stack := st' } := by
  refine ⟨?_, ?_, ?_⟩
  · intro i n hn p hp
    rcases getElem?_snoc _ _ _ _ hn with ⟨hlt, h⟩ | ⟨heq, hx⟩
    · obtain ⟨h1, m, h2, h3⟩ := hi.parents i n h p hp
      exact ⟨h1, m, snoc_left _ _ _ _ h2, h3⟩
    · subst hx
      rw [hpar] at hp
      obtain ⟨m, h2, h3⟩ := hi.stack p (curParent_mem _ _ hp)
      have : p < s.nodes.length := by
        rcases Nat.lt_or_ge p s.nodes.length with h' | h'
        · exact h'
        · rw [List.getElem?_eq_none h'] at h2; cases h2
      exact ⟨by omega, m, snoc_left _ _ _ _ h2, h3⟩
  · intro i j a b hij ha hb sa sb hp
    rcases getElem?_snoc _ _ _ _ hb with ⟨hlt, h⟩ | ⟨heq, hx⟩
    · rcases getElem?_snoc _ _ _ _ ha with ⟨hlt2, h2⟩ | ⟨heq2, _⟩
      · exact hi.distinct i j a b hij h2 h sa sb hp
      · omega
    · subst hx
      rcases getElem?_snoc _ _ _ _ ha with ⟨hlt2, h2⟩ | ⟨heq2, _⟩
      · have hmem : a ∈ s.nodes := List.mem_of_getElem? h2
        have := hnew sb a hmem
        intro hname
        simp [sa, hp, hname] at this
      · omega
  · intro j hj
    rcases hst j hj with h | ⟨h1, h2⟩
    · obtain ⟨m, h3, h4⟩ := hi.stack j h
      exact ⟨m, snoc_left _ _ _ _ h3, h4⟩
    · subst h1
      exact ⟨x, by simp, h2⟩

theorem inv_step (s s' : SpecSt) (op : Op) (hi : Inv s) (h : specStep s op = some s') : Inv s' := by
  cases op with
  | pop =>
    simp only [specStep] at h
    cases hs : s.stack with
    | nil => rw [hs] at h; cases h
    | cons e r =>
      rw [hs] at h
      simp at h; subst h
      exact ⟨hi.parents, hi.distinct, fun j hj => hi.stack j (by rw [hs]; exact List.mem_cons_of_mem _ hj)⟩
  | var name sig =>
    simp only [specStep, Option.some.injEq] at h
    subst h
    exact inv_add s _ s.stack hi rfl (by intro h; cases h) (fun j hj => Or.inl hj)
  | scope name flatten =>
    simp only [specStep] at h
    cases hf : findIdx? (fun n => n.isScope && n.parent == curParent s.stack && n.name == name) s.nodes 0 with
    | some j =>
      rw [hf] at h
      simp at h; subst h
      obtain ⟨_, hlt, ⟨n, hn, hp⟩, _⟩ := findIdx?_spec _ _ _ _ hf
      refine ⟨hi.parents, hi.distinct, ?_⟩
      intro k hk
      rcases List.mem_cons.mp hk with hk | hk
      · cases hk
        refine ⟨n, by simpa using hn, ?_⟩
        simp at hp; exact hp.1.1
      · exact hi.stack k hk
    | none =>
      rw [hf] at h
      by_cases hfl : flatten = true
      · simp [hfl] at h; subst h
        refine ⟨hi.parents, hi.distinct, ?_⟩
        intro k hk
        rcases List.mem_cons.mp hk with hk | hk
        · cases hk
        · exact hi.stack k hk
      · simp [hfl] at h; subst h
        apply inv_add s _ _ hi rfl
        · intro _ n hn
          exact findIdx?_none _ _ _ hf n hn
        · intro j hj
          rcases List.mem_cons.mp hj with hj | hj
          · cases hj; right; exact ⟨rfl, rfl⟩
          · left; exact hj

theorem inv_run (ops : List Op) : ∀ (s s' : SpecSt), Inv s →
    ops.foldl (fun acc op => acc.bind (fun s => specStep s op)) (some s) = some s' → Inv s' := by
  induction ops with
  | nil => intro s s' hi h; simp at h; subst h; exact hi
  | cons op rest ih =>
    intro s s' hi h
    simp only [List.foldl_cons, Option.bind_some] at h
    cases hs : specStep s op with
    | none =>
      rw [hs] at h
      have : ∀ (l : List Op), l.foldl (fun acc op => acc.bind (fun s => specStep s op)) (none : Option SpecSt) = none := by
        intro l; induction l with
        | nil => rfl
        | cons a r ihr => simpa using ihr
      rw [this] at h; cases h
    | some s1 =>
      rw [hs] at h
      exact ih s1 s' (inv_step s s1 op hi hs) h

end Wellen.Hier
