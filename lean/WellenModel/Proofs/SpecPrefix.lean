import WellenModel.Model.Spec
/-!
The abstract waveform only grows along a history: every operation appends to the time table and
to the per-signal change lists, and what it appends carries a time index at or after the last
index of the state before. Consequence (`fold_common`): two histories with a common prefix denote
waveforms that agree on everything strictly before the last time step of the common part.
-/
namespace Wellen.Spec
open Wellen.Store

def foldSpec (types : Array SigType) (ops : List Op) (s : St) : Option St :=
  ops.foldl (fun acc op => acc.bind (fun s => step types s op)) (some s)

theorem foldSpec_none (types : Array SigType) (ops : List Op) :
    ops.foldl (fun acc op => acc.bind (fun s => step types s op)) none = none := by
  induction ops with
  | nil => rfl
  | cons o r ih => simpa using ih

theorem foldSpec_cons (types : Array SigType) (o : Op) (ops : List Op) (s : St) :
    foldSpec types (o :: ops) s = (step types s o).bind (foldSpec types ops) := by
  simp only [foldSpec, List.foldl_cons, Option.bind_some]
  cases step types s o with
  | none => simpa using foldSpec_none types ops
  | some s' => rfl

theorem foldSpec_append (types : Array SigType) (a b : List Op) (s : St) :
    foldSpec types (a ++ b) s = (foldSpec types a s).bind (foldSpec types b) := by
  induction a generalizing s with
  | nil => simp [foldSpec]
  | cons o a ih =>
    rw [List.cons_append, foldSpec_cons, foldSpec_cons]
    cases step types s o with
    | none => rfl
    | some s' => simpa using ih s'

/-- `s'` extends `s` -/
structure Ext (s s' : St) : Prop where
  tt : s.ttRev <:+ s'.ttRev
  len : s.ttLen ≤ s'.ttLen
  size : s'.changesRev.size = s.changesRev.size
  wf : s'.ttLen = s'.ttRev.length
  ch : ∀ i, ∃ new, s'.changesRev.getD i [] = new ++ s.changesRev.getD i [] ∧ ∀ p ∈ new, s.ttLen - 1 ≤ p.1

theorem Ext.refl (s : St) (hw : s.ttLen = s.ttRev.length) : Ext s s :=
  ⟨List.suffix_refl _, Nat.le_refl _, rfl, hw, fun _ => ⟨[], by simp, by simp⟩⟩

theorem Ext.trans {a b c : St} (h1 : Ext a b) (h2 : Ext b c) : Ext a c where
  tt := List.IsSuffix.trans h1.tt h2.tt
  len := Nat.le_trans h1.len h2.len
  size := by rw [h2.size, h1.size]
  wf := h2.wf
  ch := fun i => by
    obtain ⟨n1, e1, b1⟩ := h1.ch i
    obtain ⟨n2, e2, b2⟩ := h2.ch i
    refine ⟨n2 ++ n1, by rw [e2, e1, List.append_assoc], ?_⟩
    intro p hp
    rcases List.mem_append.mp hp with hp | hp
    · have := b2 p hp; have := h1.len; omega
    · exact b1 p hp

theorem record_ext (s s' : St) (id : Nat) (v : Value) (hw : s.ttLen = s.ttRev.length) (h : record s id v = some s') : Ext s s' := by
  unfold record at h
  split at h
  · rename_i hid
    simp only [Option.some.injEq] at h
    subst h
    refine ⟨List.suffix_refl _, Nat.le_refl _, by simp, hw, ?_⟩
    intro i
    by_cases hi : i = id
    · subst hi
      refine ⟨[(s.ttLen - 1, v)], ?_, by simp; omega⟩
      simp [Array.getD_eq_getD_getElem?, hid]
    · refine ⟨[], ?_, by simp⟩
      have : ¬ id = i := fun h => hi h.symm
      simp [Array.getD_eq_getD_getElem?, this]
  · cases h

theorem step_ext (types : Array SigType) (s s' : St) (op : Op) (hw : s.ttLen = s.ttRev.length) (h : step types s op = some s') : Ext s s' := by
  have keep : ∀ (a : St), a.ttRev = s.ttRev → a.ttLen = s.ttLen → a.changesRev = s.changesRev → Ext s a := by
    intro a h1 h2 h3
    exact ⟨by rw [h1]; exact List.suffix_refl _, by omega, by rw [h3], by rw [h1, h2]; exact hw, fun i => ⟨[], by simp [h3], by simp⟩⟩
  cases op with
  | time t =>
    simp only [step] at h
    split at h
    · simp only [Option.some.injEq] at h; subst h
      rename_i he
      exact ⟨by simp [he], by simp [hw, he], rfl, by simp, fun i => ⟨[], by simp, by simp⟩⟩
    · split at h
      · simp only [Option.some.injEq] at h; subst h
        exact ⟨List.suffix_cons _ _, by simp, rfl, by simp [hw], fun i => ⟨[], by simp, by simp⟩⟩
      · split at h
        · cases h
        · split at h <;> (simp only [Option.some.injEq] at h; subst h; exact keep _ rfl rfl rfl)
  | split =>
    simp only [step] at h
    split at h <;> (simp only [Option.some.injEq] at h; subst h)
    · exact Ext.refl _ hw
    · exact keep _ rfl rfl rfl
  | vcd id value realLe =>
    simp only [step] at h
    split at h
    · cases h
    · split at h
      · cases h
      · split at h
        · cases h
        · split at h
          · simp only [Option.some.injEq] at h; subst h; exact Ext.refl _ hw
          · exact record_ext _ _ _ _ hw h
  | raw id st bytes =>
    simp only [step] at h
    split at h
    · cases h
    · split at h
      · cases h
      · split at h
        · cases h
        · split at h
          · simp only [Option.some.injEq] at h; subst h; exact Ext.refl _ hw
          · exact record_ext _ _ _ _ hw h
  | real id le =>
    simp only [step] at h
    split at h
    · cases h
    · split at h
      · split at h
        · split at h
          · simp only [Option.some.injEq] at h; subst h; exact Ext.refl _ hw
          · exact record_ext _ _ _ _ hw h
        · cases h
      · cases h

theorem fold_ext (types : Array SigType) (ops : List Op) : ∀ (s s' : St), s.ttLen = s.ttRev.length →
    foldSpec types ops s = some s' → Ext s s' := by
  induction ops with
  | nil => intro s s' hw h; simp only [foldSpec, List.foldl_nil, Option.some.injEq] at h; subst h; exact Ext.refl _ hw
  | cons o r ih =>
    intro s s' hw h
    rw [foldSpec_cons] at h
    cases hs : step types s o with
    | none => rw [hs] at h; cases h
    | some s1 =>
      rw [hs] at h
      have e1 := step_ext types s s1 o hw hs
      exact Ext.trans e1 (ih s1 s' e1.wf h)

/-- entries of an extension that lie strictly before the last time index of the base are the base's -/
theorem Ext.filter_eq {s s' : St} (h : Ext s s') (i : Nat) :
    (s'.changesRev.getD i []).filter (fun p => p.1 < s.ttLen - 1) = (s.changesRev.getD i []).filter (fun p => p.1 < s.ttLen - 1) := by
  obtain ⟨new, e, b⟩ := h.ch i
  rw [e, List.filter_append]
  have : new.filter (fun p => p.1 < s.ttLen - 1) = [] := by
    rw [List.filter_eq_nil_iff]
    intro p hp
    have := b p hp
    simp; omega
  rw [this, List.nil_append]

/-- two histories with the common prefix `c`: both denote extensions of what `c` denotes — the time table and every change list of `c`
are prefixes of theirs, and all three agree on the changes strictly before `c`'s last time step -/
theorem fold_common (types : Array SigType) (c r1 r2 : List Op) (s0 s1 s2 : St) (hw : s0.ttLen = s0.ttRev.length)
    (h1 : foldSpec types (c ++ r1) s0 = some s1) (h2 : foldSpec types (c ++ r2) s0 = some s2) :
    ∃ sc, foldSpec types c s0 = some sc ∧ Ext sc s1 ∧ Ext sc s2 := by
  rw [foldSpec_append] at h1 h2
  cases hc : foldSpec types c s0 with
  | none => rw [hc] at h1; cases h1
  | some sc =>
    rw [hc] at h1 h2
    have ec := fold_ext types c s0 sc hw hc
    exact ⟨sc, rfl, fold_ext types r1 sc s1 ec.wf h1, fold_ext types r2 sc s2 ec.wf h2⟩

end Wellen.Spec
