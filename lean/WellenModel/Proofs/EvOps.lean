import WellenModel.Proofs.VcdStop
import WellenModel.Proofs.TimeTable
/-!
Glue between the lexer-level theorems (events of a body) and the store-level theorems (histories of
operations): `VcdEncoder::{time_change, value}` applied to the events of a stream is the store run
on the operations those events denote — identifier codes resolved, the implicit time 0 of a first
chunk that starts with a value inserted, values before the first timestamp of a later chunk dropped.
-/
namespace Wellen.VcdBody
open Wellen.Spec Wellen.Store

/-- the store operation an event denotes; `none` = the identifier does not resolve (`unwrap` panics) -/
def evOp (d : Decls) (rm : RealMap) : Ev → Option Op
  | .time t => some (.time t)
  | .value val id => (resolveId d id).map fun n => .vcd n val (realOf rm val)

def opsOfEvs (d : Decls) (rm : RealMap) : List Ev → Option (List Op)
  | [] => some []
  | e :: r =>
    match evOp d rm e with
    | none => none
    | some o => match opsOfEvs d rm r with
      | none => none
      | some os => some (o :: os)

/-- a first chunk that starts with a value change records it at time 0 -/
def implicitZero : List Ev → List Ev
  | .value v i :: r => .time 0 :: .value v i :: r
  | evs => evs

/-- a later chunk ignores the values in front of its first timestamp -/
def fromFirstTime : List Ev → List Ev
  | .value _ _ :: r => fromFirstTime r
  | evs => evs

theorem applyEvs_found (c : Codec) (d : Decls) (rm : RealMap) (evs : List Ev) : ∀ (v : VEnc), v.found = true →
    (applyEvs c d rm v evs).map (·.enc) = (opsOfEvs d rm evs).bind (runOps c v.enc) := by
  induction evs with
  | nil => intro v _; simp [applyEvs, opsOfEvs, runOps]
  | cons e r ih =>
    intro v hf
    cases e with
    | time t =>
      simp only [applyEvs, applyEv, opsOfEvs, evOp]
      rw [ih _ rfl]
      cases opsOfEvs d rm r with
      | none => rfl
      | some os => simp [runOps, stepOp]
    | value val id =>
      simp only [applyEvs, applyEv, opsOfEvs, evOp, hf, Bool.not_true, Bool.and_false, Bool.false_eq_true, ↓reduceIte]
      cases hr : resolveId d id with
      | none => simp
      | some n =>
        simp only [Option.map_some]
        cases hv : vcdChange v.enc n val (realOf rm val) with
        | none =>
          cases opsOfEvs d rm r with
          | none => rfl
          | some os => simp [runOps, stepOp, hv]
        | some e' =>
          simp only
          rw [ih _ rfl]
          cases opsOfEvs d rm r with
          | none => rfl
          | some os => simp [runOps, stepOp, hv]

/-- the first (or only) chunk -/
theorem applyEvs_first (c : Codec) (d : Decls) (rm : RealMap) (e : Enc) (evs : List Ev) :
    (applyEvs c d rm { enc := e, isFirst := true } evs).map (·.enc) =
      (opsOfEvs d rm (implicitZero evs)).bind (runOps c e) := by
  cases evs with
  | nil => simp [applyEvs, implicitZero, opsOfEvs, runOps]
  | cons ev r =>
    cases ev with
    | time t =>
      simp only [implicitZero, applyEvs, applyEv, opsOfEvs, evOp]
      rw [applyEvs_found c d rm r _ rfl]
      cases opsOfEvs d rm r with
      | none => rfl
      | some os => simp [runOps, stepOp]
    | value val id =>
      have h := applyEvs_found c d rm (.value val id :: r) { enc := timeChange c e 0, isFirst := true, found := true } rfl
      simp only [implicitZero]
      have h2 : applyEvs c d rm { enc := e, isFirst := true } (.value val id :: r) =
          applyEvs c d rm { enc := timeChange c e 0, isFirst := true, found := true } (.value val id :: r) := by
        simp [applyEvs, applyEv]
      rw [h2, h]
      have h3 : opsOfEvs d rm (.time 0 :: .value val id :: r) = (opsOfEvs d rm (.value val id :: r)).map (Op.time 0 :: ·) := by
        show (match evOp d rm (.time 0) with
          | none => none
          | some o => match opsOfEvs d rm (.value val id :: r) with
            | none => none
            | some os => some (o :: os)) = _
        simp only [evOp]
        cases opsOfEvs d rm (.value val id :: r) <;> rfl
      rw [h3]
      cases opsOfEvs d rm (.value val id :: r) with
      | none => rfl
      | some os => simp [runOps, stepOp]

/-- a later chunk of a multi-threaded load -/
theorem applyEvs_later (c : Codec) (d : Decls) (rm : RealMap) (e : Enc) (evs : List Ev) :
    (applyEvs c d rm { enc := e, isFirst := false } evs).map (·.enc) =
      (opsOfEvs d rm (fromFirstTime evs)).bind (runOps c e) := by
  induction evs with
  | nil => simp [applyEvs, fromFirstTime, opsOfEvs, runOps]
  | cons ev r ih =>
    cases ev with
    | time t =>
      simp only [fromFirstTime, applyEvs, applyEv, opsOfEvs, evOp]
      rw [applyEvs_found c d rm r _ rfl]
      cases opsOfEvs d rm r with
      | none => rfl
      | some os => simp [runOps, stepOp]
    | value val id =>
      simp only [fromFirstTime]
      rw [← ih]
      simp [applyEvs, applyEv]

theorem timesOf_opsOfEvs (d : Decls) (rm : RealMap) (evs : List Ev) (ops : List Op)
    (h : opsOfEvs d rm evs = some ops) : timesOf ops = evTimes evs := by
  induction evs generalizing ops with
  | nil => simp only [opsOfEvs, Option.some.injEq] at h; subst h; rfl
  | cons e r ih =>
    simp only [opsOfEvs] at h
    split at h
    · cases h
    · rename_i o ho
      split at h
      · cases h
      · rename_i os hos
        simp only [Option.some.injEq] at h
        subst h
        cases e with
        | time t => simp only [evOp, Option.some.injEq] at ho; subst ho; simp [timesOf, evTimes, ih os hos]
        | value val id =>
          simp only [evOp] at ho
          cases hr : resolveId d id with
          | none => simp [hr] at ho
          | some n => simp [hr] at ho; subst ho; simp [timesOf, evTimes, ih os hos]

/-- a successful stream of a first / only chunk is the store run on the operations of its events -/
theorem readStream_first_ok (c : Codec) (d : Decls) (rm : RealMap) (stream : List Nat) (stop : Option Nat) (nl : Bool) (enc : Enc)
    (h : readStream c d rm stream stop true nl = .ok enc) :
    ∃ evs ops, parseBody stop stream nl = .ok evs ∧ opsOfEvs d rm (implicitZero evs) = some ops ∧
      runOps c (newEnc d.sigTypes) ops = some enc := by
  unfold readStream at h
  simp only at h
  have hg := applyEvs_first c d rm (newEnc d.sigTypes)
    (match parseBody stop stream nl with | .ok e => e | .err e => e)
  cases hp : parseBody stop stream nl with
  | err e0 =>
    rw [hp] at h
    simp only at h
    split at h <;> cases h
  | ok evs =>
    rw [hp] at h hg
    simp only at h hg
    cases ha : applyEvs c d rm { enc := newEnc d.sigTypes, isFirst := true } evs with
    | none => rw [ha] at h; cases h
    | some v =>
      rw [ha] at h hg
      simp only [Res.ok.injEq] at h
      simp only [Option.map_some] at hg
      cases ho : opsOfEvs d rm (implicitZero evs) with
      | none => rw [ho] at hg; cases hg
      | some ops =>
        rw [ho] at hg
        simp only [Option.bind_some] at hg
        exact ⟨evs, ops, rfl, ho, by rw [← hg, h]⟩

/-! ### time tables of prefixes -/

theorem evTimes_append (a b : List Ev) : evTimes (a ++ b) = evTimes a ++ evTimes b := by
  induction a with
  | nil => rfl
  | cons x a ih => cases x <;> simp [evTimes, ih]

theorem spm_snoc_prefix (ts : List Nat) (t : Nat) : strictPrefixMax ts <+: strictPrefixMax (ts ++ [t]) := by
  rw [spm_snoc]
  split
  · rename_i h
    have : strictPrefixMax ts = [] := by simpa using h
    rw [this]; exact List.nil_prefix
  · split
    · exact List.prefix_append _ _
    · exact List.prefix_refl _

theorem spm_append_prefix (a b : List Nat) : strictPrefixMax a <+: strictPrefixMax (a ++ b) := by
  induction b generalizing a with
  | nil => simp
  | cons t b ih =>
    have : a ++ t :: b = (a ++ [t]) ++ b := by simp
    rw [this]
    exact List.IsPrefix.trans (spm_snoc_prefix a t) (ih (a ++ [t]))

theorem spm_snoc_dropLast (ts : List Nat) (t : Nat) :
    (strictPrefixMax (ts ++ [t])).dropLast <+: strictPrefixMax ts := by
  rw [spm_snoc]
  split
  · simp
  · split
    · simp
    · exact List.dropLast_prefix _

theorem implicitZero_append (a b : List Ev) (h : a ≠ []) : implicitZero (a ++ b) = implicitZero a ++ b := by
  cases a with
  | nil => exact absurd rfl h
  | cons x a => cases x <;> simp [implicitZero]

/-- time tables (with the implicit time 0) of `c` / `c ++ [x]` against any extension of `c` -/
theorem tt_prefix_general (c r : List Ev) (evs1 : List Ev) (h : evs1 = c ∨ ∃ x, evs1 = c ++ [x]) :
    (strictPrefixMax (evTimes (implicitZero evs1))).dropLast <+: strictPrefixMax (evTimes (implicitZero (c ++ r))) := by
  by_cases hc : c = []
  · subst hc
    have hshort : (strictPrefixMax (evTimes (implicitZero evs1))).dropLast = [] := by
      rcases h with h | ⟨x, h⟩
      · subst h; rfl
      · subst h; cases x <;> rfl
    rw [hshort]; exact List.nil_prefix
  · have hfull : strictPrefixMax (evTimes (implicitZero c)) <+: strictPrefixMax (evTimes (implicitZero (c ++ r))) := by
      rw [implicitZero_append c r hc, evTimes_append]; exact spm_append_prefix _ _
    rcases h with h | ⟨x, h⟩
    · subst h; exact List.IsPrefix.trans (List.dropLast_prefix _) hfull
    · subst h
      rw [implicitZero_append c [x] hc, evTimes_append]
      cases x with
      | time t =>
        simp only [evTimes]
        exact List.IsPrefix.trans (spm_snoc_dropLast _ t) hfull
      | value v i =>
        simp only [evTimes, List.append_nil]
        exact List.IsPrefix.trans (List.dropLast_prefix _) hfull

theorem finish_table_of_run (c : Codec) (tps : List SigType) (ops : List Op) (e : Enc)
    (h : runOps c (newEnc tps) ops = some e) : (finish c e).2 = strictPrefixMax (timesOf ops) := by
  obtain ⟨hi0, ht0⟩ := newEnc_inv tps
  obtain ⟨hi, ht⟩ := runOps_table c ops (newEnc tps) e [] hi0 (by rw [ht0]; rfl) h
  rw [finish_table c e hi, ht]; simp

/-- the time table of a successful single-threaded load, in terms of the events of the body -/
theorem single_load_time_table (c : Codec) (d : Decls) (rm : RealMap) (body : List Nat) (enc : Enc)
    (h : readValues c d rm body .single = .ok enc) :
    ∃ evs, parseBody none body = .ok evs ∧ (finish c enc).2 = strictPrefixMax (evTimes (implicitZero evs)) := by
  simp only [readValues] at h
  obtain ⟨evs, ops, hp, ho, hr⟩ := readStream_first_ok c d rm body _ false enc h
  rw [parseBody_stop_irrelevant body (body.length - 1) false (by omega)] at hp
  exact ⟨evs, hp, by rw [finish_table_of_run c _ ops enc hr, timesOf_opsOfEvs d rm _ ops ho]⟩

/-- **truncation, store level**: when both the truncated and the complete body load, the truncated time table without its
last entry is a prefix of the complete one -/
theorem truncated_time_table (c : Codec) (d : Decls) (rm : RealMap) (bs1 bs2 : List Nat) (enc1 enc2 : Enc)
    (h1 : readValues c d rm bs1 .single = .ok enc1) (h2 : readValues c d rm (bs1 ++ bs2) .single = .ok enc2) :
    ((finish c enc1).2).dropLast <+: (finish c enc2).2 := by
  obtain ⟨evs1, hp1, ht1⟩ := single_load_time_table c d rm bs1 enc1 h1
  obtain ⟨evs2, hp2, ht2⟩ := single_load_time_table c d rm (bs1 ++ bs2) enc2 h2
  obtain ⟨pre, ⟨r, hr⟩, hx⟩ := prefix_events none bs1 bs2 false
  rw [hp1] at hx
  rw [hp2] at hr
  simp only [evsOf] at hx hr
  rw [ht1, ht2, ← hr]
  exact tt_prefix_general pre r evs1 hx

end Wellen.VcdBody
