import WellenModel.Model.Store
import WellenModel.Proofs.Entry
/-!
Stream level: the payload the encoder builds for one signal inside one block — the concatenation of one chunk per
change — is decoded by the loader into exactly those changes (time index = running sum of the deltas), for every number
of changes. Per-entry content (alignEntry / decodeEntry round trip) is `Proofs/EntryRoundtrip.lean`.
-/
namespace Wellen.Store
open Wellen.Bits

/-- the chunk `add_n_bit_change` / `add_vcd_change` append for a multi-bit change: LEB128(delta << 2 | kind) + packed bytes -/
def encChange (d : Nat) (loc : States) (p : List Nat) : List Nat := lebWrite ((d <<< 2) ||| loc.toNat) ++ p

def encStream (cs : List (Nat × States × List Nat)) : List Nat := (cs.map fun c => encChange c.1 c.2.1 c.2.2).flatten

/-- what the changes mean: running time index, one (de-duplicated) entry per change -/
def replayFixed (bits : Nat) (sigS : States) (cs : List (Nat × States × List Nat)) (last : Nat) (a : Acc) : Nat × Acc :=
  cs.foldl (fun (st : Nat × Acc) c => (st.1 + c.1, st.2.push (st.1 + c.1) (alignEntry sigS c.2.1 bits c.2.2))) (last, a)

theorem states_ofNat_toNat (s : States) : States.ofNat? s.toNat = some s := by cases s <;> rfl
theorem states_toNat_lt (s : States) : s.toNat < 4 := by cases s <;> decide

theorem hdr_split (d k : Nat) (hk : k < 4) : ((d <<< 2) ||| k) &&& 3 = k ∧ ((d <<< 2) ||| k) >>> 2 = d := by
  have h := Nat.shiftLeft_add_eq_or_of_lt (a := d) (i := 2) (b := k) (by omega)
  rw [← h, Nat.shiftLeft_eq, Nat.shiftRight_eq_div_pow]
  have : (3 : Nat) = 2 ^ 2 - 1 := rfl
  rw [this, Nat.and_two_pow_sub_one_eq_mod]
  constructor <;> omega

/-- **`load_fixed_len_signal` decodes the stream the encoder built**, for every list of changes of a signal wider than one bit -/
theorem loadFixed_stream (bits : Nat) (hb : bits ≠ 1) (sigS : States) (cs : List (Nat × States × List Nat)) :
    (∀ c ∈ cs, c.2.2.length = divCeil bits c.2.1.bib ∧ ((c.1 <<< 2) ||| c.2.1.toNat) < 2 ^ 32) →
    ∀ (fuel last : Nat) (a : Acc), cs.length < fuel →
      loadFixed bits sigS fuel (encStream cs) last a = some (replayFixed bits sigS cs last a).2 := by
  induction cs with
  | nil =>
    intro _ fuel last a hf
    cases fuel with
    | zero => omega
    | succ f => simp [loadFixed, encStream, replayFixed, lebRead]
  | cons c cs ih =>
    intro h fuel last a hf
    obtain ⟨d, loc, p⟩ := c
    have hc := h (d, loc, p) (by simp)
    cases fuel with
    | zero => simp at hf
    | succ f =>
      have henc : encStream ((d, loc, p) :: cs) = lebWrite ((d <<< 2) ||| loc.toNat) ++ (p ++ encStream cs) := by
        simp [encStream, encChange, List.append_assoc]
      rw [henc]
      unfold loadFixed
      rw [lebRead_lebWrite]
      simp only
      have hmod : ((d <<< 2) ||| loc.toNat) % 2 ^ 32 = (d <<< 2) ||| loc.toNat := Nat.mod_eq_of_lt hc.2
      rw [hmod]
      obtain ⟨h3, h2⟩ := hdr_split d loc.toNat (states_toNat_lt loc)
      simp only [hb, ↓reduceIte, h3, h2, states_ofNat_toNat]
      have hlen : p.length = divCeil bits loc.bib := hc.1
      have htake : (p ++ encStream cs).take (divCeil bits loc.bib) = p := by rw [← hlen]; simp
      have hdrop : (p ++ encStream cs).drop (divCeil bits loc.bib) = encStream cs := by rw [← hlen]; simp
      rw [htake, hdrop]
      simp only [hlen, Nat.lt_irrefl, ↓reduceIte]
      rw [ih (fun c hc' => h c (by simp [hc'])) f (last + d) _ (by simpa using hf)]
      simp [replayFixed]

/-- one-bit signals: LEB128(delta << 4 + value) per change -/
def encOneBit (cs : List (Nat × Nat)) : List Nat := (cs.map fun c => lebWrite ((c.1 <<< 4) + c.2)).flatten

def replayOneBit (cs : List (Nat × Nat)) (last : Nat) (a : Acc) : Nat × Acc :=
  cs.foldl (fun (st : Nat × Acc) c => (st.1 + c.1, st.2.push (st.1 + c.1) (oneBitEntry c.2))) (last, a)

theorem hdr_split4 (d v : Nat) (hv : v < 16) : ((d <<< 4) + v) &&& 15 = v ∧ ((d <<< 4) + v) >>> 4 = d := by
  rw [Nat.shiftLeft_eq, Nat.shiftRight_eq_div_pow]
  have : (15 : Nat) = 2 ^ 4 - 1 := rfl
  rw [this, Nat.and_two_pow_sub_one_eq_mod]
  constructor <;> omega

theorem loadFixed_stream_onebit (sigS : States) (cs : List (Nat × Nat)) :
    (∀ c ∈ cs, c.2 < 16 ∧ ((c.1 <<< 4) + c.2) < 2 ^ 32) →
    ∀ (fuel last : Nat) (a : Acc), cs.length < fuel →
      loadFixed 1 sigS fuel (encOneBit cs) last a = some (replayOneBit cs last a).2 := by
  induction cs with
  | nil =>
    intro _ fuel last a hf
    cases fuel with
    | zero => omega
    | succ f => simp [loadFixed, encOneBit, replayOneBit, lebRead]
  | cons c cs ih =>
    intro h fuel last a hf
    obtain ⟨d, v⟩ := c
    have hc := h (d, v) (by simp)
    cases fuel with
    | zero => simp at hf
    | succ f =>
      have henc : encOneBit ((d, v) :: cs) = lebWrite ((d <<< 4) + v) ++ encOneBit cs := by simp [encOneBit]
      rw [henc]
      unfold loadFixed
      rw [lebRead_lebWrite]
      simp only
      rw [Nat.mod_eq_of_lt hc.2]
      obtain ⟨h1, h2⟩ := hdr_split4 d v hc.1
      simp only [↓reduceIte, h1, h2]
      rw [ih (fun c hc' => h c (by simp [hc'])) f (last + d) _ (by simpa using hf)]
      simp [replayOneBit]

/-! reals and strings -/

def encReals (cs : List (Nat × List Nat)) : List Nat := (cs.map fun c => lebWrite c.1 ++ c.2).flatten

def replayPlain (cs : List (Nat × List Nat)) (last : Nat) (a : Acc) : Nat × Acc :=
  cs.foldl (fun (st : Nat × Acc) c => (st.1 + c.1, st.2.push (st.1 + c.1) c.2)) (last, a)

theorem loadReals_stream (cs : List (Nat × List Nat)) :
    (∀ c ∈ cs, c.2.length = 8 ∧ c.1 < 2 ^ 32) →
    ∀ (fuel last : Nat) (a : Acc), cs.length < fuel →
      loadReals fuel (encReals cs) last a = some (replayPlain cs last a).2 := by
  induction cs with
  | nil =>
    intro _ fuel last a hf
    cases fuel with
    | zero => omega
    | succ f => simp [loadReals, encReals, replayPlain, lebRead]
  | cons c cs ih =>
    intro h fuel last a hf
    obtain ⟨d, p⟩ := c
    have hc := h (d, p) (by simp)
    cases fuel with
    | zero => simp at hf
    | succ f =>
      have henc : encReals ((d, p) :: cs) = lebWrite d ++ (p ++ encReals cs) := by simp [encReals, List.append_assoc]
      rw [henc]
      unfold loadReals
      rw [lebRead_lebWrite]
      simp only
      have htake : (p ++ encReals cs).take 8 = p := by rw [← hc.1]; simp
      have hdrop : (p ++ encReals cs).drop 8 = encReals cs := by rw [← hc.1]; simp
      rw [htake, hdrop, Nat.mod_eq_of_lt hc.2]
      simp only [hc.1, Nat.lt_irrefl, ↓reduceIte]
      rw [ih (fun c hc' => h c (by simp [hc'])) f (last + d) _ (by simpa using hf)]
      simp [replayPlain]

def encStrings (cs : List (Nat × List Nat)) : List Nat := (cs.map fun c => lebWrite c.1 ++ lebWrite c.2.length ++ c.2).flatten

theorem loadStrings_stream (cs : List (Nat × List Nat)) :
    (∀ c ∈ cs, c.1 < 2 ^ 32) →
    ∀ (fuel last : Nat) (a : Acc), cs.length < fuel →
      loadStrings fuel (encStrings cs) last a = some (replayPlain cs last a).2 := by
  induction cs with
  | nil =>
    intro _ fuel last a hf
    cases fuel with
    | zero => omega
    | succ f => simp [loadStrings, encStrings, replayPlain, lebRead]
  | cons c cs ih =>
    intro h fuel last a hf
    obtain ⟨d, p⟩ := c
    have hc := h (d, p) (by simp)
    cases fuel with
    | zero => simp at hf
    | succ f =>
      have henc : encStrings ((d, p) :: cs) = lebWrite d ++ (lebWrite p.length ++ (p ++ encStrings cs)) := by
        simp [encStrings, List.append_assoc]
      rw [henc]
      unfold loadStrings
      rw [lebRead_lebWrite]
      simp only
      rw [lebRead_lebWrite]
      simp only
      have htake : (p ++ encStrings cs).take p.length = p := by simp
      have hdrop : (p ++ encStrings cs).drop p.length = encStrings cs := by simp
      rw [htake, hdrop, Nat.mod_eq_of_lt hc]
      simp only [Nat.lt_irrefl, ↓reduceIte]
      rw [ih (fun c hc' => h c (by simp [hc'])) f (last + d) _ (by simpa using hf)]
      simp [replayPlain]

end Wellen.Store
