import WellenModel.Proofs.EvOps
import WellenModel.Proofs.RefineAll
/-!
A multi-threaded load that succeeds IS the store run with one encoder per chunk (`Spec.runSegs`) on the operations each
chunk's events denote — the first chunk with the implicit time 0, every later chunk from its first timestamp on.
-/
namespace Wellen.VcdBody
open Wellen.Spec Wellen.Store

/-- a successful stream of a later chunk -/
theorem readStream_later_ok (c : Codec) (d : Decls) (rm : RealMap) (stream : List Nat) (stop : Option Nat) (nl : Bool) (enc : Enc)
    (h : readStream c d rm stream stop false nl = .ok enc) :
    ∃ evs ops, parseBody stop stream nl = .ok evs ∧ opsOfEvs d rm (fromFirstTime evs) = some ops ∧
      runOps c (newEnc d.sigTypes) ops = some enc := by
  unfold readStream at h
  simp only at h
  have hg := applyEvs_later c d rm (newEnc d.sigTypes)
    (match parseBody stop stream nl with | .ok e => e | .err e => e)
  cases hp : parseBody stop stream nl with
  | err e0 =>
    rw [hp] at h
    simp only at h
    split at h <;> cases h
  | ok evs =>
    rw [hp] at h hg
    simp only at h hg
    cases ha : applyEvs c d rm { enc := newEnc d.sigTypes, isFirst := false } evs with
    | none => rw [ha] at h; cases h
    | some v =>
      rw [ha] at h hg
      simp only [Res.ok.injEq] at h
      simp only [Option.map_some] at hg
      cases ho : opsOfEvs d rm (fromFirstTime evs) with
      | none => rw [ho] at hg; cases hg
      | some ops =>
        rw [ho] at hg
        simp only [Option.bind_some] at hg
        exact ⟨evs, ops, rfl, ho, by rw [← hg, h]⟩

/-- the operations a chunk contributes -/
def chunkOps (d : Decls) (rm : RealMap) (body : List Nat) (ch : Nat × Nat) : Option (List Op) :=
  match parseBody (some (ch.2 - 1)) (body.drop ch.1) with
  | .ok evs => opsOfEvs d rm (if ch.1 = 0 then implicitZero evs else fromFirstTime evs)
  | .err _ => none

theorem chunk_ok (c : Codec) (d : Decls) (rm : RealMap) (body : List Nat) (ch : Nat × Nat) (enc : Enc)
    (h : readStream c d rm (body.drop ch.1) (some (ch.2 - 1)) (decide (ch.1 = 0)) = .ok enc) :
    ∃ ops, chunkOps d rm body ch = some ops ∧ runOps c (newEnc d.sigTypes) ops = some enc := by
  unfold chunkOps
  by_cases h0 : ch.1 = 0
  · simp only [h0, decide_true] at h
    obtain ⟨evs, ops, hp, ho, hr⟩ := readStream_first_ok c d rm _ _ false enc h
    rw [h0, hp]
    simp only [↓reduceIte]
    exact ⟨ops, ho, hr⟩
  · simp only [h0, decide_false] at h
    obtain ⟨evs, ops, hp, ho, hr⟩ := readStream_later_ok c d rm _ _ false enc h
    rw [hp]
    simp only [h0, ↓reduceIte]
    exact ⟨ops, ho, hr⟩

theorem mem_mapM_some {α β : Type} (f : α → Option β) : ∀ (l : List α) (r : List β), l.mapM f = some r →
    ∀ y ∈ r, ∃ x ∈ l, f x = some y := by
  intro l
  induction l with
  | nil => intro r h y hy; simp only [List.mapM_nil, Option.pure_def, Option.some.injEq] at h; subst h; cases hy
  | cons a l ih =>
    intro r h y hy
    simp only [List.mapM_cons, Option.pure_def, Option.bind_eq_bind] at h
    cases hf : f a with
    | none => rw [hf] at h; cases h
    | some b =>
      rw [hf] at h
      simp only [Option.bind_some] at h
      cases hl : l.mapM f with
      | none => rw [hl] at h; cases h
      | some rs =>
        rw [hl] at h
        simp only [Option.bind_some, Option.some.injEq] at h
        subst h
        rcases List.mem_cons.mp hy with rfl | hy
        · exact ⟨a, by simp, hf⟩
        · obtain ⟨x, hx, hfx⟩ := ih rs hl y hy
          exact ⟨x, by simp [hx], hfx⟩

def NoSplit (ops : List Op) : Prop := ∀ op ∈ ops, op ≠ .split

theorem opsOfEvs_nosplit (d : Decls) (rm : RealMap) (evs : List Ev) : ∀ ops, opsOfEvs d rm evs = some ops → NoSplit ops := by
  induction evs with
  | nil => intro ops h; simp only [opsOfEvs, Option.some.injEq] at h; subst h; intro op hop; cases hop
  | cons e r ih =>
    intro ops h
    simp only [opsOfEvs] at h
    split at h
    · cases h
    · rename_i o ho
      split at h
      · cases h
      · rename_i os hos
        simp only [Option.some.injEq] at h; subst h
        intro op hop
        rcases List.mem_cons.mp hop with rfl | hop
        · cases e with
          | time t => simp only [evOp, Option.some.injEq] at ho; subst ho; intro hh; cases hh
          | value v id =>
            simp only [evOp] at ho
            cases hr : resolveId d id with
            | none => simp [hr] at ho
            | some n => simp [hr] at ho; subst ho; intro hh; cases hh
        · exact ih os hos op hop

theorem chunkOps_nosplit (d : Decls) (rm : RealMap) (body : List Nat) (ch : Nat × Nat) (ops : List Op)
    (h : chunkOps d rm body ch = some ops) : NoSplit ops := by
  unfold chunkOps at h
  split at h
  · exact opsOfEvs_nosplit d rm _ ops h
  · cases h

theorem splitOps_nosplit (ops : List Op) (h : NoSplit ops) (tail : List Op) :
    splitOps (ops ++ tail) = match splitOps tail with | [] => [ops] | sg :: ss => (ops ++ sg) :: ss := by
  induction ops with
  | nil =>
    simp only [List.nil_append]
    cases hst : splitOps tail with
    | nil => exact absurd hst (splitOps_ne_nil tail)
    | cons sg ss => rfl
  | cons o r ih =>
    have hr : NoSplit r := fun op hop => h op (List.mem_cons_of_mem _ hop)
    have ho : o ≠ .split := h o (by simp)
    have := ih hr
    cases o with
    | split => exact absurd rfl ho
    | time t => simp only [List.cons_append, splitOps, this]; cases splitOps tail <;> rfl
    | vcd a b c => simp only [List.cons_append, splitOps, this]; cases splitOps tail <;> rfl
    | raw a b c => simp only [List.cons_append, splitOps, this]; cases splitOps tail <;> rfl
    | real a b => simp only [List.cons_append, splitOps, this]; cases splitOps tail <;> rfl

theorem splitOps_joinSegs (rest : List (List Op)) (hr : ∀ sg ∈ rest, NoSplit sg) :
    ∀ (seg0 : List Op), NoSplit seg0 → splitOps (seg0 ++ joinSegs rest) = seg0 :: rest := by
  induction rest with
  | nil => intro seg0 h0; rw [splitOps_nosplit seg0 h0]; simp [joinSegs, splitOps]
  | cons sg ss ih =>
    intro seg0 h0
    rw [splitOps_nosplit seg0 h0]
    have hj : joinSegs (sg :: ss) = .split :: (sg ++ joinSegs ss) := by simp [joinSegs]
    rw [hj]
    simp only [splitOps]
    rw [ih (fun x hx => hr x (List.mem_cons_of_mem _ hx)) sg (hr sg (by simp))]
    simp


theorem chunks_ok (c : Codec) (d : Decls) (rm : RealMap) (body : List Nat) (chunks : List (Nat × Nat)) :
    (chunks.map (chunkRes c d rm body)).any Res.isPanic = false → (chunks.map (chunkRes c d rm body)).any Res.isErr = false →
    ∃ segs, chunks.mapM (chunkOps d rm body) = some segs ∧
      segs.mapM (runOps c (newEnc d.sigTypes)) = some ((chunks.map (chunkRes c d rm body)).filterMap Res.okOf) := by
  induction chunks with
  | nil => intro _ _; exact ⟨[], rfl, rfl⟩
  | cons ch r ih =>
    intro hp he
    simp only [List.map_cons, List.any_cons, Bool.or_eq_false_iff] at hp he
    obtain ⟨segs, h1, h2⟩ := ih hp.2 he.2
    cases hr : chunkRes c d rm body ch with
    | panic => rw [hr] at hp; simp [Res.isPanic] at hp
    | err => rw [hr] at he; simp [Res.isErr] at he
    | ok e =>
      have hrs : readStream c d rm (body.drop ch.1) (some (ch.2 - 1)) (decide (ch.1 = 0)) = .ok e := by
        unfold chunkRes at hr
        split at hr
        · cases hr
        · exact hr
      obtain ⟨ops, ho, hrun⟩ := chunk_ok c d rm body ch e hrs
      refine ⟨ops :: segs, ?_, ?_⟩
      · simp [List.mapM_cons, ho, h1]
      · simp [List.mapM_cons, hrun, h2, hr, Res.okOf]

/-- **a multi-threaded load that succeeds is the store run with one encoder per chunk**: the operations of the first chunk
(with the implicit time 0), a split, the operations of the second chunk from its first timestamp on, a split, … — run by
`Spec.runSegs`, the function `C04_store_refines_spec_all` is about. What remains between this and `mt = st` is purely lexical:
that these operations are those of the whole body (true for hand-over-safe bodies, checked differentially; false otherwise: FMT). -/
theorem mt_load_is_store_run (c : Codec) (d : Decls) (rm : RealMap) (body : List Nat) (threads minChunk : Nat) (enc : Enc)
    (h : readValues c d rm body (.multi threads minChunk) = .ok enc) :
    ∃ seg0 rest, (determineChunks body.length threads minChunk).mapM (chunkOps d rm body) = some (seg0 :: rest) ∧
      Spec.runSegs c d.sigTypes (seg0 ++ joinSegs rest) = some enc := by
  simp only [readValues] at h
  generalize hch : determineChunks body.length threads minChunk = chunks at h ⊢
  by_cases hp : (chunks.map (chunkRes c d rm body)).any Res.isPanic = true
  · simp [hp] at h
  · have hp' : (chunks.map (chunkRes c d rm body)).any Res.isPanic = false := by simpa using hp
    simp only [hp', Bool.false_eq_true, ↓reduceIte] at h
    by_cases he : (chunks.map (chunkRes c d rm body)).any Res.isErr = true
    · simp [he] at h
    · have he' : (chunks.map (chunkRes c d rm body)).any Res.isErr = false := by simpa using he
      simp only [he', Bool.false_eq_true, ↓reduceIte] at h
      obtain ⟨segs, hs1, hs2⟩ := chunks_ok c d rm body chunks hp' he'
      cases henc : (chunks.map (chunkRes c d rm body)).filterMap Res.okOf with
      | nil => rw [henc] at h; cases h
      | cons e0 erest =>
        rw [henc] at h hs2
        simp only at h
        cases hap : appendAll c e0 erest with
        | none => rw [hap] at h; cases h
        | some ef =>
          rw [hap] at h
          simp only [Res.ok.injEq] at h
          subst h
          cases segs with
          | nil => simp at hs2
          | cons seg0 rest =>
            refine ⟨seg0, rest, hs1, ?_⟩
            have hns : ∀ sg ∈ seg0 :: rest, NoSplit sg := by
              intro sg hsg
              obtain ⟨ch, _, hch2⟩ := mem_mapM_some _ _ _ hs1 sg hsg
              exact chunkOps_nosplit d rm body ch sg hch2
            unfold Spec.runSegs
            rw [splitOps_joinSegs rest (fun sg hsg => hns sg (List.mem_cons_of_mem _ hsg)) seg0 (hns seg0 (by simp)), hs2]
            exact hap

end Wellen.VcdBody
