import WellenModel.Model.Detect
namespace Wellen.Detect

/-- white space is never a valid FST block type, never `$`, never `G` -/
theorem ws_not_block : ∀ b : Fin 256, isWs b.val = true → validBlockType b.val = false ∧ b.val ≠ 36 ∧ b.val ≠ 71 := by
  decide +kernel

theorem skipWs_allWs (bs : List Nat) (h : ∀ b ∈ bs, isWs b = true) : skipWs bs = none := by
  induction bs with
  | nil => rfl
  | cons b r ih =>
    simp only [skipWs, h b (by simp), ↓reduceIte]
    exact ih (fun x hx => h x (by simp [hx]))

theorem skipWs_prefix (ws : List Nat) (c : Nat) (r : List Nat) (hws : ∀ b ∈ ws, isWs b = true) (hc : isWs c = false) :
    skipWs (ws ++ c :: r) = some (c, r) := by
  induction ws with
  | nil => simp [skipWs, hc]
  | cons b t ih =>
    simp only [List.cons_append, skipWs, hws b (by simp), ↓reduceIte]
    exact ih (fun x hx => hws x (by simp [hx]))

theorem readToken_token (tok : List Nat) (w : Nat) (rest acc : List Nat)
    (htok : ∀ b ∈ tok, isWs b = false) (hw : isWs w = true) :
    readToken (tok ++ w :: rest) acc = some (acc.reverse ++ tok, rest) := by
  induction tok generalizing acc with
  | nil => simp [readToken, hw]
  | cons b r ih =>
    simp only [List.cons_append, readToken, htok b (by simp), Bool.false_eq_true, ↓reduceIte]
    rw [ih (b :: acc) (fun x hx => htok x (by simp [hx]))]
    simp

/-- an unknown command word is rejected (no panic: `isVcd` is a total function) -/
theorem isVcd_unknown_cmd (ws tok rest : List Nat) (w : Nat) (hws : ∀ b ∈ ws, isWs b = true)
    (htok : ∀ b ∈ tok, isWs b = false) (hw : isWs w = true) (hcmd : cmdWords.contains tok = false) :
    isVcd (ws ++ 36 :: (tok ++ w :: rest)) = false := by
  have hskip := skipWs_prefix ws 36 (tok ++ w :: rest) hws (by decide)
  have hread := readToken_token tok w rest [] htok hw
  have hc' : tok ∉ cmdWords := by simpa using hcmd
  simp [isVcd, hskip, hread, hc']

/-- a known command word followed by `$end` is accepted, whatever white space precedes it -/
theorem isVcd_accepts (ws tok rest : List Nat) (w : Nat) (hws : ∀ b ∈ ws, isWs b = true)
    (htok : ∀ b ∈ tok, isWs b = false) (hw : isWs w = true) (hcmd : cmdWords.contains tok = true)
    (hend : findEnd (dropLeadingWs rest) 0 = true) :
    isVcd (ws ++ 36 :: (tok ++ w :: rest)) = true := by
  have hskip := skipWs_prefix ws 36 (tok ++ w :: rest) hws (by decide)
  have hread := readToken_token tok w rest [] htok hw
  have hc' : tok ∈ cmdWords := by simpa using hcmd
  simp [isVcd, hskip, hread, hc', hend]

/-- the block walk stops within `len + 1` steps when every seek moves forward -/
theorem isFstWalk_forward (bs : List Nat) (fuel pos : Nat) (hf : bs.length < fuel + pos) (hpos : 0 < fuel)
    (hfw : ∀ p, p < bs.length → u64be ((bs.drop (p + 1)).take 8) < 2 ^ 63 ∧ 8 ≤ u64be ((bs.drop (p + 1)).take 8)) :
    isFstWalk bs fuel pos ≠ .hang := by
  induction fuel generalizing pos with
  | zero => omega
  | succ fuel ih =>
    simp only [isFstWalk]
    cases hb : bs[pos]? with
    | none => simp
    | some t =>
      simp only
      have hp : pos < bs.length := by
        rcases Nat.lt_or_ge pos bs.length with h | h
        · exact h
        · rw [List.getElem?_eq_none h] at hb; cases hb
      obtain ⟨h1, h2⟩ := hfw pos hp
      split
      · simp
      · split
        · simp
        · have hoff : ¬ ((u64be ((bs.drop (pos + 1)).take 8) : Int) - 8 < -(2 ^ 63 : Int)) := by omega
          simp +zeta only [h1, hoff, ↓reduceIte]
          split
          · simp
          · split
            · simp
            · apply ih
              · omega
              · omega

end Wellen.Detect
