import WellenModel.Model.Fst
import WellenModel.Proofs.EntryRoundtrip
/-! Widening the entries of a FST signal (`expand_entries`) yields exactly the entries that would have
been written had the wider kind been known from the start. -/
namespace Wellen.Fst
open Wellen.Bits Wellen.Store

theorem zeros_append (a b : Nat) : zeros a ++ zeros b = zeros (a + b) := by
  simp [zeros, List.replicate_append_replicate]

theorem zeros_succ (a : Nat) : 0 :: zeros a = zeros (a + 1) := by
  simp [zeros, List.replicate_succ]

theorem zeros_mid (a b : Nat) (l : List Nat) : zeros a ++ 0 :: (zeros b ++ l) = zeros (a + b + 1) ++ l := by
  have h1 : (0 : Nat) :: (zeros b ++ l) = zeros (b + 1) ++ l := by
    simp [zeros, List.replicate_succ]
  rw [h1, ← List.append_assoc, zeros_append]
  rw [show a + (b + 1) = a + b + 1 by omega]

theorem zeros_app2 (a b : Nat) (l : List Nat) : zeros a ++ (zeros b ++ l) = zeros (a + b) ++ l := by
  rw [← List.append_assoc, zeros_append]

theorem zeros_eq (a b : Nat) (l : List Nat) (h : a = b) : zeros a ++ l = zeros b ++ l := by rw [h]

theorem meta_split : ∀ (k : Fin 3) (h : Fin 64),
    (((k.val <<< 6) ||| h.val) &&& 192 = k.val <<< 6) ∧ (((k.val <<< 6) ||| h.val) &&& 63 = h.val) ∧
    ((k.val <<< 6) &&& 192 = k.val <<< 6) ∧ ((k.val <<< 6) &&& 63 = 0) := by
  decide +kernel

/-- **`expand_entries` is the identity on meaning**: an entry written under the narrower maximum
`frm`, once widened to `to`, is byte for byte the entry the writer produces under `to`. -/
theorem expandEntry_align (frm to loc : States) (bits h : Nat) (t : List Nat)
    (hle1 : loc.toNat ≤ frm.toNat) (hle2 : frm.toNat ≤ to.toNat) (hb : 1 ≤ bits)
    (hl : (h :: t).length = (getLenAndMeta loc bits).1) (hh : h < 64) :
    expandEntry frm to bits (alignEntry frm loc bits (h :: t)) = alignEntry to loc bits (h :: t) := by
  obtain ⟨m1, m2, m3, m4⟩ := meta_split ⟨loc.toNat, toNat_lt3 loc⟩ ⟨h, hh⟩
  simp only at m1 m2 m3 m4
  cases hb4 : (bits % 4 == 0) <;> cases hb2 : (bits % 2 == 0) <;>
  cases frm <;> cases to <;> cases loc <;>
    simp [glm_two, glm_four, glm_nine, States.toNat, hb4, hb2, expandEntry, alignEntry] at hle1 hle2 hl m1 m2 m3 m4 ⊢ <;>
    simp at hb4 hb2 <;>
    (try omega) <;>
    (try (repeat' split)) <;>
    (try simp_all [zeros_append, zeros_succ, States.toNat]) <;>
    (try omega) <;>
    (first
      | (rw [zeros_mid]; apply zeros_eq; omega)
      | (rw [zeros_app2]; apply zeros_eq; omega)
      | skip)

end Wellen.Fst

namespace Wellen.Fst
open Wellen.Bits Wellen.Store

/-- meta bits handed to `write_n_state` end up OR-ed into the first byte, nothing else changes -/
theorem writeAux_meta (s : States) (vals : List Nat) (w md : Nat) :
    writeAux s vals w (some md) =
      match writeAux s vals w none with
      | [] => []
      | h :: t => (h ||| md) :: t := by
  induction vals generalizing w with
  | nil => simp [writeAux]
  | cons v rest ih =>
    simp only [writeAux]
    split
    · rfl
    · exact ih _

/-- the entry the FST writer appends is the loader's entry layout (`alignEntry`) -/
theorem writer_entry_eq_align (sigS loc : States) (bits : Nat) (nums : List Nat) (hne : writeNState loc nums none ≠ []) :
    (let (len, hasMeta) := getLenAndMeta sigS bits
     let (llen, lmeta) := getLenAndMeta loc bits
     let md := loc.toNat <<< 6
     if llen = len ∧ lmeta = hasMeta then
       (if hasMeta then md :: writeNState loc nums none else writeNState loc nums (some md))
     else md :: (zeros (if hasMeta then len - llen else len - llen - 1) ++ writeNState loc nums none)) =
    alignEntry sigS loc bits (writeNState loc nums none) := by
  unfold alignEntry
  simp only
  split
  · split
    · rfl
    · obtain ⟨h0, t, ht⟩ := List.exists_cons_of_ne_nil hne
      unfold writeNState at ht ⊢
      rw [writeAux_meta, ht]
      simp [Nat.or_comm]
  · rfl

/-- the forward-only cursor of `load_signals` stops at the first index, at or after its position, whose entry is not
below the callback time (no assumption on the table) -/
theorem cursor_first (tt : List Nat) (t : Nat) : ∀ (fuel idx : Nat), tt.length < idx + fuel →
    (∃ j, idx ≤ j ∧ ∃ h : j < tt.length, t ≤ tt[j]) →
    ∃ i, cursorAdvance tt idx t fuel = some i ∧ idx ≤ i ∧ (∃ h : i < tt.length, t ≤ tt[i]) ∧
      ∀ k, idx ≤ k → k < i → ∃ h : k < tt.length, tt[k] < t := by
  intro fuel
  induction fuel with
  | zero => intro idx hf ⟨j, hj, hlt, _⟩; omega
  | succ n ih =>
    intro idx hf ⟨j, hj, hlt, hge⟩
    have hidx : idx < tt.length := by omega
    unfold cursorAdvance
    rw [List.getElem?_eq_getElem hidx]
    by_cases hc : tt[idx] < t
    · simp only [hc, if_true]
      have hne : j ≠ idx := by intro h; subst h; omega
      obtain ⟨i, hi, hle, hprop, hall⟩ := ih (idx + 1) (by omega) ⟨j, by omega, hlt, hge⟩
      refine ⟨i, hi, by omega, hprop, ?_⟩
      intro k hk hki
      by_cases hk' : k = idx
      · subst hk'; exact ⟨hidx, hc⟩
      · exact hall k (by omega) hki
    · simp only [hc, if_false]
      exact ⟨idx, rfl, Nat.le_refl _, ⟨hidx, by omega⟩, by intro k h1 h2; omega⟩

end Wellen.Fst
