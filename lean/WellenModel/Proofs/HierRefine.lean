import WellenModel.Proofs.Hier
/-!
# The pointer-level `Builder` refines the abstract hierarchy specification

`Rel b s ids`: the builder state `b` (node arrays with child / next / parent links, scope stack with sentinel and
flattened entries, cached last children) represents the specification state `s` (nodes in declaration order with a
parent pointer) under the numbering `ids` (specification node `i` is builder item `ids[i]`). `rel_step` shows that every
operation preserves the relation, `rel_run` lifts it to every balanced operation sequence.
-/
namespace Wellen.Hier

/-- the linked list that starts at `start` under the successor function `nx` is exactly `l` -/
inductive Chain (nx : ItemId → Option ItemId) : Option ItemId → List ItemId → Prop
  | nil : Chain nx none []
  | cons {x : ItemId} {l : List ItemId} : Chain nx (nx x) l → Chain nx (some x) (x :: l)

theorem Chain.congr {nx nx' : ItemId → Option ItemId} {s : Option ItemId} {l : List ItemId}
    (h : Chain nx s l) (hag : ∀ x ∈ l, nx' x = nx x) : Chain nx' s l := by
  induction h with
  | nil => exact .nil
  | cons _ ih =>
    refine .cons ?_
    rw [hag _ (by simp)]
    exact ih (fun x hx => hag x (by simp [hx]))

theorem Chain.start_none {nx : ItemId → Option ItemId} {l : List ItemId} (h : Chain nx none l) : l = [] := by
  cases h; rfl

theorem Chain.nil_start {nx : ItemId → Option ItemId} {s : Option ItemId} (h : Chain nx s []) : s = none := by
  cases h; rfl

theorem Chain.head {nx : ItemId → Option ItemId} {s : Option ItemId} {x : ItemId} {l : List ItemId}
    (h : Chain nx s (x :: l)) : s = some x := by
  cases h; rfl

/-- appending a fresh element behind the last one -/
theorem Chain.snoc {nx nx' : ItemId → Option ItemId} {s : Option ItemId} {l : List ItemId} {y : ItemId}
    (h : Chain nx s l) (hne : l ≠ [])
    (hag : ∀ x ∈ l.dropLast, nx' x = nx x) (hlast : ∀ z, l.getLast? = some z → nx' z = some y)
    (hy : nx' y = none) : Chain nx' s (l ++ [y]) := by
  induction h with
  | nil => exact absurd rfl hne
  | @cons x l hl ih =>
    by_cases hl0 : l = []
    · subst hl0
      refine .cons ?_
      rw [hlast x (by simp)]
      refine .cons ?_
      rw [hy]; exact .nil
    · refine .cons ?_
      have hx : nx' x = nx x := hag x (by
        cases l with
        | nil => exact absurd rfl hl0
        | cons a r => simp [List.dropLast])
      rw [hx]
      apply ih hl0
      · intro z hz
        apply hag
        cases l with
        | nil => exact absurd rfl hl0
        | cons a r => simp only [List.dropLast_cons₂]; exact List.mem_cons_of_mem _ hz
      · intro z hz
        apply hlast
        cases l with
        | nil => exact absurd rfl hl0
        | cons a r => simpa [List.getLast?_cons_cons] using hz

/-- the iterator walks exactly the chain -/
theorem iterItems_chain (b : Builder) {s : Option ItemId} {l : List ItemId} (h : Chain (getNext b) s l) :
    ∀ fuel, l.length < fuel → iterItems b fuel s = l := by
  induction h with
  | nil => intro fuel _; cases fuel <;> rfl
  | @cons x l _ ih =>
    intro fuel hf
    cases fuel with
    | zero => simp at hf
    | succ f =>
      simp only [iterItems]
      rw [ih f (by simp at hf; omega)]

/-- `find_last_child` returns the last element of the chain -/
theorem findLast_chain (b : Builder) : ∀ (l : List ItemId) (c : ItemId) (fuel : Nat),
    Chain (getNext b) (some c) (c :: l) → l.length ≤ fuel → some (findLast b fuel c) = (c :: l).getLast? := by
  intro l
  induction l with
  | nil =>
    intro c fuel h _
    cases h with
    | cons h' =>
      have := h'.nil_start
      cases fuel with
      | zero => simp [findLast]
      | succ f => simp [findLast, this]
  | cons a r ih =>
    intro c fuel h hf
    cases h with
    | cons h' =>
      have ha := h'.head
      cases fuel with
      | zero => simp at hf
      | succ f =>
        simp only [findLast, ha]
        rw [ha] at h'
        rw [ih a f h' (by simp at hf; omega)]
        simp [List.getLast?_cons_cons]

/-! ### children lists of the specification -/

def idAt (ids : List ItemId) (i : Nat) : ItemId := ids.getD i default

/-- the builder items of the children of `p`, in declaration order -/
def kids (nodes : List FNode) (ids : List ItemId) (p : Option Nat) : List ItemId :=
  (childrenOf nodes p).map (idAt ids)

theorem getD_snoc_lt (l : List FNode) (x : FNode) (i : Nat) (h : i < l.length) :
    (l ++ [x]).getD i default = l.getD i default := by
  simp [List.getD_eq_getElem?_getD, List.getElem?_append_left h]

theorem childrenOf_snoc (nodes : List FNode) (x : FNode) (p : Option Nat) :
    childrenOf (nodes ++ [x]) p = childrenOf nodes p ++ (if x.parent == p then [nodes.length] else []) := by
  unfold childrenOf
  simp only [List.length_append, List.length_cons, List.length_nil, Nat.zero_add, List.range_succ,
    List.filter_append]
  congr 1
  · apply List.filter_congr
    intro i hi
    rw [getD_snoc_lt _ _ _ (List.mem_range.mp hi)]
  · simp [List.filter_cons, List.getD_eq_getElem?_getD]

theorem childrenOf_lt (nodes : List FNode) (p : Option Nat) (i : Nat) (h : i ∈ childrenOf nodes p) :
    i < nodes.length ∧ (nodes.getD i default).parent = p := by
  simpa [childrenOf] using h

theorem idAt_snoc_lt (ids : List ItemId) (y : ItemId) (i : Nat) (h : i < ids.length) :
    idAt (ids ++ [y]) i = idAt ids i := by
  simp [idAt, List.getD_eq_getElem?_getD, List.getElem?_append_left h]

theorem idAt_snoc_eq (ids : List ItemId) (y : ItemId) : idAt (ids ++ [y]) ids.length = y := by
  simp [idAt, List.getD_eq_getElem?_getD]

theorem kids_snoc (nodes : List FNode) (ids : List ItemId) (x : FNode) (y : ItemId) (p : Option Nat)
    (hl : ids.length = nodes.length) :
    kids (nodes ++ [x]) (ids ++ [y]) p = kids nodes ids p ++ (if x.parent == p then [y] else []) := by
  unfold kids
  rw [childrenOf_snoc, List.map_append]
  congr 1
  · apply List.map_congr_left
    intro i hi
    exact idAt_snoc_lt _ _ _ (by rw [hl]; exact (childrenOf_lt _ _ _ hi).1)
  · by_cases h : (x.parent == p) = true
    · simp only [h, if_true, List.map_cons, List.map_nil]
      rw [← hl, idAt_snoc_eq]
    · simp [h]

theorem find?_congr' {α : Type} (p q : α → Bool) : ∀ (l : List α), (∀ x ∈ l, p x = q x) → l.find? p = l.find? q := by
  intro l
  induction l with
  | nil => intro _; rfl
  | cons a r ih =>
    intro h
    simp only [List.find?_cons]
    rw [h a (by simp), ih (fun x hx => h x (by simp [hx]))]

/-- `findIdx?` is `find?` over the positions -/
theorem findIdx?_eq_find (p : FNode → Bool) : ∀ (l : List FNode) (k : Nat),
    findIdx? p l k = (List.range' k l.length).find? (fun i => p (l.getD (i - k) default)) := by
  intro l
  induction l with
  | nil => intro k; simp [findIdx?]
  | cons a r ih =>
    intro k
    simp only [findIdx?, List.length_cons, List.range'_succ, List.find?_cons, Nat.sub_self,
      List.getD_cons_zero]
    by_cases hp : p a = true
    · simp [hp]
    · simp only [hp, Bool.false_eq_true, if_false]
      rw [ih (k + 1)]
      apply find?_congr'
      intro i hi
      have : k + 1 ≤ i := (List.mem_range'_1.mp hi).1
      have e : i - k = (i - (k + 1)) + 1 := by omega
      rw [e, List.getD_cons_succ]

/-- the first node with parent `cur` satisfying `q` is the first child of `cur` satisfying `q` -/
theorem findIdx?_children (nodes : List FNode) (cur : Option Nat) (q : FNode → Bool) :
    findIdx? (fun n => n.parent == cur && q n) nodes 0 =
      (childrenOf nodes cur).find? (fun i => q (nodes.getD i default)) := by
  rw [findIdx?_eq_find, ← List.range_eq_range']
  unfold childrenOf
  rw [List.find?_filter]
  apply find?_congr'
  intro i _
  simp only [Nat.sub_zero, List.getD_eq_getElem?_getD]
  generalize ((nodes[i]?.getD default).parent == cur) = b1
  generalize q (nodes[i]?.getD default) = b2
  cases b1 <;> cases b2 <;> simp

/-! ### the representation relation -/

def ParentRel (ids : List ItemId) (sp : Option Nat) (bp : Option Nat) : Prop :=
  match sp with
  | none => bp = none
  | some p => ∃ k, ids[p]? = some (.scope k) ∧ bp = some k

def NodeRel (b : Builder) (ids : List ItemId) (n : FNode) : ItemId → Prop
  | .scope k => n.isScope = true ∧ k < b.scopes.size ∧ (b.scopes.getD k default).name = n.name ∧
      ParentRel ids n.parent (b.scopes.getD k default).parent
  | .var k => n.isScope = false ∧ k < b.vars.size ∧ (b.vars.getD k default).name = n.name ∧
      (b.vars.getD k default).sig = n.sig ∧ ParentRel ids n.parent (b.vars.getD k default).parent

/-- where the child list of `p` starts in the builder -/
def firstOf (b : Builder) (ids : List ItemId) : Option Nat → Option ItemId
  | none => b.firstItem
  | some j => match ids[j]? with
    | some (.scope k) => (b.scopes.getD k default).child
    | _ => none

def lastOf (nodes : List FNode) (ids : List ItemId) (p : Option Nat) : Option ItemId := (kids nodes ids p).getLast?

/-- the builder's scope stack (top first, sentinel at the bottom) represents the specification's stack; every entry
that is not flattened caches the last child of its scope -/
def StackRel (nodes : List FNode) (ids : List ItemId) : List SEntry → List StackEntry → Prop
  | [], bs => ∃ e, bs = [e] ∧ e.scopeId = none ∧ e.flattened = false ∧ e.lastChild = lastOf nodes ids none
  | .flat :: sr, bs => ∃ e br, bs = e :: br ∧ e.scopeId = none ∧ e.flattened = true ∧ StackRel nodes ids sr br
  | .scope j :: sr, bs => ∃ e br k, bs = e :: br ∧ ids[j]? = some (.scope k) ∧ e.scopeId = some k ∧
      e.flattened = false ∧ e.lastChild = lastOf nodes ids (some j) ∧ StackRel nodes ids sr br

/-- open scopes are nested: every open scope was declared after all scopes below it on the stack -/
def Desc : List SEntry → Prop
  | [] => True
  | .flat :: r => Desc r
  | .scope j :: r => (∀ j', SEntry.scope j' ∈ r → j' < j) ∧ Desc r

structure Rel (b : Builder) (s : SpecSt) (ids : List ItemId) : Prop where
  len : ids.length = s.nodes.length
  cnt : s.nodes.length = b.vars.size + b.scopes.size
  nodup : ids.Nodup
  node : ∀ (i : Nat) (n : FNode) (x : ItemId), s.nodes[i]? = some n → ids[i]? = some x → NodeRel b ids n x
  chain : ∀ p, Chain (getNext b) (firstOf b ids p) (kids s.nodes ids p)
  stack : StackRel s.nodes ids s.stack b.stack
  desc : Desc s.stack
  inv : Inv s
  /-- scopes are numbered in creation order: a parent scope has a smaller number (so every walk towards the root ends) -/
  porder : ∀ k k', k < b.scopes.size → (b.scopes.getD k default).parent = some k' → k' < k

/-! ### how the builder's updates change `getNext` -/

def ValidItem (b : Builder) : ItemId → Prop
  | .scope i => i < b.scopes.size
  | .var i => i < b.vars.size

theorem getNext_setNext (b : Builder) (h t x : ItemId) (hv : ValidItem b h) :
    getNext (setNext b h t) x = if x = h then some t else getNext b x := by
  cases h with
  | scope i =>
    have hv' : i < b.scopes.size := hv
    cases x with
    | scope k =>
      simp only [getNext, setNext, Array.getD_eq_getD_getElem?, Array.getElem?_modify]
      by_cases e : i = k
      · subst e; simp [Array.getElem?_eq_getElem hv']
      · have : k ≠ i := fun h => e h.symm
        simp [e, this]
    | var k => simp [getNext, setNext]
  | var i =>
    have hv' : i < b.vars.size := hv
    cases x with
    | var k =>
      simp only [getNext, setNext, Array.getD_eq_getD_getElem?, Array.getElem?_modify]
      by_cases e : i = k
      · subst e; simp [Array.getElem?_eq_getElem hv']
      · have : k ≠ i := fun h => e h.symm
        simp [e, this]
    | scope k => simp [getNext, setNext]

theorem getNext_congr_arrays (b b' : Builder) (hv : b'.vars = b.vars) (hs : b'.scopes = b.scopes) (x : ItemId) :
    getNext b' x = getNext b x := by
  cases x <;> simp [getNext, hv, hs]

theorem getNext_modify_child (b : Builder) (p : Nat) (c : Option ItemId) (x : ItemId) :
    getNext { b with scopes := b.scopes.modify p (fun s => { s with child := c }) } x = getNext b x := by
  cases x with
  | var k => simp [getNext]
  | scope k =>
    simp only [getNext, Array.getD_eq_getD_getElem?, Array.getElem?_modify]
    by_cases e : p = k
    · subst e
      cases h : b.scopes[p]? <;> simp
    · simp [e]

theorem getNext_push_var (b : Builder) (v : VarN) (hh : Array (Option Nat)) (x : ItemId) :
    getNext { b with vars := b.vars.push v, handleToNode := hh } x =
      if x = .var b.vars.size then v.next else getNext b x := by
  cases x with
  | scope k => simp [getNext]
  | var k =>
    simp only [getNext, Array.getD_eq_getD_getElem?, Array.getElem?_push]
    by_cases e : k = b.vars.size
    · simp [e]
    · simp [e]

theorem getNext_push_scope (b : Builder) (sc : ScopeN) (st : List StackEntry) (x : ItemId) :
    getNext { b with scopes := b.scopes.push sc, stack := st } x =
      if x = .scope b.scopes.size then sc.next else getNext b x := by
  cases x with
  | var k => simp [getNext]
  | scope k =>
    simp only [getNext, Array.getD_eq_getD_getElem?, Array.getElem?_push]
    by_cases e : k = b.scopes.size
    · simp [e]
    · simp [e]

/-! ### the scope stack -/

theorem lastOf_snoc_same (nodes : List FNode) (ids : List ItemId) (x : FNode) (y : ItemId) (p : Option Nat)
    (hl : ids.length = nodes.length) (hp : x.parent = p) : lastOf (nodes ++ [x]) (ids ++ [y]) p = some y := by
  unfold lastOf
  rw [kids_snoc _ _ _ _ _ hl]
  simp [hp]

theorem lastOf_snoc_other (nodes : List FNode) (ids : List ItemId) (x : FNode) (y : ItemId) (p : Option Nat)
    (hl : ids.length = nodes.length) (hp : x.parent ≠ p) :
    lastOf (nodes ++ [x]) (ids ++ [y]) p = lastOf nodes ids p := by
  unfold lastOf
  rw [kids_snoc _ _ _ _ _ hl]
  simp [hp]

theorem getElem?_snoc_lt_ids (ids : List ItemId) (y : ItemId) (j : Nat) (h : j < ids.length) :
    (ids ++ [y])[j]? = ids[j]? := List.getElem?_append_left h

/-- entries below the scope that receives a new child are not affected -/
theorem stack_frame (nodes : List FNode) (ids : List ItemId) (x : FNode) (y : ItemId) (j : Nat)
    (hl : ids.length = nodes.length) (hx : x.parent = some j) (hj : j < nodes.length) :
    ∀ (sr : List SEntry) (br : List StackEntry), StackRel nodes ids sr br → (∀ j', SEntry.scope j' ∈ sr → j' < j) →
      StackRel (nodes ++ [x]) (ids ++ [y]) sr br := by
  intro sr
  induction sr with
  | nil =>
    intro br h _
    obtain ⟨e, h1, h2, h3, h4⟩ := h
    refine ⟨e, h1, h2, h3, ?_⟩
    rw [h4, lastOf_snoc_other _ _ _ _ _ hl (by rw [hx]; simp)]
  | cons en sr ih =>
    intro br h hlt
    cases en with
    | flat =>
      obtain ⟨e, br', h1, h2, h3, h4⟩ := h
      exact ⟨e, br', h1, h2, h3, ih br' h4 (fun j' hj' => hlt j' (List.mem_cons_of_mem _ hj'))⟩
    | scope j' =>
      obtain ⟨e, br', k, h1, h2, h3, h4, h5, h6⟩ := h
      have hj' : j' < j := hlt j' (by simp)
      refine ⟨e, br', k, h1, ?_, h3, h4, ?_, ih br' h6 (fun j'' hj'' => hlt j'' (List.mem_cons_of_mem _ hj''))⟩
      · rw [getElem?_snoc_lt_ids _ _ _ (by omega)]; exact h2
      · rw [h5, lastOf_snoc_other _ _ _ _ _ hl (by rw [hx]; intro h; cases h; omega)]

/-- `find_parent_scope` finds the entry of the current scope; it caches that scope's last child -/
theorem findParent_rel (nodes : List FNode) (ids : List ItemId) :
    ∀ (ss : List SEntry) (bs : List StackEntry), StackRel nodes ids ss bs →
      ∃ pos e, findParent bs = some (pos, e) ∧ e.flattened = false ∧
        e.lastChild = lastOf nodes ids (curParent ss) ∧ ParentRel ids (curParent ss) e.scopeId := by
  intro ss
  induction ss with
  | nil =>
    intro bs h
    obtain ⟨e, h1, h2, h3, h4⟩ := h
    subst h1
    exact ⟨0, e, by simp [findParent, h3], h3, h4, h2⟩
  | cons en sr ih =>
    intro bs h
    cases en with
    | flat =>
      obtain ⟨e, br, h1, _, h3, h4⟩ := h
      subst h1
      obtain ⟨pos, e', f1, f2, f3, f4⟩ := ih br h4
      exact ⟨pos + 1, e', by simp [findParent, h3, f1], f2, f3, f4⟩
    | scope j =>
      obtain ⟨e, br, k, h1, h2, h3, h4, h5, _⟩ := h
      subst h1
      exact ⟨0, e, by simp [findParent, h4], h4, h5, ⟨k, h2, h3⟩⟩

/-- after a node `x` (item `y`) has been added under the current scope and the cached last child of its entry has been
updated, the stack represents the specification's stack again -/
theorem stack_update (nodes : List FNode) (ids : List ItemId) (x : FNode) (y : ItemId)
    (hl : ids.length = nodes.length) :
    ∀ (ss : List SEntry) (bs : List StackEntry) (pos : Nat) (e : StackEntry), StackRel nodes ids ss bs → Desc ss →
      (∀ j, SEntry.scope j ∈ ss → j < nodes.length) → x.parent = curParent ss → findParent bs = some (pos, e) →
      StackRel (nodes ++ [x]) (ids ++ [y]) ss (bs.modify pos (fun e => { e with lastChild := some y })) := by
  intro ss
  induction ss with
  | nil =>
    intro bs pos e h _ _ hx hf
    obtain ⟨e0, h1, h2, h3, _⟩ := h
    subst h1
    simp [findParent, h3] at hf
    obtain ⟨rfl, rfl⟩ := hf
    refine ⟨{ e0 with lastChild := some y }, by simp, h2, h3, ?_⟩
    exact (lastOf_snoc_same nodes ids x y _ hl hx).symm
  | cons en sr ih =>
    intro bs pos e h hd hopen hx hf
    cases en with
    | flat =>
      obtain ⟨e0, br, h1, h2, h3, h4⟩ := h
      subst h1
      simp only [findParent, h3, if_true] at hf
      cases hfp : findParent br with
      | none => rw [hfp] at hf; simp at hf
      | some pe =>
        rw [hfp] at hf
        simp at hf
        obtain ⟨rfl, rfl⟩ := hf
        refine ⟨e0, br.modify pe.1 (fun e => { e with lastChild := some y }), by simp, h2, h3, ?_⟩
        exact ih br pe.1 pe.2 h4 hd (fun j hj => hopen j (List.mem_cons_of_mem _ hj)) hx hfp
    | scope j =>
      obtain ⟨e0, br, k, h1, h2, h3, h4, _, h6⟩ := h
      subst h1
      simp [findParent, h4] at hf
      obtain ⟨rfl, rfl⟩ := hf
      have hj : j < nodes.length := hopen j (by simp)
      refine ⟨{ e0 with lastChild := some y }, br, k, by simp, ?_, h3, h4, ?_, ?_⟩
      · rw [getElem?_snoc_lt_ids _ _ _ (by omega)]; exact h2
      · exact (lastOf_snoc_same nodes ids x y _ hl hx).symm
      · exact stack_frame nodes ids x y j hl hx hj sr br h6 hd.1

/-! ### numbering lemmas -/

theorem nodup_getElem?_inj : ∀ (l : List ItemId), l.Nodup → ∀ (i j : Nat) (y : ItemId),
    l[i]? = some y → l[j]? = some y → i = j := by
  intro l
  induction l with
  | nil => intro _ i j y h; simp at h
  | cons a r ih =>
    intro hn i j y hi hj
    rw [List.nodup_cons] at hn
    cases i with
    | zero =>
      cases j with
      | zero => rfl
      | succ j =>
        simp at hi hj; subst hi
        exact absurd (List.mem_of_getElem? hj) hn.1
    | succ i =>
      cases j with
      | zero =>
        simp at hi hj; subst hj
        exact absurd (List.mem_of_getElem? hi) hn.1
      | succ j =>
        simp at hi hj
        rw [ih hn.2 i j y hi hj]

theorem idAt_eq (ids : List ItemId) (i : Nat) (h : i < ids.length) : ids[i]? = some (idAt ids i) := by
  simp [idAt, List.getD_eq_getElem?_getD, List.getElem?_eq_getElem h]

theorem map_idAt_range (ids : List ItemId) : (List.range ids.length).map (idAt ids) = ids := by
  apply List.ext_getElem?
  intro i
  by_cases h : i < ids.length
  · simp [List.getElem?_map, List.getElem?_range h, idAt_eq ids i h]
  · have h' : ids.length ≤ i := by omega
    simp [List.getElem?_eq_none h', h']

theorem kids_sublist (nodes : List FNode) (ids : List ItemId) (p : Option Nat) (hl : ids.length = nodes.length) :
    (kids nodes ids p).Sublist ids := by
  have h1 : (childrenOf nodes p).Sublist (List.range ids.length) := by
    unfold childrenOf; rw [hl]; exact List.filter_sublist
  have := h1.map (idAt ids)
  rwa [map_idAt_range] at this

theorem kids_mem (nodes : List FNode) (ids : List ItemId) (p : Option Nat) (hl : ids.length = nodes.length)
    (y : ItemId) (h : y ∈ kids nodes ids p) :
    ∃ i, i < nodes.length ∧ (nodes.getD i default).parent = p ∧ ids[i]? = some y := by
  unfold kids at h
  obtain ⟨i, hi, rfl⟩ := List.mem_map.mp h
  obtain ⟨h1, h2⟩ := childrenOf_lt _ _ _ hi
  exact ⟨i, h1, h2, idAt_eq ids i (by omega)⟩

theorem nodup_dropLast_ne : ∀ (l : List ItemId), l.Nodup → ∀ y z, y ∈ l.dropLast → l.getLast? = some z → y ≠ z := by
  intro l
  induction l with
  | nil => intro _ y z h; simp at h
  | cons a r ih =>
    intro hn y z hy hz
    rw [List.nodup_cons] at hn
    cases r with
    | nil => simp at hy
    | cons b r' =>
      rw [List.dropLast_cons_cons] at hy
      rw [List.getLast?_cons_cons] at hz
      rcases List.mem_cons.mp hy with rfl | hy
      · intro e; subst e
        exact hn.1 (List.mem_of_getLast? hz)
      · exact ih hn.2 y z hy hz

/-- the first node ever declared is a top-level node, so a non-empty hierarchy has a first top-level item -/
theorem top_nonempty (s : SpecSt) (hi : Inv s) (h : s.nodes ≠ []) : childrenOf s.nodes none ≠ [] := by
  have h0 : 0 < s.nodes.length := List.length_pos_iff.mpr h
  have hmem : 0 ∈ childrenOf s.nodes none := by
    simp only [childrenOf, List.mem_filter, List.mem_range, h0, true_and]
    cases hp : (s.nodes.getD 0 default).parent with
    | none => simp
    | some p =>
      have hn : s.nodes[0]? = some (s.nodes.getD 0 default) := by
        simp [List.getD_eq_getElem?_getD, List.getElem?_eq_getElem h0]
      have := (hi.parents 0 _ hn p hp).1
      omega
  intro e; rw [e] at hmem; simp at hmem

/-! ### adding a node -/

/-- what adding the item `node` under the scope `cur` (whose last child so far is `last`) does to the builder, as far as
the observers are concerned -/
structure AddObs (b b' : Builder) (ids : List ItemId) (cur : Option Nat) (last : Option ItemId) (node : ItemId) : Prop where
  next : ∀ y, getNext b' y = if y = node then none else if some y = last then some node else getNext b y
  first : ∀ p, firstOf b' (ids ++ [node]) p = if p = cur ∧ last = none then some node else firstOf b ids p
  nodeOld : ∀ n y, y ∈ ids → NodeRel b ids n y → NodeRel b' (ids ++ [node]) n y
  cnt : b'.vars.size + b'.scopes.size = b.vars.size + b.scopes.size + 1

theorem rel_add (b b' : Builder) (s : SpecSt) (ids : List ItemId) (x : FNode) (node : ItemId) (st' : List SEntry)
    (hr : Rel b s ids) (hx : x.parent = curParent s.stack) (hfresh : node ∉ ids)
    (ho : AddObs b b' ids (curParent s.stack) (lastOf s.nodes ids (curParent s.stack)) node)
    (hnew : NodeRel b' (ids ++ [node]) x node)
    (hinv : Inv { nodes := s.nodes ++ [x], stack := st' })
    (hst : StackRel (s.nodes ++ [x]) (ids ++ [node]) st' b'.stack) (hd : Desc st')
    (hpo : ∀ k k', k < b'.scopes.size → (b'.scopes.getD k default).parent = some k' → k' < k) :
    Rel b' { nodes := s.nodes ++ [x], stack := st' } (ids ++ [node]) := by
  have hl := hr.len
  refine ⟨by simp [hl], ?_, ?_, ?_, ?_, hst, hd, hinv, hpo⟩
  · have := hr.cnt; have := ho.cnt; simp only [List.length_append, List.length_cons, List.length_nil]; omega
  · rw [List.nodup_append]
    refine ⟨hr.nodup, by simp, ?_⟩
    intro a ha c hc
    simp at hc; subst hc
    intro e; subst e; exact hfresh ha
  · intro i n y hn hy
    simp only at hn
    by_cases hi : i < s.nodes.length
    · rw [List.getElem?_append_left hi] at hn
      rw [List.getElem?_append_left (by omega)] at hy
      exact ho.nodeOld n y (List.mem_of_getElem? hy) (hr.node i n y hn hy)
    · have hi' : i = s.nodes.length := by
        rcases getElem?_snoc _ _ _ _ hn with ⟨h, _⟩ | ⟨h, _⟩
        · omega
        · exact h
      subst hi'
      simp at hn; subst hn
      rw [← hl] at hy; simp at hy; subst hy
      exact hnew
  · intro p
    simp only
    rw [kids_snoc _ _ _ _ _ hl, ho.first p]
    by_cases hp : p = curParent s.stack
    · subst hp
      have hxp : (x.parent == curParent s.stack) = true := by simp [hx]
      simp only [hxp, if_true, true_and]
      have hch := hr.chain (curParent s.stack)
      cases hk : kids s.nodes ids (curParent s.stack) with
      | nil =>
        have hlast : lastOf s.nodes ids (curParent s.stack) = none := by simp [lastOf, hk]
        simp only [hlast, if_true, List.nil_append]
        refine .cons ?_
        rw [ho.next node]; simp
        exact .nil
      | cons a r =>
        have hne : kids s.nodes ids (curParent s.stack) ≠ [] := by rw [hk]; simp
        have hlast : lastOf s.nodes ids (curParent s.stack) ≠ none := by
          unfold lastOf; rw [hk]; simp
        simp only [hlast, if_false]
        rw [← hk]
        have hnd : (kids s.nodes ids (curParent s.stack)).Nodup := (kids_sublist _ _ _ hl).nodup hr.nodup
        apply Chain.snoc hch hne
        · intro y hy
          have hy' : y ∈ kids s.nodes ids (curParent s.stack) := List.dropLast_subset _ hy
          have hyi : y ∈ ids := (kids_sublist _ _ _ hl).subset hy'
          rw [ho.next y]
          have h1 : y ≠ node := fun e => hfresh (e ▸ hyi)
          have h2 : some y ≠ lastOf s.nodes ids (curParent s.stack) := by
            intro e
            exact nodup_dropLast_ne _ hnd y y hy e.symm rfl
          simp [h1, h2]
        · intro z hz
          have hzi : z ∈ ids := (kids_sublist _ _ _ hl).subset (List.mem_of_getLast? hz)
          rw [ho.next z]
          have h1 : z ≠ node := fun e => hfresh (e ▸ hzi)
          have h2 : some z = lastOf s.nodes ids (curParent s.stack) := hz.symm
          simp [h1, h2]
        · rw [ho.next node]; simp
    · have hxp : (x.parent == p) = false := by
        rw [hx]; simp; exact fun e => hp e.symm
      simp only [hxp, hp, false_and, if_false, List.append_nil, Bool.false_eq_true]
      apply (hr.chain p).congr
      intro y hy
      have hyi : y ∈ ids := (kids_sublist _ _ _ hl).subset hy
      rw [ho.next y]
      have h1 : y ≠ node := fun e => hfresh (e ▸ hyi)
      have h2 : some y ≠ lastOf s.nodes ids (curParent s.stack) := by
        intro e
        obtain ⟨i, _, hpi, hii⟩ := kids_mem _ _ _ hl y hy
        obtain ⟨i', _, hpi', hii'⟩ := kids_mem _ _ _ hl y (List.mem_of_getLast? e.symm)
        have := nodup_getElem?_inj ids hr.nodup i i' y hii hii'
        subst this
        exact hp (hpi.symm.trans hpi')
      simp [h1, h2]

theorem parentRel_snoc (ids : List ItemId) (z : ItemId) (sp bp : Option Nat) (h : ParentRel ids sp bp) :
    ParentRel (ids ++ [z]) sp bp := by
  cases sp with
  | none => exact h
  | some p =>
    obtain ⟨k, h1, h2⟩ := h
    refine ⟨k, ?_, h2⟩
    have hp : p < ids.length := by
      rcases Nat.lt_or_ge p ids.length with h' | h'
      · exact h'
      · rw [List.getElem?_eq_none h'] at h1; cases h1
    rw [List.getElem?_append_left hp]; exact h1

/-- a builder update that keeps the names / signals / parents of the existing entries keeps their description -/
theorem nodeRel_mono (b b' : Builder) (ids : List ItemId) (z : ItemId) (n : FNode) (y : ItemId)
    (hs : ∀ k, k < b.scopes.size → k < b'.scopes.size ∧ (b'.scopes.getD k default).name = (b.scopes.getD k default).name ∧
      (b'.scopes.getD k default).parent = (b.scopes.getD k default).parent)
    (hv : ∀ k, k < b.vars.size → k < b'.vars.size ∧ (b'.vars.getD k default).name = (b.vars.getD k default).name ∧
      (b'.vars.getD k default).sig = (b.vars.getD k default).sig ∧
      (b'.vars.getD k default).parent = (b.vars.getD k default).parent)
    (h : NodeRel b ids n y) : NodeRel b' (ids ++ [z]) n y := by
  cases y with
  | scope k =>
    obtain ⟨h1, h2, h3, h4⟩ := h
    obtain ⟨g1, g2, g3⟩ := hs k h2
    exact ⟨h1, g1, by rw [g2]; exact h3, by rw [g3]; exact parentRel_snoc _ _ _ _ h4⟩
  | var k =>
    obtain ⟨h1, h2, h3, h4, h5⟩ := h
    obtain ⟨g1, g2, g3, g4⟩ := hv k h2
    exact ⟨h1, g1, by rw [g2]; exact h3, by rw [g3]; exact h4, by rw [g4]; exact parentRel_snoc _ _ _ _ h5⟩

theorem rel_valid (b : Builder) (s : SpecSt) (ids : List ItemId) (hr : Rel b s ids) (y : ItemId) (hy : y ∈ ids) :
    ValidItem b y := by
  obtain ⟨i, hget⟩ := List.mem_iff_getElem?.mp hy
  have hlt : i < ids.length := by
    rcases Nat.lt_or_ge i ids.length with h' | h'
    · exact h'
    · rw [List.getElem?_eq_none h'] at hget; cases hget
  have hn : s.nodes[i]? = some (s.nodes.getD i default) := by
    simp [List.getD_eq_getElem?_getD, List.getElem?_eq_getElem (hr.len ▸ hlt)]
  have := hr.node i _ y hn hget
  cases y with
  | scope k => exact this.2.1
  | var k => exact this.2.1

theorem firstItem_some (b : Builder) (s : SpecSt) (ids : List ItemId) (hr : Rel b s ids) (h : s.nodes ≠ []) :
    b.firstItem.isNone = false := by
  have hch := hr.chain none
  have hne : kids s.nodes ids none ≠ [] := by
    unfold kids
    intro e
    exact top_nonempty s hr.inv h (List.map_eq_nil_iff.mp e)
  cases hf : b.firstItem with
  | some _ => rfl
  | none =>
    have : firstOf b ids none = none := hf
    rw [this] at hch
    exact absurd hch.start_none hne

theorem firstOf_scope (b : Builder) (ids : List ItemId) (j k : Nat) (h : ids[j]? = some (.scope k)) :
    firstOf b ids (some j) = (b.scopes.getD k default).child := by
  simp [firstOf, h]

/-- `add_to_hierarchy_tree` (before the new entry is pushed): what it changes -/
theorem addToTree_obs (b : Builder) (s : SpecSt) (ids : List ItemId) (node : ItemId) (hr : Rel b s ids) :
    let b0 : Builder := if b.firstItem.isNone then { b with firstItem := some node } else b
    ∃ pos e b1, findParent b.stack = some (pos, e) ∧ addToTree b0 node = some (b1, e.scopeId) ∧
      ParentRel ids (curParent s.stack) e.scopeId ∧
      b1.stack = b.stack.modify pos (fun e => { e with lastChild := some node }) ∧
      b1.vars.size = b.vars.size ∧ b1.scopes.size = b.scopes.size ∧ b1.handleToNode = b.handleToNode ∧
      (∀ y, getNext b1 y = if some y = lastOf s.nodes ids (curParent s.stack) then some node else getNext b y) ∧
      (∀ p, firstOf b1 ids p =
        if p = curParent s.stack ∧ lastOf s.nodes ids (curParent s.stack) = none then some node else firstOf b ids p) ∧
      (∀ k, (b1.scopes.getD k default).name = (b.scopes.getD k default).name ∧
        (b1.scopes.getD k default).parent = (b.scopes.getD k default).parent) ∧
      (∀ k, (b1.vars.getD k default).name = (b.vars.getD k default).name ∧
        (b1.vars.getD k default).sig = (b.vars.getD k default).sig ∧
        (b1.vars.getD k default).parent = (b.vars.getD k default).parent) := by
  intro b0
  obtain ⟨pos, e, hfp, hfl, hlast, hpar⟩ := findParent_rel s.nodes ids s.stack b.stack hr.stack
  have hl := hr.len
  cases hlc : e.lastChild with
  | some holder =>
    -- the current scope has children: link behind the last one
    have hlast' : lastOf s.nodes ids (curParent s.stack) = some holder := by rw [← hlast, hlc]
    have hmem : holder ∈ kids s.nodes ids (curParent s.stack) := List.mem_of_getLast? hlast'
    have hids : holder ∈ ids := (kids_sublist _ _ _ hl).subset hmem
    have hvalid := rel_valid b s ids hr holder hids
    have hne : s.nodes ≠ [] := by
      intro e0
      have : kids s.nodes ids (curParent s.stack) = [] := by simp [kids, childrenOf, e0]
      rw [this] at hmem; cases hmem
    have hfi : b0 = b := by simp only [b0, firstItem_some b s ids hr hne]; rfl
    refine ⟨pos, e, { setNext b holder node with stack := b.stack.modify pos (fun e => { e with lastChild := some node }) },
      hfp, ?_, hpar, rfl, ?_, ?_, ?_, ?_, ?_, ?_, ?_⟩
    · rw [hfi]
      simp only [addToTree, hfp, hlc]
      cases holder <;> rfl
    · cases holder <;> simp [setNext]
    · cases holder <;> simp [setNext]
    · cases holder <;> rfl
    · intro y
      have : getNext { setNext b holder node with stack := b.stack.modify pos (fun e => { e with lastChild := some node }) } y
          = getNext (setNext b holder node) y := getNext_congr_arrays _ _ rfl rfl y
      rw [this, getNext_setNext b holder node y hvalid, hlast']
      by_cases hy : y = holder <;> simp [hy]
    · intro p
      rw [hlast']
      simp only [reduceCtorEq, and_false, if_false]
      cases p with
      | none => cases holder <;> rfl
      | some j =>
        simp only [firstOf]
        cases hj : ids[j]? with
        | none => rfl
        | some it =>
          cases it with
          | var _ => rfl
          | scope k =>
            cases holder with
            | var i => rfl
            | scope i =>
              simp only [setNext, Array.getD_eq_getD_getElem?, Array.getElem?_modify]
              by_cases e1 : i = k
              · subst e1; cases hb : b.scopes[i]? <;> simp
              · simp [e1]
    · intro k
      cases holder with
      | var i => exact ⟨rfl, rfl⟩
      | scope i =>
        simp only [setNext, Array.getD_eq_getD_getElem?, Array.getElem?_modify]
        by_cases e1 : i = k
        · subst e1; cases hb : b.scopes[i]? <;> simp
        · simp [e1]
    · intro k
      cases holder with
      | scope i => exact ⟨rfl, rfl, rfl⟩
      | var i =>
        simp only [setNext, Array.getD_eq_getD_getElem?, Array.getElem?_modify]
        by_cases e1 : i = k
        · subst e1; cases hb : b.vars[i]? <;> simp
        · simp [e1]
  | none =>
    have hlast' : lastOf s.nodes ids (curParent s.stack) = none := by rw [← hlast, hlc]
    have hkids : kids s.nodes ids (curParent s.stack) = [] := by
      unfold lastOf at hlast'
      cases hk : kids s.nodes ids (curParent s.stack) with
      | nil => rfl
      | cons a r => rw [hk] at hlast'; simp at hlast'
    have hfirst : firstOf b ids (curParent s.stack) = none := by
      have := hr.chain (curParent s.stack)
      rw [hkids] at this
      exact this.nil_start
    cases hsc : e.scopeId with
    | some k =>
      -- first child of an existing scope
      have hcur : ∃ j, curParent s.stack = some j ∧ ids[j]? = some (.scope k) := by
        cases hc : curParent s.stack with
        | none => rw [hc] at hpar; simp [ParentRel, hsc] at hpar
        | some j =>
          rw [hc] at hpar
          obtain ⟨k', h1, h2⟩ := hpar
          rw [hsc] at h2; cases h2
          exact ⟨j, rfl, h1⟩
      obtain ⟨j, hcj, hjk⟩ := hcur
      have hkv : k < b.scopes.size := rel_valid b s ids hr (.scope k) (List.mem_of_getElem? hjk)
      have hne : s.nodes ≠ [] := by
        intro e0
        have : ids = [] := by
          have := hl; rw [e0] at this; exact List.length_eq_zero_iff.mp this
        rw [this] at hjk; simp at hjk
      have hfi : b0 = b := by simp only [b0, firstItem_some b s ids hr hne]; rfl
      refine ⟨pos, e, { b with scopes := b.scopes.modify k (fun sc => { sc with child := some node }), stack := b.stack.modify pos (fun e => { e with lastChild := some node }) },
        hfp, ?_, hsc ▸ hpar, rfl, rfl, by simp, rfl, ?_, ?_, ?_, ?_⟩
      · rw [hfi]
        simp only [addToTree, hfp, hlc, hsc]
      · intro y
        rw [hlast']
        simp only [reduceCtorEq, if_false]
        have h1 := getNext_congr_arrays
          { b with scopes := b.scopes.modify k (fun sc => { sc with child := some node }), stack := b.stack.modify pos (fun e => { e with lastChild := some node }) }
          { b with scopes := b.scopes.modify k (fun sc => { sc with child := some node }) } rfl rfl y
        rw [← h1, getNext_modify_child]
      · intro p
        rw [hlast', hcj]
        simp only [and_true]
        cases p with
        | none => simp [firstOf]
        | some j' =>
          by_cases hjj : j' = j
          · subst hjj
            simp only [if_true, firstOf, hjk, Array.getD_eq_getD_getElem?, Array.getElem?_modify]
            simp [Array.getElem?_eq_getElem hkv]
          · have : ¬ (some j' = some j) := by simpa using hjj
            simp only [this, if_false, firstOf]
            cases hj' : ids[j']? with
            | none => rfl
            | some it =>
              cases it with
              | var _ => rfl
              | scope k' =>
                have hkk : k ≠ k' := by
                  intro e1; subst e1
                  exact hjj (nodup_getElem?_inj ids hr.nodup j' j _ hj' hjk)
                simp [Array.getElem?_modify, hkk]
      · intro k'
        simp only [Array.getD_eq_getD_getElem?, Array.getElem?_modify]
        by_cases e1 : k = k'
        · subst e1; cases hb : b.scopes[k]? <;> simp
        · simp [e1]
      · intro k'; exact ⟨rfl, rfl, rfl⟩
    | none =>
      -- the very first top-level item
      have hcur : curParent s.stack = none := by
        cases hc : curParent s.stack with
        | none => rfl
        | some j =>
          rw [hc] at hpar
          obtain ⟨k', _, h2⟩ := hpar
          rw [hsc] at h2; cases h2
      have hfi : b.firstItem = none := by rw [hcur] at hfirst; exact hfirst
      have hb0 : b0 = { b with firstItem := some node } := by simp [b0, hfi]
      refine ⟨pos, e, { b with firstItem := some node, stack := b.stack.modify pos (fun e => { e with lastChild := some node }) },
        hfp, ?_, hsc ▸ hpar, rfl, rfl, rfl, rfl, ?_, ?_, ?_, ?_⟩
      · rw [hb0]
        simp only [addToTree, hfp, hlc, hsc]
      · intro y
        rw [hlast']
        simp only [reduceCtorEq, if_false]
        exact getNext_congr_arrays _ _ rfl rfl y
      · intro p
        rw [hlast', hcur]
        cases p with
        | none => simp [firstOf]
        | some j' => simp [firstOf]
      · intro k'; exact ⟨rfl, rfl⟩
      · intro k'; exact ⟨rfl, rfl, rfl⟩

theorem firstOf_snoc (b b' : Builder) (ids : List ItemId) (node : ItemId)
    (hfi : b'.firstItem = b.firstItem)
    (hch : ∀ (j k : Nat), ids[j]? = some (ItemId.scope k) → (b'.scopes.getD k default).child = (b.scopes.getD k default).child)
    (hnew : ∀ k : Nat, node = ItemId.scope k → (b'.scopes.getD k default).child = none) :
    ∀ p, firstOf b' (ids ++ [node]) p = firstOf b ids p := by
  intro p
  cases p with
  | none => exact hfi
  | some j =>
    simp only [firstOf]
    by_cases hj : j < ids.length
    · rw [List.getElem?_append_left hj]
      cases hi : ids[j]? with
      | none => rfl
      | some it =>
        cases it with
        | var _ => rfl
        | scope k => exact hch j k hi
    · by_cases hj2 : j = ids.length
      · subst hj2
        simp only [List.getElem?_append_right (Nat.le_refl _), Nat.sub_self, List.getElem?_cons_zero,
          List.getElem?_eq_none (Nat.le_refl _)]
        cases node with
        | var _ => rfl
        | scope k => exact hnew k rfl
      · have h1 : ids.length + 1 ≤ j := by omega
        rw [List.getElem?_eq_none (by simp; omega), List.getElem?_eq_none (by omega)]

theorem fresh_var (b : Builder) (s : SpecSt) (ids : List ItemId) (hr : Rel b s ids) : ItemId.var b.vars.size ∉ ids := by
  intro h
  have := rel_valid b s ids hr _ h
  simp [ValidItem] at this

theorem fresh_scope (b : Builder) (s : SpecSt) (ids : List ItemId) (hr : Rel b s ids) : ItemId.scope b.scopes.size ∉ ids := by
  intro h
  have := rel_valid b s ids hr _ h
  simp [ValidItem] at this

theorem open_lt (s : SpecSt) (hi : Inv s) (j : Nat) (h : SEntry.scope j ∈ s.stack) : j < s.nodes.length := by
  obtain ⟨m, hm, _⟩ := hi.stack j h
  rcases Nat.lt_or_ge j s.nodes.length with h' | h'
  · exact h'
  · rw [List.getElem?_eq_none h'] at hm; cases hm

/-- declaring a variable -/
theorem step_var_rel (b : Builder) (s : SpecSt) (ids : List ItemId) (name : String) (sig : Nat) (hr : Rel b s ids) :
    ∃ b', step b (.var name sig) = some b' ∧
      Rel b' { s with nodes := s.nodes ++ [{ isScope := false, name := name, sig := sig, parent := curParent s.stack }] }
        (ids ++ [.var b.vars.size]) := by
  obtain ⟨pos, e, b1, hfp, hadd, hpar, hstk, hvs, hss, hhn, hnext, hfirst, hsf, hvf⟩ :=
    addToTree_obs b s ids (.var b.vars.size) hr
  have hs' : specStep s (.var name sig) = some
      { s with nodes := s.nodes ++ [{ isScope := false, name := name, sig := sig, parent := curParent s.stack }] } := rfl
  have hinv := inv_step s _ _ hr.inv hs'
  refine ⟨{ b1 with
      handleToNode := (if b1.handleToNode.size ≤ sig then b1.handleToNode ++ Array.replicate (sig + 1 - b1.handleToNode.size) none
        else b1.handleToNode).setIfInBounds sig (some b.vars.size),
      vars := b1.vars.push { name := name, sig := sig, parent := e.scopeId } }, by simp only [step, hadd], ?_⟩
  apply rel_add b _ s ids _ (.var b.vars.size) s.stack hr rfl (fresh_var b s ids hr) ?_ ?_ hinv ?_ hr.desc ?_
  · -- observations
    refine ⟨?_, ?_, ?_, ?_⟩
    · intro y
      rw [getNext_push_var b1 _ _ y, hvs, hnext y]
    · intro p
      rw [← hfirst p]
      apply firstOf_snoc b1 _ ids _ rfl (fun _ _ _ => rfl)
      intro k hk; cases hk
    · intro n y _ hn
      apply nodeRel_mono b _ ids _ n y ?_ ?_ hn
      · intro k hk
        exact ⟨by simpa [hss] using hk, (hsf k).1, (hsf k).2⟩
      · intro k hk
        have hk1 : k < b1.vars.size := by omega
        have hg : (b1.vars.push { name := name, sig := sig, parent := e.scopeId : VarN }).getD k default = b1.vars.getD k default := by
          simp [Array.getElem?_push, Nat.ne_of_lt hk1]
        exact ⟨by simp; omega, by rw [hg]; exact (hvf k).1, by rw [hg]; exact (hvf k).2.1, by rw [hg]; exact (hvf k).2.2⟩
    · simp; omega
  · -- the new node
    refine ⟨rfl, by simp; omega, ?_, ?_, ?_⟩
    · simp [← hvs]
    · simp [← hvs]
    · simp only [← hvs, Array.getD_eq_getD_getElem?, Array.getElem?_push_size, Option.getD_some]
      exact parentRel_snoc _ _ _ _ hpar
  · -- the stack
    simp only
    rw [hstk]
    exact stack_update s.nodes ids _ _ hr.len s.stack b.stack pos e hr.stack hr.desc (open_lt s hr.inv) rfl hfp
  · intro k k' hk hp
    simp only at hk hp
    rw [(hsf k).2] at hp
    exact hr.porder k k' (by omega) hp

/-! ### opening a scope -/

def scopeIdx : ItemId → Option Nat
  | .scope k => some k
  | .var _ => none

/-- `find_duplicate_scope` walks the children of the current scope and returns the first scope with the name -/
theorem findDup_kids (b : Builder) (s : SpecSt) (ids : List ItemId) (name : String) (hr : Rel b s ids) :
    ∀ (L : List Nat) (start : Option ItemId) (fuel : Nat), (∀ i ∈ L, i < s.nodes.length) →
      Chain (getNext b) start (L.map (idAt ids)) → L.length < fuel →
      findDup b name fuel start =
        (L.find? (fun i => (s.nodes.getD i default).isScope && (s.nodes.getD i default).name == name)).bind
          (fun j => scopeIdx (idAt ids j)) := by
  intro L
  induction L with
  | nil =>
    intro start fuel _ hc _
    have := hc.nil_start; subst this
    cases fuel <;> simp [findDup]
  | cons i r ih =>
    intro start fuel hlt hc hf
    cases fuel with
    | zero => simp at hf
    | succ f =>
      have hst : start = some (idAt ids i) := by simp only [List.map_cons] at hc; exact hc.head
      subst hst
      have hc' : Chain (getNext b) (getNext b (idAt ids i)) (r.map (idAt ids)) := by
        simp only [List.map_cons] at hc; cases hc with | cons h => exact h
      have hi : i < s.nodes.length := hlt i (by simp)
      have hn : s.nodes[i]? = some (s.nodes.getD i default) := by
        simp [List.getD_eq_getElem?_getD, List.getElem?_eq_getElem hi]
      have hnr := hr.node i _ _ hn (idAt_eq ids i (by rw [hr.len]; exact hi))
      have ih' := ih (getNext b (idAt ids i)) f (fun i' h' => hlt i' (List.mem_cons_of_mem _ h')) hc'
        (by simp at hf; omega)
      cases hx : idAt ids i with
      | scope k =>
        rw [hx] at hnr hc'
        obtain ⟨h1, _, h3, _⟩ := hnr
        simp only [findDup, List.find?_cons, h1, Bool.true_and]
        by_cases hname : (b.scopes.getD k default).name = name
        · have : ((s.nodes.getD i default).name == name) = true := by rw [← h3]; simpa using hname
          rw [if_pos hname, this]
          show some k = scopeIdx (idAt ids i)
          rw [hx]; rfl
        · have : ((s.nodes.getD i default).name == name) = false := by rw [← h3]; simpa using hname
          rw [if_neg hname, this]
          rw [hx] at ih'
          exact ih'
      | var k =>
        rw [hx] at hnr hc'
        obtain ⟨h1, _⟩ := hnr
        simp only [findDup, List.find?_cons, h1, Bool.false_and]
        rw [hx] at ih'
        exact ih'

theorem spec_find_children (s : SpecSt) (name : String) :
    findIdx? (fun n => n.isScope && n.parent == curParent s.stack && n.name == name) s.nodes 0 =
      (childrenOf s.nodes (curParent s.stack)).find?
        (fun i => (s.nodes.getD i default).isScope && (s.nodes.getD i default).name == name) := by
  have := findIdx?_children s.nodes (curParent s.stack) (fun n => n.isScope && n.name == name)
  rw [← this]
  congr 1
  funext n
  cases n.isScope <;> cases (n.parent == curParent s.stack) <;> simp

theorem desc_top : ∀ (st : List SEntry), Desc st →
    (∀ j1, curParent st = some j1 → ∀ j', SEntry.scope j' ∈ st → j' ≤ j1) ∧
    (curParent st = none → ∀ j', SEntry.scope j' ∉ st) := by
  intro st
  induction st with
  | nil => intro _; exact ⟨fun j1 h => by simp [curParent] at h, fun _ j' h => by simp at h⟩
  | cons en r ih =>
    intro hd
    cases en with
    | flat =>
      obtain ⟨h1, h2⟩ := ih hd
      refine ⟨?_, ?_⟩
      · intro j1 hc j' hj'
        rcases List.mem_cons.mp hj' with h | h
        · cases h
        · exact h1 j1 hc j' h
      · intro hc j' hj'
        rcases List.mem_cons.mp hj' with h | h
        · cases h
        · exact h2 hc j' h
    | scope j =>
      refine ⟨?_, ?_⟩
      · intro j1 hc j' hj'
        simp only [curParent, Option.some.injEq] at hc; subst hc
        rcases List.mem_cons.mp hj' with h | h
        · cases h; exact Nat.le_refl _
        · exact Nat.le_of_lt (hd.1 j' h)
      · intro hc; cases hc

theorem start_eq_firstOf (b : Builder) (ids : List ItemId) (cur : Option Nat) (e : StackEntry)
    (hpar : ParentRel ids cur e.scopeId) :
    (match e.scopeId with
      | none => b.firstItem
      | some p => (b.scopes.getD p default).child) = firstOf b ids cur := by
  cases cur with
  | none => simp only [ParentRel] at hpar; rw [hpar]; rfl
  | some j =>
    obtain ⟨k, h1, h2⟩ := hpar
    rw [h2]; simp [firstOf, h1]

theorem kids_length_le (nodes : List FNode) (ids : List ItemId) (p : Option Nat) (hl : ids.length = nodes.length) :
    (kids nodes ids p).length ≤ ids.length := (kids_sublist nodes ids p hl).length_le

theorem kids_none_of_ge (s : SpecSt) (ids : List ItemId) (hi : Inv s) (j : Nat) (hj : s.nodes.length ≤ j) :
    kids s.nodes ids (some j) = [] := by
  unfold kids
  rw [List.map_eq_nil_iff]
  apply List.eq_nil_iff_forall_not_mem.mpr
  intro i hi'
  obtain ⟨h1, h2⟩ := childrenOf_lt _ _ _ hi'
  have hn : s.nodes[i]? = some (s.nodes.getD i default) := by
    simp [List.getD_eq_getElem?_getD, List.getElem?_eq_getElem h1]
  have := (hi.parents i _ hn j h2).1
  omega

/-- declaring a scope that does not exist yet (and is not dissolved) -/
theorem step_scope_new_rel (b : Builder) (s : SpecSt) (ids : List ItemId) (name : String) (hr : Rel b s ids)
    (hinv : Inv { nodes := s.nodes ++ [{ isScope := true, name := name, parent := curParent s.stack }],
                  stack := .scope s.nodes.length :: s.stack }) :
    let node := ItemId.scope b.scopes.size
    let b0 : Builder := if b.firstItem.isNone then { b with firstItem := some node } else b
    ∃ b1 par, addToTree b0 node = some (b1, par) ∧
      Rel { b1 with stack := { scopeId := some b.scopes.size } :: b1.stack,
                    scopes := b1.scopes.push { name := name, parent := par } }
        { nodes := s.nodes ++ [{ isScope := true, name := name, parent := curParent s.stack }],
          stack := .scope s.nodes.length :: s.stack }
        (ids ++ [.scope b.scopes.size]) := by
  intro node b0
  obtain ⟨pos, e, b1, hfp, hadd, hpar, hstk, hvs, hss, hhn, hnext, hfirst, hsf, hvf⟩ :=
    addToTree_obs b s ids (.scope b.scopes.size) hr
  refine ⟨b1, e.scopeId, hadd, ?_⟩
  have hopen := open_lt s hr.inv
  apply rel_add b _ s ids _ (.scope b.scopes.size) _ hr rfl (fresh_scope b s ids hr) ?_ ?_ hinv ?_ ?_ ?_
  · refine ⟨?_, ?_, ?_, ?_⟩
    · intro y
      rw [getNext_push_scope b1 _ _ y, hss, hnext y]
    · intro p
      rw [← hfirst p]
      refine firstOf_snoc b1 _ ids (.scope b.scopes.size) ?_ ?_ ?_ p
      · rfl
      · intro j k hjk
        have hk : k < b1.scopes.size := by
          rw [hss]; exact rel_valid b s ids hr (.scope k) (List.mem_of_getElem? hjk)
        simp [Array.getElem?_push, Nat.ne_of_lt hk]
      · intro k hk
        cases hk
        simp [← hss]
    · intro n y _ hn
      apply nodeRel_mono b _ ids _ n y ?_ ?_ hn
      · intro k hk
        have hk1 : k < b1.scopes.size := by omega
        have hg : (b1.scopes.push { name := name, parent := e.scopeId : ScopeN }).getD k default = b1.scopes.getD k default := by
          simp [Array.getElem?_push, Nat.ne_of_lt hk1]
        exact ⟨by simp; omega, by rw [hg]; exact (hsf k).1, by rw [hg]; exact (hsf k).2⟩
      · intro k hk
        exact ⟨by simpa [hvs] using hk, (hvf k).1, (hvf k).2.1, (hvf k).2.2⟩
    · simp; omega
  · refine ⟨rfl, by simp; omega, ?_, ?_⟩
    · simp [← hss]
    · simp only [← hss, Array.getD_eq_getD_getElem?, Array.getElem?_push_size, Option.getD_some]
      exact parentRel_snoc _ _ _ _ hpar
  · -- the stack: the new entry on top of the updated old stack
    refine ⟨_, _, b.scopes.size, rfl, ?_, rfl, rfl, ?_, ?_⟩
    · rw [← hr.len]; simp
    · show none = lastOf _ _ _
      unfold lastOf
      rw [kids_snoc _ _ _ _ _ hr.len, kids_none_of_ge s ids hr.inv _ (Nat.le_refl _)]
      have : ((curParent s.stack) == some s.nodes.length) = false := by
        cases hc : curParent s.stack with
        | none => rfl
        | some j =>
          have := hopen j (curParent_mem _ _ hc)
          simp; omega
      simp [this]
    · rw [hstk]
      exact stack_update s.nodes ids _ _ hr.len s.stack b.stack pos e hr.stack hr.desc hopen rfl hfp
  · exact ⟨fun j' hj' => hopen j' hj', hr.desc⟩
  · intro k k' hk hp
    simp only [Array.size_push] at hk
    by_cases hk1 : k < b1.scopes.size
    · have hg : (b1.scopes.push { name := name, parent := e.scopeId : ScopeN }).getD k default = b1.scopes.getD k default := by
        simp [Array.getElem?_push, Nat.ne_of_lt hk1]
      simp only at hp
      rw [hg, (hsf k).2] at hp
      exact hr.porder k k' (by omega) hp
    · have hk2 : k = b1.scopes.size := by omega
      subst hk2
      simp only [Array.getD_eq_getD_getElem?, Array.getElem?_push_size, Option.getD_some] at hp
      cases hc : curParent s.stack with
      | none => rw [hc] at hpar; simp only [ParentRel] at hpar; rw [hpar] at hp; cases hp
      | some j =>
        rw [hc] at hpar
        obtain ⟨k2, h1, h2⟩ := hpar
        rw [h2] at hp; cases hp
        have := rel_valid b s ids hr (.scope k') (List.mem_of_getElem? h1)
        simp only [ValidItem] at this
        omega

/-! ### operations that only change the stack -/

theorem nodeRel_congr (b b' : Builder) (ids : List ItemId) (n : FNode) (y : ItemId)
    (hv : b'.vars = b.vars) (hs : b'.scopes = b.scopes) (h : NodeRel b ids n y) : NodeRel b' ids n y := by
  cases y <;> simpa [NodeRel, hv, hs] using h

theorem firstOf_congr (b b' : Builder) (ids : List ItemId) (hs : b'.scopes = b.scopes) (hf : b'.firstItem = b.firstItem)
    (p : Option Nat) : firstOf b' ids p = firstOf b ids p := by
  cases p with
  | none => exact hf
  | some j => simp only [firstOf, hs]

theorem rel_restack (b b' : Builder) (s : SpecSt) (ids : List ItemId) (st' : List SEntry) (hr : Rel b s ids)
    (hv : b'.vars = b.vars) (hs : b'.scopes = b.scopes) (hf : b'.firstItem = b.firstItem)
    (hst : StackRel s.nodes ids st' b'.stack) (hd : Desc st') (hinv : Inv { s with stack := st' }) :
    Rel b' { s with stack := st' } ids := by
  refine ⟨hr.len, by rw [hv, hs]; exact hr.cnt, hr.nodup, ?_, ?_, hst, hd, hinv, by rw [hs]; exact hr.porder⟩
  · intro i n x hn hx
    exact nodeRel_congr b b' ids n x hv hs (hr.node i n x hn hx)
  · intro p
    rw [firstOf_congr b b' ids hs hf p]
    exact (hr.chain p).congr (fun x _ => getNext_congr_arrays b b' hv hs x)

/-- every operation of a balanced history: the builder does not panic and keeps representing the specification -/
theorem rel_step (b : Builder) (s s' : SpecSt) (ids : List ItemId) (op : Op) (hr : Rel b s ids)
    (hs : specStep s op = some s') : ∃ b' ids', step b op = some b' ∧ Rel b' s' ids' := by
  have hinv' := inv_step s s' op hr.inv hs
  cases op with
  | pop =>
    simp only [specStep] at hs
    cases hst : s.stack with
    | nil => rw [hst] at hs; cases hs
    | cons en rest =>
      rw [hst] at hs
      simp at hs; subst hs
      have hsr := hr.stack
      rw [hst] at hsr
      have hdesc := hr.desc
      rw [hst] at hdesc
      have hd : Desc rest := by cases en with | flat => exact hdesc | scope j => exact hdesc.2
      cases en with
      | flat =>
        obtain ⟨e, br, h1, _, _, h4⟩ := hsr
        refine ⟨{ b with stack := br }, ids, by simp [step, h1], ?_⟩
        exact rel_restack b { b with stack := br } s ids rest hr rfl rfl rfl h4 hd hinv'
      | scope j =>
        obtain ⟨e, br, k, h1, _, _, _, _, h6⟩ := hsr
        refine ⟨{ b with stack := br }, ids, by simp [step, h1], ?_⟩
        exact rel_restack b { b with stack := br } s ids rest hr rfl rfl rfl h6 hd hinv'
  | var name sig =>
    obtain ⟨b', h1, h2⟩ := step_var_rel b s ids name sig hr
    simp only [specStep, Option.some.injEq] at hs
    subst hs
    exact ⟨b', _, h1, h2⟩
  | scope name fl =>
    obtain ⟨pos, e, hfp, hfl, hlast, hpar⟩ := findParent_rel s.nodes ids s.stack b.stack hr.stack
    have hstart := start_eq_firstOf b ids (curParent s.stack) e hpar
    have hstepEq : ∀ r : Option Builder,
        (match findDup b name (nodeCount b + 1) (firstOf b ids (curParent s.stack)) with
          | some dup => some { b with stack := { scopeId := some dup, lastChild := ((b.scopes.getD dup default).child).map (findLast b (nodeCount b + 1)) } :: b.stack }
          | none =>
            if fl then some { b with stack := { scopeId := none, flattened := true } :: b.stack }
            else
              match addToTree (if b.firstItem.isNone then { b with firstItem := some (ItemId.scope b.scopes.size) } else b) (ItemId.scope b.scopes.size) with
              | none => none
              | some (b1, parent) =>
                some { b1 with stack := { scopeId := some b.scopes.size } :: b1.stack,
                               scopes := b1.scopes.push { name := name, parent := parent } }) = r →
        step b (.scope name fl) = r := by
      intro r hr'
      rw [← hr', ← hstart]
      simp only [step, hfp]
      cases e.scopeId <;> rfl
    have hL : ∀ i ∈ childrenOf s.nodes (curParent s.stack), i < s.nodes.length :=
      fun i hi => (childrenOf_lt _ _ _ hi).1
    have hfuel : (childrenOf s.nodes (curParent s.stack)).length < nodeCount b + 1 := by
      have := kids_length_le s.nodes ids (curParent s.stack) hr.len
      simp only [kids, List.length_map] at this
      have := hr.cnt; have := hr.len
      simp only [nodeCount]; omega
    have hdup := findDup_kids b s ids name hr (childrenOf s.nodes (curParent s.stack))
      (firstOf b ids (curParent s.stack)) (nodeCount b + 1) hL (hr.chain _) hfuel
    simp only [specStep, spec_find_children] at hs
    cases hfind : (childrenOf s.nodes (curParent s.stack)).find?
        (fun i => (s.nodes.getD i default).isScope && (s.nodes.getD i default).name == name) with
    | some j =>
      -- the scope exists: continue it
      rw [hfind] at hs hdup
      simp at hs; subst hs
      have hjm := List.mem_of_find?_eq_some hfind
      have hjq := List.find?_some hfind
      obtain ⟨hjlt, hjpar⟩ := childrenOf_lt _ _ _ hjm
      have hn : s.nodes[j]? = some (s.nodes.getD j default) := by
        simp [List.getD_eq_getElem?_getD, List.getElem?_eq_getElem hjlt]
      have hidj := idAt_eq ids j (by rw [hr.len]; exact hjlt)
      have hnr := hr.node j _ _ hn hidj
      have hsc : (s.nodes.getD j default).isScope = true := by
        simp only [Bool.and_eq_true] at hjq; exact hjq.1
      cases hx : idAt ids j with
      | var k => rw [hx] at hnr; rw [hnr.1] at hsc; cases hsc
      | scope k =>
        rw [hx] at hidj
        simp only [Option.bind_some, hx, scopeIdx] at hdup
        have hchild : (b.scopes.getD k default).child = firstOf b ids (some j) := (firstOf_scope b ids j k hidj).symm
        have hchain := hr.chain (some j)
        rw [← hchild] at hchain
        have hlastc : ((b.scopes.getD k default).child).map (findLast b (nodeCount b + 1)) = lastOf s.nodes ids (some j) := by
          unfold lastOf
          cases hk : kids s.nodes ids (some j) with
          | nil => rw [hk] at hchain; rw [hchain.nil_start]; rfl
          | cons c l =>
            rw [hk] at hchain
            rw [hchain.head]
            simp only [Option.map_some]
            have hlen := kids_length_le s.nodes ids (some j) hr.len
            rw [hk] at hlen
            have := hr.cnt; have := hr.len
            rw [hchain.head] at hchain
            exact findLast_chain b l c (nodeCount b + 1) hchain (by simp only [nodeCount]; simp at hlen; omega)
        refine ⟨{ b with stack := { scopeId := some k, lastChild := ((b.scopes.getD k default).child).map (findLast b (nodeCount b + 1)) } :: b.stack },
          ids, ?_, ?_⟩
        · apply hstepEq
          simp only [hdup]
        · refine rel_restack b { b with stack := { scopeId := some k, lastChild := ((b.scopes.getD k default).child).map (findLast b (nodeCount b + 1)) } :: b.stack } s ids _ hr rfl rfl rfl ?_ ?_ hinv'
          · exact ⟨_, _, k, rfl, hidj, rfl, rfl, hlastc, hr.stack⟩
          · refine ⟨?_, hr.desc⟩
            intro j' hj'
            obtain ⟨ht1, ht2⟩ := desc_top s.stack hr.desc
            cases hc : curParent s.stack with
            | none => exact absurd hj' (ht2 hc j')
            | some j1 =>
              have h1 := ht1 j1 hc j' hj'
              rw [hc] at hjpar
              have := (hr.inv.parents j _ hn j1 hjpar).1
              omega
    | none =>
      rw [hfind] at hs hdup
      simp only [Option.bind_none] at hdup
      by_cases hflat : fl = true
      · -- dissolved scope
        simp [hflat] at hs; subst hs
        refine ⟨{ b with stack := { scopeId := none, flattened := true } :: b.stack }, ids, ?_, ?_⟩
        · apply hstepEq
          simp only [hdup, hflat, if_true]
        · refine rel_restack b { b with stack := { scopeId := none, flattened := true } :: b.stack } s ids _ hr rfl rfl rfl ?_ hr.desc hinv'
          exact ⟨_, _, rfl, rfl, rfl, hr.stack⟩
      · simp [hflat] at hs; subst hs
        obtain ⟨b1, par, hadd, hrel⟩ := step_scope_new_rel b s ids name hr hinv'
        refine ⟨_, _, ?_, hrel⟩
        apply hstepEq
        simp only [hdup, hflat, Bool.false_eq_true, if_false, hadd]

/-! ### whole histories -/

theorem rel_init : Rel {} {} [] := by
  refine ⟨rfl, rfl, List.nodup_nil, ?_, ?_, ?_, trivial, inv_init, fun k k' hk => by simp at hk⟩
  · intro i n x hn _; simp at hn
  · intro p
    have hk : kids ([] : List FNode) [] p = [] := by simp [kids, childrenOf]
    rw [hk]
    cases p with
    | none => exact .nil
    | some j => simp only [firstOf, List.getElem?_nil]; exact .nil
  · exact ⟨_, rfl, rfl, rfl, by simp [lastOf, kids, childrenOf]⟩

theorem foldl_none_spec (l : List Op) :
    l.foldl (fun acc op => acc.bind (fun s => specStep s op)) (none : Option SpecSt) = none := by
  induction l with
  | nil => rfl
  | cons a r ih => simpa using ih

theorem rel_run (ops : List Op) : ∀ (b : Builder) (s s' : SpecSt) (ids : List ItemId), Rel b s ids →
    ops.foldl (fun acc op => acc.bind (fun s => specStep s op)) (some s) = some s' →
    ∃ b' ids', ops.foldl (fun acc op => acc.bind (fun b => step b op)) (some b) = some b' ∧ Rel b' s' ids' := by
  induction ops with
  | nil => intro b s s' ids hr h; simp at h; subst h; exact ⟨b, ids, rfl, hr⟩
  | cons op rest ih =>
    intro b s s' ids hr h
    simp only [List.foldl_cons, Option.bind_some] at h ⊢
    cases hs : specStep s op with
    | none => rw [hs, foldl_none_spec] at h; cases h
    | some s1 =>
      rw [hs] at h
      obtain ⟨b1, ids1, hb1, hr1⟩ := rel_step b s s1 ids op hr hs
      rw [hb1]
      exact ih b1 s1 s' ids1 hr1 h

/-- the item iterator over the children of `p` yields exactly the specification's children, in declaration order -/
theorem items_eq_kids (b : Builder) (s : SpecSt) (ids : List ItemId) (hr : Rel b s ids) (p : Option Nat) :
    itemsOf b (firstOf b ids p) = kids s.nodes ids p := by
  unfold itemsOf
  apply iterItems_chain b (hr.chain p)
  have := kids_length_le s.nodes ids p hr.len
  have := hr.cnt; have := hr.len
  simp only [nodeCount]; omega

end Wellen.Hier
