import WellenModel.Model.VcdHeader
import WellenModel.Model.VcdHeaderDump
/-! helper lemmas for C09: identifier codes, signal numbering, bit-range parsing -/
namespace Wellen.VcdHeader
open Wellen.VcdBody

/-! ### identifier codes: `id_to_int` is injective -/

/-- the value before the final `- 1`, by structural recursion from the last character (the fold runs over the reversed id) -/
def idVal : List Nat → Option Nat
  | [] => some 0
  | c :: r =>
    match idVal r with
    | none => none
    | some v =>
      if 33 ≤ c ∧ c ≤ 126 then
        let v' := v * 94 + ((c - 33) + 1)
        if v' < 2 ^ 64 then some v' else none
      else none

theorem idToInt_eq (id : List Nat) : idToInt id = if id.isEmpty then none else (idVal id).map (· - 1) := by
  unfold idToInt
  split
  · rfl
  · have : ∀ l : List Nat, l.reverse.foldl idStep (some 0) = idVal l := by
      intro l
      induction l with
      | nil => rfl
      | cons c r ih =>
        simp only [List.reverse_cons, List.foldl_append, List.foldl_cons, List.foldl_nil, ih, idVal, idStep]
        cases idVal r <;> rfl
    rw [this]
    cases idVal id <;> rfl

theorem idVal_pos (c : Nat) (r : List Nat) (v : Nat) (h : idVal (c :: r) = some v) : 1 ≤ v := by
  simp only [idVal] at h
  split at h
  · cases h
  · split at h
    · split at h
      · injection h with h; omega
      · cases h
    · cases h

theorem idVal_inj (a : List Nat) : ∀ (b : List Nat) (v : Nat), idVal a = some v → idVal b = some v → a = b := by
  induction a with
  | nil =>
    intro b v ha hb
    cases b with
    | nil => rfl
    | cons c r =>
      have := idVal_pos c r v hb
      simp [idVal] at ha
      omega
  | cons c r ih =>
    intro b v ha hb
    cases b with
    | nil =>
      have := idVal_pos c r v ha
      simp [idVal] at hb
      omega
    | cons c' r' =>
      simp only [idVal] at ha hb
      cases hr : idVal r with
      | none => simp [hr] at ha
      | some va =>
        cases hr' : idVal r' with
        | none => simp [hr'] at hb
        | some vb =>
          simp only [hr, hr'] at ha hb
          split at ha
          · split at hb
            · split at ha
              · split at hb
                · injection ha with ha; injection hb with hb
                  have h1 : va = vb := by omega
                  have h2 : c = c' := by omega
                  subst h1
                  rw [h2, ih r' va hr hr']
                · cases hb
              · cases ha
            · cases hb
          · cases ha

/-- two identifier codes with the same number are the same code -/
theorem idToInt_inj (a b : List Nat) (v : Nat) (ha : idToInt a = some v) (hb : idToInt b = some v) : a = b := by
  rw [idToInt_eq] at ha hb
  cases a with
  | nil => simp at ha
  | cons c r =>
    cases b with
    | nil => simp at hb
    | cons c' r' =>
      simp only [List.isEmpty_cons, Bool.false_eq_true, ↓reduceIte] at ha hb
      cases h1 : idVal (c :: r) with
      | none => simp [h1] at ha
      | some v1 =>
        cases h2 : idVal (c' :: r') with
        | none => simp [h2] at hb
        | some v2 =>
          simp [h1] at ha
          simp [h2] at hb
          have p1 := idVal_pos c r v1 h1
          have p2 := idVal_pos c' r' v2 h2
          have : v1 = v2 := by omega
          subst this
          exact idVal_inj _ _ _ h1 h2

/-! ### the hashed id map -/

theorem indexOf_go_some (x : List Nat) (l : List (List Nat)) : ∀ (k n : Nat), indexOf?.go x l k = some n → k ≤ n ∧ l[n - k]? = some x := by
  induction l with
  | nil => intro k n h; simp [indexOf?.go] at h
  | cons y r ih =>
    intro k n h
    simp only [indexOf?.go] at h
    split at h
    · injection h with h; subst h; rename_i hy; simp [hy]
    · obtain ⟨h1, h2⟩ := ih (k + 1) n h
      refine ⟨by omega, ?_⟩
      have : n - k = (n - (k + 1)) + 1 := by omega
      rw [this]; simpa using h2

theorem indexOf_go_mem (x : List Nat) (l : List (List Nat)) (hx : x ∈ l) : ∀ k, ∃ n, indexOf?.go x l k = some n := by
  induction l with
  | nil => cases hx
  | cons y r ih =>
    intro k
    simp only [indexOf?.go]
    split
    · exact ⟨k, rfl⟩
    · rename_i hne
      rcases List.mem_cons.mp hx with h | h
      · exact absurd h.symm hne
      · exact ih h (k + 1)

theorem dedup_mem (ids : List (List Nat)) : ∀ (acc : List (List Nat)) (x : List Nat), x ∈ acc ∨ x ∈ ids →
    x ∈ ids.foldl (fun acc id => if acc.contains id then acc else acc ++ [id]) acc := by
  induction ids with
  | nil => intro acc x h; simpa using h
  | cons a r ih =>
    intro acc x h
    simp only [List.foldl_cons]
    apply ih
    rcases h with h | h
    · left; split
      · exact h
      · simp [h]
    · rcases List.mem_cons.mp h with h | h
      · left; subst h
        split
        · rename_i hc; simpa using hc
        · simp
      · right; exact h

theorem needMap_go_false (ids : List (List Nat)) : ∀ t, needMap.go t ids = false → ∀ id ∈ ids, ∃ v, idToInt id = some v := by
  induction ids with
  | nil => intro t _ id hid; cases hid
  | cons a r ih =>
    intro t h id hid
    simp only [needMap.go] at h
    cases ha : idToInt a with
    | none => simp [ha] at h
    | some v =>
      simp only [ha] at h
      split at h
      · cases h
      · rcases List.mem_cons.mp hid with h1 | h1
        · subst h1; exact ⟨v, ha⟩
        · exact ih _ h id h1

end Wellen.VcdHeader

namespace Wellen.VcdHeader

/-! ### bit ranges: `extract_suffix_index` reads back a rendered `[msb:lsb]` / `[i]` -/

/-- the (position, byte) pairs from the back, as `extract_suffix_index` visits them -/
def idxRev (value : List Nat) : List (Nat × Nat) := ((List.range value.length).zip value).reverse

theorem extractSuffixIndex_eq (value : List Nat) : extractSuffixIndex value = extractGo value (idxRev value) .closing := rfl

theorem idxRev_snoc (a : List Nat) (b : Nat) : idxRev (a ++ [b]) = (a.length, b) :: idxRev a := by
  unfold idxRev
  simp only [List.length_append, List.length_cons, List.length_nil, Nat.zero_add]
  rw [List.range_succ, List.zip_append (by simp)]
  simp

/-- value of a digit string read from its least significant digit -/
def valLsb : List Nat → Int
  | [] => 0
  | x :: r => ((x : Int) - 48) + 10 * valLsb r

/-- decimal value of a digit string (most significant digit first) -/
def decVal (ds : List Nat) : Int := valLsb ds.reverse

def isDigits (ds : List Nat) : Prop := ∀ b ∈ ds, 48 ≤ b ∧ b ≤ 57
def isSpaces (sp : List Nat) : Prop := ∀ b ∈ sp, b = 32

theorem go_spaces (value a : List Nat) (st : XSt) : ∀ r : List Nat, isSpaces r →
    extractGo value (idxRev (a ++ r.reverse)) st = extractGo value (idxRev a) st := by
  intro r
  induction r generalizing a with
  | nil => intro _; simp
  | cons x r ih =>
    intro h
    have hx : x = 32 := h x (by simp)
    rw [List.reverse_cons, ← List.append_assoc, idxRev_snoc]
    simp only [extractGo, hx, ↓reduceIte]
    exact ih a (fun b hb => h b (by simp [hb]))

theorem go_digits_lsb (value a : List Nat) (e : Nat) : ∀ (r : List Nat) (num f : Int), isDigits r →
    extractGo value (idxRev (a ++ r.reverse)) (.lsb e num f) =
      extractGo value (idxRev a) (.lsb e (num + f * valLsb r) (f * 10 ^ r.length)) := by
  intro r
  induction r with
  | nil => intro num f _; simp [valLsb]
  | cons x r ih =>
    intro num f h
    have hx := h x (by simp)
    have h32 : ¬ x = 32 := by omega
    rw [List.reverse_cons, ← List.append_assoc, idxRev_snoc]
    simp only [extractGo, h32, ↓reduceIte, hx, and_self]
    rw [ih _ _ (fun b hb => h b (by simp [hb]))]
    congr 2
    · simp only [valLsb]; rw [Int.mul_add, Int.mul_assoc]
      rw [Int.add_assoc]; congr 1
      rw [Int.mul_comm]
    · rw [List.length_cons, Int.pow_succ, Int.mul_assoc]; congr 1; rw [Int.mul_comm]

theorem go_digits_msb (value a : List Nat) (e : Nat) (l : Int) : ∀ (r : List Nat) (num f : Int), isDigits r →
    extractGo value (idxRev (a ++ r.reverse)) (.msb e l num f) =
      extractGo value (idxRev a) (.msb e l (num + f * valLsb r) (f * 10 ^ r.length)) := by
  intro r
  induction r with
  | nil => intro num f _; simp [valLsb]
  | cons x r ih =>
    intro num f h
    have hx := h x (by simp)
    have h32 : ¬ x = 32 := by omega
    rw [List.reverse_cons, ← List.append_assoc, idxRev_snoc]
    simp only [extractGo, h32, ↓reduceIte, hx, and_self]
    rw [ih _ _ (fun b hb => h b (by simp [hb]))]
    congr 2
    · simp only [valLsb]; rw [Int.mul_add, Int.mul_assoc]
      rw [Int.add_assoc]; congr 1
      rw [Int.mul_comm]
    · rw [List.length_cons, Int.pow_succ, Int.mul_assoc]; congr 1; rw [Int.mul_comm]

/-- text of a bound: an optional minus sign and decimal digits -/
def numTxt (neg : Bool) (ds : List Nat) : List Nat := (if neg then [45] else []) ++ ds
def sval (neg : Bool) (ds : List Nat) : Int := if neg then -(decVal ds) else decVal ds

theorem isDigits_reverse (d : List Nat) (h : isDigits d) : isDigits d.reverse := fun b hb => h b (by simpa using hb)
theorem isSpaces_reverse (d : List Nat) (h : isSpaces d) : isSpaces d.reverse := fun b hb => h b (by simpa using hb)

theorem go_spaces' (value a : List Nat) (st : XSt) (sp : List Nat) (h : isSpaces sp) :
    extractGo value (idxRev (a ++ sp)) st = extractGo value (idxRev a) st := by
  have := go_spaces value a st sp.reverse (isSpaces_reverse sp h)
  rwa [List.reverse_reverse] at this

theorem go_num_lsb (value a : List Nat) (e : Nat) (neg : Bool) (ds : List Nat) (hd : isDigits ds) :
    extractGo value (idxRev (a ++ numTxt neg ds)) (.lsb e 0 1) =
      extractGo value (idxRev a) (.lsb e (sval neg ds) (10 ^ ds.length)) := by
  cases neg with
  | false =>
    have := go_digits_lsb value a e ds.reverse 0 1 (isDigits_reverse ds hd)
    rw [List.reverse_reverse] at this
    simp only [numTxt, Bool.false_eq_true, ↓reduceIte, List.nil_append, sval, decVal]
    rw [this]; simp
  | true =>
    have := go_digits_lsb value (a ++ [45]) e ds.reverse 0 1 (isDigits_reverse ds hd)
    rw [List.reverse_reverse] at this
    simp only [numTxt, ↓reduceIte, sval, decVal]
    rw [← List.append_assoc, this, idxRev_snoc]
    simp [extractGo]

theorem go_num_msb (value a : List Nat) (e : Nat) (l : Int) (neg : Bool) (ds : List Nat) (hd : isDigits ds) :
    extractGo value (idxRev (a ++ numTxt neg ds)) (.msb e l 0 1) =
      extractGo value (idxRev a) (.msb e l (sval neg ds) (10 ^ ds.length)) := by
  cases neg with
  | false =>
    have := go_digits_msb value a e l ds.reverse 0 1 (isDigits_reverse ds hd)
    rw [List.reverse_reverse] at this
    simp only [numTxt, Bool.false_eq_true, ↓reduceIte, List.nil_append, sval, decVal]
    rw [this]; simp
  | true =>
    have := go_digits_msb value (a ++ [45]) e l ds.reverse 0 1 (isDigits_reverse ds hd)
    rw [List.reverse_reverse] at this
    simp only [numTxt, ↓reduceIte, sval, decVal]
    rw [← List.append_assoc, this, idxRev_snoc]
    simp [extractGo]

end Wellen.VcdHeader
