import WellenModel.Proofs.HierRefine
import WellenModel.Model.HierDump
/-! Observers of the pointer-level builder under the representation relation `Rel`: full names and the lookup functions
return what the specification (`specFullName`, `specLookupScope`, `specLookupVar`, `specLookupVarIdx`) says. -/
namespace Wellen.Hier

/-- names from the root down to node `i` -/
def specPath (nodes : List FNode) : Nat → Nat → List String
  | 0, i => [(nodes.getD i default).name]
  | fuel + 1, i =>
    match (nodes.getD i default).parent with
    | none => [(nodes.getD i default).name]
    | some p => specPath nodes fuel p ++ [(nodes.getD i default).name]

theorem specPath_ne_nil (nodes : List FNode) (f i : Nat) : specPath nodes f i ≠ [] := by
  cases f with
  | zero => simp [specPath]
  | succ f => simp only [specPath]; split <;> simp

theorem specFullName_eq_path (nodes : List FNode) : ∀ (f i : Nat),
    specFullName nodes f i = ".".intercalate (specPath nodes f i) := by
  intro f
  induction f with
  | zero => intro i; simp [specFullName, specPath]
  | succ f ih =>
    intro i
    simp only [specFullName, specPath]
    cases hp : (nodes.getD i default).parent with
    | none => simp
    | some p =>
      simp only
      rw [String.intercalate_append_of_ne_nil (specPath_ne_nil nodes f p) (by simp), ih p]
      simp

theorem node_of_id (b : Builder) (s : SpecSt) (ids : List ItemId) (hr : Rel b s ids) (j : Nat) (x : ItemId)
    (h : ids[j]? = some x) : j < s.nodes.length ∧ NodeRel b ids (s.nodes.getD j default) x := by
  have hlt : j < ids.length := by
    rcases Nat.lt_or_ge j ids.length with h' | h'
    · exact h'
    · rw [List.getElem?_eq_none h'] at h; cases h
  have hlt' : j < s.nodes.length := hr.len ▸ hlt
  have hn : s.nodes[j]? = some (s.nodes.getD j default) := by
    simp [List.getD_eq_getElem?_getD, List.getElem?_eq_getElem hlt']
  exact ⟨hlt', hr.node j _ x hn h⟩

/-- climbing the parent links of the builder collects the names the specification lists from the root down -/
theorem up_eq_path (b : Builder) (s : SpecSt) (ids : List ItemId) (hr : Rel b s ids) :
    ∀ (k j : Nat), ids[j]? = some (.scope k) → ∀ (fuel F : Nat) (acc : List String), k < fuel → j ≤ F →
      scopeFullName.up b fuel (some k) acc = specPath s.nodes F j ++ acc := by
  intro k
  induction k using Nat.strongRecOn with
  | _ k ih =>
    intro j hj fuel F acc hf hF
    obtain ⟨hjlt, hnr⟩ := node_of_id b s ids hr j _ hj
    obtain ⟨_, hk, hname, hpar⟩ := hnr
    cases fuel with
    | zero => omega
    | succ f =>
      simp only [scopeFullName.up]
      cases hp : (s.nodes.getD j default).parent with
      | none =>
        rw [hp] at hpar
        simp only [ParentRel] at hpar
        rw [hpar, hname]
        have : specPath s.nodes F j = [(s.nodes.getD j default).name] := by
          cases F <;> simp only [specPath, hp]
        rw [this]
        cases f <;> simp [scopeFullName.up]
      | some p =>
        rw [hp] at hpar
        obtain ⟨k', hk', hbp⟩ := hpar
        have hn : s.nodes[j]? = some (s.nodes.getD j default) := by
          simp [List.getD_eq_getElem?_getD, List.getElem?_eq_getElem hjlt]
        have hpj := (hr.inv.parents j _ hn p hp).1
        have hk'k := hr.porder k k' hk hbp
        rw [hbp, hname]
        cases F with
        | zero => omega
        | succ F' =>
          rw [ih k' hk'k p hk' f F' _ (by omega) (by omega)]
          simp only [specPath, hp, List.append_assoc, List.singleton_append]

/-- **full names**: the builder's `full_name` of a scope is the specification's dotted path -/
theorem scopeFullName_eq (b : Builder) (s : SpecSt) (ids : List ItemId) (hr : Rel b s ids) (k j F : Nat)
    (hj : ids[j]? = some (.scope k)) (hF : j ≤ F) : scopeFullName b k = specFullName s.nodes F j := by
  rw [specFullName_eq_path]
  obtain ⟨hjlt, hnr⟩ := node_of_id b s ids hr j _ hj
  obtain ⟨_, hk, hname, hpar⟩ := hnr
  unfold scopeFullName
  congr 1
  have h1 := up_eq_path b s ids hr k j hj (b.scopes.size + 1 + 1) F [] (by omega) hF
  simp only [scopeFullName.up, List.append_nil] at h1
  exact h1

theorem varFullName_eq (b : Builder) (s : SpecSt) (ids : List ItemId) (hr : Rel b s ids) (k j F : Nat)
    (hj : ids[j]? = some (.var k)) (hF : j ≤ F) : varFullName b k = specFullName s.nodes F j := by
  obtain ⟨hjlt, hnr⟩ := node_of_id b s ids hr j _ hj
  obtain ⟨_, hk, hname, _, hpar⟩ := hnr
  simp only [varFullName]
  cases hp : (s.nodes.getD j default).parent with
  | none =>
    rw [hp] at hpar
    simp only [ParentRel] at hpar
    rw [hpar]
    cases F <;> simp only [specFullName, hp, hname]
  | some p =>
    rw [hp] at hpar
    obtain ⟨k', hk', hbp⟩ := hpar
    have hn : s.nodes[j]? = some (s.nodes.getD j default) := by
      simp [List.getD_eq_getElem?_getD, List.getElem?_eq_getElem hjlt]
    have hpj := (hr.inv.parents j _ hn p hp).1
    rw [hbp]
    cases F with
    | zero => omega
    | succ F' =>
      simp only [specFullName, hp]
      rw [scopeFullName_eq b s ids hr k' p F' hk' (by omega), hname]

/-! ### lookups -/

theorem spec_find_children' (nodes : List FNode) (cur : Option Nat) (name : String) :
    findIdx? (fun n => n.isScope && n.parent == cur && n.name == name) nodes 0 =
      (childrenOf nodes cur).find? (fun i => (nodes.getD i default).isScope && (nodes.getD i default).name == name) := by
  have := findIdx?_children nodes cur (fun n => n.isScope && n.name == name)
  rw [← this]
  congr 1
  funext n
  cases n.isScope <;> cases (n.parent == cur) <;> simp

theorem find_scope_kids (b : Builder) (s : SpecSt) (ids : List ItemId) (name : String) (hr : Rel b s ids) :
    ∀ (L : List Nat), (∀ i ∈ L, i < s.nodes.length) →
      (scopesIn (L.map (idAt ids))).find? (fun k => (b.scopes.getD k default).name = name) =
        (L.find? (fun i => (s.nodes.getD i default).isScope && (s.nodes.getD i default).name == name)).bind
          (fun j => scopeIdx (idAt ids j)) := by
  intro L
  induction L with
  | nil => intro _; rfl
  | cons i r ih =>
    intro hlt
    have hi : i < s.nodes.length := hlt i (by simp)
    obtain ⟨_, hnr⟩ := node_of_id b s ids hr i _ (idAt_eq ids i (by rw [hr.len]; exact hi))
    have ih' := ih (fun i' h' => hlt i' (List.mem_cons_of_mem _ h'))
    cases hx : idAt ids i with
    | scope k =>
      rw [hx] at hnr
      obtain ⟨h1, _, h3, _⟩ := hnr
      simp only [List.map_cons, hx, scopesIn, List.filterMap_cons, List.find?_cons, h1, Bool.true_and]
      by_cases hname : (b.scopes.getD k default).name = name
      · have : ((s.nodes.getD i default).name == name) = true := by rw [← h3]; simpa using hname
        rw [this]
        simp only [hname, decide_true]
        show some k = scopeIdx (idAt ids i)
        rw [hx]; rfl
      · have : ((s.nodes.getD i default).name == name) = false := by rw [← h3]; simpa using hname
        rw [this]
        simp only [hname, decide_false]
        exact ih'
    | var k =>
      rw [hx] at hnr
      obtain ⟨h1, _⟩ := hnr
      simp only [List.map_cons, hx, scopesIn, List.filterMap_cons, List.find?_cons, h1, Bool.false_and]
      exact ih'

/-- one step of `lookup_scope`: the first scope named `name` among the items of `p` -/
theorem lookup_level (b : Builder) (s : SpecSt) (ids : List ItemId) (hr : Rel b s ids) (p : Option Nat) (name : String) :
    (scopesIn (itemsOf b (firstOf b ids p))).find? (fun k => (b.scopes.getD k default).name = name) =
      (findIdx? (fun n => n.isScope && n.parent == p && n.name == name) s.nodes 0).bind (fun j => scopeIdx (idAt ids j)) := by
  rw [items_eq_kids b s ids hr p, spec_find_children']
  exact find_scope_kids b s ids name hr (childrenOf s.nodes p) (fun i hi => (childrenOf_lt _ _ _ hi).1)

theorem found_scope (b : Builder) (s : SpecSt) (ids : List ItemId) (hr : Rel b s ids) (p : Option Nat) (name : String) (j : Nat)
    (h : findIdx? (fun n => n.isScope && n.parent == p && n.name == name) s.nodes 0 = some j) :
    ∃ k, ids[j]? = some (.scope k) := by
  obtain ⟨_, hlt, ⟨n, hn, hq⟩, _⟩ := findIdx?_spec _ _ _ _ h
  simp only [Nat.sub_zero, Nat.zero_add] at hn hlt
  have hid := idAt_eq ids j (by rw [hr.len]; exact hlt)
  have hnr := hr.node j n _ hn hid
  cases hx : idAt ids j with
  | scope k => exact ⟨k, by rw [← hx]; exact hid⟩
  | var k =>
    rw [hx] at hnr
    simp only [Bool.and_eq_true] at hq
    rw [hnr.1] at hq
    exact absurd hq.1.1 (by simp)

theorem foldl_bind_none {α β : Type} (f : α → β → Option α) (l : List β) :
    l.foldl (fun acc n => acc.bind fun s => f s n) none = none := by
  induction l with
  | nil => rfl
  | cons a r ih => simpa using ih

/-- **`lookup_scope`**: the builder returns the scope the specification finds by following the first declared scope of
each name along the path -/
theorem lookupScope_eq (b : Builder) (s : SpecSt) (ids : List ItemId) (hr : Rel b s ids) (names : List String) :
    lookupScope b names = (specLookupScope s.nodes none names).bind (fun j => scopeIdx (idAt ids j)) := by
  have step : ∀ (rest : List String) (j k : Nat), ids[j]? = some (.scope k) →
      rest.foldl (fun acc n => acc.bind fun sc =>
          (scopesIn (itemsOf b (b.scopes.getD sc default).child)).find? (fun c => (b.scopes.getD c default).name = n)) (some k) =
        (match rest with
          | [] => some j
          | _ => specLookupScope s.nodes (some j) rest).bind (fun j => scopeIdx (idAt ids j)) := by
    intro rest
    induction rest with
    | nil =>
      intro j k hjk
      simp only [List.foldl_nil, Option.bind_some]
      simp [idAt, List.getD_eq_getElem?_getD, hjk, scopeIdx]
    | cons n r ih =>
      intro j k hjk
      simp only [List.foldl_cons, Option.bind_some]
      have hl := lookup_level b s ids hr (some j) n
      rw [firstOf_scope b ids j k hjk] at hl
      rw [hl]
      cases hf : findIdx? (fun x => x.isScope && x.parent == some j && x.name == n) s.nodes 0 with
      | none =>
        simp only [Option.bind_none]
        rw [foldl_bind_none]
        cases r <;> simp only [specLookupScope, hf, Option.bind_none]
      | some j' =>
        obtain ⟨k', hk'⟩ := found_scope b s ids hr (some j) n j' hf
        have hidx : scopeIdx (idAt ids j') = some k' := by
          simp [idAt, List.getD_eq_getElem?_getD, hk', scopeIdx]
        simp only [Option.bind_some, hidx]
        rw [ih j' k' hk']
        cases r with
        | nil => simp only [specLookupScope, hf]
        | cons n2 r2 => simp only [specLookupScope, hf]
  cases names with
  | nil => simp [lookupScope, specLookupScope]
  | cons n0 rest =>
    simp only [lookupScope]
    have hl := lookup_level b s ids hr none n0
    simp only [firstOf] at hl
    rw [hl]
    cases hf : findIdx? (fun x => x.isScope && x.parent == none && x.name == n0) s.nodes 0 with
    | none =>
      simp only [Option.bind_none]
      cases rest <;> simp only [specLookupScope, hf, Option.bind_none]
    | some j0 =>
      obtain ⟨k0, hk0⟩ := found_scope b s ids hr none n0 j0 hf
      have hidx : scopeIdx (idAt ids j0) = some k0 := by
        simp [idAt, List.getD_eq_getElem?_getD, hk0, scopeIdx]
      simp only [Option.bind_some, hidx]
      rw [step rest j0 k0 hk0]
      cases rest with
      | nil => simp only [specLookupScope, hf]
      | cons n2 r2 => simp only [specLookupScope, hf]

def varIdx : ItemId → Option Nat
  | .var k => some k
  | .scope _ => none

theorem find_var_kids (b : Builder) (s : SpecSt) (ids : List ItemId) (q : String → Bool) (hr : Rel b s ids) :
    ∀ (L : List Nat), (∀ i ∈ L, i < s.nodes.length) →
      (varsIn (L.map (idAt ids))).find? (fun v => q (b.vars.getD v default).name) =
        (L.find? (fun i => !(s.nodes.getD i default).isScope && q (s.nodes.getD i default).name)).bind
          (fun j => varIdx (idAt ids j)) := by
  intro L
  induction L with
  | nil => intro _; rfl
  | cons i r ih =>
    intro hlt
    have hi : i < s.nodes.length := hlt i (by simp)
    obtain ⟨_, hnr⟩ := node_of_id b s ids hr i _ (idAt_eq ids i (by rw [hr.len]; exact hi))
    have ih' := ih (fun i' h' => hlt i' (List.mem_cons_of_mem _ h'))
    cases hx : idAt ids i with
    | var k =>
      rw [hx] at hnr
      obtain ⟨h1, _, h3, _⟩ := hnr
      simp only [List.map_cons, hx, varsIn, List.filterMap_cons, List.find?_cons, h1, Bool.not_false, Bool.true_and, h3]
      cases hq : q (s.nodes.getD i default).name with
      | true =>
        show some k = varIdx (idAt ids i)
        rw [hx]; rfl
      | false => exact ih'
    | scope k =>
      rw [hx] at hnr
      obtain ⟨h1, _⟩ := hnr
      simp only [List.map_cons, hx, varsIn, List.filterMap_cons, List.find?_cons, h1, Bool.not_true, Bool.false_and]
      exact ih'

theorem spec_find_children_q (nodes : List FNode) (cur : Option Nat) (q : String → Bool) :
    findIdx? (fun n => !n.isScope && n.parent == cur && q n.name) nodes 0 =
      (childrenOf nodes cur).find? (fun i => !(nodes.getD i default).isScope && q (nodes.getD i default).name) := by
  have := findIdx?_children nodes cur (fun n => !n.isScope && q n.name)
  rw [← this]
  congr 1
  funext n
  cases n.isScope <;> cases (n.parent == cur) <;> simp

/-- one step of `lookup_var`: the first variable among the items of `p` whose name satisfies `q` -/
theorem lookup_var_level (b : Builder) (s : SpecSt) (ids : List ItemId) (hr : Rel b s ids) (p : Option Nat)
    (q : String → Bool) :
    (varsIn (itemsOf b (firstOf b ids p))).find? (fun v => q (b.vars.getD v default).name) =
      (findIdx? (fun n => !n.isScope && n.parent == p && q n.name) s.nodes 0).bind (fun j => varIdx (idAt ids j)) := by
  rw [items_eq_kids b s ids hr p, spec_find_children_q]
  exact find_var_kids b s ids q hr (childrenOf s.nodes p) (fun i hi => (childrenOf_lt _ _ _ hi).1)

theorem specLookupScope_found (nodes : List FNode) : ∀ (names : List String) (cur : Option Nat) (j : Nat),
    specLookupScope nodes cur names = some j →
    ∃ p n, findIdx? (fun x => x.isScope && x.parent == p && x.name == n) nodes 0 = some j := by
  intro names
  induction names with
  | nil => intro cur j h; simp [specLookupScope] at h
  | cons n r ih =>
    intro cur j h
    cases r with
    | nil => exact ⟨cur, n, by simpa only [specLookupScope] using h⟩
    | cons n2 r2 =>
      simp only [specLookupScope] at h
      cases hf : findIdx? (fun x => x.isScope && x.parent == cur && x.name == n) nodes 0 with
      | none => rw [hf] at h; cases h
      | some j' => rw [hf] at h; exact ih (some j') j h

/-- the variable lookups under a path: generic in the name test -/
theorem lookup_var_generic (b : Builder) (s : SpecSt) (ids : List ItemId) (hr : Rel b s ids) (path : List String)
    (q : String → Bool) :
    (match path with
      | [] => (varsIn (itemsOf b b.firstItem)).find? (fun v => q (b.vars.getD v default).name)
      | _ => match lookupScope b path with
        | none => none
        | some sc => (varsIn (itemsOf b (b.scopes.getD sc default).child)).find? (fun v => q (b.vars.getD v default).name)) =
    (match path with
      | [] => findIdx? (fun x => !x.isScope && x.parent == none && q x.name) s.nodes 0
      | _ => match specLookupScope s.nodes none path with
        | none => none
        | some j => findIdx? (fun x => !x.isScope && x.parent == some j && q x.name) s.nodes 0).bind
      (fun j => varIdx (idAt ids j)) := by
  cases path with
  | nil => exact lookup_var_level b s ids hr none q
  | cons n r =>
    simp only
    rw [lookupScope_eq b s ids hr (n :: r)]
    cases hs : specLookupScope s.nodes none (n :: r) with
    | none => rfl
    | some j =>
      obtain ⟨p, nm, hf⟩ := specLookupScope_found s.nodes (n :: r) none j hs
      obtain ⟨k, hk⟩ := found_scope b s ids hr p nm j hf
      have hidx : scopeIdx (idAt ids j) = some k := by
        simp [idAt, List.getD_eq_getElem?_getD, hk, scopeIdx]
      simp only [Option.bind_some, hidx]
      have := lookup_var_level b s ids hr (some j) q
      rwa [firstOf_scope b ids j k hk] at this

theorem beq_decide_str (a b : String) : (a == b) = decide (a = b) := by
  by_cases h : a = b <;> simp [h]

/-- **`lookup_var`** (any index): the first declared variable with the path and name -/
theorem lookupVar_eq (b : Builder) (s : SpecSt) (ids : List ItemId) (hr : Rel b s ids) (path : List String) (name : String) :
    lookupVar b path name = (specLookupVar s.nodes path name).bind (fun j => varIdx (idAt ids j)) := by
  have h := lookup_var_generic b s ids hr path (fun nm => decide (baseName nm = baseName name))
  unfold lookupVar specLookupVar
  simp only [beq_decide_str]
  cases path with
  | nil => exact h
  | cons n r => exact h

/-- **`lookup_var_with_index`**: the first declared variable with the path, name and index -/
theorem lookupVarIdx_eq (b : Builder) (s : SpecSt) (ids : List ItemId) (hr : Rel b s ids) (path : List String) (key : String) :
    lookupVarIdx b path key = (specLookupVarIdx s.nodes path key).bind (fun j => varIdx (idAt ids j)) := by
  have h := lookup_var_generic b s ids hr path (fun nm => decide (nm = key))
  unfold lookupVarIdx specLookupVarIdx
  simp only [beq_decide_str]
  cases path with
  | nil => exact h
  | cons n r => exact h

end Wellen.Hier
