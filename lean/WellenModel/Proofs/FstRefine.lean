import WellenModel.Proofs.Fst
import WellenModel.Proofs.Canon
import WellenModel.Props.C06
import WellenModel.Proofs.Block
import WellenModel.Proofs.Raw
/-! The FST `SignalWriter` refines the canonical change list: widening (`expand_entries`) for every value, the entry layout and the
byte-wise de-duplication, for every sequence of callbacks. -/
namespace Wellen.Fst
open Wellen.Bits Wellen.Store Wellen.Spec

/-- `expandEntry_align` without a bound on the first data byte, for layouts whose first data byte carries no meta bits:
a separate meta byte under the value's own kind -/
theorem expandEntry_align_meta (frm to loc : States) (bits h : Nat) (t : List Nat)
    (hle1 : loc.toNat ≤ frm.toNat) (hle2 : frm.toNat ≤ to.toNat) (hb : 1 ≤ bits)
    (hl : (h :: t).length = (getLenAndMeta loc bits).1) (hm : (getLenAndMeta loc bits).2 = true) :
    expandEntry frm to bits (alignEntry frm loc bits (h :: t)) = alignEntry to loc bits (h :: t) := by
  cases hb4 : (bits % 4 == 0) <;> cases hb2 : (bits % 2 == 0) <;>
  cases frm <;> cases to <;> cases loc <;>
    simp [glm_two, glm_four, glm_nine, States.toNat, hb4, hb2, expandEntry, alignEntry] at hle1 hle2 hl hm ⊢ <;>
    simp at hb4 hb2 <;>
    (try omega) <;>
    (try (repeat' split)) <;>
    (try simp_all [zeros_append, zeros_succ, States.toNat]) <;>
    (try omega) <;>
    (first
      | (rw [zeros_mid]; apply zeros_eq; omega)
      | (rw [zeros_app2]; apply zeros_eq; omega)
      | skip)

/-- … and for two-state values of more than four bits (their one-byte-per-8-bits layout never coincides with a wider kind's) -/
theorem expandEntry_align_two (frm to : States) (bits h : Nat) (t : List Nat)
    (hle2 : frm.toNat ≤ to.toNat) (hb : 5 ≤ bits)
    (hl : (h :: t).length = (getLenAndMeta .two bits).1) :
    expandEntry frm to bits (alignEntry frm .two bits (h :: t)) = alignEntry to .two bits (h :: t) := by
  cases hb4 : (bits % 4 == 0) <;> cases hb2 : (bits % 2 == 0) <;>
  cases frm <;> cases to <;>
    simp [glm_two, glm_four, glm_nine, States.toNat, hb4, hb2, expandEntry, alignEntry] at hle2 hl ⊢ <;>
    simp at hb4 hb2 <;>
    (try omega) <;>
    (try (repeat' split)) <;>
    (try simp_all [zeros_append, zeros_succ, States.toNat]) <;>
    (try omega) <;>
    (first
      | (rw [zeros_mid]; apply zeros_eq; omega)
      | (rw [zeros_app2]; apply zeros_eq; omega)
      | skip)

/-- **`expand_entries` is the identity on meaning**, for every value: the entry of `syms` written under the narrower
maximum `frm`, widened to `to`, is byte for byte the entry written under `to` -/
theorem expandEntry_align_gen (frm to loc : States) (bits : Nat) (nums : List Nat)
    (hlen : nums.length = bits) (hv : ∀ v ∈ nums, v < 2 ^ loc.bits)
    (hle1 : loc.toNat ≤ frm.toNat) (hle2 : frm.toNat ≤ to.toNat) (hb : 2 ≤ bits) :
    expandEntry frm to bits (alignEntry frm loc bits (writeNState loc nums none)) =
      alignEntry to loc bits (writeNState loc nums none) := by
  have hwl := writeNState_length loc nums
  have hbib := bib_pos loc
  have hlen1 : (writeNState loc nums none).length = (getLenAndMeta loc bits).1 := by
    rw [hwl, hlen]; simp [getLenAndMeta, divCeil]
  have hpos : 0 < (writeNState loc nums none).length := by
    rw [hwl, hlen]; unfold divCeil
    exact Nat.div_pos (by omega) hbib
  cases hw : writeNState loc nums none with
  | nil => rw [hw] at hpos; simp at hpos
  | cons h t =>
    rw [hw] at hlen1
    by_cases hm : (getLenAndMeta loc bits).2 = true
    · exact expandEntry_align_meta frm to loc bits h t hle1 hle2 (by omega) hlen1 hm
    · by_cases hmod : nums.length % loc.bib > 0
      · have hhd := head_lt loc nums (by simpa [B] using hv) hmod
        rw [hw] at hhd
        simp only [List.headD_cons] at hhd
        cases loc with
        | two =>
          by_cases hsmall : bits ≤ 4
          · have : h < 64 := by
              have h1 : nums.length % States.two.bib = bits := by
                rw [hlen]; simp [States.bib, States.bits]; omega
              rw [h1] at hhd
              have : B States.two ^ bits ≤ 16 := by
                have : bits = 2 ∨ bits = 3 ∨ bits = 4 := by omega
                rcases this with e | e | e <;> rw [e] <;> decide
              omega
            exact expandEntry_align frm to .two bits h t hle1 hle2 (by omega) hlen1 this
          · exact expandEntry_align_two frm to bits h t hle2 (by omega) hlen1
        | four =>
          have : h < 64 := by
            have h1 : nums.length % States.four.bib < 4 := Nat.mod_lt _ (by decide)
            have : B States.four ^ (nums.length % States.four.bib) ≤ 64 := by
              have : nums.length % States.four.bib = 0 ∨ nums.length % States.four.bib = 1 ∨
                  nums.length % States.four.bib = 2 ∨ nums.length % States.four.bib = 3 := by omega
              rcases this with e | e | e | e <;> rw [e] <;> decide
            omega
          exact expandEntry_align frm to .four bits h t hle1 hle2 (by omega) hlen1 this
        | nine =>
          have : h < 64 := by
            have : B States.nine ^ (nums.length % States.nine.bib) ≤ 16 := by
              have h1 : nums.length % States.nine.bib < 2 := Nat.mod_lt _ (by decide)
              have : nums.length % States.nine.bib = 0 ∨ nums.length % States.nine.bib = 1 := by omega
              rcases this with e | e <;> rw [e] <;> decide
            omega
          exact expandEntry_align frm to .nine bits h t hle1 hle2 (by omega) hlen1 this
      · -- the value fills whole bytes and has no meta byte of its own: a two-state value of a multiple of 8 bits
        have h0 : nums.length % loc.bib = 0 := by omega
        cases loc with
        | two =>
          have : 5 ≤ bits := by
            rw [hlen] at h0; simp [States.bib, States.bits] at h0; omega
          exact expandEntry_align_two frm to bits h t hle2 this hlen1
        | four =>
          exfalso; apply hm
          rw [hlen] at h0
          simp [getLenAndMeta, States.bib, States.bits] at h0 ⊢; exact h0
        | nine =>
          exfalso; apply hm
          rw [hlen] at h0
          simp [getLenAndMeta, States.bib, States.bits] at h0 ⊢; exact h0

/-! ### the writer refines the canonical change list -/

/-- the stored entry of a value under the signal's widest kind `maxS` -/
def valueEntry (maxS : States) (bits : Nat) (syms : List Nat) : List Nat :=
  alignEntry maxS (kindOf syms) bits (writeNState (kindOf syms) syms none)

/-- the canonical change list, newest first: a value equal to the previous one is not a change -/
def pushC (chg : List (Nat × List Nat)) (t : Nat) (syms : List Nat) : List (Nat × List Nat) :=
  match chg with
  | (_, prev) :: _ => if prev = syms then chg else (t, syms) :: chg
  | [] => [(t, syms)]

structure WRel (bits : Nat) (w : Writer) (chg : List (Nat × List Nat)) : Prop where
  tpe : w.tpe = .bitvec bits
  times : w.acc.timesRev = chg.map (·.1)
  entries : w.acc.entriesRev = chg.map (fun x => valueEntry w.maxStates bits x.2)
  wf : ∀ x ∈ chg, x.2.length = bits ∧ (∀ v ∈ x.2, v < 9) ∧ (kindOf x.2).toNat ≤ w.maxStates.toNat

theorem join_ge_left (a b : States) : a.toNat ≤ (States.join a b).toNat := by
  unfold States.join; split <;> omega
theorem join_ge_right (a b : States) : b.toNat ≤ (States.join a b).toNat := by
  unfold States.join; split <;> omega

theorem valueEntry_inj (maxS : States) (bits : Nat) (s1 s2 : List Nat) (hb : 2 ≤ bits)
    (h1 : s1.length = bits) (h2 : s2.length = bits) (h91 : ∀ v ∈ s1, v < 9) (h92 : ∀ v ∈ s2, v < 9)
    (hl1 : (kindOf s1).toNat ≤ maxS.toNat) (hl2 : (kindOf s2).toNat ≤ maxS.toNat)
    (he : valueEntry maxS bits s1 = valueEntry maxS bits s2) : s1 = s2 := by
  unfold valueEntry at he
  rw [← h1] at he
  have he' : alignEntry maxS (kindOf s1) s1.length (writeNState (kindOf s1) s1 none) =
      alignEntry maxS (kindOf s2) s2.length (writeNState (kindOf s2) s2 none) := by rw [he, h1, h2]
  exact (C06_entry_injective maxS (kindOf s1) (kindOf s2) s1 s2 (by rw [h1, h2]) (by omega)
    (kindOf_fits s1 h91) (kindOf_fits s2 h92) hl1 hl2 he').2

theorem writer_entry_proj (sigS loc : States) (bits : Nat) (nums : List Nat) (hne : writeNState loc nums none ≠ []) :
    (if (getLenAndMeta loc bits).fst = (getLenAndMeta sigS bits).fst ∧ (getLenAndMeta loc bits).snd = (getLenAndMeta sigS bits).snd then
      if (getLenAndMeta sigS bits).snd = true then loc.toNat <<< 6 :: writeNState loc nums none
      else writeNState loc nums (some (loc.toNat <<< 6))
    else loc.toNat <<< 6 ::
      (zeros (if (getLenAndMeta sigS bits).snd = true then (getLenAndMeta sigS bits).fst - (getLenAndMeta loc bits).fst
              else (getLenAndMeta sigS bits).fst - (getLenAndMeta loc bits).fst - 1) ++ writeNState loc nums none)) =
    alignEntry sigS loc bits (writeNState loc nums none) :=
  writer_entry_eq_align sigS loc bits nums hne

/-- one callback: the writer's state keeps representing the canonical change list -/
theorem addChange_rel (bits : Nat) (hb : 2 ≤ bits) (w : Writer) (chg : List (Nat × List Nat)) (t : Nat) (value nums : List Nat)
    (hr : WRel bits w chg) (hn : charsToNums value = some nums) (hl : nums.length = bits) :
    ∃ w', addChange w t (.chars value) = some w' ∧ WRel bits w' (pushC chg t nums) ∧
      w.maxStates.toNat ≤ w'.maxStates.toNat ∧ (kindOf nums).toNat ≤ w'.maxStates.toNat := by
  have h9 := charsToNums_lt value nums hn
  have hcs : checkStates value = some (kindOf nums) := by
    cases hc : checkStates value with
    | none => simp [checkStates, hn] at hc
    | some st =>
      obtain ⟨n2, hn2, hst⟩ := checkStates_minimal value st hc
      rw [hn] at hn2; cases hn2; rw [hst]
  have hne : writeNState (kindOf nums) nums none ≠ [] := by
    intro e
    have := writeNState_length (kindOf nums) nums
    rw [e, hl] at this
    have hp : 0 < divCeil bits (kindOf nums).bib := by
      unfold divCeil; exact Nat.div_pos (by have := bib_pos (kindOf nums); omega) (bib_pos _)
    simp at this; omega
  have hentry := writer_entry_proj (States.join w.maxStates (kindOf nums)) (kindOf nums) bits nums hne
  -- the entries after a possible widening
  have hwide : (if States.join w.maxStates (kindOf nums) ≠ w.maxStates
        then { w.acc with entriesRev := w.acc.entriesRev.map (expandEntry w.maxStates (States.join w.maxStates (kindOf nums)) bits) }
        else w.acc).entriesRev = chg.map (fun x => valueEntry (States.join w.maxStates (kindOf nums)) bits x.2) ∧
      (if States.join w.maxStates (kindOf nums) ≠ w.maxStates
        then { w.acc with entriesRev := w.acc.entriesRev.map (expandEntry w.maxStates (States.join w.maxStates (kindOf nums)) bits) }
        else w.acc).timesRev = chg.map (·.1) := by
    by_cases hj : States.join w.maxStates (kindOf nums) ≠ w.maxStates
    · rw [if_pos hj]
      refine ⟨?_, hr.times⟩
      show w.acc.entriesRev.map _ = _
      rw [hr.entries, List.map_map]
      apply List.map_congr_left
      intro x hx
      obtain ⟨h1, h2, h3⟩ := hr.wf x hx
      exact expandEntry_align_gen _ _ _ bits x.2 h1 (kindOf_fits x.2 h2) h3 (join_ge_left _ _) hb
    · rw [if_neg hj]
      have hj' : States.join w.maxStates (kindOf nums) = w.maxStates := Classical.not_not.mp hj
      rw [hj']
      exact ⟨hr.entries, hr.times⟩
  refine ⟨_, by simp only [addChange, hr.tpe, hcs, hn]; rfl, ?_, join_ge_left _ _, join_ge_right _ _⟩
  rw [hentry]
  obtain ⟨hw1, hw2⟩ := hwide
  show WRel bits { tpe := SigType.bitvec bits, maxStates := States.join w.maxStates (kindOf nums), acc := Acc.push (if States.join w.maxStates (kindOf nums) ≠ w.maxStates then { w.acc with entriesRev := w.acc.entriesRev.map (expandEntry w.maxStates (States.join w.maxStates (kindOf nums)) bits) } else w.acc) t (alignEntry (States.join w.maxStates (kindOf nums)) (kindOf nums) bits (writeNState (kindOf nums) nums none)) } _
  generalize (if States.join w.maxStates (kindOf nums) ≠ w.maxStates then { w.acc with entriesRev := w.acc.entriesRev.map (expandEntry w.maxStates (States.join w.maxStates (kindOf nums)) bits) } else w.acc) = acc1 at hw1 hw2 ⊢
  -- the de-duplicating push
  cases hc : chg with
  | nil =>
    rw [hc] at hw1 hw2
    simp only [List.map_nil] at hw1 hw2
    refine ⟨rfl, ?_, ?_, ?_⟩
    · simp [Acc.push, hw1, hw2, pushC]
    · simp [Acc.push, hw1, hw2, pushC, valueEntry]
    · intro x hx
      simp [pushC] at hx; subst hx
      exact ⟨hl, h9, join_ge_right _ _⟩
  | cons p r =>
    rw [hc] at hw1 hw2
    obtain ⟨pt, ps⟩ := p
    simp only [List.map_cons] at hw1 hw2
    obtain ⟨hp1, hp2, hp3⟩ := hr.wf (pt, ps) (by rw [hc]; simp)
    by_cases heq : ps = nums
    · -- unchanged value: nothing is pushed
      subst heq
      have hpush : acc1.push t (alignEntry (States.join w.maxStates (kindOf ps)) (kindOf ps) bits (writeNState (kindOf ps) ps none)) = acc1 := by
        unfold Acc.push; rw [hw1]; simp [valueEntry]
      rw [hpush]
      have hpc : pushC ((pt, ps) :: r) t ps = (pt, ps) :: r := by simp [pushC]
      rw [hpc]
      refine ⟨rfl, by simpa using hw2, by simpa using hw1, ?_⟩
      intro x hx
      rw [← hc] at hx
      obtain ⟨h1, h2, h3⟩ := hr.wf x hx
      exact ⟨h1, h2, Nat.le_trans h3 (join_ge_left _ _)⟩
    · have hne' : valueEntry (States.join w.maxStates (kindOf nums)) bits ps ≠
          alignEntry (States.join w.maxStates (kindOf nums)) (kindOf nums) bits (writeNState (kindOf nums) nums none) := by
        intro e
        exact heq (valueEntry_inj _ bits ps nums hb hp1 hl hp2 h9 (Nat.le_trans hp3 (join_ge_left _ _)) (join_ge_right _ _) e)
      have hpush : acc1.push t (alignEntry (States.join w.maxStates (kindOf nums)) (kindOf nums) bits (writeNState (kindOf nums) nums none)) =
          { timesRev := t :: acc1.timesRev,
            entriesRev := alignEntry (States.join w.maxStates (kindOf nums)) (kindOf nums) bits (writeNState (kindOf nums) nums none) :: acc1.entriesRev } := by
        unfold Acc.push; rw [hw1]; simp only; rw [if_neg hne', ← hw1]
      rw [hpush]
      have hpc : pushC ((pt, ps) :: r) t nums = (t, nums) :: (pt, ps) :: r := by simp [pushC, heq]
      rw [hpc]
      refine ⟨rfl, by simp [hw2], by simp [hw1, valueEntry], ?_⟩
      intro x hx
      rcases List.mem_cons.mp hx with rfl | hx
      · exact ⟨hl, h9, join_ge_right _ _⟩
      · have hx' : x ∈ chg := by rw [hc]; exact hx
        obtain ⟨h1, h2, h3⟩ := hr.wf x hx'
        exact ⟨h1, h2, Nat.le_trans h3 (join_ge_left _ _)⟩

def symsOf (chars : List Nat) : List Nat := (charsToNums chars).getD []

/-- a sequence of callbacks -/
theorem fold_rel (bits : Nat) (hb : 2 ≤ bits) : ∀ (cbs : List (Nat × List Nat)) (w : Writer) (chg : List (Nat × List Nat)),
    WRel bits w chg → (∀ cb ∈ cbs, ∃ nums, charsToNums cb.2 = some nums ∧ nums.length = bits) →
    ∃ w', (cbs.map fun c => (c.1, WValue.chars c.2)).foldl
        (fun (acc : Option Writer) (c : Nat × WValue) => acc.bind fun w => addChange w c.1 c.2) (some w) = some w' ∧
      WRel bits w' (cbs.foldl (fun c cb => pushC c cb.1 (symsOf cb.2)) chg) ∧
      w.maxStates.toNat ≤ w'.maxStates.toNat ∧
      ∀ cb ∈ cbs, (kindOf (symsOf cb.2)).toNat ≤ w'.maxStates.toNat := by
  intro cbs
  induction cbs with
  | nil => intro w chg hr _; exact ⟨w, rfl, hr, Nat.le_refl _, fun _ h => by cases h⟩
  | cons cb rest ih =>
    intro w chg hr hv
    obtain ⟨nums, hn, hl⟩ := hv cb (by simp)
    obtain ⟨w1, h1, hr1, hm1, hk1⟩ := addChange_rel bits hb w chg cb.1 cb.2 nums hr hn hl
    obtain ⟨w', h2, hr2, hm2, hk2⟩ := ih w1 _ hr1 (fun c hc => hv c (List.mem_cons_of_mem _ hc))
    have hs : symsOf cb.2 = nums := by simp [symsOf, hn]
    refine ⟨w', ?_, ?_, Nat.le_trans hm1 hm2, ?_⟩
    · simp only [List.map_cons, List.foldl_cons, Option.bind_some, h1]
      exact h2
    · simp only [List.foldl_cons, hs]; exact hr2
    · intro c hc
      rcases List.mem_cons.mp hc with rfl | hc
      · rw [hs]; exact Nat.le_trans hk1 hm2
      · exact hk2 c hc

/-- folding `pushC` is the specification's `canon` (drop immediate repetitions) -/
theorem fold_pushC_canon : ∀ (l : List (Nat × List Nat)) (pt : Nat) (ps : List Nat) (r : List (Nat × List Nat)),
    ((l.foldl (fun c x => pushC c x.1 x.2) ((pt, ps) :: r)).reverse.map fun x => (x.1, Value.bits x.2)) =
      (((pt, ps) :: r).reverse.map fun x => (x.1, Value.bits x.2)) ++
        canon.go (Value.bits ps) (l.map fun x => (x.1, Value.bits x.2)) := by
  intro l
  induction l with
  | nil => intro pt ps r; simp [canon.go]
  | cons y rest ih =>
    intro pt ps r
    simp only [List.foldl_cons, List.map_cons, canon.go]
    by_cases he : ps = y.2
    · have : pushC ((pt, ps) :: r) y.1 y.2 = (pt, ps) :: r := by simp [pushC, he]
      rw [this, ih pt ps r]
      simp [he]
    · have : pushC ((pt, ps) :: r) y.1 y.2 = (y.1, y.2) :: (pt, ps) :: r := by simp [pushC, he]
      rw [this, ih y.1 y.2 ((pt, ps) :: r)]
      have hne : ¬ (Value.bits y.2 = Value.bits ps) := by
        intro e; cases e; exact he rfl
      simp [hne]

theorem fold_pushC_canon_nil (l : List (Nat × List Nat)) :
    ((l.foldl (fun c x => pushC c x.1 x.2) []).reverse.map fun x => (x.1, Value.bits x.2)) =
      canon (l.map fun x => (x.1, Value.bits x.2)) := by
  cases l with
  | nil => rfl
  | cons y rest =>
    simp only [List.foldl_cons, List.map_cons, canon]
    have : pushC [] y.1 y.2 = [(y.1, y.2)] := rfl
    rw [this, fold_pushC_canon rest y.1 y.2 []]
    simp

/-- **the FST writer refines the canonical change list**: for every sequence of callbacks of a bit-vector signal (any order
of 2-, 4- and 9-state values, any repetitions, any time indices) `SignalWriter` — widening with `expand_entries`, entry
layout, byte-wise de-duplication — ends with exactly the changes the specification's `canon` keeps (immediate repetitions
dropped, nothing else), each stored as the loader's entry of its symbols under the widest kind that occurred -/
theorem writer_refines_canon (bits : Nat) (hb : 2 ≤ bits) (cbs : List (Nat × List Nat))
    (hv : ∀ cb ∈ cbs, ∃ nums, charsToNums cb.2 = some nums ∧ nums.length = bits) :
    ∃ (sigS : States) (chg : List (Nat × List Nat)), runWriter (.bitvec bits) (cbs.map fun c => (c.1, WValue.chars c.2)) =
        some { maxStates := sigS, times := chg.map (·.1), entries := chg.map (fun x => valueEntry sigS bits x.2) } ∧
      (chg.map fun x => (x.1, Value.bits x.2)) = canon (cbs.map fun c => (c.1, Value.bits (symsOf c.2))) ∧
      (∀ cb ∈ cbs, (kindOf (symsOf cb.2)).toNat ≤ sigS.toNat) := by
  have h0 : WRel bits { tpe := .bitvec bits } [] := ⟨rfl, rfl, rfl, fun x hx => by cases hx⟩
  obtain ⟨w', hf, hr, _, hk⟩ := fold_rel bits hb cbs _ [] h0 hv
  refine ⟨w'.maxStates, (cbs.foldl (fun c cb => pushC c cb.1 (symsOf cb.2)) []).reverse, ?_, ?_, hk⟩
  · unfold runWriter
    rw [hf]
    simp only [hr.times, hr.entries, List.map_reverse]
  · have := fold_pushC_canon_nil (cbs.map fun c => (c.1, symsOf c.2))
    rw [List.foldl_map, List.map_map] at this
    exact this

/-! ### strings and reals -/

theorem fold_pushC_canon_gen (mk : List Nat → Value) (hinj : ∀ a b, mk a = mk b → a = b) :
    ∀ (l : List (Nat × List Nat)) (pt : Nat) (ps : List Nat) (r : List (Nat × List Nat)),
    ((l.foldl (fun c x => pushC c x.1 x.2) ((pt, ps) :: r)).reverse.map fun x => (x.1, mk x.2)) =
      (((pt, ps) :: r).reverse.map fun x => (x.1, mk x.2)) ++ canon.go (mk ps) (l.map fun x => (x.1, mk x.2)) := by
  intro l
  induction l with
  | nil => intro pt ps r; simp [canon.go]
  | cons y rest ih =>
    intro pt ps r
    simp only [List.foldl_cons, List.map_cons, canon.go]
    by_cases he : ps = y.2
    · have : pushC ((pt, ps) :: r) y.1 y.2 = (pt, ps) :: r := by simp [pushC, he]
      rw [this, ih pt ps r]
      simp [he]
    · have : pushC ((pt, ps) :: r) y.1 y.2 = (y.1, y.2) :: (pt, ps) :: r := by simp [pushC, he]
      rw [this, ih y.1 y.2 ((pt, ps) :: r)]
      have hne : ¬ (mk y.2 = mk ps) := fun e => he (hinj _ _ e).symm
      simp [hne]

theorem fold_pushC_canon_gen_nil (mk : List Nat → Value) (hinj : ∀ a b, mk a = mk b → a = b) (l : List (Nat × List Nat)) :
    ((l.foldl (fun c x => pushC c x.1 x.2) []).reverse.map fun x => (x.1, mk x.2)) =
      canon (l.map fun x => (x.1, mk x.2)) := by
  cases l with
  | nil => rfl
  | cons y rest =>
    simp only [List.foldl_cons, List.map_cons, canon]
    have : pushC [] y.1 y.2 = [(y.1, y.2)] := rfl
    rw [this, fold_pushC_canon_gen mk hinj rest y.1 y.2 []]
    simp

/-- the byte-wise de-duplicating push of the accumulator is `pushC` on the represented list -/
theorem acc_push_pushC (a : Acc) (chg : List (Nat × List Nat)) (t : Nat) (e : List Nat)
    (h1 : a.timesRev = chg.map (·.1)) (h2 : a.entriesRev = chg.map (·.2)) :
    (a.push t e).timesRev = (pushC chg t e).map (·.1) ∧ (a.push t e).entriesRev = (pushC chg t e).map (·.2) := by
  cases chg with
  | nil =>
    simp only [List.map_nil] at h1 h2
    simp [Acc.push, h2, pushC]
  | cons p r =>
    obtain ⟨pt, ps⟩ := p
    simp only [List.map_cons] at h1 h2
    unfold Acc.push
    rw [h2]
    by_cases he : ps = e
    · simp [he, pushC, h1, h2]
    · simp [he, pushC, h1, h2]

/-- a signal whose callbacks are stored as they come (strings: the characters, reals: the 8 bytes) -/
theorem fold_plain (tpe : SigType) (wrap : List Nat → WValue)
    (hstep : ∀ (w : Writer) (t : Nat) (v : List Nat), w.tpe = tpe →
      addChange w t (wrap v) = some { w with acc := w.acc.push t v }) :
    ∀ (cbs : List (Nat × List Nat)) (w : Writer) (chg : List (Nat × List Nat)), w.tpe = tpe →
      w.acc.timesRev = chg.map (·.1) → w.acc.entriesRev = chg.map (·.2) →
      ∃ w', (cbs.map fun c => (c.1, wrap c.2)).foldl
          (fun (acc : Option Writer) (c : Nat × WValue) => acc.bind fun w => addChange w c.1 c.2) (some w) = some w' ∧
        w'.maxStates = w.maxStates ∧
        w'.acc.timesRev = (cbs.foldl (fun c x => pushC c x.1 x.2) chg).map (·.1) ∧
        w'.acc.entriesRev = (cbs.foldl (fun c x => pushC c x.1 x.2) chg).map (·.2) := by
  intro cbs
  induction cbs with
  | nil => intro w chg _ h1 h2; exact ⟨w, rfl, rfl, h1, h2⟩
  | cons cb rest ih =>
    intro w chg ht h1 h2
    obtain ⟨g1, g2⟩ := acc_push_pushC w.acc chg cb.1 cb.2 h1 h2
    obtain ⟨w', f1, f2, f3, f4⟩ := ih { w with acc := w.acc.push cb.1 cb.2 } (pushC chg cb.1 cb.2) ht g1 g2
    refine ⟨w', ?_, f2, f3, f4⟩
    simp only [List.map_cons, List.foldl_cons, Option.bind_some, hstep w cb.1 cb.2 ht]
    exact f1

/-- **string and real signals of the FST writer**: the changes kept are exactly `canon` of the callback sequence (an
immediately repeated value is not a change, nothing else is dropped), stored verbatim -/
theorem writer_plain_refines_canon (tpe : SigType) (wrap : List Nat → WValue) (mk : List Nat → Value)
    (hinj : ∀ a b, mk a = mk b → a = b)
    (hstep : ∀ (w : Writer) (t : Nat) (v : List Nat), w.tpe = tpe →
      addChange w t (wrap v) = some { w with acc := w.acc.push t v })
    (cbs : List (Nat × List Nat)) :
    ∃ (chg : List (Nat × List Nat)), runWriter tpe (cbs.map fun c => (c.1, wrap c.2)) =
        some { maxStates := .two, times := chg.map (·.1), entries := chg.map (·.2) } ∧
      (chg.map fun x => (x.1, mk x.2)) = canon (cbs.map fun c => (c.1, mk c.2)) := by
  obtain ⟨w', hf, hm, ht, he⟩ := fold_plain tpe wrap hstep cbs { tpe := tpe } [] rfl rfl rfl
  refine ⟨(cbs.foldl (fun c x => pushC c x.1 x.2) []).reverse, ?_, fold_pushC_canon_gen_nil mk hinj cbs⟩
  unfold runWriter
  rw [hf]
  simp only [hm, ht, he, List.map_reverse]

theorem writer_strings_refine_canon (cbs : List (Nat × List Nat)) :
    ∃ (chg : List (Nat × List Nat)), runWriter .string (cbs.map fun c => (c.1, WValue.chars c.2)) =
        some { maxStates := .two, times := chg.map (·.1), entries := chg.map (·.2) } ∧
      (chg.map fun x => (x.1, Value.str x.2)) = canon (cbs.map fun c => (c.1, Value.str c.2)) :=
  writer_plain_refines_canon .string WValue.chars Value.str (fun a b e => by cases e; rfl)
    (fun w t v ht => by simp [addChange, ht]) cbs

theorem writer_reals_refine_canon (cbs : List (Nat × List Nat)) :
    ∃ (chg : List (Nat × List Nat)), runWriter .real (cbs.map fun c => (c.1, WValue.real c.2)) =
        some { maxStates := .two, times := chg.map (·.1), entries := chg.map (·.2) } ∧
      (chg.map fun x => (x.1, Value.real x.2)) = canon (cbs.map fun c => (c.1, Value.real c.2)) :=
  writer_plain_refines_canon .real WValue.real Value.real (fun a b e => by cases e; rfl)
    (fun w t v _ => by simp [addChange]) cbs


end Wellen.Fst
