import WellenModel.Model.Bits
/-! Facts about the tables extracted from the code (`Gen/Tables.lean`); re-checked by the kernel
whenever the tables change. -/
namespace Wellen.Bits

def toLower (c : Nat) : Nat := if 65 ≤ c ∧ c ≤ 90 then c + 32 else c

/-- every accepted value character is rendered back as its lower-case self -/
theorem bitChar_lookup : ∀ c : Fin 256, ∀ v, bitCharToNum c.val = some v →
    v < 9 ∧ Gen.lookup9[v]? = some (toLower c.val) := by
  decide +kernel

/-- bytes ≥ 256 do not exist; outside the table nothing is accepted -/
theorem bitChar_none_of_ge (c : Nat) (h : 256 ≤ c) : bitCharToNum c = none := by
  unfold bitCharToNum
  have : Gen.bitCharToNumTable.length = 256 := by decide +kernel
  rw [List.getD_eq_getElem?_getD, List.getElem?_eq_none (by omega)]
  rfl

/-- the rendered character does not depend on the kind the value is stored in -/
theorem lookup_prefix : Gen.lookup2 = Gen.lookup9.take 2 ∧ Gen.lookup4 = Gen.lookup9.take 4 := by
  decide

/-- `States::from_value` picks the smallest sufficient kind -/
theorem fromValue_minimal : ∀ v : Fin 16,
    (States.fromValue v.val = .two ↔ v.val ≤ 1) ∧ (States.fromValue v.val = .four ↔ (2 ≤ v.val ∧ v.val ≤ 3)) := by
  decide +kernel

/-- kind of a union = join of the kinds (so `check_states` / `check_min_state` are minimal) -/
theorem fromValue_or : ∀ a b : Fin 16,
    States.fromValue (a.val ||| b.val) = States.join (States.fromValue a.val) (States.fromValue b.val) := by
  decide +kernel

/-- the nine symbols are pairwise distinct characters -/
theorem lookup9_nodup : Gen.lookup9.Nodup ∧ Gen.lookup9.length = 9 := by decide

end Wellen.Bits
