import WellenModel.Proofs.Refine
import WellenModel.Proofs.Compress
/-!
The pre-encoded write path (`add_n_bit_change`, used by the GHW loader): what the encoder appends for a value the
specification accepts is the chunk of that value — smallest kind, packed symbols — exactly as on the VCD path.
-/
namespace Wellen.Slice
open Wellen.Bits Wellen.Store

theorem range_add_reverse (a k : Nat) :
    (List.range (a + k)).reverse = (List.range k).reverse.map (· + a) ++ (List.range a).reverse := by
  rw [List.range_add, List.reverse_append, List.map_reverse]
  congr 2
  apply List.map_congr_left
  intro x _; omega

theorem symAt_cons_high (s : States) (b : Nat) (r : List Nat) (ii : Nat) (hi : ii < s.bib) :
    symAt s (b :: r) (ii + r.length * s.bib) = (b >>> (ii * s.bits)) &&& s.mask := by
  have hb : 0 < s.bib := by cases s <;> decide
  have h1 : (ii + r.length * s.bib) / s.bib = r.length := by
    rw [Nat.add_mul_div_right _ _ hb, Nat.div_eq_of_lt hi]; omega
  have h2 : (ii + r.length * s.bib) % s.bib = ii := by
    rw [Nat.add_mul_mod_self_right, Nat.mod_eq_of_lt hi]
  simp only [symAt, h1, h2, List.length_cons]
  have : r.length + 1 - 1 - r.length = 0 := by omega
  rw [this]; rfl

theorem symAt_cons_low (s : States) (b : Nat) (r : List Nat) (i : Nat) (hi : i < r.length * s.bib) :
    symAt s (b :: r) i = symAt s r i := by
  have hb : 0 < s.bib := by cases s <;> decide
  have hq : i / s.bib < r.length := by rw [Nat.div_lt_iff_lt_mul hb]; exact hi
  simp only [symAt, List.length_cons]
  have e : r.length + 1 - 1 - i / s.bib = (r.length - 1 - i / s.bib) + 1 := by omega
  rw [e]
  rfl

theorem fetched_cons (s : States) (b : Nat) (r : List Nat) (k : Nat) (hk : k ≤ s.bib) :
    fetched s (b :: r) 0 (r.length * s.bib + k) = unpackByte s k b ++ fetched s r 0 (r.length * s.bib) := by
  simp only [fetched, range_add_reverse, List.map_append, List.map_map, unpackByte, Nat.zero_add]
  congr 1
  · apply List.map_congr_left
    intro ii hii
    simp only [List.mem_reverse, List.mem_range] at hii
    simp only [Function.comp]
    exact symAt_cons_high s b r ii (by omega)
  · apply List.map_congr_left
    intro i hi
    simp only [List.mem_reverse, List.mem_range] at hi
    exact symAt_cons_low s b r i hi

theorem flatMap_eq_fetched (s : States) (d : List Nat) :
    d.flatMap (unpackByte s s.bib) = fetched s d 0 (d.length * s.bib) := by
  induction d with
  | nil => simp [fetched]
  | cons b r ih =>
    have : (b :: r).length * s.bib = r.length * s.bib + s.bib := by simp [Nat.add_mul]
    rw [this, fetched_cons s b r s.bib (Nat.le_refl _), ← ih]
    simp

theorem bib_cases (s : States) : s.bib = 8 ∨ s.bib = 4 ∨ s.bib = 2 := by cases s <;> simp [States.bib, States.bits]

theorem divCeil_of_rem (s : States) (bits : Nat) (hm : bits % s.bib > 0) : divCeil bits s.bib = bits / s.bib + 1 := by
  unfold divCeil
  rcases bib_cases s with h | h | h <;> rw [h] at hm ⊢ <;> omega

theorem divCeil_of_aligned (s : States) (bits : Nat) (hm : bits % s.bib = 0) : divCeil bits s.bib * s.bib = bits := by
  unfold divCeil
  rcases bib_cases s with h | h | h <;> rw [h] at hm ⊢ <;> omega

theorem sub_div_mul (s : States) (bits : Nat) : bits - bits / s.bib * s.bib = bits % s.bib := by
  rcases bib_cases s with h | h | h <;> rw [h] <;> omega

theorem div_mul_add_mod (s : States) (bits : Nat) : bits = bits / s.bib * s.bib + bits % s.bib := by
  rcases bib_cases s with h | h | h <;> rw [h] <;> omega

/-- `n_state_to_bit_string` lists the symbols at bit positions `bits − 1 … 0` -/
theorem toSyms_eq_fetched (s : States) (d : List Nat) (bits : Nat) (hd : d.length = divCeil bits s.bib) :
    toSyms s d bits = fetched s d 0 bits := by
  have hb : 0 < s.bib := by cases s <;> decide
  unfold toSyms
  by_cases h0 : bits = 0
  · subst h0; simp [fetched]
  · simp only [h0, ↓reduceIte]
    rw [sub_div_mul]
    by_cases hm : bits % s.bib > 0
    · simp only [hm, ↓reduceIte]
      rw [divCeil_of_rem s bits hm] at hd
      cases d with
      | nil => simp at hd
      | cons b r =>
        have hr : r.length = bits / s.bib := by simpa using hd
        have hbits : bits = r.length * s.bib + bits % s.bib := by rw [hr]; exact div_mul_add_mod s bits
        simp only [List.headD_cons, List.drop_one, List.tail_cons]
        conv => rhs; rw [hbits]
        rw [fetched_cons s b r (bits % s.bib) (by have := Nat.mod_lt bits hb; omega), flatMap_eq_fetched]
    · simp only [hm, ↓reduceIte]
      have hm0 : bits % s.bib = 0 := by omega
      have hl : d.length * s.bib = bits := by rw [hd]; exact divCeil_of_aligned s bits hm0
      rw [flatMap_eq_fetched, hl]


/-! ### `check_min_state` returns the smallest kind of the symbols -/

theorem or_lt_iff (a b k : Nat) : a ||| b < 2 ^ k ↔ a < 2 ^ k ∧ b < 2 ^ k := by
  constructor
  · intro h
    exact ⟨Nat.lt_of_le_of_lt Nat.left_le_or h, Nat.lt_of_le_of_lt Nat.right_le_or h⟩
  · intro ⟨ha, hb⟩; exact Nat.or_lt_two_pow ha hb

theorem foldl_or_lt {α : Type} (f : α → Nat) (l : List α) (k : Nat) : ∀ acc : Nat,
    l.foldl (fun acc x => acc ||| f x) acc < 2 ^ k ↔ acc < 2 ^ k ∧ ∀ x ∈ l, f x < 2 ^ k := by
  induction l with
  | nil => intro acc; simp
  | cons y r ih =>
    intro acc
    simp only [List.foldl_cons, ih, or_lt_iff, List.mem_cons, forall_eq_or_imp]
    constructor
    · intro ⟨⟨h1, h2⟩, h3⟩; exact ⟨h1, h2, h3⟩
    · intro ⟨h1, h2, h3⟩; exact ⟨⟨h1, h2⟩, h3⟩

/-- the union `check_min_state` computes is below `2^k` iff every symbol position of every byte is -/
theorem minState_or_lt (s : States) (v : List Nat) (k : Nat) : ∀ acc : Nat,
    v.foldl (fun acc b => (List.range s.bib).foldl (fun acc ii => acc ||| ((b >>> (ii * s.bits)) &&& s.mask)) acc) acc < 2 ^ k ↔
      acc < 2 ^ k ∧ ∀ b ∈ v, ∀ ii < s.bib, (b >>> (ii * s.bits)) &&& s.mask < 2 ^ k := by
  induction v with
  | nil => intro acc; simp
  | cons b r ih =>
    intro acc
    simp only [List.foldl_cons, ih, List.mem_cons, forall_eq_or_imp]
    rw [foldl_or_lt (fun ii => (b >>> (ii * s.bits)) &&& s.mask) (List.range s.bib) k acc]
    simp only [List.mem_range]
    constructor
    · intro ⟨⟨h1, h2⟩, h3⟩; exact ⟨h1, h2, h3⟩
    · intro ⟨h1, h2, h3⟩; exact ⟨⟨h1, h2⟩, h3⟩

theorem mem_fetched (s : States) (d : List Nat) (n x : Nat) : x ∈ fetched s d 0 n ↔ ∃ i < n, x = symAt s d i := by
  simp only [fetched, List.mem_map, List.mem_reverse, List.mem_range, Nat.zero_add]
  constructor
  · intro ⟨i, hi, h⟩; exact ⟨i, hi, h.symm⟩
  · intro ⟨i, hi, h⟩; exact ⟨i, hi, h.symm⟩

/-- the padding positions of a canonically packed value hold zeros -/
theorem symAt_padding (s : States) (v : List Nat) (bits i : Nat) (hl : v.length = divCeil bits s.bib)
    (hc : writeNState s (toSyms s v bits) none = v) (hi : bits ≤ i) (hi2 : i < v.length * s.bib) : symAt s v i = 0 := by
  have hb : 0 < s.bib := by cases s <;> decide
  have hsl : (toSyms s v bits).length = bits := Wellen.Spec.toSyms_length s v bits hl
  by_cases hm : bits % s.bib > 0
  · have hL := divCeil_of_rem s bits hm
    rw [hL] at hl
    have hq : i / s.bib = bits / s.bib := by
      rw [hl] at hi2
      rcases bib_cases s with h | h | h <;> rw [h] at hi2 hm ⊢ <;> omega
    have hr : bits % s.bib ≤ i % s.bib := by
      rcases bib_cases s with h | h | h <;> rw [h] at hq hm ⊢ <;> omega
    have hhead := head_lt s (toSyms s v bits) (by
        intro x hx
        rw [toSyms_eq_fetched s v bits (by rw [hl, hL])] at hx
        obtain ⟨j, _, rfl⟩ := (mem_fetched s v bits x).mp hx
        exact symAt_lt s v j) (by rw [hsl]; exact hm)
    rw [hc, hsl] at hhead
    simp only [symAt, hq, hl]
    have h0 : bits / s.bib + 1 - 1 - bits / s.bib = 0 := by omega
    rw [h0]
    have hv0 : v.getD 0 0 = v.headD 0 := by cases v <;> rfl
    rw [hv0]
    have hlt : v.headD 0 < 2 ^ (i % s.bib * s.bits) := by
      have h1 : B s ^ (bits % s.bib) = 2 ^ (s.bits * (bits % s.bib)) := by simp [B, Nat.pow_mul]
      rw [h1] at hhead
      have h2 : 2 ^ (s.bits * (bits % s.bib)) ≤ 2 ^ (i % s.bib * s.bits) := by
        apply Nat.pow_le_pow_right (by decide)
        rw [Nat.mul_comm]; exact Nat.mul_le_mul_right _ hr
      omega
    rw [Nat.shiftRight_eq_div_pow, Nat.div_eq_of_lt hlt]
    simp
  · have hm0 : bits % s.bib = 0 := by omega
    have := divCeil_of_aligned s bits hm0
    rw [← hl] at this
    omega

/-- **`check_min_state` = the smallest sufficient kind of the value's symbols** (canonically packed values) -/
theorem checkMinState_kindOf (st : States) (v : List Nat) (bits : Nat) (hl : v.length = divCeil bits st.bib)
    (hc : writeNState st (toSyms st v bits) none = v) :
    checkMinState v st = Wellen.Spec.kindOf (toSyms st v bits) := by
  have hb : 0 < st.bib := by cases st <;> decide
  have hR1 := toSyms_eq_fetched st v bits hl
  -- all positions below 2^k  ⟺  all symbols below 2^k
  have hpos : ∀ k, (∀ b ∈ v, ∀ ii < st.bib, (b >>> (ii * st.bits)) &&& st.mask < 2 ^ k) ↔ (∀ x ∈ toSyms st v bits, x < 2 ^ k) := by
    intro k
    constructor
    · intro h x hx
      rw [hR1] at hx
      obtain ⟨i, hi, rfl⟩ := (mem_fetched st v bits x).mp hx
      simp only [symAt]
      by_cases hin : v.length - 1 - i / st.bib < v.length
      · have hmem : v.getD (v.length - 1 - i / st.bib) 0 ∈ v := by
          rw [List.getD_eq_getElem?_getD, List.getElem?_eq_getElem hin]; simp
        exact h _ hmem (i % st.bib) (Nat.mod_lt _ hb)
      · have : v.getD (v.length - 1 - i / st.bib) 0 = 0 := by
          rw [List.getD_eq_getElem?_getD, List.getElem?_eq_none (by omega)]; rfl
        rw [this]; simp; exact Nat.two_pow_pos k
    · intro h b hbm ii hii
      have hfull : (b >>> (ii * st.bits)) &&& st.mask ∈ v.flatMap (unpackByte st st.bib) := by
        rw [List.mem_flatMap]
        refine ⟨b, hbm, ?_⟩
        simp only [unpackByte, List.mem_map, List.mem_reverse, List.mem_range]
        exact ⟨ii, hii, rfl⟩
      rw [flatMap_eq_fetched] at hfull
      obtain ⟨i, hi, he⟩ := (mem_fetched st v (v.length * st.bib) _).mp hfull
      rw [he]
      by_cases hlt : i < bits
      · apply h
        rw [hR1]
        exact (mem_fetched st v bits _).mpr ⟨i, hlt, rfl⟩
      · rw [symAt_padding st v bits i hl hc (by omega) hi]
        exact Nat.two_pow_pos k
  have hk2 : (∀ x ∈ toSyms st v bits, x ≤ 1) ↔ (∀ x ∈ toSyms st v bits, x < 2 ^ 1) := by
    constructor <;> intro h x hx <;> have := h x hx <;> omega
  have hk4 : (∀ x ∈ toSyms st v bits, x ≤ 3) ↔ (∀ x ∈ toSyms st v bits, x < 2 ^ 2) := by
    constructor <;> intro h x hx <;> have := h x hx <;> omega
  unfold checkMinState
  by_cases htwo : st = .two
  · subst htwo
    simp only [↓reduceIte]
    symm
    rw [Wellen.Spec.kindOf_two, hk2, ← hpos 1]
    intro b _ ii _
    exact and_mask_lt .two _
  · simp only [htwo, ↓reduceIte]
    generalize hu : (v.foldl (fun acc b => (List.range st.bib).foldl (fun acc ii => acc ||| ((b >>> (ii * st.bits)) &&& st.mask)) acc) 0) = u
    have hchar : ∀ k, u < 2 ^ k ↔ (∀ x ∈ toSyms st v bits, x < 2 ^ k) := by
      intro k
      rw [← hu, minState_or_lt st v k 0, hpos k]
      simp [Nat.two_pow_pos]
    have hu16 : u < 2 ^ 4 := by
      rw [hchar 4]
      intro x hx
      rw [hR1] at hx
      obtain ⟨i, _, rfl⟩ := (mem_fetched st v bits x).mp hx
      have := symAt_lt st v i
      have hbits : st.bits ≤ 4 := by cases st <;> decide
      exact Nat.lt_of_lt_of_le this (Nat.pow_le_pow_right (by decide) hbits)
    have htab : ∀ w : Fin 16, States.fromValue w.val = if w.val < 2 then States.two else if w.val < 4 then States.four else States.nine := by
      decide +kernel
    have := htab ⟨u, hu16⟩
    simp only at this
    rw [this]
    unfold Wellen.Spec.kindOf
    have e1 : (toSyms st v bits).all (· ≤ 1) = decide (u < 2) := by
      rw [Bool.eq_iff_iff]; simp only [List.all_eq_true, decide_eq_true_eq]
      rw [show (2 : Nat) = 2 ^ 1 from rfl, hchar 1, ← hk2]
    have e2 : (toSyms st v bits).all (· ≤ 3) = decide (u < 4) := by
      rw [Bool.eq_iff_iff]; simp only [List.all_eq_true, decide_eq_true_eq]
      rw [show (4 : Nat) = 2 ^ 2 from rfl, hchar 2, ← hk4]
    rw [e1, e2]
    by_cases h2 : u < 2
    · simp [h2]
    · by_cases h4 : u < 4
      · simp [h2, h4]
      · simp [h2, h4]

end Wellen.Slice

namespace Wellen.Store
open Wellen.Bits Wellen.Spec Wellen.Slice

theorem kindOf_le (syms : List Nat) (st : States) (h : ∀ x ∈ syms, x < 2 ^ st.bits) : (kindOf syms).toNat ≤ st.toNat := by
  cases st with
  | nine => cases kindOf syms <;> decide
  | two =>
    have : kindOf syms = .two := (kindOf_two syms).mpr (fun x hx => by have := h x hx; simp [States.bits] at this; omega)
    rw [this]; decide
  | four =>
    unfold kindOf
    split
    · decide
    · have : syms.all (· ≤ 3) = true := by
        rw [List.all_eq_true]; intro x hx; have := h x hx; simp [States.bits] at this; simp; omega
      rw [this]; decide

/-- what `add_n_bit_change` appends for a pre-encoded value the specification accepts: the chunk of the specification's value -/
theorem addNBit_value (ti : Nat) (bytes : List Nat) (st : States) (si snew : SigEnc) (bits : Nat)
    (ht : si.tpe = .bitvec bits) (hb : bits ≠ 1) (h : addNBit ti bytes st si = some snew)
    (v : Value) (hv : rawValue (.bitvec bits) st bytes = some v) :
    ∃ syms, v = .bits syms ∧ syms.length = bits ∧ (∀ x ∈ syms, x < 2 ^ (kindOf syms).bits) ∧
      snew.chunks = encChange (ti - si.prevTimeIdx) (kindOf syms) (writeNState (kindOf syms) syms none) :: si.chunks ∧
      snew.prevTimeIdx = ti ∧ snew.tpe = si.tpe ∧ si.maxStates.toNat ≤ snew.maxStates.toNat ∧
      (kindOf syms).toNat ≤ snew.maxStates.toNat := by
  have hbib : 0 < st.bib := by cases st <;> decide
  unfold addNBit at h
  unfold rawValue at hv
  simp only [ht, hb, ↓reduceIte] at h hv
  split at h
  · cases h
  · rename_i hlen
    have hlen' : ¬ bytes.length < divCeil bits st.bib := hlen
    simp only [hlen', ↓reduceIte] at hv
    generalize hvv : bytes.drop (bytes.length - divCeil bits st.bib) = vv at h hv
    have hvl : vv.length = divCeil bits st.bib := by rw [← hvv, List.length_drop]; omega
    split at hv
    · rename_i hcond
      simp only [Option.some.injEq] at hv
      subst hv
      obtain ⟨h9, hcanon⟩ := hcond
      have h9' : ∀ x ∈ toSyms st vv bits, x < 9 := by
        intro x hx; have := List.all_eq_true.mp h9 x hx; simpa using this
      have hsl : (toSyms st vv bits).length = bits := Wellen.Spec.toSyms_length st vv bits hvl
      have hmin : checkMinState vv st = kindOf (toSyms st vv bits) := checkMinState_kindOf st vv bits hvl hcanon
      have hfitst : ∀ x ∈ toSyms st vv bits, x < 2 ^ st.bits := by
        intro x hx
        rw [toSyms_eq_fetched st vv bits hvl] at hx
        obtain ⟨j, _, rfl⟩ := (mem_fetched st vv bits x).mp hx
        exact symAt_lt st vv j
      have hbody : (if checkMinState vv st = st then vv else compressTemplate vv st (checkMinState vv st) bits) =
          writeNState (kindOf (toSyms st vv bits)) (toSyms st vv bits) none := by
        split
        · rename_i heq
          rw [← hmin, heq]; exact hcanon.symm
        · rw [compressTemplate_eq_repack st _ vv bits (by rw [hvl]; exact divCeil_mul_ge bits st.bib hbib), repack_eq_write,
            ← toSyms_eq_fetched st vv bits hvl, hmin]
          rfl
      simp only [Option.some.injEq] at h
      subst h
      refine ⟨toSyms st vv bits, rfl, hsl, kindOf_fits _ h9', ?_, rfl, ht.symm, join_ge_left _ _, ?_⟩
      · show (lebWrite (((ti - si.prevTimeIdx) <<< 2) ||| (checkMinState vv st).toNat) ++
            (if checkMinState vv st = st then vv else compressTemplate vv st (checkMinState vv st) bits)) :: si.chunks = _
        rw [hbody, hmin]; rfl
      · exact Nat.le_trans (kindOf_le _ st hfitst) (join_ge_right _ _)
    · cases hv

end Wellen.Store
