import WellenModel.Model.Bits
/-! Packing lemmas: `write_n_state` followed by `n_state_to_bit_string` is the identity on symbol
lists, for every state kind and every width. -/
namespace Wellen.Bits

def B (s : States) : Nat := 2 ^ s.bits

theorem bits_mul_bib (s : States) : s.bits * s.bib = 8 := by cases s <;> rfl
theorem bib_pos (s : States) : 0 < s.bib := by cases s <;> decide
theorem mask_eq (s : States) : s.mask = 2 ^ s.bits - 1 := rfl
theorem B_pow_bib (s : States) : B s ^ s.bib = 256 := by cases s <;> rfl

theorem push_cond (s : States) (m : Nat) : ((m * s.bits) % 8 = 0) ↔ (m % s.bib = 0) := by
  cases s <;> simp [States.bits, States.bib] <;> omega

/-- one step of the working byte -/
def stepW (s : States) (w v : Nat) : Nat := ((w <<< s.bits) % 256) + v

def packGroup (s : States) (g : List Nat) : Nat := g.foldl (stepW s) 0

/-- L1: a group of ≤ bib symbols in front of a byte-aligned rest becomes exactly one byte -/
theorem writeAux_group (s : States) (g rest : List Nat) (w : Nat)
    (hg : g ≠ []) (hlen : g.length ≤ s.bib) (hrest : rest.length % s.bib = 0) :
    writeAux s (g ++ rest) w none = g.foldl (stepW s) w :: writeAux s rest 0 none := by
  induction g generalizing w with
  | nil => exact absurd rfl hg
  | cons v g ih =>
    simp only [List.cons_append, writeAux, List.foldl_cons]
    by_cases hgn : g = []
    · subst hgn
      have : (rest.length * s.bits) % 8 = 0 := by
        rw [push_cond]; exact hrest
      simp only [List.nil_append, this, ↓reduceIte, List.foldl_nil, stepW]
    · have hl : g.length ≤ s.bib := by simp at hlen; omega
      have hne : ¬ (((g ++ rest).length * s.bits) % 8 = 0) := by
        rw [push_cond]
        have h1 : 0 < g.length := List.length_pos_iff.mpr hgn
        have h2 : g.length < s.bib := by simp at hlen; omega
        simp only [List.length_append]
        intro h
        have h3 : (g.length + rest.length) % s.bib = g.length % s.bib := by
          rw [Nat.add_mod, hrest, Nat.add_zero, Nat.mod_mod]
        rw [h3, Nat.mod_eq_of_lt h2] at h
        omega
      simp only [hne, ↓reduceIte]
      exact ih _ hgn hl

/-- symbol `i` of byte `b` -/
def sym (s : States) (b i : Nat) : Nat := (b >>> (i * s.bits)) &&& s.mask

theorem unpackByte_eq (s : States) (k b : Nat) :
    unpackByte s k b = (List.range k).reverse.map (sym s b) := rfl

theorem sym_zero (s : States) (w v : Nat) (hv : v < B s) : sym s (w * B s + v) 0 = v := by
  simp only [sym, Nat.zero_mul, Nat.shiftRight_zero, mask_eq, Nat.and_two_pow_sub_one_eq_mod, B] at *
  rw [Nat.mul_comm, Nat.mul_add_mod, Nat.mod_eq_of_lt hv]

theorem sym_succ (s : States) (w v i : Nat) (hv : v < B s) :
    sym s (w * B s + v) (i + 1) = sym s w i := by
  simp only [sym, B] at *
  have : (i + 1) * s.bits = s.bits + i * s.bits := by rw [Nat.add_mul, Nat.one_mul, Nat.add_comm]
  rw [this, Nat.shiftRight_add]
  congr 2
  rw [Nat.shiftRight_eq_div_pow, Nat.mul_comm, Nat.mul_add_div (Nat.two_pow_pos _), Nat.div_eq_of_lt hv, Nat.add_zero]

theorem unpack_step (s : States) (j w v : Nat) (hv : v < B s) :
    unpackByte s (j + 1) (w * B s + v) = unpackByte s j w ++ [v] := by
  simp only [unpackByte_eq, List.range_succ_eq_map, List.reverse_cons, List.map_append, List.map_cons,
    List.map_nil, ← List.map_reverse, List.map_map]
  rw [sym_zero s w v hv]
  congr 1
  apply List.map_congr_left
  intro i _
  simp only [Function.comp, Nat.succ_eq_add_one]
  exact sym_succ s w v i hv

theorem stepW_eq (s : States) (w v : Nat) (hw : w * B s < 256) : stepW s w v = w * B s + v := by
  simp only [stepW, Nat.shiftLeft_eq, B] at *
  rw [Nat.mod_eq_of_lt hw]

/-- L2 generalised -/
theorem unpack_foldl (s : States) (g : List Nat) (j w : Nat)
    (hg : ∀ v ∈ g, v < B s) (hw : (w + 1) * B s ^ g.length ≤ 256) :
    unpackByte s (j + g.length) (g.foldl (stepW s) w) = unpackByte s j w ++ g := by
  induction g generalizing j w with
  | nil => simp
  | cons v g ih =>
    have hv : v < B s := hg v (by simp)
    have hBpos : 0 < B s := Nat.two_pow_pos _
    have hpow : 0 < B s ^ g.length := Nat.pow_pos hBpos
    simp only [List.length_cons, Nat.pow_succ] at hw
    have hw1 : w * B s < 256 := by
      have h1 : (w + 1) * B s ≤ (w + 1) * (B s ^ g.length * B s) :=
        Nat.mul_le_mul_left _ (Nat.le_mul_of_pos_left _ hpow)
      have h2 : (w + 1) * B s = w * B s + B s := by rw [Nat.add_mul, Nat.one_mul]
      omega
    rw [List.foldl_cons, stepW_eq s w v hw1]
    have hw2 : (w * B s + v + 1) * B s ^ g.length ≤ 256 := by
      have h1 : (w * B s + v + 1) * B s ^ g.length ≤ ((w + 1) * B s) * B s ^ g.length :=
        Nat.mul_le_mul_right _ (by rw [Nat.add_mul, Nat.one_mul]; omega)
      have h2 : ((w + 1) * B s) * B s ^ g.length = (w + 1) * (B s ^ g.length * B s) := by
        rw [Nat.mul_assoc, Nat.mul_comm (B s)]
      omega
    have := ih (j + 1) (w * B s + v) (fun x hx => hg x (by simp [hx])) hw2
    rw [show j + (v :: g).length = j + 1 + g.length by simp; omega, this, unpack_step s j w v hv]
    simp

/-- L2: a full or partial group round-trips through one byte -/
theorem unpack_packGroup (s : States) (g : List Nat) (hg : ∀ v ∈ g, v < B s) (hlen : g.length ≤ s.bib) :
    unpackByte s g.length (packGroup s g) = g := by
  have h := unpack_foldl s g 0 0 hg (by
    have : B s ^ g.length ≤ B s ^ s.bib := Nat.pow_le_pow_right (Nat.two_pow_pos _) hlen
    rw [B_pow_bib] at this; omega)
  simpa [packGroup, unpackByte] using h

/-- a packed group is a byte -/
theorem packGroup_lt (s : States) (g : List Nat) (hg : ∀ v ∈ g, v < B s) (hlen : g.length ≤ s.bib) :
    packGroup s g < B s ^ g.length := by
  suffices h : ∀ (g : List Nat) (w : Nat), (∀ v ∈ g, v < B s) → (w + 1) * B s ^ g.length ≤ 256 →
      g.foldl (stepW s) w < (w + 1) * B s ^ g.length by
    have := h g 0 hg (by
      have : B s ^ g.length ≤ B s ^ s.bib := Nat.pow_le_pow_right (Nat.two_pow_pos _) hlen
      rw [B_pow_bib] at this; omega)
    simpa [packGroup] using this
  intro g
  induction g with
  | nil => intro w _ _; simp
  | cons v g ih =>
    intro w hg hw
    have hv : v < B s := hg v (by simp)
    have hBpos : 0 < B s := Nat.two_pow_pos _
    have hpow : 0 < B s ^ g.length := Nat.pow_pos hBpos
    simp only [List.length_cons, Nat.pow_succ] at hw ⊢
    have hw1 : w * B s < 256 := by
      have h1 : (w + 1) * B s ≤ (w + 1) * (B s ^ g.length * B s) :=
        Nat.mul_le_mul_left _ (Nat.le_mul_of_pos_left _ hpow)
      have h2 : (w + 1) * B s = w * B s + B s := by rw [Nat.add_mul, Nat.one_mul]
      omega
    rw [List.foldl_cons, stepW_eq s w v hw1]
    have hle : (w * B s + v + 1) * B s ^ g.length ≤ (w + 1) * (B s ^ g.length * B s) := by
      have h1 : (w * B s + v + 1) * B s ^ g.length ≤ ((w + 1) * B s) * B s ^ g.length :=
        Nat.mul_le_mul_right _ (by rw [Nat.add_mul, Nat.one_mul]; omega)
      have h2 : ((w + 1) * B s) * B s ^ g.length = (w + 1) * (B s ^ g.length * B s) := by
        rw [Nat.mul_assoc, Nat.mul_comm (B s)]
      omega
    have := ih (w * B s + v) (fun x hx => hg x (by simp [hx])) (by omega)
    omega

/-- L3a: byte-aligned symbol lists round-trip -/
theorem aligned_roundtrip (s : States) (n : Nat) : ∀ (vals : List Nat), vals.length = n * s.bib →
    (∀ v ∈ vals, v < B s) →
    (writeAux s vals 0 none).flatMap (unpackByte s s.bib) = vals := by
  induction n with
  | zero =>
    intro vals hl _
    have : vals = [] := List.eq_nil_of_length_eq_zero (by simpa using hl)
    subst this; simp [writeAux]
  | succ n ih =>
    intro vals hl hv
    have hb := bib_pos s
    have hsplit : vals = vals.take s.bib ++ vals.drop s.bib := (List.take_append_drop _ _).symm
    have htl : (vals.take s.bib).length = s.bib := by
      rw [List.length_take]; rw [hl, Nat.succ_mul]; omega
    have hdl : (vals.drop s.bib).length = n * s.bib := by
      rw [List.length_drop, hl, Nat.succ_mul]; omega
    have hne : vals.take s.bib ≠ [] := by
      intro h; rw [h] at htl; simp at htl; omega
    rw [hsplit, writeAux_group s _ _ 0 hne (by omega) (by rw [hdl]; exact Nat.mul_mod_left _ _)]
    simp only [List.flatMap_cons]
    have hg : ∀ v ∈ vals.take s.bib, v < B s := fun v hv' => hv v (List.mem_of_mem_take hv')
    have h1 := unpack_packGroup s (vals.take s.bib) hg (by omega)
    rw [htl] at h1
    show unpackByte s s.bib (packGroup s (vals.take s.bib)) ++ _ = _
    rw [h1, ih (vals.drop s.bib) hdl (fun v hv' => hv v (List.mem_of_mem_drop hv'))]

theorem writeAux_length_aligned (s : States) (n : Nat) : ∀ (vals : List Nat), vals.length = n * s.bib →
    (writeAux s vals 0 none).length = n := by
  induction n with
  | zero =>
    intro vals hl
    have : vals = [] := List.eq_nil_of_length_eq_zero (by simpa using hl)
    subst this; simp [writeAux]
  | succ n ih =>
    intro vals hl
    have hb := bib_pos s
    have hsplit : vals = vals.take s.bib ++ vals.drop s.bib := (List.take_append_drop _ _).symm
    have htl : (vals.take s.bib).length = s.bib := by
      rw [List.length_take]; rw [hl, Nat.succ_mul]; omega
    have hdl : (vals.drop s.bib).length = n * s.bib := by
      rw [List.length_drop, hl, Nat.succ_mul]; omega
    have hne : vals.take s.bib ≠ [] := by
      intro h; rw [h] at htl; simp at htl; omega
    rw [hsplit, writeAux_group s _ _ 0 hne (by omega) (by rw [hdl]; exact Nat.mul_mod_left _ _)]
    simp [ih _ hdl]

/-- **pack/unpack round trip** for every state kind, every width, every symbol list -/
theorem pack_unpack (s : States) (vals : List Nat) (hv : ∀ v ∈ vals, v < B s) :
    toSyms s (writeNState s vals none) vals.length = vals := by
  have hb := bib_pos s
  unfold toSyms writeNState
  by_cases h0 : vals.length = 0
  · have : vals = [] := List.eq_nil_of_length_eq_zero h0
    subst this; simp
  · simp only [h0, ↓reduceIte]
    -- b0 = length mod bib
    have hb0 : vals.length - vals.length / s.bib * s.bib = vals.length % s.bib := by
      have := Nat.div_add_mod vals.length s.bib
      rw [Nat.mul_comm] at this; omega
    rw [hb0]
    by_cases hm : vals.length % s.bib > 0
    · simp only [hm, ↓reduceIte]
      have hsplit : vals = vals.take (vals.length % s.bib) ++ vals.drop (vals.length % s.bib) :=
        (List.take_append_drop _ _).symm
      have hlt : vals.length % s.bib < s.bib := Nat.mod_lt _ hb
      have hle : vals.length % s.bib ≤ vals.length := Nat.mod_le _ _
      have htl : (vals.take (vals.length % s.bib)).length = vals.length % s.bib := by
        rw [List.length_take]; omega
      have hdl : (vals.drop (vals.length % s.bib)).length = (vals.length / s.bib) * s.bib := by
        rw [List.length_drop]
        have := Nat.div_add_mod vals.length s.bib
        rw [Nat.mul_comm] at this; omega
      have hne : vals.take (vals.length % s.bib) ≠ [] := by
        intro h; rw [h] at htl; simp at htl; omega
      have hw := writeAux_group s (vals.take (vals.length % s.bib)) (vals.drop (vals.length % s.bib)) 0 hne
        (by omega) (by rw [hdl]; exact Nat.mul_mod_left _ _)
      rw [← hsplit] at hw
      rw [hw]
      simp only [List.headD_cons, List.drop_succ_cons, List.drop_zero]
      have hg : ∀ v ∈ vals.take (vals.length % s.bib), v < B s := fun v hv' => hv v (List.mem_of_mem_take hv')
      have h1 := unpack_packGroup s _ hg (by omega)
      rw [htl] at h1
      show unpackByte s (vals.length % s.bib) (packGroup s (vals.take (vals.length % s.bib))) ++ _ = _
      rw [h1, aligned_roundtrip s _ _ hdl (fun v hv' => hv v (List.mem_of_mem_drop hv'))]
      exact hsplit.symm
    · simp only [hm, ↓reduceIte]
      have hm0 : vals.length % s.bib = 0 := by omega
      have hl : vals.length = (vals.length / s.bib) * s.bib := by
        have := Nat.div_add_mod vals.length s.bib
        rw [Nat.mul_comm] at this; omega
      exact aligned_roundtrip s _ vals hl hv

end Wellen.Bits
