import WellenModel.Model.Offset

namespace Wellen.Offset

def Sorted (a : Array Nat) : Prop := ∀ i j, i ≤ j → j < a.size → a[i]! ≤ a[j]!

/-- executable check of `Sorted` -/
def sortedB (a : Array Nat) : Bool :=
  (List.range a.size).all fun j => (List.range (j + 1)).all fun i => a[i]! ≤ a[j]!

theorem sorted_of_sortedB (a : Array Nat) (h : sortedB a = true) : Sorted a := by
  intro i j hij hj
  simp only [sortedB, List.all_eq_true, List.mem_range, decide_eq_true_eq] at h
  exact h j hj i (by omega)

theorem bsearch_spec (a : Array Nat) (needle lo hi : Nat) (hs : Sorted a)
    (hhi : hi < a.size)
    (hlo : ∀ i, i < lo → i < a.size → a[i]! < needle)
    (hlo0 : lo = 0 → a[0]! ≤ needle)
    (hup : ∀ i, hi < i → i < a.size → needle < a[i]!)
    (hle : lo ≤ hi + 1) :
    ∃ r, bsearch a needle lo hi = some r ∧ r < a.size ∧ a[r]! ≤ needle ∧
      ∀ i, i < a.size → a[i]! ≤ needle → a[i]! ≤ a[r]! := by
  induction h : hi + 1 - lo using Nat.strongRecOn generalizing lo hi with
  | _ n ih =>
    unfold bsearch
    by_cases hl : lo ≤ hi
    · simp only [hl, ↓reduceDIte]
      have hmid : lo + (hi - lo) / 2 < a.size := by omega
      by_cases c1 : a[lo + (hi - lo) / 2]! < needle
      · simp only [c1, ↓reduceIte]
        apply ih (hi + 1 - (lo + (hi - lo) / 2 + 1)) (by omega) _ _ hhi _ (by omega) hup (by omega) rfl
        intro i hi1 hi2
        have := hs i (lo + (hi - lo) / 2) (by omega) hmid
        omega
      · simp only [c1, ↓reduceIte]
        by_cases c2 : a[lo + (hi - lo) / 2]! = needle
        · simp only [c2, ↓reduceIte]
          refine ⟨_, rfl, hmid, by omega, ?_⟩
          intro i _ hi2; omega
        · simp only [c2, ↓reduceIte]
          have c3 : needle < a[lo + (hi - lo) / 2]! := by omega
          by_cases c4 : lo + (hi - lo) / 2 = 0
          · exfalso
            have : lo = 0 := by omega
            have := hlo0 this
            rw [c4] at c3; omega
          · simp only [c4, ↓reduceIte]
            apply ih (lo + (hi - lo) / 2 - 1 + 1 - lo) (by omega) _ _ (by omega) hlo hlo0 _ (by omega) rfl
            intro i hi1 hi2
            have := hs (lo + (hi - lo) / 2) i (by omega) hi2
            omega
    · simp only [hl, ↓reduceDIte]
      have : lo = hi + 1 := by omega
      by_cases c0 : lo = 0
      · omega
      · simp only [c0, ↓reduceIte]
        refine ⟨lo - 1, rfl, by omega, ?_, ?_⟩
        · have := hlo (lo - 1) (by omega) (by omega); omega
        · intro i hi1 hi2
          by_cases hc : i < lo
          · exact hs i (lo - 1) (by omega) (by omega)
          · have := hup i (by omega) hi1; omega

theorem scanStart_le (a : Array Nat) (v s : Nat) : scanStart a v s ≤ s := by
  induction s with
  | zero => simp [scanStart]
  | succ s ih => unfold scanStart; split <;> omega

theorem scanStart_run (a : Array Nat) (v s : Nat) :
    ∀ j, scanStart a v s ≤ j → j < s → a[j]! = v := by
  induction s with
  | zero => intro j _ h; omega
  | succ s ih =>
    intro j h1 h2
    unfold scanStart at h1
    split at h1
    · rename_i hv
      by_cases hj : j = s
      · subst hj; exact hv
      · exact ih j h1 (by omega)
    · omega

theorem scanStart_stop (a : Array Nat) (v s : Nat) :
    scanStart a v s = 0 ∨ a[scanStart a v s - 1]! ≠ v := by
  induction s with
  | zero => left; simp [scanStart]
  | succ s ih =>
    unfold scanStart
    split
    · exact ih
    · rename_i hv; right; simpa using hv

theorem scanElems_ge (a : Array Nat) (v start fuel e : Nat) : e ≤ scanElems a v start fuel e := by
  induction fuel generalizing e with
  | zero => simp [scanElems]
  | succ f ih =>
    unfold scanElems; split
    · have := ih (e + 1); omega
    · omega

theorem scanElems_run (a : Array Nat) (v start fuel e : Nat) :
    ∀ j, e ≤ j → j < scanElems a v start fuel e → (start + j < a.size ∧ a[start + j]! = v) := by
  induction fuel generalizing e with
  | zero => intro j h1 h2; simp [scanElems] at h2; omega
  | succ f ih =>
    intro j h1 h2
    unfold scanElems at h2
    split at h2
    · rename_i hc
      by_cases hj : j = e
      · subst hj; exact hc
      · exact ih (e + 1) j (by omega) h2
    · omega

theorem scanElems_stop (a : Array Nat) (v start fuel e : Nat) (hf : a.size ≤ start + e + fuel) :
    ¬ (start + scanElems a v start fuel e < a.size ∧ a[start + scanElems a v start fuel e]! = v) := by
  induction fuel generalizing e with
  | zero => simp [scanElems]; intro h; omega
  | succ f ih =>
    unfold scanElems
    split
    · exact ih (e + 1) (by omega)
    · rename_i hc; exact hc

/-- What `findOffset` computes, as a predicate on a result. `n` is the un-truncated run length. -/
structure GroupSpec (a : Array Nat) (i : Nat) (d : DataOffset) (n : Nat) : Prop where
  start_lt : d.start < a.size
  n_pos : 0 < n
  n_le : d.start + n ≤ a.size
  le_needle : a[d.start]! ≤ i
  greatest : ∀ j, j < a.size → a[j]! ≤ i → a[j]! ≤ a[d.start]!
  group : ∀ j, j < a.size → (a[j]! = a[d.start]! ↔ d.start ≤ j ∧ j < d.start + n)
  elements : d.elements = n % 65536
  timeMatch : d.timeMatch = (a[d.start]! == i)
  next : d.nextIndex = if d.start + n < a.size then nonZero a[d.start + n]! else none

theorem findOffset_spec (a : Array Nat) (i : Nat) (hs : Sorted a) (hne : 0 < a.size)
    (h0 : a[0]! ≤ i) : ∃ d n, findOffset a i = some d ∧ GroupSpec a i d n := by
  obtain ⟨r, hr, hrlt, hrle, hrmax⟩ :=
    bsearch_spec a i 0 (a.size - 1) hs (by omega) (by intro j hj; omega) (fun _ => h0)
      (by intro j hj hj2; omega) (by omega)
  simp only [findOffset, hr]
  refine ⟨_, scanElems a a[r]! (scanStart a a[r]! r) a.size 1, rfl, ?_⟩
  have hsl := scanStart_le a a[r]! r
  have hsrun := scanStart_run a a[r]! r
  have hsstop := scanStart_stop a a[r]! r
  have hege := scanElems_ge a a[r]! (scanStart a a[r]! r) a.size 1
  have herun := scanElems_run a a[r]! (scanStart a a[r]! r) a.size 1
  have hestop := scanElems_stop a a[r]! (scanStart a a[r]! r) a.size 1 (by omega)
  -- value at start equals value at r
  have hsv : a[scanStart a a[r]! r]! = a[r]! := by
    by_cases h : scanStart a a[r]! r = r
    · rw [h]
    · exact hsrun _ (Nat.le_refl _) (by omega)
  -- all positions in [start, start+n) hold v
  have hin : ∀ j, scanStart a a[r]! r ≤ j → j < scanStart a a[r]! r + scanElems a a[r]! (scanStart a a[r]! r) a.size 1 →
      j < a.size ∧ a[j]! = a[r]! := by
    intro j h1 h2
    by_cases hj : j = scanStart a a[r]! r
    · subst hj; exact ⟨by omega, hsv⟩
    · have := herun (j - scanStart a a[r]! r) (by omega) (by omega)
      rw [show scanStart a a[r]! r + (j - scanStart a a[r]! r) = j by omega] at this
      exact this
  constructor
  · show scanStart a a[r]! r < a.size; omega
  · omega
  · show scanStart a a[r]! r + scanElems a a[r]! (scanStart a a[r]! r) a.size 1 ≤ a.size
    have := (hin (scanStart a a[r]! r + scanElems a a[r]! (scanStart a a[r]! r) a.size 1 - 1) (by omega) (by omega)).1
    omega
  · show a[scanStart a a[r]! r]! ≤ i; rw [hsv]; exact hrle
  · intro j hj hji; show a[j]! ≤ a[scanStart a a[r]! r]!; rw [hsv]; exact hrmax j hj hji
  · intro j hj
    show a[j]! = a[scanStart a a[r]! r]! ↔ _
    rw [hsv]
    constructor
    · intro hv
      constructor
      · -- start ≤ j : otherwise j < start and a[start-1] ≠ v, but sortedness squeezes
        by_cases hc : scanStart a a[r]! r ≤ j
        · exact hc
        · exfalso
          rcases hsstop with h | h
          · omega
          · have h1 := hs j (scanStart a a[r]! r - 1) (by omega) (by omega)
            have h2 := hs (scanStart a a[r]! r - 1) r (by omega) hrlt
            omega
      · by_cases hc : j < scanStart a a[r]! r + scanElems a a[r]! (scanStart a a[r]! r) a.size 1
        · exact hc
        · exfalso
          -- position start+n is in range (since j ≥ it and j < size) and must differ from v
          have hlt : scanStart a a[r]! r + scanElems a a[r]! (scanStart a a[r]! r) a.size 1 < a.size := by omega
          have hne' : a[scanStart a a[r]! r + scanElems a a[r]! (scanStart a a[r]! r) a.size 1]! ≠ a[r]! := by
            intro h; exact hestop ⟨hlt, h⟩
          have h1 := hs (scanStart a a[r]! r + scanElems a a[r]! (scanStart a a[r]! r) a.size 1) j (by omega) hj
          have h2 := hs (scanStart a a[r]! r) (scanStart a a[r]! r + scanElems a a[r]! (scanStart a a[r]! r) a.size 1) (by omega) hlt
          omega
    · intro ⟨h1, h2⟩; exact (hin j h1 h2).2
  · rfl
  · show (a[r]! == i) = (a[scanStart a a[r]! r]! == i); rw [hsv]
  · show _ = _; rfl

theorem getOffset_total (a : Array Nat) (i : Nat) (hs : Sorted a) : getOffset a i ≠ none := by
  unfold getOffset
  by_cases h0 : a.size = 0
  · simp [h0]
  · simp only [h0, ↓reduceIte]
    by_cases h1 : a[0]! > i
    · simp [h1]
    · simp only [h1, ↓reduceIte]
      obtain ⟨d, n, hd, _⟩ := findOffset_spec a i hs (by omega) (by omega)
      simp [hd]

end Wellen.Offset
