import WellenModel.Model.Spec
/-! The time table built by `Encoder::time_change` / `finish_block` / `finish` is exactly the list
of timestamps greater than all earlier ones — for every number of time steps and every block size. -/
namespace Wellen.Spec
open Wellen.Bits Wellen.Store

def lastD (l : List Nat) (d : Nat) : Nat := l.getLast?.getD d

theorem lastD_cons (a : Nat) (l : List Nat) (d : Nat) : lastD (a :: l) d = lastD l a := by
  simp [lastD, List.getLast?_cons]

theorem lastD_append_single (l : List Nat) (t d : Nat) : lastD (l ++ [t]) d = t := by
  simp [lastD]

theorem go_snoc (m t : Nat) (r : List Nat) :
    strictPrefixMax.go m (r ++ [t]) =
      if t > lastD (strictPrefixMax.go m r) m then strictPrefixMax.go m r ++ [t] else strictPrefixMax.go m r := by
  induction r generalizing m with
  | nil => simp [strictPrefixMax.go, lastD]
  | cons u r ih =>
    simp only [List.cons_append, strictPrefixMax.go]
    by_cases hu : u > m
    · simp only [hu, ↓reduceIte, lastD_cons]
      rw [ih u]
      split <;> simp
    · simp only [hu, ↓reduceIte]
      exact ih m

/-- appending a timestamp to the history: it is recorded iff it exceeds the current maximum -/
theorem spm_snoc (ts : List Nat) (t : Nat) :
    strictPrefixMax (ts ++ [t]) =
      match (strictPrefixMax ts).getLast? with
      | none => [t]
      | some m => if t > m then strictPrefixMax ts ++ [t] else strictPrefixMax ts := by
  cases ts with
  | nil => simp [strictPrefixMax, strictPrefixMax.go]
  | cons t0 r =>
    simp only [List.cons_append, strictPrefixMax, List.getLast?_cons]
    rw [go_snoc]
    show _ = if t > lastD (strictPrefixMax.go t0 r) t0 then _ else _
    split <;> simp

theorem spm_eq_nil (ts : List Nat) (h : strictPrefixMax ts = []) : ts = [] := by
  cases ts with
  | nil => rfl
  | cons a r => simp [strictPrefixMax] at h

/-- every entry of `go m r` exceeds `m`, and the list is strictly increasing -/
theorem go_pairwise (m : Nat) (r : List Nat) :
    (∀ x ∈ strictPrefixMax.go m r, m < x) ∧ (strictPrefixMax.go m r).Pairwise (· < ·) := by
  induction r generalizing m with
  | nil => simp [strictPrefixMax.go]
  | cons u r ih =>
    simp only [strictPrefixMax.go]
    by_cases hu : u > m
    · rw [if_pos hu]
      obtain ⟨h1, h2⟩ := ih u
      constructor
      · intro x hx
        rcases List.mem_cons.mp hx with rfl | hx
        · exact hu
        · have := h1 x hx; omega
      · exact List.pairwise_cons.mpr ⟨h1, h2⟩
    · rw [if_neg hu]
      exact ih m

theorem spm_pairwise (ts : List Nat) : (strictPrefixMax ts).Pairwise (· < ·) := by
  cases ts with
  | nil => simp [strictPrefixMax]
  | cons t0 r =>
    simp only [strictPrefixMax, List.pairwise_cons]
    exact go_pairwise t0 r

/-! ### the encoder -/

/-- the time table an encoder stands for: finished blocks followed by the table under construction -/
def table (e : Enc) : List Nat :=
  e.blocksRev.reverse.flatMap (·.timeTable) ++ e.timeRev.reverse

structure Inv (e : Enc) : Prop where
  empty : e.timeRev = [] → e.blocksRev = []
  len : e.timeLen = e.timeRev.length
  dirty : e.timeRev ≠ [] → e.hasNewData = true

theorem table_last (e : Enc) (p : Nat) (r : List Nat) (h : e.timeRev = p :: r) :
    (table e).getLast? = some p := by
  simp [table, h]

theorem finishBlock_dirty (c : Codec) (e : Enc) (h : e.hasNewData = true) :
    (finishBlock c e).blocksRev.reverse.flatMap (·.timeTable) = table e := by
  simp [finishBlock, h, table]

theorem finishBlock_clean (c : Codec) (e : Enc) (h : e.hasNewData = false) : finishBlock c e = e := by
  simp [finishBlock, h]

theorem timeChange_inv (c : Codec) (e : Enc) (t : Nat) (hi : Inv e) : Inv (timeChange c e t) := by
  unfold timeChange
  cases htr : e.timeRev with
  | nil => simp only; exact ⟨by simp, by simp, by simp⟩
  | cons p r =>
    simp only
    have hlen : e.timeLen = r.length + 1 := by simpa [htr] using hi.len
    have hdirty : e.hasNewData = true := hi.dirty (by rw [htr]; simp)
    by_cases h1 : p = t
    · simp only [h1, ↓reduceIte]
      exact ⟨fun h => by simp at h, by simpa using hlen, fun _ => by simpa using hdirty⟩
    · simp only [h1, ↓reduceIte]
      by_cases h2 : p > t
      · simp only [h2, ↓reduceIte]
        exact ⟨fun h => by simp at h, by simpa using hlen, fun _ => by simpa using hdirty⟩
      · simp only [h2, ↓reduceIte]
        by_cases h3 : e.timeLen ≥ c.blockMax
        · simp only [h3, ↓reduceIte]
          exact ⟨by simp, by simp, by simp⟩
        · simp only [h3, ↓reduceIte]
          exact ⟨by simp, by simp [hlen, htr], by simp⟩

theorem timeChange_table (c : Codec) (e : Enc) (t : Nat) (hi : Inv e) :
    table (timeChange c e t) =
      match (table e).getLast? with
      | none => [t]
      | some m => if t > m then table e ++ [t] else table e := by
  unfold timeChange
  cases htr : e.timeRev with
  | nil =>
    have hb := hi.empty htr
    simp [table, htr, hb]
  | cons p r =>
    rw [table_last e p r htr]
    simp only
    by_cases h1 : p = t
    · have : ¬ t > p := by omega
      simp only [h1, ↓reduceIte, this]
      simp [table, htr, h1]
    · simp only [h1, ↓reduceIte]
      by_cases h2 : p > t
      · have : ¬ t > p := by omega
        simp only [h2, ↓reduceIte, this]
        simp [table, htr]
      · have h4 : t > p := by omega
        simp only [h2, ↓reduceIte, h4]
        by_cases h3 : e.timeLen ≥ c.blockMax
        · simp only [h3, ↓reduceIte]
          have hd := hi.dirty (by rw [htr]; simp)
          have := finishBlock_dirty c e hd
          simp only [table, List.reverse_cons, List.reverse_nil, List.nil_append] at this ⊢
          rw [this]
        · simp only [h3, ↓reduceIte]
          simp [table, htr]

/-- value changes neither touch the time table nor break the invariant -/
theorem updSig_frame (e e' : Enc) (id : Nat) (f : SigEnc → Option SigEnc) (h : updSig e id f = some e') :
    e'.timeRev = e.timeRev ∧ e'.timeLen = e.timeLen ∧ e'.blocksRev = e.blocksRev ∧ e'.hasNewData = true := by
  unfold updSig at h
  split at h
  · split at h
    · cases h
    · cases h; simp
  · cases h

theorem valueChange_frame (e e' : Enc) (id : Nat) (f : Nat → SigEnc → Option SigEnc)
    (h : valueChange e id f = some e') (hi : Inv e) : Inv e' ∧ table e' = table e := by
  unfold valueChange at h
  split at h
  · cases h
  · split at h
    · cases h; exact ⟨hi, rfl⟩
    · obtain ⟨h1, h2, h3, h4⟩ := updSig_frame e e' id _ h
      refine ⟨⟨fun h => by rw [h3]; exact hi.empty (by rw [← h1]; exact h), by rw [h2, h1]; exact hi.len, fun _ => h4⟩, ?_⟩
      simp [table, h1, h3]

theorem stepOp_inv (c : Codec) (e e' : Enc) (op : Op) (h : stepOp c e op = some e') (hi : Inv e) :
    Inv e' ∧ table e' = match op with
      | .time t => (match (table e).getLast? with
          | none => [t]
          | some m => if t > m then table e ++ [t] else table e)
      | _ => table e := by
  cases op with
  | time t =>
    simp only [stepOp, Option.some.injEq] at h
    subst h
    exact ⟨timeChange_inv c e t hi, timeChange_table c e t hi⟩
  | vcd id v r =>
    have h' : valueChange e id (fun ti => addVcd ti v r) = some e' := h
    exact valueChange_frame e e' id _ h' hi
  | raw id st v =>
    have h' : valueChange e id (fun ti => addNBit ti v st) = some e' := h
    exact valueChange_frame e e' id _ h' hi
  | real id le =>
    have h' : valueChange e id (fun ti => addReal ti le) = some e' := h
    exact valueChange_frame e e' id _ h' hi
  | split => simp [stepOp] at h

theorem timesOf_append_time (ops : List Op) (t : Nat) : timesOf (ops ++ [.time t]) = timesOf ops ++ [t] := by
  induction ops with
  | nil => simp [timesOf]
  | cons o r ih => cases o <;> simp [timesOf, ih]

theorem runOps_table (c : Codec) (ops : List Op) : ∀ (e e' : Enc) (pre : List Nat),
    Inv e → table e = strictPrefixMax pre → runOps c e ops = some e' →
    Inv e' ∧ table e' = strictPrefixMax (pre ++ timesOf ops) := by
  induction ops with
  | nil =>
    intro e e' pre hi ht h
    simp only [runOps, Option.some.injEq] at h
    subst h; simp [timesOf, hi, ht]
  | cons op rest ih =>
    intro e e' pre hi ht h
    simp only [runOps] at h
    split at h
    · cases h
    · rename_i e1 h1
      obtain ⟨hi1, ht1⟩ := stepOp_inv c e e1 op h1 hi
      cases op with
      | time t =>
        simp only at ht1
        have := ih e1 e' (pre ++ [t]) hi1 (by rw [ht1, spm_snoc, ht]) h
        simpa [timesOf, List.append_assoc] using this
      | vcd id v r => exact ih e1 e' pre hi1 (by rw [ht1]; exact ht) h
      | raw id st v => exact ih e1 e' pre hi1 (by rw [ht1]; exact ht) h
      | real id le => exact ih e1 e' pre hi1 (by rw [ht1]; exact ht) h
      | split => simp [stepOp] at h1

theorem newEnc_inv (tps : List SigType) : Inv (newEnc tps) ∧ table (newEnc tps) = [] := by
  simp [newEnc, table]
  exact ⟨by simp, by simp, by simp⟩

/-- `Encoder::finish` returns the concatenation of the block tables -/
theorem finish_table (c : Codec) (e : Enc) (hi : Inv e) : (finish c e).2 = table e := by
  unfold finish
  simp only
  by_cases hd : e.hasNewData = true
  · exact finishBlock_dirty c e hd
  · have hd' : e.hasNewData = false := by simpa using hd
    rw [finishBlock_clean c e hd']
    have : e.timeRev = [] := by
      by_cases h : e.timeRev = []
      · exact h
      · have := hi.dirty h; rw [hd'] at this; cases this
    simp [table, this]

end Wellen.Spec
