import WellenModel.Model.VcdBody
/-! `parse_body` (byte-level state machine) = token-level interpreter, for every byte string. -/
namespace Wellen.VcdBody

/-- the pending partial token (reversed) -/
def buf (m : M) : List Nat := match m.st with | .idTok => m.id | _ => m.first

def absSt (m : M) : TSt := match m.st with
  | .idTok => .idTok m.first.reverse
  | .lookEnd => .lookEnd
  | _ => .first

/-- "the remaining input ends in white space", given the pending buffer -/
def trailingOf (b : List Nat) (bs : List Nat) : Bool :=
  match bs.getLast? with | some x => isWs x | none => b.isEmpty

theorem trailingOf_cons_cons (b b' : List Nat) (x y : Nat) (r : List Nat) :
    trailingOf b (x :: y :: r) = trailingOf b' (y :: r) := by
  simp [trailingOf, List.getLast?_cons_cons, List.getLast?_cons]

/-- the trailing flag only depends on the rest, once the buffer is updated -/
theorem trailing_step (ob nb : List Nat) (b : Nat) (bs : List Nat)
    (hw : isWs b = true → nb = []) (hn : isWs b = false → nb ≠ []) :
    trailingOf ob (b :: bs) = trailingOf nb bs := by
  cases bs with
  | nil =>
    simp only [trailingOf, List.getLast?_singleton, List.getLast?_nil]
    cases hb : isWs b
    · have := hn hb; simp [List.isEmpty_iff, this]
    · have := hw hb; simp [this]
  | cons y r => exact trailingOf_cons_cons _ _ _ _ _

/-- no tokens left means every remaining byte is white space -/
theorem splitWsAux_ne_nil (l cur : List Nat) (hc : cur ≠ []) : splitWsAux cur l ≠ [] := by
  induction l generalizing cur with
  | nil => simp [splitWsAux, hc]
  | cons a q ihq =>
    simp only [splitWsAux]
    split
    · simp [hc]
    · exact ihq _ (by simp)

theorem trailing_of_no_tokens (l : List Nat) (hs : splitWsAux [] l = []) : trailingOf [] l = true := by
  induction l with
  | nil => simp [trailingOf]
  | cons z t ihl =>
    simp only [splitWsAux] at hs
    by_cases hz : isWs z = true
    · simp only [hz, ↓reduceIte, List.isEmpty_nil] at hs
      rw [trailing_step [] [] z t (fun _ => rfl) (fun h => by rw [hz] at h; cases h)]
      exact ihl hs
    · simp only [hz, Bool.false_eq_true, ↓reduceIte] at hs
      exact absurd hs (splitWsAux_ne_nil t [z] (by simp))

/-- machine invariants that hold whenever the machine is not in its initial line skip:
unused buffers are empty -/
def WF (m : M) : Prop :=
  m.st ≠ .skipNl ∧ (m.st ≠ .idTok → m.id = [])

theorem run_eq_interp (bs : List Nat) : ∀ (m : M), WF m →
    run none m bs = interpT (trailingOf (buf m) bs) (absSt m) (splitWsAux (buf m) bs) m.evs := by
  induction bs with
  | nil =>
    intro m hwf
    obtain ⟨h1, h2⟩ := hwf
    cases hst : m.st with
    | skipNl => exact absurd hst h1
    | first =>
      simp only [run, flush, hst, buf, absSt, splitWsAux, trailingOf, List.getLast?_nil]
      by_cases he : m.first.isEmpty
      · simp [he, interpT]
      · simp only [he, Bool.false_eq_true, ↓reduceIte, interpT]
        cases parseFirst m.first.reverse <;> simp [interpT]
    | idTok =>
      simp only [run, flush, hst, buf, absSt, splitWsAux, trailingOf, List.getLast?_nil]
      by_cases he : m.id.isEmpty
      · have : m.id = [] := by simpa using he
        simp [he, interpT, this]
      · simp [he, interpT]
    | lookEnd =>
      simp only [run, flush, hst, buf, absSt, splitWsAux, trailingOf, List.getLast?_nil]
      by_cases he : m.first.isEmpty
      · simp [he, interpT]
      · simp only [he, Bool.false_eq_true, ↓reduceIte, interpT]
        split <;> simp [interpT]
  | cons b bs ih =>
    intro m hwf
    obtain ⟨h1, h2⟩ := hwf
    have htr := fun (ob nb : List Nat) => trailing_step ob nb b bs
    cases hst : m.st with
    | skipNl => exact absurd hst h1
    | first =>
      have hid : m.id = [] := h2 (by rw [hst]; decide)
      simp only [run, step, hst]
      by_cases hw : isWs b = true
      · simp only [hw, ↓reduceIte]
        by_cases he : m.first.isEmpty = true
        · simp only [he, ↓reduceIte]
          rw [ih _ ⟨by simp [hst], by simp [hst, hid]⟩]
          have hf : m.first = [] := by simpa using he
          simp only [buf, absSt, hst, splitWsAux, hw, ↓reduceIte, he]
          rw [htr m.first m.first (fun _ => hf) (fun h => by rw [hw] at h; cases h), hf]
        · simp only [he, Bool.false_eq_true, ↓reduceIte]
          simp only [buf, absSt, hst, splitWsAux, hw, ↓reduceIte, he, Bool.false_eq_true, interpT]
          have htr' := fun ob => htr ob [] (fun _ => rfl) (fun h => by rw [hw] at h; cases h)
          cases hp : parseFirst m.first.reverse with
          | time t =>
            simp only []
            rw [ih _ ⟨by simp [hst], by simp [hst, hid]⟩]
            simp [buf, absSt, hst, htr']
          | oneBit =>
            simp only []
            rw [ih _ ⟨by simp [hst], by simp [hst, hid]⟩]
            simp [buf, absSt, hst, htr']
          | multiBit =>
            simp only []
            rw [ih _ ⟨by simp, by simp⟩]
            simp only [buf, absSt, hst, htr']
            by_cases hc : (splitWsAux [] bs).isEmpty = true
            · have h5 := trailing_of_no_tokens bs (by simpa using hc)
              simp [hc, h5, hid]
            · simp [hc, hid]
          | commentStart =>
            simp only []
            rw [ih _ ⟨by simp, by simp [hid]⟩]
            simp [buf, absSt, htr']
          | ignored =>
            simp only []
            rw [ih _ ⟨by simp [hst], by simp [hst, hid]⟩]
            simp [buf, absSt, hst, htr']
          | bad => simp
      · have hw' : isWs b = false := by simpa using hw
        simp only [hw', Bool.false_eq_true, ↓reduceIte]
        rw [ih _ ⟨by simp [hst], by simp [hst, hid]⟩]
        simp only [buf, absSt, hst, splitWsAux, hw', Bool.false_eq_true, ↓reduceIte]
        rw [htr m.first (b :: m.first) (fun h => by rw [hw'] at h; cases h) (fun _ => by simp)]
    | idTok =>
      simp only [run, step, hst]
      by_cases hw : isWs b = true
      · simp only [hw, ↓reduceIte]
        by_cases he : m.id.isEmpty = true
        · simp only [he, ↓reduceIte]
          rw [ih _ ⟨by simp [hst], by simp [hst]⟩]
          have hf : m.id = [] := by simpa using he
          simp only [buf, absSt, hst, splitWsAux, hw, ↓reduceIte, he]
          rw [htr m.id m.id (fun _ => hf) (fun h => by rw [hw] at h; cases h), hf]
        · simp only [he, Bool.false_eq_true, ↓reduceIte]
          rw [ih _ ⟨by simp, by simp⟩]
          simp only [buf, absSt, hst, splitWsAux, hw, ↓reduceIte, he, Bool.false_eq_true, interpT]
          have htr' := fun ob => htr ob [] (fun _ => rfl) (fun h => by rw [hw] at h; cases h)
          simp [htr']
      · have hw' : isWs b = false := by simpa using hw
        simp only [hw', Bool.false_eq_true, ↓reduceIte]
        rw [ih _ ⟨by simp [hst], by simp [hst]⟩]
        simp only [buf, absSt, hst, splitWsAux, hw', Bool.false_eq_true, ↓reduceIte]
        rw [htr m.id (b :: m.id) (fun h => by rw [hw'] at h; cases h) (fun _ => by simp)]
    | lookEnd =>
      have hid : m.id = [] := h2 (by rw [hst]; decide)
      simp only [run, step, hst]
      by_cases hw : isWs b = true
      · simp only [hw, ↓reduceIte]
        by_cases he : m.first.isEmpty = true
        · simp only [he, ↓reduceIte]
          rw [ih _ ⟨by simp [hst], by simp [hst, hid]⟩]
          have hf : m.first = [] := by simpa using he
          simp only [buf, absSt, hst, splitWsAux, hw, ↓reduceIte, he]
          rw [htr m.first m.first (fun _ => hf) (fun h => by rw [hw] at h; cases h), hf]
        · simp only [he, Bool.false_eq_true, ↓reduceIte]
          simp only [buf, absSt, hst, splitWsAux, hw, ↓reduceIte, he, Bool.false_eq_true, interpT]
          have htr' := fun ob => htr ob [] (fun _ => rfl) (fun h => by rw [hw] at h; cases h)
          by_cases hk : m.first.reverse = kwEnd
          · simp only [hk, ↓reduceIte]
            rw [ih _ ⟨by simp, by simp [hid]⟩]
            simp [buf, absSt, htr']
          · simp only [hk, ↓reduceIte]
            rw [ih _ ⟨by simp [hst], by simp [hst, hid]⟩]
            simp [buf, absSt, hst, htr']
      · have hw' : isWs b = false := by simpa using hw
        simp only [hw', Bool.false_eq_true, ↓reduceIte]
        rw [ih _ ⟨by simp [hst], by simp [hst, hid]⟩]
        simp only [buf, absSt, hst, splitWsAux, hw', Bool.false_eq_true, ↓reduceIte]
        rw [htr m.first (b :: m.first) (fun h => by rw [hw'] at h; cases h) (fun _ => by simp)]

end Wellen.VcdBody

namespace Wellen.VcdBody

theorem endsWs_eq (bs : List Nat) : endsWs bs = trailingOf [] bs := by
  unfold endsWs trailingOf
  cases bs.getLast? <;> rfl

theorem run_skipNl (bs : List Nat) : ∀ (m : M), m.st = .skipNl → m.first = [] → m.id = [] → m.evs = [] →
    run none m bs = interpT (endsWs (dropLine bs)) .first (splitWs (dropLine bs)) [] := by
  induction bs with
  | nil =>
    intro m hst _ _ hev
    simp [run, flush, hst, hev, dropLine, splitWs, splitWsAux, interpT]
  | cons b bs ih =>
    intro m hst hf hid hev
    simp only [run, step, hst, dropLine]
    by_cases hb : b = 10
    · simp only [hb, ↓reduceIte]
      rw [run_eq_interp bs _ ⟨by simp, by simp [hid]⟩]
      simp [buf, absSt, hf, hev, endsWs_eq, splitWs]
    · simp only [hb, ↓reduceIte]
      exact ih _ (by simp [hst]) (by simp [hf]) (by simp [hid]) (by simp [hev])

/-- **the byte-level state machine of `parse_body` is the token-level interpreter**, for every
byte string (white space of any kind and amount, LF / CRLF, blank lines, tokens anywhere) and both start states. -/
theorem parseBody_eq_tokenSpec (bs : List Nat) (nl : Bool) : parseBody none bs nl = tokenSpec bs nl := by
  unfold parseBody tokenSpec
  cases nl with
  | false => exact run_skipNl bs (initM false) rfl rfl rfl rfl
  | true =>
    rw [run_eq_interp bs (initM true) ⟨by simp [initM], by simp [initM]⟩]
    simp [buf, absSt, initM, endsWs_eq, splitWs]

end Wellen.VcdBody
