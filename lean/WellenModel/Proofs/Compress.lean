import WellenModel.Proofs.Slice
import WellenModel.Proofs.Entry
/-!
`compress_template` (wavemem.rs), the re-packing `add_n_bit_change` applies when a pre-encoded value needs fewer states than
it was handed over with, is the same function as `repack` (Model/Slice.lean): packing of the symbols fetched from the input.
-/
namespace Wellen.Slice
open Wellen.Bits Wellen.Store

theorem rev_index (L b k : Nat) (hb : 0 < b) (hk : k < L * b) : (L * b - k - 1) / b = L - 1 - k / b := by
  have hkb : k / b < L := by
    rw [Nat.div_lt_iff_lt_mul hb]; exact hk
  -- write k = q * b + r
  have hq := Nat.div_add_mod k b
  have hr := Nat.mod_lt k hb
  generalize k / b = q at *
  generalize k % b = r at *
  have e : L * b - k - 1 = (L - 1 - q) * b + (b - 1 - r) := by
    have : L * b = (L - 1 - q) * b + q * b + b := by
      have hL : L = (L - 1 - q) + q + 1 := by omega
      conv => lhs; rw [hL]
      simp [Nat.add_mul]
    have hqb : q * b = b * q := Nat.mul_comm _ _
    omega
  rw [e, Nat.mul_comm, Nat.mul_add_div hb]
  have : (b - 1 - r) / b = 0 := Nat.div_eq_of_lt (by omega)
  omega

theorem compressAux_eq_repack (inS outS : States) (value : List Nat) : ∀ (n w : Nat), n ≤ value.length * inS.bib →
    compressAux value inS outS (value.length * inS.bib) n w = repack inS outS value 0 n w := by
  intro n
  induction n with
  | zero => intro w _; rfl
  | succ n ih =>
    intro w hn
    have hb : 0 < inS.bib := by cases inS <;> decide
    simp only [compressAux, repack, symAt, Nat.zero_add]
    have hidx := rev_index value.length inS.bib n hb (by omega)
    rw [hidx]
    split
    · rw [ih 0 (by omega)]
    · rw [ih _ (by omega)]

/-- `compress_template` = `repack` from position 0 -/
theorem compressTemplate_eq_repack (inS outS : States) (value : List Nat) (bits : Nat) (hbits : bits ≤ value.length * inS.bib) :
    compressTemplate value inS outS bits = repack inS outS value 0 bits 0 :=
  compressAux_eq_repack inS outS value bits 0 hbits

theorem compressTemplate_length (inS outS : States) (value : List Nat) (bits : Nat) (hbits : bits ≤ value.length * inS.bib) :
    (compressTemplate value inS outS bits).length = divCeil bits outS.bib := by
  rw [compressTemplate_eq_repack inS outS value bits hbits, repack_eq_write]
  have := Wellen.Store.writeNState_length outS (fetched inS value 0 bits)
  simpa [writeNState, fetched_length] using this

end Wellen.Slice
