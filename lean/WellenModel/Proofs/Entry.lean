import WellenModel.Model.Store
import WellenModel.Proofs.Pack
/-! LEB128 round trip, length of packed values, and the alignment / decode round trip of the
in-memory entry layout for all (widest, local) state-kind combinations and every width. -/
namespace Wellen.Store
open Wellen.Bits

theorem lebRead_lebWrite (n : Nat) (rest : List Nat) : lebRead (lebWrite n ++ rest) = some (n, rest) := by
  induction n using Nat.strongRecOn with
  | _ n ih =>
    unfold lebWrite
    by_cases h : n < 128
    · simp [h, lebRead]
    · simp only [h, ↓reduceDIte, List.cons_append, lebRead]
      have h1 : ¬ (n % 128 + 128 < 128) := by omega
      simp only [h1, ↓reduceIte]
      rw [ih (n / 128) (by omega)]
      simp only [Option.some.injEq, Prod.mk.injEq, and_true]
      omega

/-- structure of a packed value: optional partial first byte, then full bytes -/
theorem writeNState_split (s : States) (vals : List Nat) (hm : vals.length % s.bib > 0) :
    writeNState s vals none =
      packGroup s (vals.take (vals.length % s.bib)) :: writeAux s (vals.drop (vals.length % s.bib)) 0 none := by
  have hb := bib_pos s
  unfold writeNState
  have hsplit : vals = vals.take (vals.length % s.bib) ++ vals.drop (vals.length % s.bib) :=
    (List.take_append_drop _ _).symm
  have hlt : vals.length % s.bib < s.bib := Nat.mod_lt _ hb
  have hle : vals.length % s.bib ≤ vals.length := Nat.mod_le _ _
  have htl : (vals.take (vals.length % s.bib)).length = vals.length % s.bib := by
    rw [List.length_take]; omega
  have hdl : (vals.drop (vals.length % s.bib)).length = (vals.length / s.bib) * s.bib := by
    rw [List.length_drop]
    have := Nat.div_add_mod vals.length s.bib
    rw [Nat.mul_comm] at this; omega
  have hne : vals.take (vals.length % s.bib) ≠ [] := by
    intro h; rw [h] at htl; simp at htl; omega
  have hw := writeAux_group s (vals.take (vals.length % s.bib)) (vals.drop (vals.length % s.bib)) 0 hne
    (by omega) (by rw [hdl]; exact Nat.mul_mod_left _ _)
  rw [← hsplit] at hw
  rw [hw]; rfl

theorem bib_cases (s : States) : s.bib = 8 ∨ s.bib = 4 ∨ s.bib = 2 := by cases s <;> simp [States.bib, States.bits]

theorem writeNState_length (s : States) (vals : List Nat) :
    (writeNState s vals none).length = divCeil vals.length s.bib := by
  have hb := bib_pos s
  by_cases hm : vals.length % s.bib > 0
  · rw [writeNState_split s vals hm]
    have hdl : (vals.drop (vals.length % s.bib)).length = (vals.length / s.bib) * s.bib := by
      rw [List.length_drop]
      have := Nat.div_add_mod vals.length s.bib
      rw [Nat.mul_comm] at this
      have hle : vals.length % s.bib ≤ vals.length := Nat.mod_le _ _
      omega
    simp only [List.length_cons, writeAux_length_aligned s _ _ hdl, divCeil]
    rcases bib_cases s with h | h | h <;> rw [h] at hm ⊢ <;> omega
  · have hl : vals.length = (vals.length / s.bib) * s.bib := by
      have := Nat.div_add_mod vals.length s.bib
      rw [Nat.mul_comm] at this; omega
    unfold writeNState
    rw [writeAux_length_aligned s _ vals hl, divCeil]
    rcases bib_cases s with h | h | h <;> rw [h] at hm ⊢ <;> omega

/-- the partial first byte of a packed value is below `B ^ (len mod bib)` -/
theorem head_lt (s : States) (vals : List Nat) (hv : ∀ v ∈ vals, v < B s)
    (hm : vals.length % s.bib > 0) : (writeNState s vals none).headD 0 < B s ^ (vals.length % s.bib) := by
  have hb := bib_pos s
  rw [writeNState_split s vals hm]
  simp only [List.headD_cons]
  have hlt : vals.length % s.bib < s.bib := Nat.mod_lt _ hb
  have hle : vals.length % s.bib ≤ vals.length := Nat.mod_le _ _
  have htl : (vals.take (vals.length % s.bib)).length = vals.length % s.bib := by
    rw [List.length_take]; omega
  have hg : ∀ v ∈ vals.take (vals.length % s.bib), v < B s := fun v hv' => hv v (List.mem_of_mem_take hv')
  have h1 := packGroup_lt s _ hg (by omega)
  rw [htl] at h1
  exact h1

/-- meta bits in the first byte do not disturb the symbols read from it (finite check) -/
theorem unpack_ignores_meta (s : States) : ∀ (k : Fin 3) (b0 : Fin 7) (d : Fin 64),
    b0.val * s.bits ≤ 6 →
    unpackByte s b0.val ((k.val <<< 6) ||| d.val) = unpackByte s b0.val d.val := by
  cases s <;> decide +kernel

theorem meta_readback : ∀ (k : Fin 3) (d : Fin 64), (((k.val <<< 6) ||| d.val) >>> 6) &&& 3 = k.val := by
  decide +kernel


theorem ofNat_toNat (s : States) : States.ofNat? s.toNat = some s := by cases s <;> rfl
theorem toNat_lt3 (s : States) : s.toNat < 3 := by cases s <;> decide

theorem md_readback (loc : States) : ((loc.toNat <<< 6) >>> 6) &&& 3 = loc.toNat := by
  have := meta_readback ⟨loc.toNat, toNat_lt3 loc⟩ ⟨0, by decide⟩
  simpa using this

/-- (1) entries with an extra meta byte: any number of padding zeros -/
theorem decode_meta_byte (maxS loc : States) (bits k : Nat) (data : List Nat)
    (hmax : maxS ≠ .two) (hl : data.length = divCeil bits loc.bib) :
    decodeEntry maxS bits true ((loc.toNat <<< 6) :: (zeros k ++ data)) = some (loc, data) := by
  unfold decodeEntry
  cases maxS with
  | two => exact absurd rfl hmax
  | four | nine =>
    simp only [↓reduceIte, List.drop_succ_cons, List.drop_zero, List.headD_cons, md_readback, ofNat_toNat]
    simp [zeros, hl]

/-- (2) meta bits in a first byte of their own, padding zeros behind it -/
theorem decode_meta_pad (maxS loc : States) (bits k : Nat) (data : List Nat)
    (hmax : maxS ≠ .two) (hl : data.length = divCeil bits loc.bib) :
    decodeEntry maxS bits false ((loc.toNat <<< 6) :: (zeros k ++ data)) = some (loc, data) := by
  unfold decodeEntry
  cases maxS with
  | two => exact absurd rfl hmax
  | four | nine =>
    simp only [Bool.false_eq_true, ↓reduceIte, List.headD_cons, md_readback, ofNat_toNat]
    simp only [Option.some.injEq, Prod.mk.injEq, true_and]
    have : ((loc.toNat <<< 6) :: (zeros k ++ data)).length - divCeil bits loc.bib = k + 1 := by
      simp [zeros, hl]; omega
    rw [this]
    simp [zeros]

/-- (3) meta bits sharing the first data byte -/
theorem decode_meta_shared (maxS loc : States) (bits h : Nat) (t : List Nat)
    (hmax : maxS ≠ .two) (hl : t.length + 1 = divCeil bits loc.bib) (hh : h < 64) :
    decodeEntry maxS bits false (((loc.toNat <<< 6) ||| h) :: t) =
      some (loc, ((loc.toNat <<< 6) ||| h) :: t) := by
  unfold decodeEntry
  have hr : (((loc.toNat <<< 6) ||| h) >>> 6) &&& 3 = loc.toNat :=
    meta_readback ⟨loc.toNat, toNat_lt3 loc⟩ ⟨h, hh⟩
  cases maxS with
  | two => exact absurd rfl hmax
  | four | nine =>
    simp only [Bool.false_eq_true, ↓reduceIte, List.headD_cons, hr, ofNat_toNat]
    simp [hl]


end Wellen.Store
