import WellenModel.Proofs.EvOps
import WellenModel.Proofs.SpecPrefix
/-!
Truncation at the level of the abstract waveform: the events of a truncated body are `pre` or
`pre ++ [x]` where `pre` is a prefix of the events of the complete body (`prefix_events`); both
waveforms extend the waveform of `pre`.
-/
namespace Wellen.VcdBody
open Wellen.Spec Wellen.Store

theorem opsOfEvs_append (d : Decls) (rm : RealMap) (a b : List Ev) :
    opsOfEvs d rm (a ++ b) =
      match opsOfEvs d rm a, opsOfEvs d rm b with
      | some x, some y => some (x ++ y)
      | _, _ => none := by
  induction a with
  | nil => simp only [List.nil_append, opsOfEvs]; cases opsOfEvs d rm b <;> rfl
  | cons e a ih =>
    simp only [List.cons_append, opsOfEvs]
    cases evOp d rm e with
    | none => rfl
    | some o =>
      simp only
      rw [ih]
      cases opsOfEvs d rm a <;> cases opsOfEvs d rm b <;> rfl

/-- the operations of `implicitZero (pre ++ r)` start with the operations of `implicitZero pre` -/
theorem ops_split (d : Decls) (rm : RealMap) (pre r : List Ev) (ops : List Op)
    (h : opsOfEvs d rm (implicitZero (pre ++ r)) = some ops) :
    ∃ opsc rest, opsOfEvs d rm (implicitZero pre) = some opsc ∧ ops = opsc ++ rest := by
  by_cases hp : pre = []
  · subst hp; exact ⟨[], ops, rfl, rfl⟩
  · rw [implicitZero_append pre r hp, opsOfEvs_append] at h
    cases ha : opsOfEvs d rm (implicitZero pre) with
    | none => rw [ha] at h; cases h
    | some x =>
      rw [ha] at h
      cases hb : opsOfEvs d rm r with
      | none => rw [hb] at h; cases h
      | some y =>
        rw [hb] at h
        simp only [Option.some.injEq] at h
        exact ⟨x, y, rfl, h.symm⟩

/-- **truncation, abstract waveform**: the waveform denoted by the events of a truncated body (`evs1`) and the one denoted by the
events of the complete body (`pre ++ r`) both extend the waveform `sc` of the common events `pre`: its time table and change lists
are initial parts of theirs, and the two agree on every change strictly before the last time step of `sc` -/
theorem truncated_waveform (types : Array SigType) (d : Decls) (rm : RealMap) (pre r evs1 : List Ev)
    (hx : evs1 = pre ∨ ∃ x, evs1 = pre ++ [x]) (ops1 ops2 : List Op)
    (h1 : opsOfEvs d rm (implicitZero evs1) = some ops1) (h2 : opsOfEvs d rm (implicitZero (pre ++ r)) = some ops2)
    (s0 s1 s2 : Spec.St) (hw : s0.ttLen = s0.ttRev.length)
    (f1 : foldSpec types ops1 s0 = some s1) (f2 : foldSpec types ops2 s0 = some s2) :
    ∃ opsc sc, opsOfEvs d rm (implicitZero pre) = some opsc ∧ foldSpec types opsc s0 = some sc ∧
      sc.ttRev <:+ s1.ttRev ∧ sc.ttRev <:+ s2.ttRev ∧
      ∀ i, (∃ n1, s1.changesRev.getD i [] = n1 ++ sc.changesRev.getD i []) ∧
           (∃ n2, s2.changesRev.getD i [] = n2 ++ sc.changesRev.getD i []) ∧
           (s1.changesRev.getD i []).filter (fun p => p.1 < sc.ttLen - 1) =
             (s2.changesRev.getD i []).filter (fun p => p.1 < sc.ttLen - 1) := by
  have e1 : ∃ r1, evs1 = pre ++ r1 := by
    rcases hx with h | ⟨x, h⟩
    · exact ⟨[], by simp [h]⟩
    · exact ⟨[x], h⟩
  obtain ⟨r1, he1⟩ := e1
  subst he1
  obtain ⟨opsc, rest1, hc1, hs1⟩ := ops_split d rm pre r1 ops1 h1
  obtain ⟨opsc', rest2, hc2, hs2⟩ := ops_split d rm pre r ops2 h2
  rw [hc1] at hc2
  simp only [Option.some.injEq] at hc2
  subst hc2 hs1 hs2
  obtain ⟨sc, hsc, x1, x2⟩ := fold_common types opsc rest1 rest2 s0 s1 s2 hw f1 f2
  refine ⟨opsc, sc, hc1, hsc, x1.tt, x2.tt, fun i => ⟨?_, ?_, ?_⟩⟩
  · obtain ⟨n, hn, _⟩ := x1.ch i; exact ⟨n, hn⟩
  · obtain ⟨n, hn, _⟩ := x2.ch i; exact ⟨n, hn⟩
  · rw [x1.filter_eq i, x2.filter_eq i]

end Wellen.VcdBody
