import WellenModel.Proofs.Refine
import WellenModel.Proofs.Raw
/-!
# The store refines the abstract waveform — every signal type of the VCD path

`Proofs/Refine.lean` carries the proof out for vector signals. Here the same simulation is set up once, generically in a
description `Kind` of how one signal type lays out its chunk stream, what the loader pushes for a chunk and how a value of the
specification is represented; the four instances (vectors, one-bit signals, reals, strings) then give the refinement theorem
for all of them.
-/
namespace Wellen.Store
open Wellen.Bits Wellen.Spec

/-- the loader `load_signal` dispatches to for a signal type -/
def loaderOf (tpe : SigType) (sigS : States) (fuel : Nat) (data : List Nat) (off : Nat) (a : Acc) : Option Acc :=
  match tpe with
  | .string => loadStrings fuel data off a
  | .real => loadReals fuel data off a
  | .bitvec bits => loadFixed bits sigS fuel data off a

theorem loadStep_eq (tpe : SigType) (maxS : States) (a : Acc) (b : Nat × List Nat × States × Option Nat) :
    loadStep tpe maxS (some a) b =
      match b.2.2.2 with
      | some n => if n < b.2.1.length then none else loaderOf tpe maxS (b.2.1.length + 1) b.2.1 b.1 a
      | none => loaderOf tpe maxS (b.2.1.length + 1) b.2.1 b.1 a := by
  unfold loadStep loaderOf
  cases b.2.2.2 <;> cases tpe <;> rfl

/-- running replay of a chunk list: time index = running sum of the deltas -/
def replayK (entry : Change → List Nat) (cs : List Change) (last : Nat) (a : Acc) : Nat × Acc :=
  cs.foldl (fun (st : Nat × Acc) c => (st.1 + c.1, st.2.push (st.1 + c.1) (entry c))) (last, a)

/-- how one signal type stores its changes -/
structure Kind where
  tpe : SigType
  /-- one chunk of the stream -/
  enc1 : Change → List Nat
  /-- what the stream decoder needs of a chunk -/
  fit : States × List Nat → Prop
  /-- the entry the loader pushes for a chunk -/
  entry : States → Change → List Nat
  /-- kind and payload of a value of the specification -/
  valEnc : Value → States × List Nat
  /-- well-formed values of this type -/
  valOK : Value → Prop
  chunk_ne : ∀ x, enc1 x ≠ []
  load : ∀ (sigS : States) (cs : List Change), (∀ x ∈ cs, fit x.2 ∧ x.1 < 2 ^ 28) → ∀ (fuel off : Nat) (a : Acc), cs.length < fuel →
    loaderOf tpe sigS fuel ((cs.map enc1).flatten) off a = some (replayK (entry sigS) cs off a).2
  inj : ∀ (sigS : States) (k1 k2 : Nat) (v1 v2 : Value), valOK v1 → valOK v2 →
    (valEnc v1).1.toNat ≤ sigS.toNat → (valEnc v2).1.toNat ≤ sigS.toNat →
    entry sigS (k1, valEnc v1) = entry sigS (k2, valEnc v2) → v1 = v2
  entry_time : ∀ (sigS : States) (k1 k2 : Nat) (p : States × List Nat), entry sigS (k1, p) = entry sigS (k2, p)

def encK (K : Kind) (cs : List Change) : List Nat := (cs.map K.enc1).flatten

theorem encK_append (K : Kind) (a b : List Change) : encK K (a ++ b) = encK K a ++ encK K b := by simp [encK]

theorem encK_eq_nil (K : Kind) (cs : List Change) : encK K cs = [] ↔ cs = [] := by
  constructor
  · intro h
    cases cs with
    | nil => rfl
    | cons x r =>
      simp only [encK, List.map_cons, List.flatten_cons, List.append_eq_nil_iff] at h
      exact absurd h.1 (K.chunk_ne x)
  · intro h; subst h; rfl

theorem encK_length (K : Kind) (cs : List Change) : cs.length ≤ (encK K cs).length := by
  induction cs with
  | nil => simp
  | cons x r ih =>
    simp only [encK, List.map_cons, List.flatten_cons, List.length_append, List.length_cons] at ih ⊢
    have : 0 < (K.enc1 x).length := List.length_pos_iff.mpr (K.chunk_ne x)
    omega

/-- what is known about signal `i` in one block -/
def SigInBlockK (K : Kind) (i : Nat) (p : BInfo) : Prop :=
  p.1.signals.toList[i]? = some p.2.1 ∧ p.2.1.dataBytes = encK K p.2.2 ∧
  (∀ x ∈ p.2.2, K.fit x.2 ∧ x.1 < 2 ^ 28) ∧
  (∀ x ∈ p.2.2, x.2.1.toNat ≤ p.2.1.maxStates.toNat)

theorem collectMeta_goK (c : Codec) (K : Kind) (i : Nat) (l : List BInfo) :
    (∀ p ∈ l, SigInBlockK K i p ∧ divCeil p.2.1.dataBytes.length 32 < 2 ^ 32) → ∀ (off : Nat) (acc : List (Nat × List Nat × States × Option Nat)),
    collectMeta.go i (l.map fun p => mkBlock c p.1) off acc = some (acc.reverse ++ metasOf c l off) := by
  induction l with
  | nil => intro _ off acc; simp [collectMeta.go, metasOf]
  | cons p r ih =>
    intro h off acc
    obtain ⟨⟨hs, hdata, hcs, _⟩, hlen⟩ := h p (by simp)
    have ih' := ih (fun q hq => h q (by simp [hq]))
    simp only [List.map_cons, collectMeta.go]
    by_cases he : p.2.2 = []
    · have hnil : p.2.1.dataBytes = [] := by rw [hdata, he]; rfl
      rw [block_no_data c p.1 i p.2.1 hs hnil]
      simp only [show (mkBlock c p.1).timeTable = p.1.tt from rfl]
      rw [ih' _ acc]
      simp [metasOf, he]
    · have hne : p.2.1.dataBytes ≠ [] := by rw [hdata]; exact fun h => he ((encK_eq_nil K _).mp h)
      obtain ⟨o, len, m, ho, hsl, hdec⟩ := block_with_data c p.1 i p.2.1 hs hne hlen
      rw [ho]
      simp only [hsl, lebRead_lebWrite, hdec, show (mkBlock c p.1).timeTable = p.1.tt from rfl]
      rw [ih' _ _]
      simp [metasOf, he]

def replayBlocksK (K : Kind) (sigS : States) : List BInfo → Nat → Acc → Acc
  | [], _, a => a
  | p :: r, off, a => replayBlocksK K sigS r (off + p.1.tt.length) (replayK (K.entry sigS) p.2.2 off a).2

theorem fold_metasK (c : Codec) (K : Kind) (sigS : States) (l : List BInfo) (i : Nat) :
    (∀ p ∈ l, SigInBlockK K i p ∧ divCeil p.2.1.dataBytes.length 32 < 2 ^ 32) → ∀ (off : Nat) (a : Acc),
    (metasOf c l off).foldl (loadStep K.tpe sigS) (some a) = some (replayBlocksK K sigS l off a) := by
  induction l with
  | nil => intro _ off a; simp [metasOf, replayBlocksK]
  | cons p r ih =>
    intro h off a
    obtain ⟨⟨hs, hdata, hcs, _⟩, hlen⟩ := h p (by simp)
    have ih' := ih (fun q hq => h q (by simp [hq]))
    simp only [metasOf, replayBlocksK]
    by_cases he : p.2.2 = []
    · simp only [he, ↓reduceIte, List.nil_append]
      rw [ih' _ a]
      simp [replayK]
    · simp only [he, ↓reduceIte, List.cons_append, List.nil_append, List.foldl_cons]
      have hfuel : p.2.2.length < p.2.1.dataBytes.length + 1 := by
        rw [hdata]; have := encK_length K p.2.2; omega
      have hload : loaderOf K.tpe sigS (p.2.1.dataBytes.length + 1) p.2.1.dataBytes off a = some (replayK (K.entry sigS) p.2.2 off a).2 := by
        rw [hdata]; exact K.load sigS p.2.2 hcs _ off a (by rw [← hdata]; exact hfuel)
      rw [loadStep_eq]
      cases hco : compOf c p.2.1.dataBytes with
      | none => simp only [hload]; exact ih' _ _
      | some n =>
        have hn : ¬ n < p.2.1.dataBytes.length := by
          unfold compOf at hco
          split at hco
          · cases hco
          · split at hco
            · cases hco
              have := (meta_roundtrip_compressed p.2.1.maxStates p.2.1.dataBytes.length hlen).2
              omega
            · cases hco
        simp only [hn, ↓reduceIte, hload]; exact ih' _ _

/-- **segmentation does not alter the data**, any signal type -/
theorem multi_block_loadK (c : Codec) (K : Kind) (i : Nat) (l : List BInfo)
    (h : ∀ p ∈ l, SigInBlockK K i p ∧ divCeil p.2.1.dataBytes.length 32 < 2 ^ 32) :
    loadSignal { blocks := l.map fun p => mkBlock c p.1 } i K.tpe =
      some { maxStates := joinedStates c l,
             times := (replayBlocksK K (joinedStates c l) l 0 {}).timesRev.reverse,
             entries := (replayBlocksK K (joinedStates c l) l 0 {}).entriesRev.reverse } := by
  have hgo := collectMeta_goK c K i l h 0 []
  simp only [List.reverse_nil, List.nil_append] at hgo
  have hfold := fold_metasK c K (joinedStates c l) l i h 0 {}
  simp only [loadSignal, collectMeta, hgo]
  unfold joinedStates at hfold ⊢
  rw [hfold]


/-! ### the simulation, generic in the signal type -/

/-- the chunk (with absolute time index) a change of the specification stands for -/
def encVK (K : Kind) (x : Nat × Value) : Change := (x.1, K.valEnc x.2)

structure SimK (K : Kind) (c : Codec) (i : Nat) (base : Nat) (pre : List Change) (e : Enc) (s : Spec.St) (l : List BInfo) (cs : List Change) : Prop where
  inv : Inv e
  wf : s.ttLen = s.ttRev.length
  skip : e.skipping = s.skipping ∨ (e.timeRev = [] ∧ s.needNewMax = true)
  head : e.timeRev.head? = s.ttRev.head? ∨ (e.timeRev = [] ∧ s.needNewMax = true)
  len : s.ttLen = base + offOf l + e.timeLen
  cap : e.timeLen ≤ c.blockMax
  blocks : e.blocksRev.reverse = l.map (fun p => mkBlock c p.1)
  inblk : ∀ p ∈ l, SigInBlockK K i p
  sig : ∃ si, e.signals.toList[i]? = some si ∧ si.tpe = K.tpe ∧ si.dataBytes = encK K cs ∧
        si.prevTimeIdx = (cs.map (·.1)).sum ∧ si.prevTimeIdx ≤ e.timeLen - 1 ∧
        (∀ x ∈ cs, x.2.1.toNat ≤ si.maxStates.toNat)
  fits : ∀ x ∈ cs, K.fit x.2 ∧ x.1 < 2 ^ 28
  clean : e.hasNewData = false → cs = []
  sem : pre ++ absAll l base ++ absolutise (base + offOf l) cs = ((s.changesRev.getD i []).reverse).map (encVK K)
  vals : ∀ x ∈ s.changesRev.getD i [], K.valOK x.2

/-- a fresh encoder is in step with a specification state that has recorded `base` time steps and the changes `pre`, provided
the next operation must open a new maximum (nothing recorded yet, or directly after a split) -/
theorem sim_initK (K : Kind) (c : Codec) (i : Nat) (tps : List SigType) (hi : tps[i]? = some K.tpe) (s : Spec.St)
    (hwf : s.ttLen = s.ttRev.length) (hskf : (newEnc tps).skipping = s.skipping ∨ ((newEnc tps).timeRev = [] ∧ s.needNewMax = true)) (hnm : s.ttRev = [] ∨ s.needNewMax = true)
    (hvals : ∀ x ∈ s.changesRev.getD i [], K.valOK x.2) :
    SimK K c i s.ttLen (((s.changesRev.getD i []).reverse).map (encVK K)) (newEnc tps) s [] [] := by
  refine ⟨(newEnc_inv tps).1, hwf, hskf, ?_, by simp [offOf, newEnc], by simp [newEnc], by simp [newEnc], by simp, ?_, by simp,
    fun _ => rfl, by simp [absAll, absolutise], hvals⟩
  · rcases hnm with h | h
    · left; simp [newEnc, h]
    · right; exact ⟨rfl, h⟩
  · refine ⟨{ tpe := K.tpe }, ?_, rfl, by simp [SigEnc.dataBytes, encK], by simp, by simp, by simp⟩
    simp [newEnc, List.getElem?_map, hi]

theorem sim_timeK (K : Kind) (c : Codec) (i : Nat) (base : Nat) (pre : List Change) (types : Array SigType) (e : Enc) (s : Spec.St) (l : List BInfo) (cs : List Change)
    (hbm : 1 ≤ c.blockMax) (h : SimK K c i base pre e s l cs) (t : Nat) (s' : Spec.St) (hs : Spec.step types s (.time t) = some s') :
    ∃ l' cs', SimK K c i base pre (timeChange c e t) s' l' cs' := by
  have hinv := timeChange_inv c e t h.inv
  obtain ⟨si, hsi, htpe, hdata, hprev, hple, hkind⟩ := h.sig
  cases hrev : e.timeRev with
  | nil =>
    have hl0 : e.timeLen = 0 := by rw [h.inv.len, hrev]; rfl
    have he : timeChange c e t = { e with timeRev := [t], timeLen := 1, hasNewData := true, skipping := false } := by
      simp [timeChange, hrev]
    rw [he] at hinv ⊢
    have hlen := h.len
    cases hsr : s.ttRev with
    | nil =>
      simp only [Spec.step, hsr, Option.some.injEq] at hs
      subst hs
      have ho : base + offOf l = 0 := by rw [h.wf, hsr, hl0] at hlen; simp at hlen; omega
      refine ⟨l, cs, hinv, rfl, Or.inl rfl, Or.inl rfl, by simp; omega, hbm, h.blocks, h.inblk, ⟨si, hsi, htpe, hdata, hprev, ?_, hkind⟩, h.fits, ?_, h.sem, h.vals⟩
      · simp only; rw [hl0] at hple; omega
      · intro hf; simp at hf
    | cons m srest =>
      -- directly after a split: the specification accepts only a new maximum
      have hnm : s.needNewMax = true := by
        rcases h.head with hh | hh
        · rw [hrev, hsr] at hh; simp at hh
        · exact hh.2
      simp only [Spec.step, hsr] at hs
      by_cases hgt : t > m
      · simp only [hgt, ↓reduceIte, Option.some.injEq] at hs
        subst hs
        refine ⟨l, cs, hinv, by simp [h.wf, hsr], Or.inl rfl, Or.inl rfl, by simp only; omega, hbm, h.blocks, h.inblk,
          ⟨si, hsi, htpe, hdata, hprev, ?_, hkind⟩, h.fits, ?_, h.sem, h.vals⟩
        · simp only; rw [hl0] at hple; omega
        · intro hf; simp at hf
      · simp only [hgt, ↓reduceIte, hnm] at hs
        cases hs
  | cons prev rest =>
    have hsh : s.ttRev.head? = some prev := by
      rcases h.head with hh | hh
      · rw [← hh, hrev]; rfl
      · rw [hrev] at hh; cases hh.1
    obtain ⟨srest, hsr⟩ : ∃ r, s.ttRev = prev :: r := by
      cases hh : s.ttRev with
      | nil => rw [hh] at hsh; cases hsh
      | cons a r => rw [hh] at hsh; simp at hsh; exact ⟨r, by rw [hsh]⟩
    have hlen1 : 1 ≤ e.timeLen := by rw [h.inv.len, hrev]; simp
    simp only [Spec.step, hsr] at hs
    by_cases hgt : t > prev
    · simp only [hgt, ↓reduceIte, Option.some.injEq] at hs
      subst hs
      have hne : ¬ prev = t := by omega
      have hng : ¬ prev > t := by omega
      by_cases hroll : e.timeLen ≥ c.blockMax
      · -- roll-over: the current block is closed, a new one starts with `t` at index 0
        have hdirty : e.hasNewData = true := h.inv.dirty (by rw [hrev]; simp)
        have he : timeChange c e t = { e with signals := (finishSignals c e.signals).1, timeRev := [t], timeLen := 1,
                                              blocksRev := mkBlock c (descOf e) :: e.blocksRev, hasNewData := true, skipping := false } := by
          simp [timeChange, hrev, hne, hng, hroll, finishBlock_dirty' c e hdirty]
        rw [he] at hinv ⊢
        have hoff : offOf (l ++ [(descOf e, si, cs)]) = offOf l + e.timeLen := by
          rw [offOf_append]; simp [offOf, descOf, h.inv.len]
        refine ⟨l ++ [(descOf e, si, cs)], [], hinv, by simp [h.wf, hsr], Or.inl rfl, Or.inl (by simp), ?_, hbm, ?_, ?_, ?_, by simp, fun _ => rfl, ?_, h.vals⟩
        · simp only [hoff]; have := h.len; omega
        · simp only [List.reverse_cons, h.blocks, List.map_append, List.map_cons, List.map_nil]
        · intro p hp
          rcases List.mem_append.mp hp with hp | hp
          · exact h.inblk p hp
          · simp only [List.mem_singleton] at hp; subst hp
            exact ⟨hsi, hdata, h.fits, hkind⟩
        · refine ⟨(finishSignal c si).1, ?_, ?_, ?_, ?_, ?_, by simp⟩
          · simp only [finishSignals_fst, List.getElem?_map, hsi, Option.map_some]
          · rw [finishSignal_fst]; exact htpe
          · rw [finishSignal_fst]; simp [SigEnc.dataBytes, encK]
          · rw [finishSignal_fst]; simp
          · rw [finishSignal_fst]; simp
        · rw [absAll_append]
          simp only [absAll, absolutise, List.append_nil, ← List.append_assoc]
          exact h.sem
      · have he : timeChange c e t = { e with timeRev := t :: e.timeRev, timeLen := e.timeLen + 1, hasNewData := true, skipping := false } := by
          simp [timeChange, hrev, hne, hng, hroll]
        rw [he] at hinv ⊢
        refine ⟨l, cs, hinv, by simp [h.wf, hsr], Or.inl rfl, Or.inl (by simp), ?_, ?_, h.blocks, h.inblk, ⟨si, hsi, htpe, hdata, hprev, ?_, hkind⟩, h.fits, ?_, h.sem, h.vals⟩
        · simp only; have := h.len; omega
        · simp only; omega
        · simp only; omega
        · intro hf; simp at hf
    · simp only [hgt, ↓reduceIte] at hs
      split at hs
      · cases hs
      · split at hs
        · rename_i heq
          simp only [Option.some.injEq] at hs; subst hs
          have he : timeChange c e t = { e with skipping := false } := by simp [timeChange, hrev, heq]
          rw [he] at hinv ⊢
          exact ⟨l, cs, hinv, by simp [h.wf, hsr], Or.inl rfl, Or.inl (by simp [hrev]), h.len, h.cap, h.blocks, h.inblk, ⟨si, hsi, htpe, hdata, hprev, hple, hkind⟩, h.fits, h.clean, h.sem, h.vals⟩
        · rename_i hneq
          simp only [Option.some.injEq] at hs; subst hs
          have hne : ¬ prev = t := fun hh => hneq hh.symm
          have hg : prev > t := by omega
          have he : timeChange c e t = { e with skipping := true } := by simp [timeChange, hrev, hne, hg]
          rw [he] at hinv ⊢
          exact ⟨l, cs, hinv, by simp [h.wf, hsr], Or.inl rfl, Or.inl (by simp [hrev]), h.len, h.cap, h.blocks, h.inblk, ⟨si, hsi, htpe, hdata, hprev, hple, hkind⟩, h.fits, h.clean, h.sem, h.vals⟩


/-- a value operation on another signal leaves signal `i` alone -/
theorem record_needNewMax (s s' : Spec.St) (j : Nat) (v : Value) (h : record s j v = some s') : s'.needNewMax = s.needNewMax := by
  unfold record at h
  split at h
  · cases h; rfl
  · cases h

theorem sim_value_otherK (K : Kind) (c : Codec) (i : Nat) (base : Nat) (pre : List Change) (e e' : Enc) (s s' : Spec.St) (l : List BInfo) (cs : List Change)
    (h : SimK K c i base pre e s l cs) (j : Nat) (hij : j ≠ i) (f : Nat → SigEnc → Option SigEnc)
    (he : valueChange e j f = some e') (v : Value) (hs : (if s.skipping then some s else record s j v) = some s') :
    SimK K c i base pre e' s' l cs := by
  obtain ⟨hinv', _⟩ := valueChange_frame e e' j f he h.inv
  unfold valueChange at he
  split at he
  · cases he
  · rename_i hl0
    have hskeq : e.skipping = s.skipping := by
      rcases h.skip with hh | hh
      · exact hh
      · exfalso; apply hl0; rw [h.inv.len, hh.1]; rfl
    split at he
    · rename_i hsk
      cases he
      have : s.skipping = true := by rw [← hskeq]; exact hsk
      simp only [this, ↓reduceIte, Option.some.injEq] at hs
      subst hs; exact h
    · rename_i hsk
      have hsk' : s.skipping = false := by rw [← hskeq]; simpa using hsk
      simp only [hsk', Bool.false_eq_true, ↓reduceIte] at hs
      obtain ⟨r1, r2, r3, r4⟩ := record_getD_ne s s' j i v hs hij
      obtain ⟨u1, u2, u3, u4⟩ := updSig_frame e e' j _ he
      obtain ⟨si, hsi, rest⟩ := h.sig
      have hsig : e'.signals.toList[i]? = some si := by
        unfold updSig at he
        split at he
        · split at he
          · cases he
          · cases he
            simp only [Array.toList_set]
            rw [List.getElem?_set_ne hij]; exact hsi
        · cases he
      refine ⟨hinv', by rw [r3, r2]; exact h.wf, by rw [r4, updSig_skipping e e' j _ he]; exact Or.inl hskeq, by rw [u1, r2, record_needNewMax s s' j v hs]; exact h.head, by rw [r3, u2]; exact h.len,
        by rw [u2]; exact h.cap, by rw [u3]; exact h.blocks, h.inblk, ⟨si, hsig, by rw [u2]; exact rest⟩, h.fits, ?_, by rw [r1]; exact h.sem, by rw [r1]; exact h.vals⟩
      intro hf; rw [u4] at hf; cases hf




/-- what a write to signal `i` must do so that encoder and specification stay in step: append the chunk of the value -/
def Agrees (K : Kind) (ti : Nat) (si snew : SigEnc) (v : Value) : Prop :=
  K.valOK v ∧ K.fit (K.valEnc v) ∧ snew.chunks = K.enc1 (ti - si.prevTimeIdx, K.valEnc v) :: si.chunks ∧
  snew.prevTimeIdx = ti ∧ snew.tpe = si.tpe ∧ si.maxStates.toNat ≤ snew.maxStates.toNat ∧
  (K.valEnc v).1.toNat ≤ snew.maxStates.toNat

/-- a value change of signal `i` itself: one more chunk, one more change of the specification -/
theorem sim_value_sameK (K : Kind) (c : Codec) (i : Nat) (base : Nat) (pre : List Change) (hbmax : c.blockMax ≤ 2 ^ 28)
    (e e' : Enc) (s s' : Spec.St) (l : List BInfo) (cs : List Change)
    (h : SimK K c i base pre e s l cs) (f : Nat → SigEnc → Option SigEnc)
    (he : valueChange e i f = some e') (v : Value) (hs : (if s.skipping then some s else record s i v) = some s')
    (hagree : ∀ si snew, si.tpe = K.tpe → f (e.timeLen - 1) si = some snew → Agrees K (e.timeLen - 1) si snew v) :
    ∃ cs', SimK K c i base pre e' s' l cs' := by
  obtain ⟨hinv', _⟩ := valueChange_frame e e' i _ he h.inv
  unfold valueChange at he
  split at he
  · cases he
  · rename_i hl0
    have hskeq : e.skipping = s.skipping := by
      rcases h.skip with hh | hh
      · exact hh
      · exfalso; apply hl0; rw [h.inv.len, hh.1]; rfl
    split at he
    · rename_i hsk
      cases he
      have : s.skipping = true := by rw [← hskeq]; exact hsk
      simp only [this, ↓reduceIte, Option.some.injEq] at hs
      subst hs; exact ⟨cs, h⟩
    · rename_i hsk
      have hsk' : s.skipping = false := by rw [← hskeq]; simpa using hsk
      simp only [hsk', Bool.false_eq_true, ↓reduceIte] at hs
      obtain ⟨r1, r2, r3, r4⟩ := record_getD_eq s s' i v hs
      obtain ⟨u1, u2, u3, u4⟩ := updSig_frame e e' i _ he
      have u5 := updSig_skipping e e' i _ he
      obtain ⟨si, hsi, htpe, hdata, hprev, hple, hkind⟩ := h.sig
      unfold updSig at he
      split at he
      · rename_i hlt
        have hsi' : e.signals[i] = si := by
          have : e.signals.toList[i]? = some e.signals[i] := by simp [hlt]
          rw [this] at hsi; exact Option.some.inj hsi
        rw [hsi'] at he
        split at he
        · cases he
        · rename_i snew hadd
          obtain ⟨hvok, hvfit, hch, hpn, htn, hmx1, hmx2⟩ := hagree si snew htpe hadd
          have hsig : e'.signals.toList[i]? = some snew := by
            cases he
            simp only [Array.toList_set]
            rw [List.getElem?_set_self (by simpa using hlt)]
          refine ⟨cs ++ [(e.timeLen - 1 - si.prevTimeIdx, K.valEnc v)],
            hinv', by rw [r3, r2]; exact h.wf, by rw [r4, u5]; exact Or.inl hskeq, by rw [u1, r2, record_needNewMax s s' i v hs]; exact h.head,
            by rw [r3, u2]; exact h.len, by rw [u2]; exact h.cap, by rw [u3]; exact h.blocks, h.inblk,
            ⟨snew, hsig, by rw [htn]; exact htpe, ?_, ?_, by rw [hpn, u2]; exact Nat.le_refl _, ?_⟩, ?_, ?_, ?_, ?_⟩
          · rw [dataBytes_cons snew _ _ hch, encK_append]
            have : si.chunks.reverse.flatten = si.dataBytes := rfl
            rw [this, hdata]
            simp [encK]
          · rw [hpn]; simp only [List.map_append, List.map_cons, List.map_nil, List.sum_append, List.sum_cons, List.sum_nil]
            rw [← hprev]; omega
          · intro x hx
            rcases List.mem_append.mp hx with hx | hx
            · exact Nat.le_trans (hkind x hx) hmx1
            · simp only [List.mem_singleton] at hx; subst hx
              exact hmx2
          · intro x hx
            rcases List.mem_append.mp hx with hx | hx
            · exact h.fits x hx
            · simp only [List.mem_singleton] at hx; subst hx
              refine ⟨hvfit, ?_⟩
              have := h.cap
              simp only
              omega
          · intro hf; rw [u4] at hf; cases hf
          · rw [r1, absolutise_append]
            simp only [List.reverse_cons, List.map_append, List.map_cons, List.map_nil, absolutise, ← List.append_assoc]
            rw [h.sem]
            congr 1
            have hlen := h.len
            have : base + offOf l + (cs.map (·.1)).sum + (e.timeLen - 1 - si.prevTimeIdx) = s.ttLen - 1 := by
              rw [← hprev]; omega
            simp only [encVK, this]
          · intro x hx
            rw [r1] at hx
            rcases List.mem_cons.mp hx with hx | hx
            · subst hx; exact hvok
            · exact h.vals x hx
      · cases he


/-- the two write paths of the VCD loader agree with the specification on every value of this signal type -/
structure KindOK (K : Kind) : Prop where
  vcd : ∀ ti value realLe si snew v, si.tpe = K.tpe → (∀ r, realLe = some r → r.length = 8) →
    addVcd ti value realLe si = some snew → vcdValue K.tpe value realLe = some v → Agrees K ti si snew v
  real : ∀ ti le si snew, si.tpe = K.tpe → K.tpe = .real → le.length = 8 → addReal ti le si = some snew →
    Agrees K ti si snew (.real le)
  raw : ∀ ti st bytes si snew v, si.tpe = K.tpe → addNBit ti bytes st si = some snew → rawValue K.tpe st bytes = some v →
    Agrees K ti si snew v

/-- the specification's view of a pre-encoded write -/
theorem spec_raw_step (types : Array SigType) (s s' : Spec.St) (j : Nat) (st : States) (b : List Nat)
    (hs : Spec.step types s (.raw j st b) = some s') :
    ∃ tp v, types[j]? = some tp ∧ rawValue tp st b = some v ∧ (if s.skipping then some s else record s j v) = some s' := by
  simp only [Spec.step] at hs
  split at hs
  · cases hs
  · split at hs
    · cases hs
    · rename_i tp htp
      split at hs
      · cases hs
      · rename_i v hv
        exact ⟨tp, v, htp, hv, hs⟩

theorem sim_runK (K : Kind) (hK : KindOK K) (c : Codec) (i : Nat) (base : Nat) (pre : List Change) (hbm : 1 ≤ c.blockMax) (hbmax : c.blockMax ≤ 2 ^ 28)
    (types : Array SigType) (hti : types[i]? = some K.tpe) (ops : List Op) :
    ∀ (e : Enc) (s : Spec.St) (l : List BInfo) (cs : List Change), SimK K c i base pre e s l cs →
      (∀ op ∈ ops, ∀ j v r, op = .vcd j v (some r) → r.length = 8) →
      ∀ e' s', runOps c e ops = some e' → foldSpec types ops s = some s' → ∃ l' cs', SimK K c i base pre e' s' l' cs' := by
  induction ops with
  | nil =>
    intro e s l cs h _ e' s' he hs
    simp only [runOps, Option.some.injEq] at he
    simp only [foldSpec, List.foldl_nil, Option.some.injEq] at hs
    subst he hs
    exact ⟨l, cs, h⟩
  | cons op rest ih =>
    intro e s l cs h hreal e' s' he hs
    simp only [runOps] at he
    rw [foldSpec_cons] at hs
    cases he1 : stepOp c e op with
    | none => rw [he1] at he; cases he
    | some e1 =>
      rw [he1] at he
      simp only at he
      cases hs1 : Spec.step types s op with
      | none => rw [hs1] at hs; cases hs
      | some s1 =>
        rw [hs1] at hs
        simp only [Option.bind_some] at hs
        have hreal' : ∀ op ∈ rest, ∀ j v r, op = .vcd j v (some r) → r.length = 8 := fun o ho => hreal o (List.mem_cons_of_mem _ ho)
        suffices hstep : ∃ l1 cs1, SimK K c i base pre e1 s1 l1 cs1 by
          obtain ⟨l1, cs1, h1⟩ := hstep
          exact ih e1 s1 l1 cs1 h1 hreal' e' s' he hs
        cases op with
        | time t =>
          simp only [stepOp, Option.some.injEq] at he1
          subst he1
          exact sim_timeK K c i base pre types e s l cs hbm h t s1 hs1
        | vcd j value r =>
          have he1' : valueChange e j (fun ti => addVcd ti value r) = some e1 := he1
          obtain ⟨_, v, hrec, hval⟩ := spec_value_step types s s1 (.vcd j value r) j (Or.inl ⟨value, r, rfl⟩) hs1
          by_cases hji : j = i
          · subst hji
            obtain ⟨tp, htp, hvv⟩ := hval value r rfl
            rw [hti] at htp
            cases htp
            have hr8 : ∀ r', r = some r' → r'.length = 8 := by
              intro r' hr'; subst hr'
              exact hreal (.vcd j value (some r')) (by simp) j value r' rfl
            obtain ⟨cs1, h1⟩ := sim_value_sameK K c j base pre hbmax e e1 s s1 l cs h _ he1' v hrec
              (fun si snew hst hadd => hK.vcd _ value r si snew v hst hr8 hadd hvv)
            exact ⟨l, cs1, h1⟩
          · exact ⟨l, cs, sim_value_otherK K c i base pre e e1 s s1 l cs h j hji (fun ti => addVcd ti value r) he1' v hrec⟩
        | raw j st b =>
          have he1' : valueChange e j (fun ti => addNBit ti b st) = some e1 := he1
          obtain ⟨_, v, hrec, _⟩ := spec_value_step types s s1 (.raw j st b) j (Or.inr (Or.inl ⟨st, b, rfl⟩)) hs1
          by_cases hji : j = i
          · subst hji
            obtain ⟨tp, v', htp, hv', hrec'⟩ := spec_raw_step types s s1 j st b hs1
            rw [hti] at htp
            cases htp
            obtain ⟨cs1, h1⟩ := sim_value_sameK K c j base pre hbmax e e1 s s1 l cs h _ he1' v' hrec'
              (fun si snew hst hadd => hK.raw _ st b si snew v' hst hadd hv')
            exact ⟨l, cs1, h1⟩
          · exact ⟨l, cs, sim_value_otherK K c i base pre e e1 s s1 l cs h j hji _ he1' v hrec⟩
        | real j le =>
          have he1' : valueChange e j (fun ti => addReal ti le) = some e1 := he1
          obtain ⟨_, v, hrec, _⟩ := spec_value_step types s s1 (.real j le) j (Or.inr (Or.inr ⟨le, rfl⟩)) hs1
          by_cases hji : j = i
          · subst hji
            -- the specification accepts a `real` operation only on a real signal, with 8 bytes
            have hfacts : K.tpe = .real ∧ le.length = 8 ∧ (if s.skipping then some s else record s j (.real le)) = some s1 := by
              simp only [Spec.step] at hs1
              split at hs1
              · cases hs1
              · rw [hti] at hs1
                cases hkt : K.tpe with
                | real =>
                  rw [hkt] at hs1
                  simp only at hs1
                  split at hs1
                  · rename_i h8; exact ⟨rfl, h8, hs1⟩
                  · cases hs1
                | string => rw [hkt] at hs1; cases hs1
                | bitvec b => rw [hkt] at hs1; cases hs1
            obtain ⟨hkr, h8, hrec'⟩ := hfacts
            obtain ⟨cs1, h1⟩ := sim_value_sameK K c j base pre hbmax e e1 s s1 l cs h _ he1' (.real le) hrec'
              (fun si snew hst hadd => hK.real _ le si snew hst hkr h8 hadd)
            exact ⟨l, cs1, h1⟩
          · exact ⟨l, cs, sim_value_otherK K c i base pre e e1 s s1 l cs h j hji _ he1' v hrec⟩
        | split => simp [stepOp] at he1


/-! ### from the simulation to the loaded signal -/

theorem spec_skip_step (types : Array SigType) (s s' : Spec.St) (op : Op) (h : Spec.step types s op = some s')
    (hi : s.ttRev = [] → s.skipping = false) : s'.ttRev = [] → s'.skipping = false := by
  have hrec : ∀ j v, (if s.skipping then some s else record s j v) = some s' → (s'.ttRev = [] → s'.skipping = false) := by
    intro j v hh
    split at hh
    · cases hh; exact hi
    · unfold record at hh
      split at hh
      · cases hh; exact hi
      · cases hh
  cases op with
  | time t =>
    simp only [Spec.step] at h
    split at h
    · cases h; intro _; rfl
    · split at h
      · cases h; intro hh; cases hh
      · split at h
        · cases h
        · split at h
          · simp only [Option.some.injEq] at h; subst h
            intro hh; simp_all
          · simp only [Option.some.injEq] at h; subst h
            intro hh; simp_all
  | split =>
    simp only [Spec.step] at h
    split at h <;> (cases h; exact hi)
  | vcd j value r =>
    obtain ⟨_, v, hh, _⟩ := spec_value_step types s s' (.vcd j value r) j (Or.inl ⟨value, r, rfl⟩) h
    exact hrec j v hh
  | raw j st b =>
    obtain ⟨_, v, hh, _⟩ := spec_value_step types s s' (.raw j st b) j (Or.inr (Or.inl ⟨st, b, rfl⟩)) h
    exact hrec j v hh
  | real j le =>
    obtain ⟨_, v, hh, _⟩ := spec_value_step types s s' (.real j le) j (Or.inr (Or.inr ⟨le, rfl⟩)) h
    exact hrec j v hh

theorem spec_skip_fold (types : Array SigType) (ops : List Op) : ∀ (s s' : Spec.St), foldSpec types ops s = some s' →
    (s.ttRev = [] → s.skipping = false) → (s'.ttRev = [] → s'.skipping = false) := by
  induction ops with
  | nil => intro s s' h hi; simp only [foldSpec, List.foldl_nil, Option.some.injEq] at h; subst h; exact hi
  | cons op r ih =>
    intro s s' h hi
    rw [foldSpec_cons] at h
    cases hs : Spec.step types s op with
    | none => rw [hs] at h; cases h
    | some s1 => rw [hs] at h; exact ih s1 s' h (spec_skip_step types s s1 op hs hi)

/-- the changes of signal `i` the specification has recorded, as chunks with absolute time indices -/
def specChunks (K : Kind) (i : Nat) (s : Spec.St) : List Change := ((s.changesRev.getD i []).reverse).map (encVK K)

/-- **one segment** (one encoder, started when the specification has recorded `s.ttLen` time steps): its closed blocks carry
exactly the changes the specification records during the segment, at time indices that continue the specification's count -/
theorem seg_refine (K : Kind) (hK : KindOK K) (c : Codec) (i : Nat) (hbm : 1 ≤ c.blockMax) (hbmax : c.blockMax ≤ 2 ^ 28)
    (tps : List SigType) (hti : tps[i]? = some K.tpe) (s : Spec.St) (hwf : s.ttLen = s.ttRev.length)
    (hnm : s.ttRev = [] ∨ s.needNewMax = true) (hsk : s.ttRev = [] → s.skipping = false)
    (hvals : ∀ x ∈ s.changesRev.getD i [], K.valOK x.2) (seg : List Op)
    (hreal : ∀ op ∈ seg, ∀ j v r, op = .vcd j v (some r) → r.length = 8)
    (e : Enc) (he : runOps c (newEnc tps) seg = some e) (s' : Spec.St) (hs : foldSpec tps.toArray seg s = some s') :
    ∃ lf : List BInfo, (finishBlock c e).blocksRev.reverse = lf.map (fun p => mkBlock c p.1) ∧ (finishBlock c e).hasNewData = false ∧
      (∀ p ∈ lf, SigInBlockK K i p) ∧ specChunks K i s ++ absAll lf s.ttLen = specChunks K i s' ∧
      s'.ttLen = s.ttLen + offOf lf ∧ s'.ttLen = s'.ttRev.length ∧ (∀ x ∈ s'.changesRev.getD i [], K.valOK x.2) := by
  have hskf : (newEnc tps).skipping = s.skipping ∨ ((newEnc tps).timeRev = [] ∧ s.needNewMax = true) := by
    rcases hnm with h | h
    · left; rw [hsk h]; rfl
    · right; exact ⟨rfl, h⟩
  obtain ⟨l, cs, h⟩ := sim_runK K hK c i s.ttLen (specChunks K i s) hbm hbmax tps.toArray (by simpa using hti) seg (newEnc tps) s [] []
    (sim_initK K c i tps hti s hwf hskf hnm hvals) hreal e s' he hs
  obtain ⟨si, hsi, _, hdata, _, _, hkind⟩ := h.sig
  have hlen := h.len
  by_cases hd : e.hasNewData = true
  · refine ⟨l ++ [(descOf e, si, cs)], ?_, ?_, ?_, ?_, ?_, h.wf, h.vals⟩
    · simp only [finishBlock_dirty' c e hd, List.reverse_cons, h.blocks, List.map_append, List.map_cons, List.map_nil]
    · simp [finishBlock_dirty' c e hd]
    · intro p hp
      rcases List.mem_append.mp hp with hp | hp
      · exact h.inblk p hp
      · simp only [List.mem_singleton] at hp; subst hp
        exact ⟨hsi, hdata, h.fits, hkind⟩
    · rw [absAll_append]
      simp only [absAll, List.append_nil, ← List.append_assoc]
      exact h.sem
    · rw [offOf_append]
      have : offOf [(descOf e, si, cs)] = e.timeLen := by
        simp [offOf, descOf, h.inv.len]
      rw [this]; omega
  · have hd' : e.hasNewData = false := by simpa using hd
    have htr : e.timeRev = [] := by
      by_cases ht : e.timeRev = []
      · exact ht
      · have := h.inv.dirty ht; rw [hd'] at this; cases this
    have hl0 : e.timeLen = 0 := by rw [h.inv.len, htr]; rfl
    refine ⟨l, ?_, ?_, h.inblk, ?_, by omega, h.wf, h.vals⟩
    · rw [finishBlock_clean c e hd']; exact h.blocks
    · rw [finishBlock_clean c e hd']; exact hd'
    · have := h.sem
      rw [h.clean hd'] at this
      simp only [absolutise, List.append_nil] at this
      exact this

/-! ### several encoders appended (`Encoder::append`, the multi-threaded load) -/

theorem splitOps_ne_nil (ops : List Op) : splitOps ops ≠ [] := by
  induction ops with
  | nil => simp [splitOps]
  | cons o r ih =>
    cases o <;> simp only [splitOps] <;> (try simp) <;> (split <;> simp)

theorem splitOps_join (ops : List Op) : ∃ sg ss, splitOps ops = sg :: ss ∧ ops = sg ++ joinSegs ss := by
  induction ops with
  | nil => exact ⟨[], [], rfl, rfl⟩
  | cons o r ih =>
    obtain ⟨sg, ss, h1, h2⟩ := ih
    cases o with
    | split => exact ⟨[], sg :: ss, by simp [splitOps, h1], by simp [joinSegs, h2]⟩
    | time t => exact ⟨.time t :: sg, ss, by simp [splitOps, h1], by simp [h2]⟩
    | vcd a b d => exact ⟨.vcd a b d :: sg, ss, by simp [splitOps, h1], by simp [h2]⟩
    | raw a b d => exact ⟨.raw a b d :: sg, ss, by simp [splitOps, h1], by simp [h2]⟩
    | real a b => exact ⟨.real a b :: sg, ss, by simp [splitOps, h1], by simp [h2]⟩

/-- what is known about the encoder the segments so far were appended to -/
structure Out (K : Kind) (c : Codec) (i : Nat) (a : Enc) (s : Spec.St) (L : List BInfo) : Prop where
  blocks : (finishBlock c a).blocksRev.reverse = L.map (fun p => mkBlock c p.1)
  clean : (finishBlock c a).hasNewData = false
  inblk : ∀ p ∈ L, SigInBlockK K i p
  sem : absAll L 0 = specChunks K i s
  len : s.ttLen = offOf L
  wf : s.ttLen = s.ttRev.length
  vals : ∀ x ∈ s.changesRev.getD i [], K.valOK x.2
  skip : s.ttRev = [] → s.skipping = false

theorem finishBlock_idem (c : Codec) (a : Enc) (h : (finishBlock c a).hasNewData = false) :
    finishBlock c (finishBlock c a) = finishBlock c a := finishBlock_clean c _ h

/-- appending one more segment -/
theorem out_step (K : Kind) (hK : KindOK K) (c : Codec) (i : Nat) (hbm : 1 ≤ c.blockMax) (hbmax : c.blockMax ≤ 2 ^ 28)
    (tps : List SigType) (hti : tps[i]? = some K.tpe) (a b a1 : Enc) (s s2 : Spec.St) (L : List BInfo) (seg : List Op)
    (ho : Out K c i a s L) (hreal : ∀ op ∈ seg, ∀ j v r, op = .vcd j v (some r) → r.length = 8)
    (hb : runOps c (newEnc tps) seg = some b) (hap : append c a b = some a1)
    (hs : foldSpec tps.toArray (.split :: seg) s = some s2) :
    ∃ L', Out K c i a1 s2 L' := by
  rw [foldSpec_cons] at hs
  -- the split step of the specification
  have hsplit : ∃ s1, Spec.step tps.toArray s .split = some s1 ∧ s1.ttRev = s.ttRev ∧ s1.ttLen = s.ttLen ∧ s1.skipping = s.skipping ∧
      s1.changesRev = s.changesRev ∧ (s1.ttRev = [] ∨ s1.needNewMax = true) := by
    simp only [Spec.step]
    by_cases he : s.ttRev.isEmpty = true
    · simp only [he, ↓reduceIte]
      exact ⟨s, rfl, rfl, rfl, rfl, rfl, Or.inl (by simpa using he)⟩
    · simp only [he, Bool.false_eq_true, ↓reduceIte]
      exact ⟨_, rfl, rfl, rfl, rfl, rfl, Or.inr rfl⟩
  obtain ⟨s1, hs1, e1, e2, e3, e4, hnm⟩ := hsplit
  rw [hs1] at hs
  simp only [Option.bind_some] at hs
  obtain ⟨lfb, hbl, hbc, hbin, hbsem, hblen, hbwf, hbvals⟩ := seg_refine K hK c i hbm hbmax tps hti s1 (by rw [e2, e1]; exact ho.wf) hnm
    (by rw [e1, e3]; exact ho.skip) (by rw [e4]; exact ho.vals) seg hreal b hb s2 hs
  have hskip2 := spec_skip_fold tps.toArray seg s1 s2 hs (by rw [e1, e3]; exact ho.skip)
  have hchunks1 : specChunks K i s1 = specChunks K i s := by simp [specChunks, e4]
  refine ⟨L ++ lfb, ?_, ?_, ?_, ?_, ?_, hbwf, hbvals, hskip2⟩
  · -- the blocks
    unfold append at hap
    simp only at hap
    cases hbr : (finishBlock c b).blocksRev.reverse with
    | nil =>
      rw [hbr] at hap hbl
      simp only [Option.some.injEq] at hap
      subst hap
      have : lfb = [] := by
        cases lfb with
        | nil => rfl
        | cons x r => simp at hbl
      rw [this, List.append_nil, finishBlock_idem c a ho.clean]
      exact ho.blocks
    | cons bf br =>
      rw [hbr] at hap
      simp only at hap
      cases har : (finishBlock c a).blocksRev with
      | nil =>
        rw [har] at hap
        simp only [Option.some.injEq] at hap
        subst hap
        have hL : L = [] := by
          have := ho.blocks; rw [har] at this
          cases L with
          | nil => rfl
          | cons x r => simp at this
        have hcl : ({ finishBlock c a with blocksRev := (finishBlock c b).blocksRev } : Enc).hasNewData = false := ho.clean
        rw [finishBlock_clean c _ hcl, hL, List.nil_append]
        exact hbl
      | cons al ar =>
        rw [har] at hap
        simp only at hap
        split at hap
        · simp only [Option.some.injEq] at hap
          subst hap
          have hcl : ({ finishBlock c a with blocksRev := (finishBlock c b).blocksRev ++ al :: ar } : Enc).hasNewData = false := ho.clean
          rw [finishBlock_clean c _ hcl]
          simp only [List.reverse_append, List.map_append]
          rw [← hbl, ← ho.blocks, har]
        · cases hap
  · -- clean
    unfold append at hap
    simp only at hap
    cases hbr : (finishBlock c b).blocksRev.reverse with
    | nil =>
      rw [hbr] at hap
      simp only [Option.some.injEq] at hap
      subst hap
      rw [finishBlock_idem c a ho.clean]; exact ho.clean
    | cons bf br =>
      rw [hbr] at hap
      simp only at hap
      cases har : (finishBlock c a).blocksRev with
      | nil =>
        rw [har] at hap
        simp only [Option.some.injEq] at hap
        subst hap
        have hcl : ({ finishBlock c a with blocksRev := (finishBlock c b).blocksRev } : Enc).hasNewData = false := ho.clean
        rw [finishBlock_clean c _ hcl]; exact hcl
      | cons al ar =>
        rw [har] at hap
        simp only at hap
        split at hap
        · simp only [Option.some.injEq] at hap
          subst hap
          have hcl : ({ finishBlock c a with blocksRev := (finishBlock c b).blocksRev ++ al :: ar } : Enc).hasNewData = false := ho.clean
          rw [finishBlock_clean c _ hcl]; exact hcl
        · cases hap
  · intro p hp
    rcases List.mem_append.mp hp with hp | hp
    · exact ho.inblk p hp
    · exact hbin p hp
  · rw [absAll_append, ho.sem, Nat.zero_add, ← ho.len, ← e2, ← hchunks1]
    exact hbsem
  · rw [offOf_append, hblen, e2, ho.len]

theorem out_fold (K : Kind) (hK : KindOK K) (c : Codec) (i : Nat) (hbm : 1 ≤ c.blockMax) (hbmax : c.blockMax ≤ 2 ^ 28)
    (tps : List SigType) (hti : tps[i]? = some K.tpe) (segs : List (List Op)) :
    ∀ (a : Enc) (s : Spec.St) (L : List BInfo) (encs : List Enc), Out K c i a s L →
      (∀ op ∈ joinSegs segs, ∀ j v r, op = .vcd j v (some r) → r.length = 8) →
      segs.mapM (runOps c (newEnc tps)) = some encs →
      ∀ a' s', appendAll c a encs = some a' → foldSpec tps.toArray (joinSegs segs) s = some s' → ∃ L', Out K c i a' s' L' := by
  induction segs with
  | nil =>
    intro a s L encs ho _ hm a' s' ha hs
    simp only [List.mapM_nil, Option.pure_def, Option.some.injEq] at hm
    subst hm
    simp only [appendAll, Option.some.injEq] at ha
    simp only [joinSegs, foldSpec, List.foldl_nil, Option.some.injEq] at hs
    subst ha hs
    exact ⟨L, ho⟩
  | cons seg rest ih =>
    intro a s L encs ho hreal hm a' s' ha hs
    simp only [List.mapM_cons, Option.pure_def, Option.bind_eq_bind] at hm
    cases hb : runOps c (newEnc tps) seg with
    | none => rw [hb] at hm; cases hm
    | some b =>
      rw [hb] at hm
      simp only [Option.bind_some] at hm
      cases hr : rest.mapM (runOps c (newEnc tps)) with
      | none => rw [hr] at hm; cases hm
      | some encs' =>
        rw [hr] at hm
        simp only [Option.bind_some, Option.some.injEq] at hm
        subst hm
        simp only [appendAll] at ha
        cases hap : append c a b with
        | none => rw [hap] at ha; cases ha
        | some a1 =>
          rw [hap] at ha
          simp only at ha
          have hj : joinSegs (seg :: rest) = (.split :: seg) ++ joinSegs rest := by simp [joinSegs]
          rw [hj, foldSpec_append] at hs
          cases hs2 : foldSpec tps.toArray (.split :: seg) s with
          | none => rw [hs2] at hs; cases hs
          | some s2 =>
            rw [hs2] at hs
            simp only [Option.bind_some] at hs
            obtain ⟨L1, ho1⟩ := out_step K hK c i hbm hbmax tps hti a b a1 s s2 L seg ho
              (fun op hop => hreal op (by rw [hj]; exact List.mem_append_left _ (List.mem_cons_of_mem _ hop))) hb hap hs2
            exact ih a1 s2 L1 encs' ho1 (fun op hop => hreal op (by rw [hj]; exact List.mem_append_right _ hop)) hr a' s' ha hs

/-- the loader's accumulator after pushing changes given with absolute time indices -/
def replayAbsK (entry : Change → List Nat) (xs : List Change) (a : Acc) : Acc :=
  xs.foldl (fun a x => a.push x.1 (entry x)) a

theorem replayK_abs (K : Kind) (sigS : States) (cs : List Change) : ∀ (last : Nat) (a : Acc),
    (replayK (K.entry sigS) cs last a).2 = replayAbsK (K.entry sigS) (absolutise last cs) a := by
  induction cs with
  | nil => intro last a; rfl
  | cons x cs ih =>
    intro last a
    simp only [replayK, List.foldl_cons, absolutise, replayAbsK]
    have : K.entry sigS x = K.entry sigS (last + x.1, x.2.1, x.2.2) := K.entry_time sigS x.1 (last + x.1) x.2
    rw [this]
    exact ih (last + x.1) _

theorem replayAbsK_append (entry : Change → List Nat) (a b : List Change) (acc : Acc) :
    replayAbsK entry (a ++ b) acc = replayAbsK entry b (replayAbsK entry a acc) := by
  simp [replayAbsK, List.foldl_append]

theorem replayBlocksK_abs (K : Kind) (sigS : States) (l : List BInfo) : ∀ (off : Nat) (a : Acc),
    replayBlocksK K sigS l off a = replayAbsK (K.entry sigS) (absAll l off) a := by
  induction l with
  | nil => intro off a; rfl
  | cons p r ih =>
    intro off a
    simp only [replayBlocksK, absAll, replayAbsK_append, ih, replayK_abs]

/-- a well-formed value whose kind fits the widest kind of the signal -/
def WFK (K : Kind) (sigS : States) (v : Value) : Prop := K.valOK v ∧ (K.valEnc v).1.toNat ≤ sigS.toNat

theorem replay_goK (K : Kind) (sigS : States) (xs : List (Nat × Value)) :
    ∀ (a : Acc) (pk : Nat) (prev : Value) (er : List (List Nat)), WFK K sigS prev → (∀ x ∈ xs, WFK K sigS x.2) →
      a.entriesRev = K.entry sigS (encVK K (pk, prev)) :: er →
      replayAbsK (K.entry sigS) (xs.map (encVK K)) a =
        { timesRev := ((canon.go prev xs).map (·.1)).reverse ++ a.timesRev,
          entriesRev := ((canon.go prev xs).map (fun x => K.entry sigS (encVK K x))).reverse ++ a.entriesRev } := by
  induction xs with
  | nil => intro a pk prev er _ _ _; simp [replayAbsK, canon.go]
  | cons y r ih =>
    intro a pk prev er hp hx hhead
    have hy := hx y (by simp)
    have hr : ∀ x ∈ r, WFK K sigS x.2 := fun x hxr => hx x (by simp [hxr])
    simp only [List.map_cons, replayAbsK, List.foldl_cons]
    have hpush : a.push (encVK K y).1 (K.entry sigS (encVK K y)) =
        if y.2 = prev then a else { timesRev := y.1 :: a.timesRev, entriesRev := K.entry sigS (encVK K y) :: a.entriesRev } := by
      unfold Acc.push
      rw [hhead]
      simp only
      by_cases hv : y.2 = prev
      · have : K.entry sigS (encVK K (pk, prev)) = K.entry sigS (encVK K y) := by
          rw [← hv]; exact K.entry_time sigS pk y.1 (K.valEnc y.2)
        rw [if_pos this, if_pos hv]
      · have : ¬ K.entry sigS (encVK K (pk, prev)) = K.entry sigS (encVK K y) := by
          intro he
          apply hv
          exact (K.inj sigS pk y.1 prev y.2 hp.1 hy.1 hp.2 hy.2 he).symm
        rw [if_neg this, if_neg hv]
        rfl
    show replayAbsK (K.entry sigS) (r.map (encVK K)) (a.push (encVK K y).1 (K.entry sigS (encVK K y))) = _
    rw [hpush]
    by_cases hv : y.2 = prev
    · simp only [if_pos hv, canon.go]
      exact ih a pk prev er hp hr hhead
    · simp only [if_neg hv, canon.go]
      rw [ih _ y.1 y.2 a.entriesRev hy hr rfl]
      simp

/-- the loader's byte-wise de-duplication is `canon`, for every signal type -/
theorem replay_canonK (K : Kind) (sigS : States) (xs : List (Nat × Value)) (hx : ∀ x ∈ xs, WFK K sigS x.2) :
    (replayAbsK (K.entry sigS) (xs.map (encVK K)) {}).timesRev.reverse = (canon xs).map (·.1) ∧
    (replayAbsK (K.entry sigS) (xs.map (encVK K)) {}).entriesRev.reverse = (canon xs).map (fun x => K.entry sigS (encVK K x)) := by
  cases xs with
  | nil => simp [replayAbsK, canon]
  | cons y r =>
    have hy := hx y (by simp)
    have hr : ∀ x ∈ r, WFK K sigS x.2 := fun x hxr => hx x (by simp [hxr])
    simp only [List.map_cons, replayAbsK, List.foldl_cons]
    have h0 : ({} : Acc).push (encVK K y).1 (K.entry sigS (encVK K y)) =
        { timesRev := [y.1], entriesRev := [K.entry sigS (encVK K y)] } := by
      simp [Acc.push, encVK]
    show (replayAbsK (K.entry sigS) (r.map (encVK K)) (({} : Acc).push (encVK K y).1 (K.entry sigS (encVK K y)))).timesRev.reverse = _ ∧
         (replayAbsK (K.entry sigS) (r.map (encVK K)) (({} : Acc).push (encVK K y).1 (K.entry sigS (encVK K y)))).entriesRev.reverse = _
    rw [h0, replay_goK K sigS r _ y.1 y.2 [] hy hr rfl]
    simp [canon]

/-- **Store with `append` = specification with splits, every signal type**: the encoders of the segments between the splits,
appended in order and finished, load signal `i` as `canon` of the change list the specification records over the whole history -/
theorem store_load_canonK (K : Kind) (hK : KindOK K) (c : Codec) (i : Nat) (hbm : 1 ≤ c.blockMax) (hbmax : c.blockMax ≤ 2 ^ 28)
    (tps : List SigType) (hti : tps[i]? = some K.tpe) (ops : List Op)
    (hreal : ∀ op ∈ ops, ∀ j v r, op = .vcd j v (some r) → r.length = 8)
    (e : Enc) (he : runSegs c tps ops = some e) (s : Spec.St) (hs : foldSpec tps.toArray ops (specInit tps) = some s)
    (hsmall : ∀ b ∈ (finish c e).1.blocks, b.data.length < 2 ^ 36) :
    ∃ sigS, loadSignal (finish c e).1 i K.tpe =
      some { maxStates := sigS,
             times := (canon (s.changesRev.getD i []).reverse).map (·.1),
             entries := (canon (s.changesRev.getD i []).reverse).map (fun x => K.entry sigS (encVK K x)) } ∧
      ∀ x ∈ (s.changesRev.getD i []).reverse, WFK K sigS x.2 := by
  obtain ⟨sg, ss, hsplit, hops⟩ := splitOps_join ops
  unfold runSegs at he
  rw [hsplit] at he
  simp only [List.mapM_cons, Option.pure_def, Option.bind_eq_bind] at he
  cases he0 : runOps c (newEnc tps) sg with
  | none => rw [he0] at he; simp at he
  | some e0 =>
    rw [he0] at he
    simp only [Option.bind_some] at he
    cases hr : ss.mapM (runOps c (newEnc tps)) with
    | none => rw [hr] at he; simp at he
    | some encs =>
      rw [hr] at he
      simp only [Option.bind_some] at he
      rw [hops, foldSpec_append] at hs
      cases hs0 : foldSpec tps.toArray sg (specInit tps) with
      | none => rw [hs0] at hs; cases hs
      | some s0 =>
        rw [hs0] at hs
        simp only [Option.bind_some] at hs
        have hinit : (Array.getD (specInit tps).changesRev i []) = [] := by
          simp [specInit, Array.getD_eq_getD_getElem?, List.getElem?_map]
          cases tps[i]? <;> simp
        obtain ⟨lf0, hb0, hc0, hin0, hsem0, hlen0, hwf0, hvals0⟩ := seg_refine K hK c i hbm hbmax tps hti (specInit tps) rfl (Or.inl rfl)
          (fun _ => rfl) (by rw [hinit]; simp) sg (fun op hop => hreal op (by rw [hops]; exact List.mem_append_left _ hop)) e0 he0 s0 hs0
        have ho0 : Out K c i e0 s0 lf0 := by
          refine ⟨hb0, hc0, hin0, ?_, ?_, hwf0, hvals0, spec_skip_fold tps.toArray sg _ s0 hs0 (fun _ => rfl)⟩
          · have : specChunks K i (specInit tps) = [] := by simp [specChunks, hinit]
            rw [this] at hsem0
            simpa [specInit] using hsem0
          · simpa [specInit] using hlen0
        obtain ⟨Lf, hoF⟩ := out_fold K hK c i hbm hbmax tps hti ss e0 s0 lf0 encs ho0
          (fun op hop => hreal op (by rw [hops]; exact List.mem_append_right _ hop)) hr e s he hs
        -- the finished store
        have hblocks : (finish c e).1.blocks = Lf.map (fun p => mkBlock c p.1) := by simp only [finish]; exact hoF.blocks
        have hfull : ∀ p ∈ Lf, SigInBlockK K i p ∧ divCeil p.2.1.dataBytes.length 32 < 2 ^ 32 := by
          intro p hp
          refine ⟨hoF.inblk p hp, ?_⟩
          have hb : (mkBlock c p.1).data.length < 2 ^ 36 :=
            hsmall _ (by rw [hblocks]; exact List.mem_map.mpr ⟨p, hp, rfl⟩)
          have := payload_le_data c p.1 i p.2.1 (hoF.inblk p hp).1
          unfold divCeil
          omega
        have hload := multi_block_loadK c K i Lf hfull
        have hreader : (finish c e).1 = { blocks := Lf.map fun p => mkBlock c p.1 } := by
          cases hf : (finish c e).1 with
          | mk blocks => rw [hf] at hblocks; simp only at hblocks; rw [hblocks]
        have hsem : absAll Lf 0 = ((s.changesRev.getD i []).reverse).map (encVK K) := hoF.sem
        have hwf : ∀ x ∈ (s.changesRev.getD i []).reverse, WFK K (joinedStates c Lf) x.2 := by
          intro x hx
          refine ⟨hoF.vals x (List.mem_reverse.mp hx), ?_⟩
          have hmem : encVK K x ∈ absAll Lf 0 := by rw [hsem]; exact List.mem_map.mpr ⟨x, hx, rfl⟩
          obtain ⟨p, hp, y, hy, e2⟩ := mem_absAll Lf 0 _ hmem
          have hyk : y.2.1 = (K.valEnc x.2).1 := by rw [← e2]; rfl
          obtain ⟨_, _, _, h4⟩ := hoF.inblk p hp
          have h5 := h4 y hy
          have hne : p.2.2 ≠ [] := by intro hh; rw [hh] at hy; cases hy
          have h6 := joinAll_ge _ _ (mem_metasOf c Lf 0 p hp hne)
          unfold joinedStates
          rw [← hyk]; omega
        obtain ⟨ht, hen⟩ := replay_canonK K (joinedStates c Lf) _ hwf
        refine ⟨joinedStates c Lf, ?_, hwf⟩
        rw [hreader, hload, replayBlocksK_abs, hsem, ht, hen]

/-! ### the four signal types -/

theorem join_two (a : States) : States.join a .two = a := by
  unfold States.join; simp [States.toNat]

theorem foldl_map_pair {α β : Type} (f : α → β) (g : (Nat × Acc) → β → (Nat × Acc)) (cs : List α) (init : Nat × Acc) :
    (cs.map f).foldl g init = cs.foldl (fun st c => g st (f c)) init := by
  rw [List.foldl_map]

/-- strings: LEB128(delta), LEB128(length), bytes -/
def strKind : Kind where
  tpe := .string
  enc1 := fun x => lebWrite x.1 ++ lebWrite x.2.2.length ++ x.2.2
  fit := fun _ => True
  entry := fun _ x => x.2.2
  valEnc := fun v => match v with | .str b => (.two, b) | _ => (.two, [])
  valOK := fun v => ∃ b, v = .str b
  chunk_ne := fun x => by simp [lebWrite_ne_nil]
  load := by
    intro sigS cs h fuel off a hf
    have h1 := loadStrings_stream (cs.map fun x => (x.1, x.2.2))
      (by intro c hc; obtain ⟨x, hx, rfl⟩ := List.mem_map.mp hc; have := (h x hx).2; simp only; omega) fuel off a (by simpa using hf)
    have e1 : encStrings (cs.map fun x => (x.1, x.2.2)) = (cs.map fun x => lebWrite x.1 ++ lebWrite x.2.2.length ++ x.2.2).flatten := by
      simp [encStrings, List.map_map, Function.comp_def]
    simp only [loaderOf]
    rw [← e1, h1]
    simp [replayPlain, replayK, List.foldl_map]
  inj := by
    intro sigS k1 k2 v1 v2 h1 h2 _ _ he
    obtain ⟨b1, rfl⟩ := h1
    obtain ⟨b2, rfl⟩ := h2
    simp only at he
    rw [he]
  entry_time := fun _ _ _ _ => rfl

theorem strKind_ok : KindOK strKind where
  vcd := by
    intro ti value realLe si snew v hst _ hadd hv
    unfold addVcd at hadd
    unfold vcdValue at hv
    cases value with
    | nil => simp at hadd
    | cons c0 rest =>
      have hst' : si.tpe = .string := hst
      simp only [hst'] at hadd
      simp only [strKind] at hv
      split at hadd
      · rename_i hc
        simp only [hc, ↓reduceIte, Option.some.injEq] at hv
        cases hadd
        subst hv
        exact ⟨⟨rest, rfl⟩, trivial, rfl, rfl, hst'.symm, Nat.le_refl _, Nat.zero_le _⟩
      · cases hadd
  real := by
    intro ti le si snew _ hk
    cases hk
  raw := by
    intro ti st bytes si snew v _ _ hv
    simp [rawValue, strKind] at hv

/-- reals: LEB128(delta), the 8 bytes of the double -/
def realKind : Kind where
  tpe := .real
  enc1 := fun x => lebWrite x.1 ++ x.2.2
  fit := fun p => p.2.length = 8
  entry := fun _ x => x.2.2
  valEnc := fun v => match v with | .real le => (.two, le) | _ => (.two, [])
  valOK := fun v => ∃ le, v = .real le ∧ le.length = 8
  chunk_ne := fun x => by simp [lebWrite_ne_nil]
  load := by
    intro sigS cs h fuel off a hf
    have h1 := loadReals_stream (cs.map fun x => (x.1, x.2.2))
      (by intro c hc; obtain ⟨x, hx, rfl⟩ := List.mem_map.mp hc; have := h x hx; simp only; exact ⟨this.1, by omega⟩) fuel off a (by simpa using hf)
    have e1 : encReals (cs.map fun x => (x.1, x.2.2)) = (cs.map fun x => lebWrite x.1 ++ x.2.2).flatten := by
      simp [encReals, List.map_map, Function.comp_def]
    simp only [loaderOf]
    rw [← e1, h1]
    simp [replayPlain, replayK, List.foldl_map]
  inj := by
    intro sigS k1 k2 v1 v2 h1 h2 _ _ he
    obtain ⟨b1, rfl, _⟩ := h1
    obtain ⟨b2, rfl, _⟩ := h2
    simp only at he
    rw [he]
  entry_time := fun _ _ _ _ => rfl

theorem realKind_ok : KindOK realKind where
  vcd := by
    intro ti value realLe si snew v hst h8 hadd hv
    unfold addVcd at hadd
    unfold vcdValue at hv
    cases value with
    | nil => simp at hadd
    | cons c0 rest =>
      have hst' : si.tpe = .real := hst
      simp only [hst'] at hadd
      simp only [realKind] at hv
      split at hadd
      · rename_i hc
        simp only [hc, ↓reduceIte] at hv
        cases realLe with
        | none => cases hadd
        | some le =>
          simp only [Option.map_some, Option.some.injEq] at hv
          cases hadd
          subst hv
          exact ⟨⟨le, rfl, h8 le rfl⟩, h8 le rfl, rfl, rfl, hst'.symm, Nat.le_refl _, Nat.zero_le _⟩
      · cases hadd
  real := by
    intro ti le si snew _ _ h8 hadd
    simp only [addReal, Option.some.injEq] at hadd
    subst hadd
    exact ⟨⟨le, rfl, h8⟩, h8, rfl, rfl, rfl, Nat.le_refl _, Nat.zero_le _⟩
  raw := by
    intro ti st bytes si snew v _ _ hv
    simp [rawValue, realKind] at hv


theorem oneBitEntry_inj : ∀ a b : Fin 9, oneBitEntry a.val = oneBitEntry b.val → a = b := by decide +kernel

/-- one-bit signals: LEB128(delta << 4 + value) -/
def bitKind : Kind where
  tpe := .bitvec 1
  enc1 := fun x => lebWrite ((x.1 <<< 4) + x.2.2.headD 0)
  fit := fun p => p.2.headD 0 < 9
  entry := fun _ x => oneBitEntry (x.2.2.headD 0)
  valEnc := fun v => match v with | .bits syms => (States.fromValue (syms.headD 0), [syms.headD 0]) | _ => (.two, [])
  valOK := fun v => ∃ b, v = .bits [b] ∧ b < 9
  chunk_ne := fun x => lebWrite_ne_nil _
  load := by
    intro sigS cs h fuel off a hf
    have h1 := loadFixed_stream_onebit sigS (cs.map fun x => (x.1, x.2.2.headD 0))
      (by
        intro c hc
        obtain ⟨x, hx, rfl⟩ := List.mem_map.mp hc
        obtain ⟨h9, hd⟩ := h x hx
        simp only
        have h9' : x.2.2.headD 0 < 9 := h9
        refine ⟨by omega, ?_⟩
        rw [Nat.shiftLeft_eq]
        omega) fuel off a (by simpa using hf)
    have e1 : encOneBit (cs.map fun x => (x.1, x.2.2.headD 0)) = (cs.map fun x => lebWrite ((x.1 <<< 4) + x.2.2.headD 0)).flatten := by
      simp [encOneBit, List.map_map, Function.comp_def]
    simp only [loaderOf]
    rw [← e1, h1]
    simp [replayOneBit, replayK, List.foldl_map]
  inj := by
    intro sigS k1 k2 v1 v2 h1 h2 _ _ he
    obtain ⟨b1, rfl, hb1⟩ := h1
    obtain ⟨b2, rfl, hb2⟩ := h2
    simp only [List.headD_cons] at he
    have := oneBitEntry_inj ⟨b1, hb1⟩ ⟨b2, hb2⟩ he
    simp only [Fin.mk.injEq] at this
    rw [this]
  entry_time := fun _ _ _ _ => rfl

theorem bitKind_ok : KindOK bitKind where
  vcd := by
    intro ti value realLe si snew v hst _ hadd hv
    have hst' : si.tpe = .bitvec 1 := hst
    unfold addVcd at hadd
    unfold vcdValue at hv
    cases value with
    | nil => simp at hadd
    | cons c0 rest =>
      simp only [hst', ↓reduceIte] at hadd
      simp only [bitKind, ↓reduceIte] at hv
      generalize hvb : (if (if c0 = 98 ∨ c0 = 66 then rest else c0 :: rest).length ≤ 2 then (if c0 = 98 ∨ c0 = 66 then rest else c0 :: rest)
          else if List.take 2 (if c0 = 98 ∨ c0 = 66 then rest else c0 :: rest) = [48, 98] then List.drop 2 (if c0 = 98 ∨ c0 = 66 then rest else c0 :: rest)
          else (if c0 = 98 ∨ c0 = 66 then rest else c0 :: rest)) = vb at hadd hv
      cases vb with
      | nil => simp at hadd
      | cons ch r =>
        simp only at hadd
        cases hc : bitCharToNum ch with
        | none => simp [hc] at hadd
        | some bv =>
          simp only [hc] at hadd
          cases hadd
          have hlt : bv < 9 := charsToNums_lt [ch] [bv] (by simp [charsToNums, hc]) bv (by simp)
          simp only [charsToNums, hc] at hv
          cases hr : charsToNums r with
          | none => simp [hr] at hv
          | some vs =>
            simp only [hr, Option.some.injEq] at hv
            subst hv
            exact ⟨⟨bv, rfl, hlt⟩, hlt, rfl, rfl, hst'.symm, join_ge_left _ _, join_ge_right _ _⟩
  real := by
    intro ti le si snew _ hk
    cases hk
  raw := by
    intro ti st bytes si snew v hst hadd hv
    have hst' : si.tpe = .bitvec 1 := hst
    unfold addNBit at hadd
    simp only [hst', ↓reduceIte, Option.some.injEq] at hadd
    simp only [rawValue, bitKind, ↓reduceIte] at hv
    cases bytes with
    | nil => simp at hv
    | cons b r =>
      cases r with
      | cons _ _ => simp at hv
      | nil =>
        simp only at hv
        split at hv
        · rename_i hb
          simp only [Option.some.injEq] at hv
          subst hv hadd
          refine ⟨⟨b, rfl, hb.1⟩, hb.1, rfl, rfl, hst'.symm, join_ge_left _ _, ?_⟩
          have key : ∀ (b : Fin 9), (b.val ≤ States.two.mask → (States.fromValue b.val).toNat ≤ States.two.toNat) ∧
              (b.val ≤ States.four.mask → (States.fromValue b.val).toNat ≤ States.four.toNat) ∧
              ((States.fromValue b.val).toNat ≤ States.nine.toNat) := by decide +kernel
          have hk := key ⟨b, hb.1⟩
          have : (States.fromValue b).toNat ≤ st.toNat := by
            cases st with
            | two => exact hk.1 hb.2
            | four => exact hk.2.1 hb.2
            | nine => exact hk.2.2
          exact Nat.le_trans this (join_ge_right _ _)
        · cases hv

/-- vectors of two or more bits: LEB128(delta << 2 | kind), packed symbols -/
def vecKind (bits : Nat) (hb2 : 2 ≤ bits) : Kind where
  tpe := .bitvec bits
  enc1 := fun x => encChange x.1 x.2.1 x.2.2
  fit := fun p => p.2.length = divCeil bits p.1.bib
  entry := fun sigS x => alignEntry sigS x.2.1 bits x.2.2
  valEnc := fun v => match v with | .bits syms => (kindOf syms, writeNState (kindOf syms) syms none) | _ => (.two, [])
  valOK := fun v => ∃ syms, v = .bits syms ∧ syms.length = bits ∧ ∀ u ∈ syms, u < 2 ^ (kindOf syms).bits
  chunk_ne := fun x => by simp [encChange, lebWrite_ne_nil]
  load := by
    intro sigS cs h fuel off a hf
    have h1 := loadFixed_stream bits (by omega) sigS cs
      (fun x hx => ⟨(h x hx).1, hdr_bound x.1 x.2.1 (by have := (h x hx).2; omega)⟩) fuel off a hf
    simp only [loaderOf]
    have e1 : encStream cs = (cs.map fun x => encChange x.1 x.2.1 x.2.2).flatten := rfl
    rw [← e1, h1]
    rfl
  inj := by
    intro sigS k1 k2 v1 v2 h1 h2 hle1 hle2 he
    obtain ⟨s1, rfl, hl1, hv1⟩ := h1
    obtain ⟨s2, rfl, hl2, hv2⟩ := h2
    simp only at he hle1 hle2
    rw [← hl1] at he
    have he' : alignEntry sigS (kindOf s1) s1.length (writeNState (kindOf s1) s1 none) =
        alignEntry sigS (kindOf s2) s2.length (writeNState (kindOf s2) s2 none) := by
      rw [he]; congr 1; omega
    have := entry_injective sigS (kindOf s1) (kindOf s2) s1 s2 (by omega) (by omega) hv1 hv2 hle1 hle2 he'
    rw [this.2]
  entry_time := fun _ _ _ _ => rfl

theorem vecKind_ok (bits : Nat) (hb2 : 2 ≤ bits) : KindOK (vecKind bits hb2) where
  vcd := by
    intro ti value realLe si snew v hst _ hadd hv
    obtain ⟨nums, hvn, hnl, hfit, hch, hpn, htn, hmx⟩ := addVcd_value ti value realLe si snew bits hst (by omega) hadd v hv
    subst hvn
    refine ⟨⟨nums, rfl, hnl, hfit⟩, ?_, hch, hpn, htn, by rw [hmx]; exact join_ge_left _ _, by rw [hmx]; exact join_ge_right _ _⟩
    show (writeNState (kindOf nums) nums none).length = divCeil bits (kindOf nums).bib
    rw [Wellen.Store.writeNState_length, hnl]
  real := by
    intro ti le si snew _ hk
    cases hk
  raw := by
    intro ti st bytes si snew v hst hadd hv
    obtain ⟨syms, hvn, hsl, hfit, hch, hpn, htn, hm1, hm2⟩ := addNBit_value ti bytes st si snew bits hst (by omega) hadd v hv
    subst hvn
    refine ⟨⟨syms, rfl, hsl, hfit⟩, ?_, hch, hpn, htn, hm1, hm2⟩
    show (writeNState (kindOf syms) syms none).length = divCeil bits (kindOf syms).bib
    rw [Wellen.Store.writeNState_length, hsl]

/-- the description of a signal type -/
def kindFor (tpe : SigType) (h : ∀ b, tpe = .bitvec b → 1 ≤ b) : Kind :=
  match tpe, h with
  | .string, _ => strKind
  | .real, _ => realKind
  | .bitvec b, h => if h1 : b = 1 then bitKind else vecKind b (by have := h b rfl; omega)

theorem kindFor_tpe (tpe : SigType) (h : ∀ b, tpe = .bitvec b → 1 ≤ b) : (kindFor tpe h).tpe = tpe := by
  cases tpe with
  | string => rfl
  | real => rfl
  | bitvec b =>
    simp only [kindFor]
    split
    · rename_i h1; subst h1; rfl
    · rfl

theorem kindFor_ok (tpe : SigType) (h : ∀ b, tpe = .bitvec b → 1 ≤ b) : KindOK (kindFor tpe h) := by
  cases tpe with
  | string => exact strKind_ok
  | real => exact realKind_ok
  | bitvec b =>
    simp only [kindFor]
    split
    · exact bitKind_ok
    · exact vecKind_ok b _

end Wellen.Store
