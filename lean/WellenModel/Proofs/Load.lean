import WellenModel.Model.Load
namespace Wellen.Load

variable {σ : Type}

theorem mem_insertUniq (x y : Nat) (l : List Nat) : y ∈ insertUniq x l ↔ y = x ∨ y ∈ l := by
  induction l with
  | nil => simp [insertUniq]
  | cons a r ih =>
    simp only [insertUniq]
    split
    · simp
    · split
      · rename_i h1 h2; subst h2; simp
      · simp only [List.mem_cons, ih]
        constructor
        · rintro (h | h | h) <;> simp [h]
        · rintro (h | h | h) <;> simp [h]

theorem mem_sortDedup (y : Nat) (ids : List Nat) : y ∈ sortDedup ids ↔ y ∈ ids := by
  unfold sortDedup
  suffices h : ∀ acc, y ∈ ids.foldl (fun acc x => insertUniq x acc) acc ↔ y ∈ acc ∨ y ∈ ids by
    simpa using h []
  induction ids with
  | nil => intro acc; simp
  | cons a r ih =>
    intro acc
    simp only [List.foldl_cons, ih, mem_insertUniq, List.mem_cons]
    constructor
    · rintro ((h | h) | h) <;> simp [h]
    · rintro (h | h | h) <;> simp [h]

theorem insertUniq_sorted (x : Nat) (l : List Nat) (h : l.Pairwise (· < ·)) :
    (insertUniq x l).Pairwise (· < ·) := by
  induction l with
  | nil => simp [insertUniq]
  | cons a r ih =>
    simp only [insertUniq]
    have hr := (List.pairwise_cons.mp h)
    split
    · rename_i hlt
      refine List.pairwise_cons.mpr ⟨?_, h⟩
      intro b hb
      rcases List.mem_cons.mp hb with rfl | hb
      · exact hlt
      · have := hr.1 b hb; omega
    · split
      · exact h
      · rename_i h1 h2
        refine List.pairwise_cons.mpr ⟨?_, ih hr.2⟩
        intro b hb
        rcases (mem_insertUniq x b r).mp hb with rfl | hb
        · omega
        · exact hr.1 b hb

/-- exactly one entry per distinct requested id, in increasing order -/
theorem sortDedup_sorted (ids : List Nat) : (sortDedup ids).Pairwise (· < ·) := by
  unfold sortDedup
  suffices h : ∀ acc : List Nat, acc.Pairwise (· < ·) →
      (ids.foldl (fun acc x => insertUniq x acc) acc).Pairwise (· < ·) by
    exact h [] List.Pairwise.nil
  induction ids with
  | nil => intro acc h; exact h
  | cons a r ih => intro acc h; exact ih _ (insertUniq_sorted a acc h)

theorem zip_map_self (l : List Nat) (h : Nat → σ) :
    (l.zip (l.map h)) = l.map fun x => (x, h x) := by
  induction l with
  | nil => rfl
  | cons a r ih => simp [ih]

/-- **`SignalSource::load_signals`** returns, for the sorted distinct ids, each id with its content —
a function of the id alone: independent of the other ids, their order and repetitions -/
theorem loadSignals_spec (src : Source σ) (ids : List Nat) :
    src.loadSignals ids = (sortDedup ids).map fun id => (id, src.content id) := by
  unfold Source.loadSignals Source.content
  simp only [List.map_map, zip_map_self]
  apply List.map_congr_left
  intro id _
  simp only [Function.comp]
  cases src.aliasOf id with
  | none => rfl
  | some p => obtain ⟨a, b, c⟩ := p; rfl

theorem foldl_update_insert (src : Source σ) (l : List Nat) (w : Nat → Option σ) (i : Nat) :
    (l.map fun id => (id, src.content id)).foldl (fun m p => update m p.1 (some p.2)) w i =
      if i ∈ l then some (src.content i) else w i := by
  induction l generalizing w with
  | nil => simp
  | cons a r ih =>
    simp only [List.map_cons, List.foldl_cons, ih, List.mem_cons]
    by_cases h1 : i ∈ r
    · simp [h1]
    · simp only [h1, ↓reduceIte, or_false, update]
      by_cases h2 : i = a
      · simp [h2]
      · simp [h2]

theorem foldl_update_erase (l : List Nat) (w : Nat → Option σ) (i : Nat) :
    l.foldl (fun m id => update m id none) w i = if i ∈ l then none else w i := by
  induction l generalizing w with
  | nil => simp
  | cons a r ih =>
    simp only [List.foldl_cons, ih, List.mem_cons]
    by_cases h1 : i ∈ r
    · simp [h1]
    · simp only [h1, ↓reduceIte, or_false, update]

/-- the refinement invariant: the map holds exactly the abstract set, each id with its content -/
def Refines (src : Source σ) (w : Nat → Option σ) (s : Nat → Bool) : Prop :=
  ∀ i, w i = if s i then some (src.content i) else none

theorem step_refines (src : Source σ) (w : Nat → Option σ) (s : Nat → Bool) (op : Op)
    (h : Refines src w s) : Refines src (stepW src w op) (stepS s op) := by
  intro i
  cases op with
  | load ids =>
    simp only [stepW, stepS, loadSignals_spec, foldl_update_insert, mem_sortDedup, List.mem_filter]
    have hi := h i
    by_cases hs : s i = true
    · simp [hs] at hi ⊢
      try simp [hi]
    · have hs' : s i = false := by simpa using hs
      simp [hs'] at hi ⊢
      by_cases hm : i ∈ ids
      · simp [hm, hi]
      · simp [hm, hi]
  | unload ids =>
    simp only [stepW, stepS, foldl_update_erase]
    have hi := h i
    by_cases hm : i ∈ ids
    · simp [hm]
    · simp [hm, hi]

theorem run_refines (src : Source σ) (ops : List Op) : ∀ (w : Nat → Option σ) (s : Nat → Bool),
    Refines src w s → Refines src (ops.foldl (stepW src) w) (ops.foldl stepS s) := by
  induction ops with
  | nil => intro w s h; exact h
  | cons op r ih => intro w s h; exact ih _ _ (step_refines src w s op h)

end Wellen.Load
