import WellenModel.Model.Store
/-!
Block level: the offset table `finish_block` writes lets `Block::get_offset_and_length` cut every signal's bytes back
out of the block data, for every number of signals and every mix of signals with and without data.
-/
namespace Wellen.Store

/-- offsets of the payloads `ds` laid out one after the other, starting at offset `k` -/
def layoutOffsets (k : Nat) : List (Option (List Nat)) → List (Option Nat)
  | [] => []
  | none :: r => none :: layoutOffsets k r
  | some d :: r => some k :: layoutOffsets (k + d.length) r

def layoutData (ds : List (Option (List Nat))) : List Nat := (ds.filterMap id).flatten

theorem layoutOffsets_length (k : Nat) (ds : List (Option (List Nat))) : (layoutOffsets k ds).length = ds.length := by
  induction ds generalizing k with
  | nil => rfl
  | cons d r ih => cases d <;> simp [layoutOffsets, ih]

/-- every offset handed out from `k` on is at least `k` -/
theorem layoutOffsets_ge (k : Nat) (ds : List (Option (List Nat))) : ∀ o, (layoutOffsets k ds).findSome? (fun o => o) = some o → k ≤ o := by
  induction ds generalizing k with
  | nil => intro o h; simp [layoutOffsets] at h
  | cons d r ih =>
    intro o h
    cases d with
    | none => simp only [layoutOffsets, List.findSome?_cons] at h; exact ih k o h
    | some d => simp only [layoutOffsets, List.findSome?_cons] at h; cases h; exact Nat.le_refl _

/-- the first offset after a run of payloads is the start plus their total length, when some later signal has data -/
theorem layoutOffsets_next (k : Nat) (ds : List (Option (List Nat))) :
    ((layoutOffsets k ds).findSome? (fun o => o)).getD (k + (layoutData ds).length) ≤ k + (layoutData ds).length ∧
    (∀ o, (layoutOffsets k ds).findSome? (fun o => o) = some o → o = k) := by
  induction ds generalizing k with
  | nil => simp [layoutOffsets, layoutData]
  | cons d r ih =>
    cases d with
    | none =>
      simp only [layoutOffsets, List.findSome?_cons, layoutData, List.filterMap_cons, id]
      exact ih k
    | some d =>
      simp only [layoutOffsets, List.findSome?_cons, layoutData, List.filterMap_cons, id, Option.getD_some]
      constructor
      · omega
      · intro o h; cases h; rfl

/-- **the slice selected by an offset entry is the payload that was written**: `ds[i] = some d` ⇒ the bytes from its offset up to
the next offset (or the end of the data) are exactly `d` -/
theorem layout_slice (ds : List (Option (List Nat))) : ∀ (k i : Nat) (d : List Nat), ds[i]? = some (some d) →
    ∃ o, (layoutOffsets k ds)[i]? = some (some o) ∧ k ≤ o ∧
      let next := (((layoutOffsets k ds).drop (i + 1)).findSome? (fun o => o)).getD (k + (layoutData ds).length)
      ((layoutData ds).drop (o - k)).take (next - o) = d := by
  induction ds with
  | nil => intro k i d h; simp at h
  | cons x r ih =>
    intro k i d h
    cases i with
    | zero =>
      simp only [List.getElem?_cons_zero, Option.some.injEq] at h
      subst h
      refine ⟨k, by simp [layoutOffsets], Nat.le_refl _, ?_⟩
      simp only [layoutOffsets, Nat.zero_add, List.drop_succ_cons, List.drop_zero, layoutData, List.filterMap_cons, id,
        List.flatten_cons, List.length_append, Nat.sub_self]
      have hn := layoutOffsets_next (k + d.length) r
      cases hf : (layoutOffsets (k + d.length) r).findSome? (fun o => o) with
      | none =>
        simp only [Option.getD_none]
        -- no later signal has data: the rest of the block is empty
        have hempty : (layoutData r) = [] := by
          have hr : ∀ (k : Nat) (r : List (Option (List Nat))), (layoutOffsets k r).findSome? (fun o => o) = none → layoutData r = [] := by
            intro k r
            induction r generalizing k with
            | nil => intro _; rfl
            | cons y r ih2 =>
              intro hy
              cases y with
              | none => simp only [layoutOffsets, List.findSome?_cons] at hy; simpa [layoutData] using ih2 k hy
              | some y => simp [layoutOffsets] at hy
          exact hr _ r hf
        have hX : (List.filterMap id r).flatten = [] := hempty
        rw [hX]; simp
      | some o =>
        have ho := hn.2 o hf
        subst ho
        simp only [Option.getD_some]
        have : k + d.length - k = d.length := by omega
        rw [this]; simp
    | succ i =>
      simp only [List.getElem?_cons_succ] at h
      cases x with
      | none =>
        obtain ⟨o, h1, h2, h3⟩ := ih k i d h
        refine ⟨o, by simpa [layoutOffsets] using h1, h2, ?_⟩
        simpa [layoutOffsets, layoutData] using h3
      | some y =>
        obtain ⟨o, h1, h2, h3⟩ := ih (k + y.length) i d h
        refine ⟨o, by simpa [layoutOffsets] using h1, by omega, ?_⟩
        simp only [layoutOffsets, List.drop_succ_cons, layoutData, List.filterMap_cons, id, List.flatten_cons, List.length_append] at h3 ⊢
        have e1 : k + (y.length + (List.filterMap id r).flatten.length) = k + y.length + (List.filterMap id r).flatten.length := by omega
        rw [e1]
        have e2 : o - k = y.length + (o - (k + y.length)) := by omega
        rw [e2, List.drop_append]
        have hd : List.drop (y.length + (o - (k + y.length))) y = [] := List.drop_eq_nil_of_le (by omega)
        have hz : y.length + (o - (k + y.length)) - y.length = o - (k + y.length) := by omega
        rw [hd, hz, List.nil_append]; exact h3

/-- the loop of `finish_block` computes exactly this layout -/
theorem finishStep_foldl (c : Codec) (l : List SigEnc) : ∀ (acc : Array SigEnc × List (Option Nat) × List (List Nat) × Nat),
    let r := l.foldl (finishStep c) acc
    let ds := l.map fun s => (finishSignal c s).2
    r.2.1 = (layoutOffsets acc.2.2.2 ds).reverse ++ acc.2.1 ∧
    r.2.2.1 = (ds.filterMap id).reverse ++ acc.2.2.1 := by
  induction l with
  | nil => intro acc; simp [layoutOffsets]
  | cons s l ih =>
    intro acc
    simp only [List.foldl_cons, List.map_cons]
    have h := ih (finishStep c acc s)
    simp only at h
    cases hf : finishSignal c s with
    | mk s' od =>
      cases od with
      | none =>
        simp only [finishStep, hf] at h ⊢
        simp only [layoutOffsets, List.filterMap_cons, id, List.reverse_cons, List.append_assoc, List.singleton_append]
        exact h
      | some d =>
        simp only [finishStep, hf] at h ⊢
        simp only [layoutOffsets, List.filterMap_cons, id, List.reverse_cons, List.append_assoc, List.singleton_append]
        exact h

theorem finishSignals_layout (c : Codec) (signals : Array SigEnc) :
    let ds := signals.toList.map fun s => (finishSignal c s).2
    (finishSignals c signals).2.1 = layoutOffsets 0 ds ∧ (finishSignals c signals).2.2 = layoutData ds := by
  simp only [finishSignals]
  rw [← Array.foldl_toList]
  have h := finishStep_foldl c signals.toList (#[], [], [], 0)
  simp only at h
  rw [h.1, h.2]
  simp [layoutData]

/-- **`get_offset_and_length` finds every signal's payload in the block `finish_block` builds**, for every number of signals -/
theorem block_slice (c : Codec) (signals : Array SigEnc) (i : Nat) (d : List Nat)
    (hd : (signals.toList.map fun s => (finishSignal c s).2)[i]? = some (some d)) :
    let r := finishSignals c signals
    let b : Block := { startTime := 0, timeTable := [], offsets := r.2.1, data := r.2.2 }
    ∃ off len, b.offsetAndLength i = some (off, len) ∧ (b.data.drop off).take len = d := by
  obtain ⟨h1, h2⟩ := finishSignals_layout c signals
  obtain ⟨o, ho, _, hs⟩ := layout_slice _ 0 i d hd
  simp only at h1 h2 hs ⊢
  generalize hds : (signals.toList.map fun s => (finishSignal c s).2) = ds at h1 h2 ho hs
  refine ⟨o, ((List.findSome? (fun o => o) (List.drop (i + 1) (layoutOffsets 0 ds))).getD (layoutData ds).length) - o, ?_, ?_⟩
  · simp only [Block.offsetAndLength, h1, h2]
    rw [List.getD_eq_getElem?_getD, ho]
    rfl
  · rw [h2]
    simpa using hs

end Wellen.Store
