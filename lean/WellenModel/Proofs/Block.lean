import WellenModel.Model.Store
import WellenModel.Proofs.Stream
/-!
Block level: the offset table `finish_block` writes lets `Block::get_offset_and_length` cut every signal's bytes back
out of the block data, for every number of signals and every mix of signals with and without data.
-/
namespace Wellen.Store

/-- offsets of the payloads `ds` laid out one after the other, starting at offset `k` -/
def layoutOffsets (k : Nat) : List (Option (List Nat)) → List (Option Nat)
  | [] => []
  | none :: r => none :: layoutOffsets k r
  | some d :: r => some k :: layoutOffsets (k + d.length) r

def layoutData (ds : List (Option (List Nat))) : List Nat := (ds.filterMap id).flatten

theorem layoutOffsets_length (k : Nat) (ds : List (Option (List Nat))) : (layoutOffsets k ds).length = ds.length := by
  induction ds generalizing k with
  | nil => rfl
  | cons d r ih => cases d <;> simp [layoutOffsets, ih]

/-- every offset handed out from `k` on is at least `k` -/
theorem layoutOffsets_ge (k : Nat) (ds : List (Option (List Nat))) : ∀ o, (layoutOffsets k ds).findSome? (fun o => o) = some o → k ≤ o := by
  induction ds generalizing k with
  | nil => intro o h; simp [layoutOffsets] at h
  | cons d r ih =>
    intro o h
    cases d with
    | none => simp only [layoutOffsets, List.findSome?_cons] at h; exact ih k o h
    | some d => simp only [layoutOffsets, List.findSome?_cons] at h; cases h; exact Nat.le_refl _

/-- the first offset after a run of payloads is the start plus their total length, when some later signal has data -/
theorem layoutOffsets_next (k : Nat) (ds : List (Option (List Nat))) :
    ((layoutOffsets k ds).findSome? (fun o => o)).getD (k + (layoutData ds).length) ≤ k + (layoutData ds).length ∧
    (∀ o, (layoutOffsets k ds).findSome? (fun o => o) = some o → o = k) := by
  induction ds generalizing k with
  | nil => simp [layoutOffsets, layoutData]
  | cons d r ih =>
    cases d with
    | none =>
      simp only [layoutOffsets, List.findSome?_cons, layoutData, List.filterMap_cons, id]
      exact ih k
    | some d =>
      simp only [layoutOffsets, List.findSome?_cons, layoutData, List.filterMap_cons, id, Option.getD_some]
      constructor
      · omega
      · intro o h; cases h; rfl

/-- **the slice selected by an offset entry is the payload that was written**: `ds[i] = some d` ⇒ the bytes from its offset up to
the next offset (or the end of the data) are exactly `d` -/
theorem layout_slice (ds : List (Option (List Nat))) : ∀ (k i : Nat) (d : List Nat), ds[i]? = some (some d) →
    ∃ o, (layoutOffsets k ds)[i]? = some (some o) ∧ k ≤ o ∧
      let next := (((layoutOffsets k ds).drop (i + 1)).findSome? (fun o => o)).getD (k + (layoutData ds).length)
      ((layoutData ds).drop (o - k)).take (next - o) = d := by
  induction ds with
  | nil => intro k i d h; simp at h
  | cons x r ih =>
    intro k i d h
    cases i with
    | zero =>
      simp only [List.getElem?_cons_zero, Option.some.injEq] at h
      subst h
      refine ⟨k, by simp [layoutOffsets], Nat.le_refl _, ?_⟩
      simp only [layoutOffsets, Nat.zero_add, List.drop_succ_cons, List.drop_zero, layoutData, List.filterMap_cons, id,
        List.flatten_cons, List.length_append, Nat.sub_self]
      have hn := layoutOffsets_next (k + d.length) r
      cases hf : (layoutOffsets (k + d.length) r).findSome? (fun o => o) with
      | none =>
        simp only [Option.getD_none]
        -- no later signal has data: the rest of the block is empty
        have hempty : (layoutData r) = [] := by
          have hr : ∀ (k : Nat) (r : List (Option (List Nat))), (layoutOffsets k r).findSome? (fun o => o) = none → layoutData r = [] := by
            intro k r
            induction r generalizing k with
            | nil => intro _; rfl
            | cons y r ih2 =>
              intro hy
              cases y with
              | none => simp only [layoutOffsets, List.findSome?_cons] at hy; simpa [layoutData] using ih2 k hy
              | some y => simp [layoutOffsets] at hy
          exact hr _ r hf
        have hX : (List.filterMap id r).flatten = [] := hempty
        rw [hX]; simp
      | some o =>
        have ho := hn.2 o hf
        subst ho
        simp only [Option.getD_some]
        have : k + d.length - k = d.length := by omega
        rw [this]; simp
    | succ i =>
      simp only [List.getElem?_cons_succ] at h
      cases x with
      | none =>
        obtain ⟨o, h1, h2, h3⟩ := ih k i d h
        refine ⟨o, by simpa [layoutOffsets] using h1, h2, ?_⟩
        simpa [layoutOffsets, layoutData] using h3
      | some y =>
        obtain ⟨o, h1, h2, h3⟩ := ih (k + y.length) i d h
        refine ⟨o, by simpa [layoutOffsets] using h1, by omega, ?_⟩
        simp only [layoutOffsets, List.drop_succ_cons, layoutData, List.filterMap_cons, id, List.flatten_cons, List.length_append] at h3 ⊢
        have e1 : k + (y.length + (List.filterMap id r).flatten.length) = k + y.length + (List.filterMap id r).flatten.length := by omega
        rw [e1]
        have e2 : o - k = y.length + (o - (k + y.length)) := by omega
        rw [e2, List.drop_append]
        have hd : List.drop (y.length + (o - (k + y.length))) y = [] := List.drop_eq_nil_of_le (by omega)
        have hz : y.length + (o - (k + y.length)) - y.length = o - (k + y.length) := by omega
        rw [hd, hz, List.nil_append]; exact h3

/-- the loop of `finish_block` computes exactly this layout -/
theorem finishStep_foldl (c : Codec) (l : List SigEnc) : ∀ (acc : Array SigEnc × List (Option Nat) × List (List Nat) × Nat),
    let r := l.foldl (finishStep c) acc
    let ds := l.map fun s => (finishSignal c s).2
    r.2.1 = (layoutOffsets acc.2.2.2 ds).reverse ++ acc.2.1 ∧
    r.2.2.1 = (ds.filterMap id).reverse ++ acc.2.2.1 := by
  induction l with
  | nil => intro acc; simp [layoutOffsets]
  | cons s l ih =>
    intro acc
    simp only [List.foldl_cons, List.map_cons]
    have h := ih (finishStep c acc s)
    simp only at h
    cases hf : finishSignal c s with
    | mk s' od =>
      cases od with
      | none =>
        simp only [finishStep, hf] at h ⊢
        simp only [layoutOffsets, List.filterMap_cons, id, List.reverse_cons, List.append_assoc, List.singleton_append]
        exact h
      | some d =>
        simp only [finishStep, hf] at h ⊢
        simp only [layoutOffsets, List.filterMap_cons, id, List.reverse_cons, List.append_assoc, List.singleton_append]
        exact h

theorem finishSignals_layout (c : Codec) (signals : Array SigEnc) :
    let ds := signals.toList.map fun s => (finishSignal c s).2
    (finishSignals c signals).2.1 = layoutOffsets 0 ds ∧ (finishSignals c signals).2.2 = layoutData ds := by
  simp only [finishSignals]
  rw [← Array.foldl_toList]
  have h := finishStep_foldl c signals.toList (#[], [], [], 0)
  simp only at h
  rw [h.1, h.2]
  simp [layoutData]

/-- **`get_offset_and_length` finds every signal's payload in the block `finish_block` builds**, for every number of signals -/
theorem block_slice (c : Codec) (signals : Array SigEnc) (i : Nat) (d : List Nat)
    (hd : (signals.toList.map fun s => (finishSignal c s).2)[i]? = some (some d)) :
    let r := finishSignals c signals
    let b : Block := { startTime := 0, timeTable := [], offsets := r.2.1, data := r.2.2 }
    ∃ off len, b.offsetAndLength i = some (off, len) ∧ (b.data.drop off).take len = d := by
  obtain ⟨h1, h2⟩ := finishSignals_layout c signals
  obtain ⟨o, ho, _, hs⟩ := layout_slice _ 0 i d hd
  simp only at h1 h2 hs ⊢
  generalize hds : (signals.toList.map fun s => (finishSignal c s).2) = ds at h1 h2 ho hs
  refine ⟨o, ((List.findSome? (fun o => o) (List.drop (i + 1) (layoutOffsets 0 ds))).getD (layoutData ds).length) - o, ?_, ?_⟩
  · simp only [Block.offsetAndLength, h1, h2]
    rw [List.getD_eq_getElem?_getD, ho]
    rfl
  · rw [h2]
    simpa using hs

/-! ### the meta word in front of every signal payload -/

theorem states_ofNat_toNat' (s : Bits.States) : Bits.States.ofNat? s.toNat = some s := by cases s <;> rfl
theorem states_toNat_lt3 (s : Bits.States) : s.toNat < 3 := by cases s <;> decide

theorem meta_roundtrip_plain (s : Bits.States) : metaDecode (metaEncode s none) = some (s, none) := by
  cases s <;> decide

/-- a compressed payload of `l` bytes: the decoder learns the kind and a length bound that is at least `l` (the uncompressed
length rounded up to a multiple of 32), provided the rounded length / 32 fits 32 bits -/
theorem meta_roundtrip_compressed (s : Bits.States) (l : Nat) (hl : Bits.divCeil l 32 < 2 ^ 32) :
    metaDecode (metaEncode s (some l)) = some (s, some (Bits.divCeil l 32 * 32)) ∧ l ≤ Bits.divCeil l 32 * 32 := by
  have hk := states_toNat_lt3 s
  have hdc : Bits.divCeil (Bits.divCeil l 32 * 32) 32 = Bits.divCeil l 32 := by
    unfold Bits.divCeil; omega
  have hge : l ≤ Bits.divCeil l 32 * 32 := by unfold Bits.divCeil; omega
  refine ⟨?_, hge⟩
  simp only [metaEncode, hdc]
  generalize Bits.divCeil l 32 = x at hl
  have e1 : (x <<< 3) ||| 4 = x * 8 + 4 := by
    rw [← Nat.shiftLeft_add_eq_or_of_lt (by decide : 4 < 2 ^ 3), Nat.shiftLeft_eq]
  have e2 : (x * 8 + 4) ||| s.toNat = (x * 8 + 4) + s.toNat := by
    have : x * 8 + 4 = (2 * x + 1) <<< 2 := by rw [Nat.shiftLeft_eq]; omega
    rw [this, ← Nat.shiftLeft_add_eq_or_of_lt (by omega : s.toNat < 2 ^ 2)]
  rw [e1, e2]
  simp only [metaDecode]
  have a1 : (x * 8 + 4 + s.toNat) &&& 3 = s.toNat := by
    have : (3 : Nat) = 2 ^ 2 - 1 := rfl
    rw [this, Nat.and_two_pow_sub_one_eq_mod]; omega
  have a2 : ((x * 8 + 4 + s.toNat) >>> 2) &&& 1 = 1 := by
    have : (1 : Nat) = 2 ^ 1 - 1 := rfl
    rw [Nat.shiftRight_eq_div_pow]
    conv => lhs; rw [this, Nat.and_two_pow_sub_one_eq_mod]
    omega
  have a3 : (x * 8 + 4 + s.toNat) >>> 3 = x := by rw [Nat.shiftRight_eq_div_pow]; omega
  rw [a1, states_ofNat_toNat', a3]
  simp only [a2, ↓reduceIte, Nat.mod_eq_of_lt hl]

end Wellen.Store

namespace Wellen.Store
open Wellen.Bits

theorem lebWrite_ne_nil (n : Nat) : lebWrite n ≠ [] := by
  unfold lebWrite; split <;> simp

theorem encStream_length (cs : List (Nat × States × List Nat)) : cs.length ≤ (encStream cs).length := by
  induction cs with
  | nil => simp [encStream]
  | cons c cs ih =>
    have h1 : 1 ≤ (lebWrite ((c.1 <<< 2) ||| c.2.1.toNat)).length := by
      cases h : lebWrite ((c.1 <<< 2) ||| c.2.1.toNat) with
      | nil => exact absurd h (lebWrite_ne_nil _)
      | cons a r => simp
    simp only [encStream, encChange, List.map_cons, List.flatten_cons, List.length_append, List.length_cons] at ih ⊢
    omega

/-- what `finish_signal` emits for a signal with data: the meta word, then the data (compress = id in the model) -/
theorem finishSignal_payload (c : Codec) (s : SigEnc) (hne : s.dataBytes ≠ []) :
    ∃ comp, (finishSignal c s).2 = some (lebWrite (metaEncode s.maxStates comp) ++ s.dataBytes) ∧
      (comp = none ∨ comp = some s.dataBytes.length) := by
  unfold finishSignal
  simp only
  have : s.dataBytes.isEmpty = false := by simpa using hne
  simp only [this, Bool.false_eq_true, ↓reduceIte]
  split
  · exact ⟨none, rfl, Or.inl rfl⟩
  · split
    · exact ⟨some s.dataBytes.length, rfl, Or.inr rfl⟩
    · exact ⟨none, rfl, Or.inl rfl⟩

/-- **one block, end to end**: a multi-bit signal whose recorded data is the chunk stream of the changes `cs` is, after
`finish_block`, found through the offset table, its meta word decoded, and its stream decoded by `load_signal` into exactly
those changes — for every number of signals in the block, every number of changes and every compression decision -/
theorem single_block_load (c : Codec) (signals : Array SigEnc) (i : Nat) (s : SigEnc) (bits : Nat) (tt : List Nat) (t0 : Nat)
    (cs : List (Nat × States × List Nat))
    (hs : signals.toList[i]? = some s) (hb : bits ≠ 1) (hdata : s.dataBytes = encStream cs) (hne : cs ≠ [])
    (hcs : ∀ c ∈ cs, c.2.2.length = divCeil bits c.2.1.bib ∧ ((c.1 <<< 2) ||| c.2.1.toNat) < 2 ^ 32)
    (hlen : divCeil (encStream cs).length 32 < 2 ^ 32) :
    let r := finishSignals c signals
    let b : Block := { startTime := t0, timeTable := tt, offsets := r.2.1, data := r.2.2 }
    loadSignal { blocks := [b] } i (.bitvec bits) =
      some { maxStates := s.maxStates,
             times := (replayFixed bits s.maxStates cs 0 {}).2.timesRev.reverse,
             entries := (replayFixed bits s.maxStates cs 0 {}).2.entriesRev.reverse } := by
  have hne' : s.dataBytes ≠ [] := by
    rw [hdata]
    cases cs with
    | nil => exact absurd rfl hne
    | cons c0 r =>
      have := encStream_length (c0 :: r)
      intro h; rw [h] at this; simp at this
  obtain ⟨comp, hpay, hcomp⟩ := finishSignal_payload c s hne'
  have hd : (signals.toList.map fun s => (finishSignal c s).2)[i]? = some (some (lebWrite (metaEncode s.maxStates comp) ++ s.dataBytes)) := by
    rw [List.getElem?_map, hs]; simp [hpay]
  obtain ⟨off, len, ho, hsl⟩ := block_slice c signals i _ hd
  simp only at ho hsl ⊢
  -- `offsetAndLength` does not look at the time fields of the block
  have ho' : ({ startTime := t0, timeTable := tt, offsets := (finishSignals c signals).2.1, data := (finishSignals c signals).2.2 } : Block).offsetAndLength i = some (off, len) := ho
  have hmeta : metaDecode (metaEncode s.maxStates comp) = some (s.maxStates, comp.map fun _ => divCeil s.dataBytes.length 32 * 32) := by
    rcases hcomp with h | h
    · rw [h]; simp [meta_roundtrip_plain]
    · rw [h]; simp [(meta_roundtrip_compressed s.maxStates s.dataBytes.length (by rw [hdata]; exact hlen)).1]
  have hfuel : cs.length < s.dataBytes.length + 1 := by rw [hdata]; have := encStream_length cs; omega
  simp only [loadSignal, collectMeta, collectMeta.go, ho', hsl, lebRead_lebWrite, hmeta, List.reverse_cons, List.reverse_nil,
    List.nil_append, List.map_cons, List.map_nil, List.foldl_cons, List.foldl_nil]
  rcases hcomp with h | h
  · subst h
    simp only [Option.map_none]
    rw [hdata, loadFixed_stream bits hb s.maxStates cs hcs _ 0 {} (by rw [← hdata]; exact hfuel)]
  · subst h
    have hge := (meta_roundtrip_compressed s.maxStates s.dataBytes.length (by rw [hdata]; exact hlen)).2
    have hnot : ¬ (divCeil s.dataBytes.length 32 * 32 < s.dataBytes.length) := by omega
    simp only [Option.map_some, hnot, ↓reduceIte]
    rw [hdata, loadFixed_stream bits hb s.maxStates cs hcs _ 0 {} (by rw [← hdata]; exact hfuel)]

end Wellen.Store
