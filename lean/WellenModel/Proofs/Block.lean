import WellenModel.Model.Store
import WellenModel.Proofs.Stream
import WellenModel.Proofs.Canon
import WellenModel.Proofs.Compress
import WellenModel.Proofs.EntryRoundtrip
/-!
Block level: the offset table `finish_block` writes lets `Block::get_offset_and_length` cut every signal's bytes back
out of the block data, for every number of signals and every mix of signals with and without data.
-/
namespace Wellen.Store

/-- offsets of the payloads `ds` laid out one after the other, starting at offset `k` -/
def layoutOffsets (k : Nat) : List (Option (List Nat)) → List (Option Nat)
  | [] => []
  | none :: r => none :: layoutOffsets k r
  | some d :: r => some k :: layoutOffsets (k + d.length) r

def layoutData (ds : List (Option (List Nat))) : List Nat := (ds.filterMap id).flatten

theorem layoutOffsets_length (k : Nat) (ds : List (Option (List Nat))) : (layoutOffsets k ds).length = ds.length := by
  induction ds generalizing k with
  | nil => rfl
  | cons d r ih => cases d <;> simp [layoutOffsets, ih]

/-- every offset handed out from `k` on is at least `k` -/
theorem layoutOffsets_ge (k : Nat) (ds : List (Option (List Nat))) : ∀ o, (layoutOffsets k ds).findSome? (fun o => o) = some o → k ≤ o := by
  induction ds generalizing k with
  | nil => intro o h; simp [layoutOffsets] at h
  | cons d r ih =>
    intro o h
    cases d with
    | none => simp only [layoutOffsets, List.findSome?_cons] at h; exact ih k o h
    | some d => simp only [layoutOffsets, List.findSome?_cons] at h; cases h; exact Nat.le_refl _

/-- the first offset after a run of payloads is the start plus their total length, when some later signal has data -/
theorem layoutOffsets_next (k : Nat) (ds : List (Option (List Nat))) :
    ((layoutOffsets k ds).findSome? (fun o => o)).getD (k + (layoutData ds).length) ≤ k + (layoutData ds).length ∧
    (∀ o, (layoutOffsets k ds).findSome? (fun o => o) = some o → o = k) := by
  induction ds generalizing k with
  | nil => simp [layoutOffsets, layoutData]
  | cons d r ih =>
    cases d with
    | none =>
      simp only [layoutOffsets, List.findSome?_cons, layoutData, List.filterMap_cons, id]
      exact ih k
    | some d =>
      simp only [layoutOffsets, List.findSome?_cons, layoutData, List.filterMap_cons, id, Option.getD_some]
      constructor
      · omega
      · intro o h; cases h; rfl

/-- **the slice selected by an offset entry is the payload that was written**: `ds[i] = some d` ⇒ the bytes from its offset up to
the next offset (or the end of the data) are exactly `d` -/
theorem layout_slice (ds : List (Option (List Nat))) : ∀ (k i : Nat) (d : List Nat), ds[i]? = some (some d) →
    ∃ o, (layoutOffsets k ds)[i]? = some (some o) ∧ k ≤ o ∧
      let next := (((layoutOffsets k ds).drop (i + 1)).findSome? (fun o => o)).getD (k + (layoutData ds).length)
      ((layoutData ds).drop (o - k)).take (next - o) = d := by
  induction ds with
  | nil => intro k i d h; simp at h
  | cons x r ih =>
    intro k i d h
    cases i with
    | zero =>
      simp only [List.getElem?_cons_zero, Option.some.injEq] at h
      subst h
      refine ⟨k, by simp [layoutOffsets], Nat.le_refl _, ?_⟩
      simp only [layoutOffsets, Nat.zero_add, List.drop_succ_cons, List.drop_zero, layoutData, List.filterMap_cons, id,
        List.flatten_cons, List.length_append, Nat.sub_self]
      have hn := layoutOffsets_next (k + d.length) r
      cases hf : (layoutOffsets (k + d.length) r).findSome? (fun o => o) with
      | none =>
        simp only [Option.getD_none]
        -- no later signal has data: the rest of the block is empty
        have hempty : (layoutData r) = [] := by
          have hr : ∀ (k : Nat) (r : List (Option (List Nat))), (layoutOffsets k r).findSome? (fun o => o) = none → layoutData r = [] := by
            intro k r
            induction r generalizing k with
            | nil => intro _; rfl
            | cons y r ih2 =>
              intro hy
              cases y with
              | none => simp only [layoutOffsets, List.findSome?_cons] at hy; simpa [layoutData] using ih2 k hy
              | some y => simp [layoutOffsets] at hy
          exact hr _ r hf
        have hX : (List.filterMap id r).flatten = [] := hempty
        rw [hX]; simp
      | some o =>
        have ho := hn.2 o hf
        subst ho
        simp only [Option.getD_some]
        have : k + d.length - k = d.length := by omega
        rw [this]; simp
    | succ i =>
      simp only [List.getElem?_cons_succ] at h
      cases x with
      | none =>
        obtain ⟨o, h1, h2, h3⟩ := ih k i d h
        refine ⟨o, by simpa [layoutOffsets] using h1, h2, ?_⟩
        simpa [layoutOffsets, layoutData] using h3
      | some y =>
        obtain ⟨o, h1, h2, h3⟩ := ih (k + y.length) i d h
        refine ⟨o, by simpa [layoutOffsets] using h1, by omega, ?_⟩
        simp only [layoutOffsets, List.drop_succ_cons, layoutData, List.filterMap_cons, id, List.flatten_cons, List.length_append] at h3 ⊢
        have e1 : k + (y.length + (List.filterMap id r).flatten.length) = k + y.length + (List.filterMap id r).flatten.length := by omega
        rw [e1]
        have e2 : o - k = y.length + (o - (k + y.length)) := by omega
        rw [e2, List.drop_append]
        have hd : List.drop (y.length + (o - (k + y.length))) y = [] := List.drop_eq_nil_of_le (by omega)
        have hz : y.length + (o - (k + y.length)) - y.length = o - (k + y.length) := by omega
        rw [hd, hz, List.nil_append]; exact h3

/-- the loop of `finish_block` computes exactly this layout -/
theorem finishStep_foldl (c : Codec) (l : List SigEnc) : ∀ (acc : Array SigEnc × List (Option Nat) × List (List Nat) × Nat),
    let r := l.foldl (finishStep c) acc
    let ds := l.map fun s => (finishSignal c s).2
    r.2.1 = (layoutOffsets acc.2.2.2 ds).reverse ++ acc.2.1 ∧
    r.2.2.1 = (ds.filterMap id).reverse ++ acc.2.2.1 := by
  induction l with
  | nil => intro acc; simp [layoutOffsets]
  | cons s l ih =>
    intro acc
    simp only [List.foldl_cons, List.map_cons]
    have h := ih (finishStep c acc s)
    simp only at h
    cases hf : finishSignal c s with
    | mk s' od =>
      cases od with
      | none =>
        simp only [finishStep, hf] at h ⊢
        simp only [layoutOffsets, List.filterMap_cons, id, List.reverse_cons, List.append_assoc, List.singleton_append]
        exact h
      | some d =>
        simp only [finishStep, hf] at h ⊢
        simp only [layoutOffsets, List.filterMap_cons, id, List.reverse_cons, List.append_assoc, List.singleton_append]
        exact h

theorem finishSignals_layout (c : Codec) (signals : Array SigEnc) :
    let ds := signals.toList.map fun s => (finishSignal c s).2
    (finishSignals c signals).2.1 = layoutOffsets 0 ds ∧ (finishSignals c signals).2.2 = layoutData ds := by
  simp only [finishSignals]
  rw [← Array.foldl_toList]
  have h := finishStep_foldl c signals.toList (#[], [], [], 0)
  simp only at h
  rw [h.1, h.2]
  simp [layoutData]

/-- **`get_offset_and_length` finds every signal's payload in the block `finish_block` builds**, for every number of signals -/
theorem block_slice (c : Codec) (signals : Array SigEnc) (i : Nat) (d : List Nat)
    (hd : (signals.toList.map fun s => (finishSignal c s).2)[i]? = some (some d)) :
    let r := finishSignals c signals
    let b : Block := { startTime := 0, timeTable := [], offsets := r.2.1, data := r.2.2 }
    ∃ off len, b.offsetAndLength i = some (off, len) ∧ (b.data.drop off).take len = d := by
  obtain ⟨h1, h2⟩ := finishSignals_layout c signals
  obtain ⟨o, ho, _, hs⟩ := layout_slice _ 0 i d hd
  simp only at h1 h2 hs ⊢
  generalize hds : (signals.toList.map fun s => (finishSignal c s).2) = ds at h1 h2 ho hs
  refine ⟨o, ((List.findSome? (fun o => o) (List.drop (i + 1) (layoutOffsets 0 ds))).getD (layoutData ds).length) - o, ?_, ?_⟩
  · simp only [Block.offsetAndLength, h1, h2]
    rw [List.getD_eq_getElem?_getD, ho]
    rfl
  · rw [h2]
    simpa using hs

/-! ### the meta word in front of every signal payload -/

theorem states_ofNat_toNat' (s : Bits.States) : Bits.States.ofNat? s.toNat = some s := by cases s <;> rfl
theorem states_toNat_lt3 (s : Bits.States) : s.toNat < 3 := by cases s <;> decide

theorem meta_roundtrip_plain (s : Bits.States) : metaDecode (metaEncode s none) = some (s, none) := by
  cases s <;> decide

/-- a compressed payload of `l` bytes: the decoder learns the kind and a length bound that is at least `l` (the uncompressed
length rounded up to a multiple of 32), provided the rounded length / 32 fits 32 bits -/
theorem meta_roundtrip_compressed (s : Bits.States) (l : Nat) (hl : Bits.divCeil l 32 < 2 ^ 32) :
    metaDecode (metaEncode s (some l)) = some (s, some (Bits.divCeil l 32 * 32)) ∧ l ≤ Bits.divCeil l 32 * 32 := by
  have hk := states_toNat_lt3 s
  have hdc : Bits.divCeil (Bits.divCeil l 32 * 32) 32 = Bits.divCeil l 32 := by
    unfold Bits.divCeil; omega
  have hge : l ≤ Bits.divCeil l 32 * 32 := by unfold Bits.divCeil; omega
  refine ⟨?_, hge⟩
  simp only [metaEncode, hdc]
  generalize Bits.divCeil l 32 = x at hl
  have e1 : (x <<< 3) ||| 4 = x * 8 + 4 := by
    rw [← Nat.shiftLeft_add_eq_or_of_lt (by decide : 4 < 2 ^ 3), Nat.shiftLeft_eq]
  have e2 : (x * 8 + 4) ||| s.toNat = (x * 8 + 4) + s.toNat := by
    have : x * 8 + 4 = (2 * x + 1) <<< 2 := by rw [Nat.shiftLeft_eq]; omega
    rw [this, ← Nat.shiftLeft_add_eq_or_of_lt (by omega : s.toNat < 2 ^ 2)]
  rw [e1, e2]
  simp only [metaDecode]
  have a1 : (x * 8 + 4 + s.toNat) &&& 3 = s.toNat := by
    have : (3 : Nat) = 2 ^ 2 - 1 := rfl
    rw [this, Nat.and_two_pow_sub_one_eq_mod]; omega
  have a2 : ((x * 8 + 4 + s.toNat) >>> 2) &&& 1 = 1 := by
    have : (1 : Nat) = 2 ^ 1 - 1 := rfl
    rw [Nat.shiftRight_eq_div_pow]
    conv => lhs; rw [this, Nat.and_two_pow_sub_one_eq_mod]
    omega
  have a3 : (x * 8 + 4 + s.toNat) >>> 3 = x := by rw [Nat.shiftRight_eq_div_pow]; omega
  rw [a1, states_ofNat_toNat', a3]
  simp only [a2, ↓reduceIte, Nat.mod_eq_of_lt hl]

end Wellen.Store

namespace Wellen.Store
open Wellen.Bits

theorem lebWrite_ne_nil (n : Nat) : lebWrite n ≠ [] := by
  unfold lebWrite; split <;> simp

theorem encStream_length (cs : List (Nat × States × List Nat)) : cs.length ≤ (encStream cs).length := by
  induction cs with
  | nil => simp [encStream]
  | cons c cs ih =>
    have h1 : 1 ≤ (lebWrite ((c.1 <<< 2) ||| c.2.1.toNat)).length := by
      cases h : lebWrite ((c.1 <<< 2) ||| c.2.1.toNat) with
      | nil => exact absurd h (lebWrite_ne_nil _)
      | cons a r => simp
    simp only [encStream, encChange, List.map_cons, List.flatten_cons, List.length_append, List.length_cons] at ih ⊢
    omega

/-- what `finish_signal` emits for a signal with data: the meta word, then the data (compress = id in the model) -/
theorem finishSignal_payload (c : Codec) (s : SigEnc) (hne : s.dataBytes ≠ []) :
    ∃ comp, (finishSignal c s).2 = some (lebWrite (metaEncode s.maxStates comp) ++ s.dataBytes) ∧
      (comp = none ∨ comp = some s.dataBytes.length) := by
  unfold finishSignal
  simp only
  have : s.dataBytes.isEmpty = false := by simpa using hne
  simp only [this, Bool.false_eq_true, ↓reduceIte]
  split
  · exact ⟨none, rfl, Or.inl rfl⟩
  · split
    · exact ⟨some s.dataBytes.length, rfl, Or.inr rfl⟩
    · exact ⟨none, rfl, Or.inl rfl⟩

/-- **one block, end to end**: a multi-bit signal whose recorded data is the chunk stream of the changes `cs` is, after
`finish_block`, found through the offset table, its meta word decoded, and its stream decoded by `load_signal` into exactly
those changes — for every number of signals in the block, every number of changes and every compression decision -/
theorem single_block_load (c : Codec) (signals : Array SigEnc) (i : Nat) (s : SigEnc) (bits : Nat) (tt : List Nat) (t0 : Nat)
    (cs : List (Nat × States × List Nat))
    (hs : signals.toList[i]? = some s) (hb : bits ≠ 1) (hdata : s.dataBytes = encStream cs) (hne : cs ≠ [])
    (hcs : ∀ c ∈ cs, c.2.2.length = divCeil bits c.2.1.bib ∧ ((c.1 <<< 2) ||| c.2.1.toNat) < 2 ^ 32)
    (hlen : divCeil (encStream cs).length 32 < 2 ^ 32) :
    let r := finishSignals c signals
    let b : Block := { startTime := t0, timeTable := tt, offsets := r.2.1, data := r.2.2 }
    loadSignal { blocks := [b] } i (.bitvec bits) =
      some { maxStates := s.maxStates,
             times := (replayFixed bits s.maxStates cs 0 {}).2.timesRev.reverse,
             entries := (replayFixed bits s.maxStates cs 0 {}).2.entriesRev.reverse } := by
  have hne' : s.dataBytes ≠ [] := by
    rw [hdata]
    cases cs with
    | nil => exact absurd rfl hne
    | cons c0 r =>
      have := encStream_length (c0 :: r)
      intro h; rw [h] at this; simp at this
  obtain ⟨comp, hpay, hcomp⟩ := finishSignal_payload c s hne'
  have hd : (signals.toList.map fun s => (finishSignal c s).2)[i]? = some (some (lebWrite (metaEncode s.maxStates comp) ++ s.dataBytes)) := by
    rw [List.getElem?_map, hs]; simp [hpay]
  obtain ⟨off, len, ho, hsl⟩ := block_slice c signals i _ hd
  simp only at ho hsl ⊢
  -- `offsetAndLength` does not look at the time fields of the block
  have ho' : ({ startTime := t0, timeTable := tt, offsets := (finishSignals c signals).2.1, data := (finishSignals c signals).2.2 } : Block).offsetAndLength i = some (off, len) := ho
  have hmeta : metaDecode (metaEncode s.maxStates comp) = some (s.maxStates, comp.map fun _ => divCeil s.dataBytes.length 32 * 32) := by
    rcases hcomp with h | h
    · rw [h]; simp [meta_roundtrip_plain]
    · rw [h]; simp [(meta_roundtrip_compressed s.maxStates s.dataBytes.length (by rw [hdata]; exact hlen)).1]
  have hfuel : cs.length < s.dataBytes.length + 1 := by rw [hdata]; have := encStream_length cs; omega
  simp only [loadSignal, loadStep, joinAll, collectMeta, collectMeta.go, ho', hsl, lebRead_lebWrite, hmeta, List.reverse_cons, List.reverse_nil,
    List.nil_append, List.map_cons, List.map_nil, List.foldl_cons, List.foldl_nil]
  rcases hcomp with h | h
  · subst h
    simp only [Option.map_none]
    rw [hdata, loadFixed_stream bits hb s.maxStates cs hcs _ 0 {} (by rw [← hdata]; exact hfuel)]
  · subst h
    have hge := (meta_roundtrip_compressed s.maxStates s.dataBytes.length (by rw [hdata]; exact hlen)).2
    have hnot : ¬ (divCeil s.dataBytes.length 32 * 32 < s.dataBytes.length) := by omega
    simp only [Option.map_some, hnot, ↓reduceIte]
    rw [hdata, loadFixed_stream bits hb s.maxStates cs hcs _ 0 {} (by rw [← hdata]; exact hfuel)]

end Wellen.Store

namespace Wellen.Store
open Wellen.Bits

theorem charsToNums_length (chars : List Nat) : ∀ nums, charsToNums chars = some nums → nums.length = chars.length := by
  induction chars with
  | nil => intro nums h; simp [charsToNums] at h; subst h; rfl
  | cons c r ih =>
    intro nums h
    simp only [charsToNums] at h
    cases hc : bitCharToNum c with
    | none => simp [hc] at h
    | some v =>
      cases hr : charsToNums r with
      | none => simp [hc, hr] at h
      | some vs =>
        simp [hc, hr] at h
        subst h
        simp [ih vs hr]

theorem expandSpecial_length (value : List Nat) (len : Nat) (out : List Nat) (h : expandSpecial value len = some out) :
    out.length = len := by
  unfold expandSpecial at h
  split at h
  · cases h
  · rename_i hlt
    cases value with
    | nil => simp at h
    | cons c r =>
      simp only at h
      split at h
      · cases h; simp at hlt ⊢; omega
      · split at h
        · cases h; simp at hlt ⊢; omega
        · cases h

/-- **the VCD text path appends a well-formed chunk**: a successful `add_vcd_change` on a multi-bit signal appends
LEB128(delta << 2 | kind) followed by the packing of exactly `bits` symbols -/
theorem addVcd_chunk (ti : Nat) (value : List Nat) (realLe : Option (List Nat)) (s s' : SigEnc) (bits : Nat)
    (ht : s.tpe = .bitvec bits) (hb : bits ≠ 1) (h : addVcd ti value realLe s = some s') :
    ∃ st nums, nums.length = bits ∧ (∀ v ∈ nums, v < 9) ∧
      s'.chunks = encChange (ti - s.prevTimeIdx) st (writeNState st nums none) :: s.chunks ∧
      s'.prevTimeIdx = ti ∧ s'.tpe = s.tpe ∧ s'.maxStates = States.join s.maxStates st := by
  unfold addVcd at h
  cases value with
  | nil => simp at h
  | cons c0 rest =>
    simp only [ht, hb, ↓reduceIte] at h
    -- name the token after prefix stripping
    generalize hvb : (if (if c0 = 98 ∨ c0 = 66 then rest else c0 :: rest).length ≤ 2 then (if c0 = 98 ∨ c0 = 66 then rest else c0 :: rest)
        else if List.take 2 (if c0 = 98 ∨ c0 = 66 then rest else c0 :: rest) = [48, 98] then List.drop 2 (if c0 = 98 ∨ c0 = 66 then rest else c0 :: rest)
        else (if c0 = 98 ∨ c0 = 66 then rest else c0 :: rest)) = vb at h
    cases hst : checkStates vb with
    | none => simp [hst] at h
    | some st =>
      simp only [hst] at h
      cases hch : (if vb.length = bits then some vb else expandSpecial vb bits) with
      | none => simp [hch] at h
      | some chars =>
        simp only [hch] at h
        cases hn : charsToNums chars with
        | none => simp [hn] at h
        | some nums =>
          simp only [hn] at h
          cases h
          have hlen : chars.length = bits := by
            split at hch
            · cases hch; assumption
            · exact expandSpecial_length vb bits chars hch
          refine ⟨st, nums, by rw [charsToNums_length chars nums hn, hlen], Wellen.Spec.charsToNums_lt chars nums hn, rfl, rfl, ht.symm, rfl⟩

end Wellen.Store

namespace Wellen.Store
open Wellen.Bits

/-- consecutive differences of the time indices at which changes are recorded, starting from `p` -/
def deltasFrom (p : Nat) : List Nat → List Nat
  | [] => []
  | t :: r => (t - p) :: deltasFrom t r

/-- a sequence of `add_vcd_change` calls (time index, value token) on one signal; `none` = some call is rejected -/
def vcdWrites (s0 : SigEnc) : List (Nat × List Nat) → Option SigEnc
  | [] => some s0
  | c :: r => match addVcd c.1 c.2 none s0 with
    | none => none
    | some s1 => vcdWrites s1 r

theorem dataBytes_cons (s : SigEnc) (ch : List Nat) (chunks : List (List Nat)) (h : s.chunks = ch :: chunks) :
    s.dataBytes = (chunks.reverse.flatten) ++ ch := by
  simp [SigEnc.dataBytes, h]

/-- **the data a signal accumulates through the VCD text path is a well-formed chunk stream** whose deltas are the differences
of the time indices of the calls and whose payloads are packings of exactly `bits` symbols -/
theorem vcdWrites_stream (bits : Nat) (hb : bits ≠ 1) (calls : List (Nat × List Nat)) : ∀ (s0 s : SigEnc),
    s0.tpe = .bitvec bits → vcdWrites s0 calls = some s →
    ∃ cs : List (Nat × States × List Nat),
      s.dataBytes = s0.dataBytes ++ encStream cs ∧
      cs.map (·.1) = deltasFrom s0.prevTimeIdx (calls.map (·.1)) ∧
      (∀ c ∈ cs, ∃ nums, nums.length = bits ∧ (∀ v ∈ nums, v < 9) ∧ c.2.2 = writeNState c.2.1 nums none) ∧
      s.tpe = s0.tpe ∧ s.maxStates = (cs.map (·.2.1)).foldl States.join s0.maxStates := by
  induction calls with
  | nil =>
    intro s0 s _ h
    simp only [vcdWrites] at h; cases h
    exact ⟨[], by simp [encStream], rfl, by simp, rfl, rfl⟩
  | cons c r ih =>
    intro s0 s ht h
    simp only [vcdWrites] at h
    cases h1 : addVcd c.1 c.2 none s0 with
    | none => simp [h1] at h
    | some s1 =>
      simp only [h1] at h
      obtain ⟨st, nums, hlen, hlt, hch, hprev, htpe, hmax⟩ := addVcd_chunk c.1 c.2 none s0 s1 bits ht hb h1
      obtain ⟨cs, hd, hdl, hpay, ht2, hm2⟩ := ih s1 s (by rw [htpe]; exact ht) h
      refine ⟨(c.1 - s0.prevTimeIdx, st, writeNState st nums none) :: cs, ?_, ?_, ?_, by rw [ht2, htpe], ?_⟩
      · rw [hd, dataBytes_cons s1 _ _ hch]
        simp [SigEnc.dataBytes, encStream, List.append_assoc]
      · simp [deltasFrom, hdl, hprev]
      · intro x hx
        rcases List.mem_cons.mp hx with rfl | hx
        · exact ⟨nums, hlen, hlt, rfl⟩
        · exact hpay x hx
      · simp [hm2, hmax]

end Wellen.Store

namespace Wellen.Store
open Wellen.Bits

/-- changes with absolute time indices -/
def absolutise (p : Nat) : List (Nat × States × List Nat) → List (Nat × States × List Nat)
  | [] => []
  | c :: r => (p + c.1, c.2.1, c.2.2) :: absolutise (p + c.1) r

/-- the loader's accumulator after pushing changes given with absolute time indices -/
def replayAbs (bits : Nat) (sigS : States) (xs : List (Nat × States × List Nat)) (a : Acc) : Acc :=
  xs.foldl (fun a x => a.push x.1 (alignEntry sigS x.2.1 bits x.2.2)) a

theorem replayFixed_abs (bits : Nat) (sigS : States) (cs : List (Nat × States × List Nat)) : ∀ (last : Nat) (a : Acc),
    (replayFixed bits sigS cs last a).2 = replayAbs bits sigS (absolutise last cs) a := by
  induction cs with
  | nil => intro last a; rfl
  | cons c cs ih =>
    intro last a
    simp only [replayFixed, List.foldl_cons, absolutise, replayAbs]
    exact ih (last + c.1) _

/-- the absolute times of a delta list built from non-decreasing time indices are those indices -/
theorem absolutise_times (l : List Nat) : ∀ (p : Nat) (cs : List (Nat × States × List Nat)),
    cs.map (·.1) = deltasFrom p l → (l.Pairwise (· ≤ ·)) → (∀ t ∈ l, p ≤ t) →
    (absolutise p cs).map (·.1) = l := by
  induction l with
  | nil =>
    intro p cs h _ _
    simp [deltasFrom] at h
    subst h; rfl
  | cons t r ih =>
    intro p cs h hs hp
    cases cs with
    | nil => simp [deltasFrom] at h
    | cons c cs =>
      simp only [List.map_cons, deltasFrom, List.cons.injEq] at h
      have hpt := hp t (by simp)
      have hs' := List.pairwise_cons.mp hs
      have e : p + c.1 = t := by rw [h.1]; omega
      simp only [absolutise, List.map_cons, e]
      congr 1
      exact ih t cs h.2 hs'.2 (fun u hu => hs'.1 u hu)

theorem deltasFrom_le (l : List Nat) : ∀ p, ∀ d ∈ deltasFrom p l, ∃ t ∈ l, d ≤ t := by
  induction l with
  | nil => intro p d hd; simp [deltasFrom] at hd
  | cons t r ih =>
    intro p d hd
    simp only [deltasFrom, List.mem_cons] at hd
    rcases hd with rfl | hd
    · exact ⟨t, by simp, by omega⟩
    · obtain ⟨u, hu, hle⟩ := ih t d hd
      exact ⟨u, by simp [hu], hle⟩

theorem hdr_bound (d : Nat) (st : States) (hd : d < 2 ^ 30) : ((d <<< 2) ||| st.toNat) < 2 ^ 32 := by
  have hk := states_toNat_lt st
  rw [← Nat.shiftLeft_add_eq_or_of_lt (by omega : st.toNat < 2 ^ 2), Nat.shiftLeft_eq]
  omega

/-- **the VCD vector path is transparent within a block**: a fresh multi-bit signal that receives any number of VCD value
tokens at non-decreasing time indices (below 2^30) is, after `finish_block` — whatever other signals share the block and
whatever the compression decision — loaded back as one entry per call at the call's time index, each entry being the aligned
packing of exactly `bits` symbols of that call (immediate repetitions dropped) -/
theorem vcd_block_roundtrip (c : Codec) (signals : Array SigEnc) (i : Nat) (s : SigEnc) (bits : Nat) (tt : List Nat) (t0 : Nat)
    (calls : List (Nat × List Nat)) (hb : bits ≠ 1) (hne : calls ≠ [])
    (hw : vcdWrites { tpe := .bitvec bits } calls = some s) (hs : signals.toList[i]? = some s)
    (hsorted : (calls.map (·.1)).Pairwise (· ≤ ·)) (hsmall : ∀ t ∈ calls.map (·.1), t < 2 ^ 30)
    (hlen : divCeil s.dataBytes.length 32 < 2 ^ 32) :
    ∃ cs : List (Nat × States × List Nat),
      (absolutise 0 cs).map (·.1) = calls.map (·.1) ∧
      (∀ x ∈ cs, ∃ nums, nums.length = bits ∧ (∀ v ∈ nums, v < 9) ∧ x.2.2 = writeNState x.2.1 nums none) ∧
      (let r := finishSignals c signals
       let b : Block := { startTime := t0, timeTable := tt, offsets := r.2.1, data := r.2.2 }
       loadSignal { blocks := [b] } i (.bitvec bits) =
         some { maxStates := s.maxStates,
                times := (replayAbs bits s.maxStates (absolutise 0 cs) {}).timesRev.reverse,
                entries := (replayAbs bits s.maxStates (absolutise 0 cs) {}).entriesRev.reverse }) := by
  obtain ⟨cs, hd, hdl, hpay, _, _⟩ := vcdWrites_stream bits hb calls { tpe := .bitvec bits } s rfl hw
  have hd' : s.dataBytes = encStream cs := by simpa [SigEnc.dataBytes] using hd
  have hcsne : cs ≠ [] := by
    intro he; subst he
    cases calls with
    | nil => exact hne rfl
    | cons c0 r => simp [deltasFrom] at hdl
  have hcs : ∀ x ∈ cs, x.2.2.length = divCeil bits x.2.1.bib ∧ ((x.1 <<< 2) ||| x.2.1.toNat) < 2 ^ 32 := by
    intro x hx
    obtain ⟨nums, hl, _, hp⟩ := hpay x hx
    constructor
    · rw [hp, Wellen.Store.writeNState_length, hl]
    · have hxd : x.1 ∈ cs.map (·.1) := List.mem_map.mpr ⟨x, hx, rfl⟩
      rw [hdl] at hxd
      obtain ⟨t, ht, hle⟩ := deltasFrom_le _ 0 x.1 hxd
      exact hdr_bound x.1 x.2.1 (by have := hsmall t ht; omega)
  refine ⟨cs, ?_, hpay, ?_⟩
  · exact absolutise_times _ 0 cs hdl hsorted (fun _ _ => Nat.zero_le _)
  · have := single_block_load c signals i s bits tt t0 cs hs hb hd' hcsne hcs (by rw [← hd']; exact hlen)
    simp only at this ⊢
    rw [this, replayFixed_abs]

end Wellen.Store

namespace Wellen.Store
open Wellen.Bits Wellen.Spec

theorem kindOf_fits (nums : List Nat) (h9 : ∀ v ∈ nums, v < 9) : ∀ v ∈ nums, v < 2 ^ (kindOf nums).bits := by
  intro v hv
  unfold kindOf
  split
  · rename_i h; have := List.all_eq_true.mp h v hv; simp at this; simp [States.bits]; omega
  · split
    · rename_i _ h; have := List.all_eq_true.mp h v hv; simp at this; simp [States.bits]; omega
    · have := h9 v hv; simp [States.bits]; omega

theorem charsToNums_append (a b : List Nat) : ∀ na nb, charsToNums a = some na → charsToNums b = some nb →
    charsToNums (a ++ b) = some (na ++ nb) := by
  induction a with
  | nil => intro na nb ha hb; simp [charsToNums] at ha; subst ha; simpa using hb
  | cons c r ih =>
    intro na nb ha hb
    simp only [charsToNums] at ha
    cases hc : bitCharToNum c with
    | none => simp [hc] at ha
    | some v =>
      cases hr : charsToNums r with
      | none => simp [hc, hr] at ha
      | some vs =>
        simp [hc, hr] at ha; subst ha
        simp [charsToNums, hc, ih vs nb hr hb]

theorem charsToNums_replicate (k c v : Nat) (h : bitCharToNum c = some v) :
    charsToNums (List.replicate k c) = some (List.replicate k v) := by
  induction k with
  | zero => rfl
  | succ k ih => simp [List.replicate_succ, charsToNums, h, ih]

/-- the symbols of a left-extended token are those of the token plus, possibly, zeros -/
theorem expand_syms (vb : List Nat) (len : Nat) (chars n0 nums : List Nat)
    (he : expandSpecial vb len = some chars) (h0 : charsToNums vb = some n0) (hn : charsToNums chars = some nums) :
    ∀ v ∈ nums, v ∈ n0 ∨ v = 0 := by
  unfold expandSpecial at he
  split at he
  · cases he
  · cases vb with
    | nil => simp at he
    | cons c r =>
      simp only at he
      have hcn : ∃ v0 vs, bitCharToNum c = some v0 ∧ n0 = v0 :: vs := by
        simp only [charsToNums] at h0
        cases hc : bitCharToNum c with
        | none => simp [hc] at h0
        | some v0 =>
          cases hr : charsToNums r with
          | none => simp [hc, hr] at h0
          | some vs => simp [hc, hr] at h0; exact ⟨v0, vs, rfl, h0.symm⟩
      obtain ⟨v0, vs, hc0, hn0⟩ := hcn
      split at he
      · cases he
        have h48 : bitCharToNum 48 = some 0 := by decide
        have := charsToNums_append _ _ _ _ (charsToNums_replicate (len - (c :: r).length) 48 0 h48) h0
        rw [this] at hn; cases hn
        intro v hv
        rcases List.mem_append.mp hv with h | h
        · right; exact (List.mem_replicate.mp h).2
        · left; exact h
      · split at he
        · cases he
          have := charsToNums_append _ _ _ _ (charsToNums_replicate (len - (c :: r).length) c v0 hc0) h0
          rw [this] at hn; cases hn
          intro v hv
          rcases List.mem_append.mp hv with h | h
          · left; rw [(List.mem_replicate.mp h).2, hn0]; simp
          · left; exact h
        · cases he

/-- the symbols written for a VCD vector token fit the kind recorded in its chunk header -/
theorem addVcd_chunk_fits (ti : Nat) (value : List Nat) (realLe : Option (List Nat)) (s s' : SigEnc) (bits : Nat)
    (ht : s.tpe = .bitvec bits) (hb : bits ≠ 1) (h : addVcd ti value realLe s = some s') :
    ∃ st nums, nums.length = bits ∧ (∀ v ∈ nums, v < 2 ^ st.bits) ∧
      s'.chunks = encChange (ti - s.prevTimeIdx) st (writeNState st nums none) :: s.chunks ∧
      s'.prevTimeIdx = ti ∧ s'.tpe = s.tpe ∧ s'.maxStates = States.join s.maxStates st := by
  unfold addVcd at h
  cases value with
  | nil => simp at h
  | cons c0 rest =>
    simp only [ht, hb, ↓reduceIte] at h
    generalize hvb : (if (if c0 = 98 ∨ c0 = 66 then rest else c0 :: rest).length ≤ 2 then (if c0 = 98 ∨ c0 = 66 then rest else c0 :: rest)
        else if List.take 2 (if c0 = 98 ∨ c0 = 66 then rest else c0 :: rest) = [48, 98] then List.drop 2 (if c0 = 98 ∨ c0 = 66 then rest else c0 :: rest)
        else (if c0 = 98 ∨ c0 = 66 then rest else c0 :: rest)) = vb at h
    cases hst : checkStates vb with
    | none => simp [hst] at h
    | some st =>
      simp only [hst] at h
      obtain ⟨n0, hn0, hk⟩ := checkStates_minimal vb st hst
      cases hch : (if vb.length = bits then some vb else expandSpecial vb bits) with
      | none => simp [hch] at h
      | some chars =>
        simp only [hch] at h
        cases hn : charsToNums chars with
        | none => simp [hn] at h
        | some nums =>
          simp only [hn] at h
          cases h
          have hlen : chars.length = bits := by
            split at hch
            · cases hch; assumption
            · exact expandSpecial_length vb bits chars hch
          have hfit0 := kindOf_fits n0 (charsToNums_lt vb n0 hn0)
          refine ⟨st, nums, by rw [charsToNums_length chars nums hn, hlen], ?_, rfl, rfl, ht.symm, rfl⟩
          intro v hv
          split at hch
          · cases hch
            rw [hn0] at hn; cases hn
            rw [hk]; exact hfit0 v hv
          · rcases expand_syms vb bits chars n0 nums hch hn0 hn v hv with h1 | h1
            · rw [hk]; exact hfit0 v h1
            · rw [h1]; exact Nat.two_pow_pos _


theorem join_ge_left (a b : States) : a.toNat ≤ (States.join a b).toNat := by
  unfold States.join; split <;> omega
theorem join_ge_right (a b : States) : b.toNat ≤ (States.join a b).toNat := by
  unfold States.join; split <;> omega

theorem foldl_join_ge (l : List States) : ∀ (a : States), a.toNat ≤ (l.foldl States.join a).toNat ∧
    ∀ x ∈ l, x.toNat ≤ (l.foldl States.join a).toNat := by
  induction l with
  | nil => intro a; simp
  | cons y r ih =>
    intro a
    simp only [List.foldl_cons]
    obtain ⟨h1, h2⟩ := ih (States.join a y)
    refine ⟨Nat.le_trans (join_ge_left a y) h1, ?_⟩
    intro x hx
    rcases List.mem_cons.mp hx with rfl | hx
    · exact Nat.le_trans (join_ge_right a x) h1
    · exact h2 x hx

/-- as `vcdWrites_stream`, with the fact that every token's symbols fit the kind in its chunk header -/
theorem vcdWrites_stream_fits (bits : Nat) (hb : bits ≠ 1) (calls : List (Nat × List Nat)) : ∀ (s0 s : SigEnc),
    s0.tpe = .bitvec bits → vcdWrites s0 calls = some s →
    ∃ cs : List (Nat × States × List Nat),
      s.dataBytes = s0.dataBytes ++ encStream cs ∧
      cs.map (·.1) = deltasFrom s0.prevTimeIdx (calls.map (·.1)) ∧
      (∀ c ∈ cs, ∃ nums, nums.length = bits ∧ (∀ v ∈ nums, v < 2 ^ c.2.1.bits) ∧ c.2.2 = writeNState c.2.1 nums none) ∧
      s.maxStates = (cs.map (·.2.1)).foldl States.join s0.maxStates := by
  induction calls with
  | nil =>
    intro s0 s _ h
    simp only [vcdWrites] at h; cases h
    exact ⟨[], by simp [encStream], rfl, by simp, rfl⟩
  | cons c r ih =>
    intro s0 s ht h
    simp only [vcdWrites] at h
    cases h1 : addVcd c.1 c.2 none s0 with
    | none => simp [h1] at h
    | some s1 =>
      simp only [h1] at h
      obtain ⟨st, nums, hlen, hfit, hch, hprev, htpe, hmax⟩ := addVcd_chunk_fits c.1 c.2 none s0 s1 bits ht hb h1
      obtain ⟨cs, hd, hdl, hpay, hm2⟩ := ih s1 s (by rw [htpe]; exact ht) h
      refine ⟨(c.1 - s0.prevTimeIdx, st, writeNState st nums none) :: cs, ?_, ?_, ?_, ?_⟩
      · rw [hd, dataBytes_cons s1 _ _ hch]
        simp [SigEnc.dataBytes, encStream, List.append_assoc]
      · simp [deltasFrom, hdl, hprev]
      · intro x hx
        rcases List.mem_cons.mp hx with rfl | hx
        · exact ⟨nums, hlen, hfit, rfl⟩
        · exact hpay x hx
      · simp [hm2, hmax]

/-- **values come back**: in the situation of `vcd_block_roundtrip` (2 ≤ bits), every entry the loader builds decodes to the
kind and the symbols of the VCD token it was written from -/
theorem vcd_block_values (bits : Nat) (hb2 : 2 ≤ bits) (calls : List (Nat × List Nat)) (s : SigEnc)
    (hw : vcdWrites { tpe := .bitvec bits } calls = some s) :
    ∃ cs : List (Nat × States × List Nat),
      s.dataBytes = encStream cs ∧ cs.map (·.1) = deltasFrom 0 (calls.map (·.1)) ∧
      ∀ x ∈ cs, ∃ nums d, nums.length = bits ∧ x.2.2 = writeNState x.2.1 nums none ∧
        decodeEntry s.maxStates bits (getLenAndMeta s.maxStates bits).2 (alignEntry s.maxStates x.2.1 bits x.2.2) = some (x.2.1, d) ∧
        toSyms x.2.1 d bits = nums := by
  obtain ⟨cs, hd, hdl, hpay, hmax⟩ := vcdWrites_stream_fits bits (by omega) calls { tpe := .bitvec bits } s rfl hw
  refine ⟨cs, by simpa [SigEnc.dataBytes] using hd, hdl, ?_⟩
  intro x hx
  obtain ⟨nums, hl, hfit, hp⟩ := hpay x hx
  have hle : x.2.1.toNat ≤ s.maxStates.toNat := by
    rw [hmax]
    exact (foldl_join_ge (cs.map (·.2.1)) _).2 x.2.1 (List.mem_map.mpr ⟨x, hx, rfl⟩)
  obtain ⟨d, hdec, hsym⟩ := entry_roundtrip s.maxStates x.2.1 nums (by omega) (by simpa [B] using hfit) hle
  rw [hl] at hdec hsym
  exact ⟨nums, d, hl, hp, by rw [hp]; exact hdec, hsym⟩

end Wellen.Store

namespace Wellen.Store
open Wellen.Bits

theorem divCeil_mul_ge (bits b : Nat) (hb : 0 < b) : bits ≤ divCeil bits b * b := by
  unfold divCeil
  have h1 := Nat.div_add_mod (bits + b - 1) b
  have h2 := Nat.mod_lt (bits + b - 1) hb
  have h3 : (bits + b - 1) / b * b = b * ((bits + b - 1) / b) := Nat.mul_comm _ _
  omega

/-- **the pre-encoded path (GHW) appends a well-formed chunk**: a successful `add_n_bit_change` on a multi-bit signal appends
LEB128(delta << 2 | kind) followed by exactly ceil(bits / symbols per byte of that kind) bytes -/
theorem addNBit_chunk (ti : Nat) (value : List Nat) (st : States) (s s' : SigEnc) (bits : Nat)
    (ht : s.tpe = .bitvec bits) (hb : bits ≠ 1) (h : addNBit ti value st s = some s') :
    ∃ loc body, body.length = divCeil bits loc.bib ∧
      s'.chunks = encChange (ti - s.prevTimeIdx) loc body :: s.chunks ∧ s'.prevTimeIdx = ti ∧ s'.tpe = s.tpe := by
  unfold addNBit at h
  simp only [ht, hb, ↓reduceIte] at h
  split at h
  · cases h
  · rename_i hreq
    cases h
    have hvl : (value.drop (value.length - divCeil bits st.bib)).length = divCeil bits st.bib := by
      rw [List.length_drop]; omega
    refine ⟨checkMinState (value.drop (value.length - divCeil bits st.bib)) st, _, ?_, rfl, rfl, ht.symm⟩
    split
    · rename_i heq; rw [heq]; exact hvl
    · have hbib : 0 < st.bib := by cases st <;> decide
      exact Wellen.Slice.compressTemplate_length st _ _ bits (by rw [hvl]; exact divCeil_mul_ge bits st.bib hbib)

/-- a sequence of `add_n_bit_change` calls (time index, pre-encoded bytes, kind) on one signal -/
def rawWrites (s0 : SigEnc) : List (Nat × List Nat × States) → Option SigEnc
  | [] => some s0
  | c :: r => match addNBit c.1 c.2.1 c.2.2 s0 with
    | none => none
    | some s1 => rawWrites s1 r

theorem rawWrites_stream (bits : Nat) (hb : bits ≠ 1) (calls : List (Nat × List Nat × States)) : ∀ (s0 s : SigEnc),
    s0.tpe = .bitvec bits → rawWrites s0 calls = some s →
    ∃ cs : List (Nat × States × List Nat),
      s.dataBytes = s0.dataBytes ++ encStream cs ∧
      cs.map (·.1) = deltasFrom s0.prevTimeIdx (calls.map (·.1)) ∧
      (∀ c ∈ cs, c.2.2.length = divCeil bits c.2.1.bib) := by
  induction calls with
  | nil =>
    intro s0 s _ h
    simp only [rawWrites] at h; cases h
    exact ⟨[], by simp [encStream], rfl, by simp⟩
  | cons c r ih =>
    intro s0 s ht h
    simp only [rawWrites] at h
    cases h1 : addNBit c.1 c.2.1 c.2.2 s0 with
    | none => simp [h1] at h
    | some s1 =>
      simp only [h1] at h
      obtain ⟨loc, body, hlen, hch, hprev, htpe⟩ := addNBit_chunk c.1 c.2.1 c.2.2 s0 s1 bits ht hb h1
      obtain ⟨cs, hd, hdl, hpay⟩ := ih s1 s (by rw [htpe]; exact ht) h
      refine ⟨(c.1 - s0.prevTimeIdx, loc, body) :: cs, ?_, ?_, ?_⟩
      · rw [hd, dataBytes_cons s1 _ _ hch]
        simp [SigEnc.dataBytes, encStream, List.append_assoc]
      · simp [deltasFrom, hdl, hprev]
      · intro x hx
        rcases List.mem_cons.mp hx with rfl | hx
        · exact hlen
        · exact hpay x hx

/-- **the pre-encoded path (GHW) is transparent within a block** at the level of entries: one entry per call at the call's time
index, whatever shares the block and whatever the compression decision -/
theorem raw_block_roundtrip (c : Codec) (signals : Array SigEnc) (i : Nat) (s : SigEnc) (bits : Nat) (tt : List Nat) (t0 : Nat)
    (calls : List (Nat × List Nat × States)) (hb : bits ≠ 1) (hne : calls ≠ [])
    (hw : rawWrites { tpe := .bitvec bits } calls = some s) (hs : signals.toList[i]? = some s)
    (hsorted : (calls.map (·.1)).Pairwise (· ≤ ·)) (hsmall : ∀ t ∈ calls.map (·.1), t < 2 ^ 30)
    (hlen : divCeil s.dataBytes.length 32 < 2 ^ 32) :
    ∃ cs : List (Nat × States × List Nat),
      (absolutise 0 cs).map (·.1) = calls.map (·.1) ∧
      (let r := finishSignals c signals
       let b : Block := { startTime := t0, timeTable := tt, offsets := r.2.1, data := r.2.2 }
       loadSignal { blocks := [b] } i (.bitvec bits) =
         some { maxStates := s.maxStates,
                times := (replayAbs bits s.maxStates (absolutise 0 cs) {}).timesRev.reverse,
                entries := (replayAbs bits s.maxStates (absolutise 0 cs) {}).entriesRev.reverse }) := by
  obtain ⟨cs, hd, hdl, hpay⟩ := rawWrites_stream bits hb calls { tpe := .bitvec bits } s rfl hw
  have hd' : s.dataBytes = encStream cs := by simpa [SigEnc.dataBytes] using hd
  have hcsne : cs ≠ [] := by
    intro he; subst he
    cases calls with
    | nil => exact hne rfl
    | cons c0 r => simp [deltasFrom] at hdl
  have hcs : ∀ x ∈ cs, x.2.2.length = divCeil bits x.2.1.bib ∧ ((x.1 <<< 2) ||| x.2.1.toNat) < 2 ^ 32 := by
    intro x hx
    refine ⟨hpay x hx, ?_⟩
    have hxd : x.1 ∈ cs.map (·.1) := List.mem_map.mpr ⟨x, hx, rfl⟩
    rw [hdl] at hxd
    obtain ⟨t, ht, hle⟩ := deltasFrom_le _ 0 x.1 hxd
    exact hdr_bound x.1 x.2.1 (by have := hsmall t ht; omega)
  refine ⟨cs, absolutise_times _ 0 cs hdl hsorted (fun _ _ => Nat.zero_le _), ?_⟩
  have := single_block_load c signals i s bits tt t0 cs hs hb hd' hcsne hcs (by rw [← hd']; exact hlen)
  simp only at this ⊢
  rw [this, replayFixed_abs]

end Wellen.Store

namespace Wellen.Store
open Wellen.Bits

/-! ### one-bit signals -/

theorem encOneBit_length (cs : List (Nat × Nat)) : cs.length ≤ (encOneBit cs).length := by
  induction cs with
  | nil => simp [encOneBit]
  | cons c cs ih =>
    have h1 : 1 ≤ (lebWrite ((c.1 <<< 4) + c.2)).length := by
      cases h : lebWrite ((c.1 <<< 4) + c.2) with
      | nil => exact absurd h (lebWrite_ne_nil _)
      | cons a r => simp
    simp only [encOneBit, List.map_cons, List.flatten_cons, List.length_append, List.length_cons] at ih ⊢
    omega

theorem single_block_load_onebit (c : Codec) (signals : Array SigEnc) (i : Nat) (s : SigEnc) (tt : List Nat) (t0 : Nat)
    (cs : List (Nat × Nat))
    (hs : signals.toList[i]? = some s) (hdata : s.dataBytes = encOneBit cs) (hne : cs ≠ [])
    (hcs : ∀ c ∈ cs, c.2 < 16 ∧ ((c.1 <<< 4) + c.2) < 2 ^ 32)
    (hlen : divCeil (encOneBit cs).length 32 < 2 ^ 32) :
    let r := finishSignals c signals
    let b : Block := { startTime := t0, timeTable := tt, offsets := r.2.1, data := r.2.2 }
    loadSignal { blocks := [b] } i (.bitvec 1) =
      some { maxStates := s.maxStates,
             times := (replayOneBit cs 0 {}).2.timesRev.reverse,
             entries := (replayOneBit cs 0 {}).2.entriesRev.reverse } := by
  have hne' : s.dataBytes ≠ [] := by
    rw [hdata]
    cases cs with
    | nil => exact absurd rfl hne
    | cons c0 r =>
      have := encOneBit_length (c0 :: r)
      intro h; rw [h] at this; simp at this
  obtain ⟨comp, hpay, hcomp⟩ := finishSignal_payload c s hne'
  have hd : (signals.toList.map fun s => (finishSignal c s).2)[i]? = some (some (lebWrite (metaEncode s.maxStates comp) ++ s.dataBytes)) := by
    rw [List.getElem?_map, hs]; simp [hpay]
  obtain ⟨off, len, ho, hsl⟩ := block_slice c signals i _ hd
  simp only at ho hsl ⊢
  have ho' : ({ startTime := t0, timeTable := tt, offsets := (finishSignals c signals).2.1, data := (finishSignals c signals).2.2 } : Block).offsetAndLength i = some (off, len) := ho
  have hmeta : metaDecode (metaEncode s.maxStates comp) = some (s.maxStates, comp.map fun _ => divCeil s.dataBytes.length 32 * 32) := by
    rcases hcomp with h | h
    · rw [h]; simp [meta_roundtrip_plain]
    · rw [h]; simp [(meta_roundtrip_compressed s.maxStates s.dataBytes.length (by rw [hdata]; exact hlen)).1]
  have hfuel : cs.length < s.dataBytes.length + 1 := by rw [hdata]; have := encOneBit_length cs; omega
  simp only [loadSignal, loadStep, joinAll, collectMeta, collectMeta.go, ho', hsl, lebRead_lebWrite, hmeta, List.reverse_cons, List.reverse_nil,
    List.nil_append, List.map_cons, List.map_nil, List.foldl_cons, List.foldl_nil]
  rcases hcomp with h | h
  · subst h
    simp only [Option.map_none]
    rw [hdata, loadFixed_stream_onebit s.maxStates cs hcs _ 0 {} (by rw [← hdata]; exact hfuel)]
  · subst h
    have hge := (meta_roundtrip_compressed s.maxStates s.dataBytes.length (by rw [hdata]; exact hlen)).2
    have hnot : ¬ (divCeil s.dataBytes.length 32 * 32 < s.dataBytes.length) := by omega
    simp only [Option.map_some, hnot, ↓reduceIte]
    rw [hdata, loadFixed_stream_onebit s.maxStates cs hcs _ 0 {} (by rw [← hdata]; exact hfuel)]

end Wellen.Store

namespace Wellen.Store
open Wellen.Bits Wellen.Spec

theorem addVcd_chunk_onebit (ti : Nat) (value : List Nat) (realLe : Option (List Nat)) (s s' : SigEnc)
    (ht : s.tpe = .bitvec 1) (h : addVcd ti value realLe s = some s') :
    ∃ bv, bv < 9 ∧ s'.chunks = lebWrite (((ti - s.prevTimeIdx) <<< 4) + bv) :: s.chunks ∧
      s'.prevTimeIdx = ti ∧ s'.tpe = s.tpe ∧ s'.maxStates = States.join s.maxStates (States.fromValue bv) := by
  unfold addVcd at h
  cases value with
  | nil => simp at h
  | cons c0 rest =>
    simp only [ht, ↓reduceIte] at h
    generalize hvb : (if (if c0 = 98 ∨ c0 = 66 then rest else c0 :: rest).length ≤ 2 then (if c0 = 98 ∨ c0 = 66 then rest else c0 :: rest)
        else if List.take 2 (if c0 = 98 ∨ c0 = 66 then rest else c0 :: rest) = [48, 98] then List.drop 2 (if c0 = 98 ∨ c0 = 66 then rest else c0 :: rest)
        else (if c0 = 98 ∨ c0 = 66 then rest else c0 :: rest)) = vb at h
    cases vb with
    | nil => simp at h
    | cons c r =>
      simp only at h
      cases hc : bitCharToNum c with
      | none => simp [hc] at h
      | some bv =>
        simp only [hc] at h
        cases h
        have hlt : bv < 9 := by
          have := charsToNums_lt [c] [bv] (by simp [charsToNums, hc]) bv (by simp)
          exact this
        exact ⟨bv, hlt, rfl, rfl, ht.symm, rfl⟩

/-- **the VCD scalar path is transparent within a block**: a fresh one-bit signal that receives any number of VCD value tokens at
non-decreasing time indices is loaded back as one compact entry per token at its time index (immediate repetitions dropped) -/
theorem vcd_onebit_block_roundtrip (c : Codec) (signals : Array SigEnc) (i : Nat) (s : SigEnc) (tt : List Nat) (t0 : Nat)
    (calls : List (Nat × List Nat)) (hne : calls ≠ [])
    (hw : vcdWrites { tpe := .bitvec 1 } calls = some s) (hs : signals.toList[i]? = some s)
    (hsorted : (calls.map (·.1)).Pairwise (· ≤ ·)) (hsmall : ∀ t ∈ calls.map (·.1), t < 2 ^ 27)
    (hlen : divCeil s.dataBytes.length 32 < 2 ^ 32) :
    ∃ cs : List (Nat × Nat),
      cs.map (·.1) = deltasFrom 0 (calls.map (·.1)) ∧ (∀ x ∈ cs, x.2 < 9) ∧
      (let r := finishSignals c signals
       let b : Block := { startTime := t0, timeTable := tt, offsets := r.2.1, data := r.2.2 }
       loadSignal { blocks := [b] } i (.bitvec 1) =
         some { maxStates := s.maxStates,
                times := (replayOneBit cs 0 {}).2.timesRev.reverse,
                entries := (replayOneBit cs 0 {}).2.entriesRev.reverse }) := by
  -- the accumulated data is a one-bit chunk stream
  have hstream : ∀ (calls : List (Nat × List Nat)) (s0 s : SigEnc), s0.tpe = .bitvec 1 → vcdWrites s0 calls = some s →
      ∃ cs : List (Nat × Nat), s.dataBytes = s0.dataBytes ++ encOneBit cs ∧
        cs.map (·.1) = deltasFrom s0.prevTimeIdx (calls.map (·.1)) ∧ (∀ x ∈ cs, x.2 < 9) := by
    intro calls
    induction calls with
    | nil =>
      intro s0 s _ h
      simp only [vcdWrites] at h; cases h
      exact ⟨[], by simp [encOneBit], rfl, by simp⟩
    | cons cl r ih =>
      intro s0 s ht h
      simp only [vcdWrites] at h
      cases h1 : addVcd cl.1 cl.2 none s0 with
      | none => simp [h1] at h
      | some s1 =>
        simp only [h1] at h
        obtain ⟨bv, hlt, hch, hprev, htpe, _⟩ := addVcd_chunk_onebit cl.1 cl.2 none s0 s1 ht h1
        obtain ⟨cs, hd, hdl, hv⟩ := ih s1 s (by rw [htpe]; exact ht) h
        refine ⟨(cl.1 - s0.prevTimeIdx, bv) :: cs, ?_, ?_, ?_⟩
        · rw [hd, dataBytes_cons s1 _ _ hch]
          simp [SigEnc.dataBytes, encOneBit, List.append_assoc]
        · simp [deltasFrom, hdl, hprev]
        · intro x hx
          rcases List.mem_cons.mp hx with rfl | hx
          · exact hlt
          · exact hv x hx
  obtain ⟨cs, hd, hdl, hv⟩ := hstream calls { tpe := .bitvec 1 } s rfl hw
  have hd' : s.dataBytes = encOneBit cs := by simpa [SigEnc.dataBytes] using hd
  have hcsne : cs ≠ [] := by
    intro he; subst he
    cases calls with
    | nil => exact hne rfl
    | cons c0 r => simp [deltasFrom] at hdl
  have hcs : ∀ x ∈ cs, x.2 < 16 ∧ ((x.1 <<< 4) + x.2) < 2 ^ 32 := by
    intro x hx
    have h9 := hv x hx
    refine ⟨by omega, ?_⟩
    have hxd : x.1 ∈ cs.map (·.1) := List.mem_map.mpr ⟨x, hx, rfl⟩
    rw [hdl] at hxd
    obtain ⟨t, ht, hle⟩ := deltasFrom_le _ 0 x.1 hxd
    have := hsmall t ht
    rw [Nat.shiftLeft_eq]; omega
  refine ⟨cs, hdl, hv, ?_⟩
  exact single_block_load_onebit c signals i s tt t0 cs hs hd' hcsne hcs (by rw [← hd']; exact hlen)

end Wellen.Store

namespace Wellen.Store
open Wellen.Bits

/-! ### several blocks: segmentation does not alter the data -/

/-- one block of a store: the per-signal encoders it was finished from and its time table -/
structure BlockDesc where
  signals : Array SigEnc
  tt : List Nat
  t0 : Nat

def mkBlock (c : Codec) (d : BlockDesc) : Block :=
  let r := finishSignals c d.signals
  { startTime := d.t0, timeTable := d.tt, offsets := r.2.1, data := r.2.2 }

theorem layoutOffsets_none (ds : List (Option (List Nat))) : ∀ (k i : Nat), ds[i]? = some none → (layoutOffsets k ds)[i]? = some none := by
  induction ds with
  | nil => intro k i h; simp at h
  | cons x r ih =>
    intro k i h
    cases i with
    | zero => simp at h; subst h; simp [layoutOffsets]
    | succ i =>
      simp only [List.getElem?_cons_succ] at h
      cases x with
      | none => simpa [layoutOffsets] using ih k i h
      | some y => simpa [layoutOffsets] using ih (k + y.length) i h

/-- a signal without data in a block has no offset entry -/
theorem block_no_data (c : Codec) (d : BlockDesc) (i : Nat) (s : SigEnc) (hs : d.signals.toList[i]? = some s)
    (he : s.dataBytes = []) : (mkBlock c d).offsetAndLength i = none := by
  have hfin : (finishSignal c s).2 = none := by simp [finishSignal, he]
  obtain ⟨h1, _⟩ := finishSignals_layout c d.signals
  have hd : (d.signals.toList.map fun s => (finishSignal c s).2)[i]? = some none := by
    rw [List.getElem?_map, hs]; simp [hfin]
  have := layoutOffsets_none _ 0 i hd
  simp only [mkBlock, Block.offsetAndLength, h1]
  rw [List.getD_eq_getElem?_getD, this]
  rfl

/-- the decoded compression field of a block's meta word -/
def compOf (c : Codec) (data : List Nat) : Option Nat :=
  if data.length < c.minSize then none else if c.wantCompress data then some (divCeil data.length 32 * 32) else none

/-- a signal with data: its offset entry selects meta word + data, and the meta word decodes to its widest kind -/
theorem block_with_data (c : Codec) (d : BlockDesc) (i : Nat) (s : SigEnc) (hs : d.signals.toList[i]? = some s)
    (hne : s.dataBytes ≠ []) (hlen : divCeil s.dataBytes.length 32 < 2 ^ 32) :
    ∃ off len m, (mkBlock c d).offsetAndLength i = some (off, len) ∧
      ((mkBlock c d).data.drop off).take len = lebWrite m ++ s.dataBytes ∧
      metaDecode m = some (s.maxStates, compOf c s.dataBytes) := by
  have hdata : s.dataBytes.isEmpty = false := by simpa using hne
  -- the three cases of `finish_signal`
  have key : ∃ m, (finishSignal c s).2 = some (lebWrite m ++ s.dataBytes) ∧ metaDecode m = some (s.maxStates, compOf c s.dataBytes) := by
    unfold finishSignal compOf
    simp only [hdata, Bool.false_eq_true, ↓reduceIte]
    by_cases hmin : s.dataBytes.length < c.minSize
    · simp only [hmin, ↓reduceIte]
      exact ⟨_, rfl, meta_roundtrip_plain _⟩
    · simp only [hmin, ↓reduceIte]
      by_cases hw : c.wantCompress s.dataBytes = true
      · simp only [hw, ↓reduceIte]
        exact ⟨_, rfl, (meta_roundtrip_compressed s.maxStates s.dataBytes.length hlen).1⟩
      · simp only [hw, Bool.false_eq_true, ↓reduceIte]
        exact ⟨_, rfl, meta_roundtrip_plain _⟩
  obtain ⟨m, hfin, hdec⟩ := key
  have hd : (d.signals.toList.map fun s => (finishSignal c s).2)[i]? = some (some (lebWrite m ++ s.dataBytes)) := by
    rw [List.getElem?_map, hs]; simp [hfin]
  obtain ⟨off, len, ho, hsl⟩ := block_slice c d.signals i _ hd
  exact ⟨off, len, m, ho, hsl, hdec⟩

end Wellen.Store

namespace Wellen.Store
open Wellen.Bits

abbrev Change := Nat × States × List Nat

/-- what is known about signal `i` in one block: its encoder, and the changes whose chunk stream it recorded (possibly none) -/
def SigInBlock (bits i : Nat) (p : BlockDesc × SigEnc × List Change) : Prop :=
  p.1.signals.toList[i]? = some p.2.1 ∧ p.2.1.dataBytes = encStream p.2.2 ∧
  (∀ x ∈ p.2.2, x.2.2.length = divCeil bits x.2.1.bib ∧ ((x.1 <<< 2) ||| x.2.1.toNat) < 2 ^ 32) ∧
  divCeil p.2.1.dataBytes.length 32 < 2 ^ 32

/-- the meta data `collect_signal_meta_data` gathers: one entry per block in which the signal has data -/
def metasOf (c : Codec) : List (BlockDesc × SigEnc × List Change) → Nat → List (Nat × List Nat × States × Option Nat)
  | [], _ => []
  | p :: r, off =>
    (if p.2.2 = [] then [] else [(off, p.2.1.dataBytes, p.2.1.maxStates, compOf c p.2.1.dataBytes)]) ++
      metasOf c r (off + p.1.tt.length)

theorem encStream_eq_nil (cs : List Change) : encStream cs = [] ↔ cs = [] := by
  constructor
  · intro h
    cases cs with
    | nil => rfl
    | cons c0 r =>
      have := encStream_length (c0 :: r)
      rw [h] at this; simp at this
  · intro h; subst h; rfl

theorem collectMeta_go (c : Codec) (bits i : Nat) (l : List (BlockDesc × SigEnc × List Change)) :
    (∀ p ∈ l, SigInBlock bits i p) → ∀ (off : Nat) (acc : List (Nat × List Nat × States × Option Nat)),
    collectMeta.go i (l.map fun p => mkBlock c p.1) off acc = some (acc.reverse ++ metasOf c l off) := by
  induction l with
  | nil => intro _ off acc; simp [collectMeta.go, metasOf]
  | cons p r ih =>
    intro h off acc
    obtain ⟨hs, hdata, hcs, hlen⟩ := h p (by simp)
    have ih' := ih (fun q hq => h q (by simp [hq]))
    simp only [List.map_cons, collectMeta.go]
    by_cases he : p.2.2 = []
    · have hnil : p.2.1.dataBytes = [] := by rw [hdata, he]; rfl
      rw [block_no_data c p.1 i p.2.1 hs hnil]
      simp only [show (mkBlock c p.1).timeTable = p.1.tt from rfl]
      rw [ih' _ acc]
      simp [metasOf, he]
    · have hne : p.2.1.dataBytes ≠ [] := by rw [hdata]; exact fun h => he ((encStream_eq_nil _).mp h)
      obtain ⟨o, len, m, ho, hsl, hdec⟩ := block_with_data c p.1 i p.2.1 hs hne hlen
      rw [ho]
      simp only [hsl, lebRead_lebWrite, hdec, show (mkBlock c p.1).timeTable = p.1.tt from rfl]
      rw [ih' _ _]
      simp [metasOf, he]

/-- the loader's fold over the collected blocks, for a multi-bit signal -/
def replayBlocks (bits : Nat) (sigS : States) : List (BlockDesc × SigEnc × List Change) → Nat → Acc → Acc
  | [], _, a => a
  | p :: r, off, a => replayBlocks bits sigS r (off + p.1.tt.length) (replayFixed bits sigS p.2.2 off a).2

theorem fold_metas (c : Codec) (bits : Nat) (hb : bits ≠ 1) (sigS : States) (l : List (BlockDesc × SigEnc × List Change)) (i : Nat) :
    (∀ p ∈ l, SigInBlock bits i p) → ∀ (off : Nat) (a : Acc),
    (metasOf c l off).foldl (loadStep (.bitvec bits) sigS) (some a) =
      some (replayBlocks bits sigS l off a) := by
  induction l with
  | nil => intro _ off a; simp [metasOf, replayBlocks]
  | cons p r ih =>
    intro h off a
    obtain ⟨hs, hdata, hcs, hlen⟩ := h p (by simp)
    have ih' := ih (fun q hq => h q (by simp [hq]))
    simp only [metasOf, replayBlocks]
    by_cases he : p.2.2 = []
    · simp only [he, ↓reduceIte, List.nil_append]
      rw [ih' _ a]
      simp [replayFixed]
    · simp only [he, ↓reduceIte, List.cons_append, List.nil_append, List.foldl_cons]
      have hfuel : p.2.2.length < p.2.1.dataBytes.length + 1 := by
        rw [hdata]; have := encStream_length p.2.2; omega
      have hload : loadFixed bits sigS (p.2.1.dataBytes.length + 1) p.2.1.dataBytes off a = some (replayFixed bits sigS p.2.2 off a).2 := by
        rw [hdata]; exact loadFixed_stream bits hb sigS p.2.2 hcs _ off a (by rw [← hdata]; exact hfuel)
      cases hco : compOf c p.2.1.dataBytes with
      | none => simp only [loadStep, hload]; exact ih' _ _
      | some n =>
        have hn : ¬ n < p.2.1.dataBytes.length := by
          unfold compOf at hco
          split at hco
          · cases hco
          · split at hco
            · cases hco
              have := (meta_roundtrip_compressed p.2.1.maxStates p.2.1.dataBytes.length hlen).2
              omega
            · cases hco
        simp only [loadStep, hn, ↓reduceIte, hload]; exact ih' _ _

end Wellen.Store

namespace Wellen.Store
open Wellen.Bits

/-- the widest kind over the blocks in which the signal has data -/
def joinedStates (c : Codec) (l : List (BlockDesc × SigEnc × List Change)) : States :=
  joinAll ((metasOf c l 0).map (fun b => b.2.2.1))

/-- **segmentation does not alter the data**: for ANY number of blocks (each finished from its own set of encoders, each with
its own compression decision), a multi-bit signal is loaded as the concatenation of the changes recorded in each block, the
time indices of block k shifted by the lengths of the earlier blocks' time tables, all entries aligned to the widest kind -/
theorem multi_block_load (c : Codec) (bits : Nat) (hb : bits ≠ 1) (i : Nat) (l : List (BlockDesc × SigEnc × List Change))
    (h : ∀ p ∈ l, SigInBlock bits i p) :
    loadSignal { blocks := l.map fun p => mkBlock c p.1 } i (.bitvec bits) =
      some { maxStates := joinedStates c l,
             times := (replayBlocks bits (joinedStates c l) l 0 {}).timesRev.reverse,
             entries := (replayBlocks bits (joinedStates c l) l 0 {}).entriesRev.reverse } := by
  have hgo := collectMeta_go c bits i l h 0 []
  simp only [List.reverse_nil, List.nil_append] at hgo
  have hfold := fold_metas c bits hb (joinedStates c l) l i h 0 {}
  simp only [loadSignal, collectMeta, hgo]
  unfold joinedStates at hfold ⊢
  rw [hfold]

end Wellen.Store

namespace Wellen.Store
open Wellen.Bits

/-! ### reals and strings: one block end to end -/

theorem encReals_length (cs : List (Nat × List Nat)) : cs.length ≤ (encReals cs).length := by
  induction cs with
  | nil => simp [encReals]
  | cons c cs ih =>
    have h1 : 1 ≤ (lebWrite c.1).length := by
      cases h : lebWrite c.1 with
      | nil => exact absurd h (lebWrite_ne_nil _)
      | cons a r => simp
    simp only [encReals, List.map_cons, List.flatten_cons, List.length_append, List.length_cons] at ih ⊢
    omega

theorem encStrings_length (cs : List (Nat × List Nat)) : cs.length ≤ (encStrings cs).length := by
  induction cs with
  | nil => simp [encStrings]
  | cons c cs ih =>
    have h1 : 1 ≤ (lebWrite c.1).length := by
      cases h : lebWrite c.1 with
      | nil => exact absurd h (lebWrite_ne_nil _)
      | cons a r => simp
    simp only [encStrings, List.map_cons, List.flatten_cons, List.length_append, List.length_cons] at ih ⊢
    omega

/-- the part of a one-block load that does not depend on the signal type: the loader is handed the signal's data with the
block's index offset 0 and an empty accumulator (the compression decision does not matter) -/
theorem single_block_reduce (c : Codec) (signals : Array SigEnc) (i : Nat) (s : SigEnc) (tt : List Nat) (t0 : Nat) (tpe : SigType)
    (hs : signals.toList[i]? = some s) (hne : s.dataBytes ≠ []) (hlen : divCeil s.dataBytes.length 32 < 2 ^ 32) :
    let r := finishSignals c signals
    let b : Block := { startTime := t0, timeTable := tt, offsets := r.2.1, data := r.2.2 }
    loadSignal { blocks := [b] } i tpe =
      match (match tpe with
             | .string => loadStrings (s.dataBytes.length + 1) s.dataBytes 0 {}
             | .real => loadReals (s.dataBytes.length + 1) s.dataBytes 0 {}
             | .bitvec bits => loadFixed bits s.maxStates (s.dataBytes.length + 1) s.dataBytes 0 {}) with
      | none => none
      | some a => some { maxStates := s.maxStates, times := a.timesRev.reverse, entries := a.entriesRev.reverse } := by
  have hb := block_with_data c { signals := signals, tt := tt, t0 := t0 } i s hs hne hlen
  obtain ⟨off, len, m, ho, hsl, hdec⟩ := hb
  simp only [mkBlock] at ho hsl
  simp only [loadSignal, loadStep, joinAll, collectMeta, collectMeta.go, ho, hsl, lebRead_lebWrite, hdec, List.reverse_cons,
    List.reverse_nil, List.nil_append, List.map_cons, List.map_nil, List.foldl_cons, List.foldl_nil]
  cases hco : compOf c s.dataBytes with
  | none => rfl
  | some n =>
    have hn : ¬ n < s.dataBytes.length := by
      unfold compOf at hco
      split at hco
      · cases hco
      · split at hco
        · cases hco
          have := (meta_roundtrip_compressed s.maxStates s.dataBytes.length hlen).2
          omega
        · cases hco
    simp only [hn, ↓reduceIte]
    cases tpe <;> rfl

theorem single_block_load_reals (c : Codec) (signals : Array SigEnc) (i : Nat) (s : SigEnc) (tt : List Nat) (t0 : Nat)
    (cs : List (Nat × List Nat)) (hs : signals.toList[i]? = some s) (hdata : s.dataBytes = encReals cs) (hne : cs ≠ [])
    (hcs : ∀ c ∈ cs, c.2.length = 8 ∧ c.1 < 2 ^ 32) (hlen : divCeil (encReals cs).length 32 < 2 ^ 32) :
    let r := finishSignals c signals
    let b : Block := { startTime := t0, timeTable := tt, offsets := r.2.1, data := r.2.2 }
    loadSignal { blocks := [b] } i .real =
      some { maxStates := s.maxStates, times := (replayPlain cs 0 {}).2.timesRev.reverse,
             entries := (replayPlain cs 0 {}).2.entriesRev.reverse } := by
  have hne' : s.dataBytes ≠ [] := by
    rw [hdata]
    cases cs with
    | nil => exact absurd rfl hne
    | cons c0 r => have := encReals_length (c0 :: r); intro h; rw [h] at this; simp at this
  have hred := single_block_reduce c signals i s tt t0 .real hs hne' (by rw [hdata]; exact hlen)
  simp only at hred ⊢
  rw [hred, hdata, loadReals_stream cs hcs _ 0 {} (by have := encReals_length cs; omega)]

theorem single_block_load_strings (c : Codec) (signals : Array SigEnc) (i : Nat) (s : SigEnc) (tt : List Nat) (t0 : Nat)
    (cs : List (Nat × List Nat)) (hs : signals.toList[i]? = some s) (hdata : s.dataBytes = encStrings cs) (hne : cs ≠ [])
    (hcs : ∀ c ∈ cs, c.1 < 2 ^ 32) (hlen : divCeil (encStrings cs).length 32 < 2 ^ 32) :
    let r := finishSignals c signals
    let b : Block := { startTime := t0, timeTable := tt, offsets := r.2.1, data := r.2.2 }
    loadSignal { blocks := [b] } i .string =
      some { maxStates := s.maxStates, times := (replayPlain cs 0 {}).2.timesRev.reverse,
             entries := (replayPlain cs 0 {}).2.entriesRev.reverse } := by
  have hne' : s.dataBytes ≠ [] := by
    rw [hdata]
    cases cs with
    | nil => exact absurd rfl hne
    | cons c0 r => have := encStrings_length (c0 :: r); intro h; rw [h] at this; simp at this
  have hred := single_block_reduce c signals i s tt t0 .string hs hne' (by rw [hdata]; exact hlen)
  simp only at hred ⊢
  rw [hred, hdata, loadStrings_stream cs hcs _ 0 {} (by have := encStrings_length cs; omega)]

end Wellen.Store
