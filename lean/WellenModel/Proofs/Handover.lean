import WellenModel.Proofs.VcdStop
import WellenModel.Proofs.Mt
/-!
# The lexical hand-over between parser threads

Machine-level facts about `parse_body` with a stop position: until it exits it behaves like the parser without a stop
position, the parser without a stop position does not look at positions, and it can be run on top of any earlier events.
-/
namespace Wellen.VcdBody

/-- a step that does not exit is the step of the parser without stop position -/
theorem step_cont_none (s : Nat) (m m' : M) (b : Nat) (h : step (some s) m b = .cont m') : step none m b = .cont m' := by
  unfold step at h ⊢
  cases hst : m.st <;> simp only [hst] at h ⊢
  · exact h
  · by_cases hw : isWs b = true
    · simp only [hw, ↓reduceIte] at h ⊢
      by_cases he : m.first.isEmpty = true
      · simp only [he, ↓reduceIte] at h ⊢; exact h
      · simp only [he, Bool.false_eq_true, ↓reduceIte] at h ⊢
        cases hp : parseFirst m.first.reverse <;> simp only [hp] at h ⊢
        · by_cases hc : decide (m.pos - m.first.reverse.length - 1 > s) = true
          · simp only [hc, ↓reduceIte] at h; cases h
          · simp only [hc, Bool.false_eq_true, ↓reduceIte] at h ⊢; exact h
        all_goals exact h
    · simp only [hw, Bool.false_eq_true, ↓reduceIte] at h ⊢; exact h
  · exact h
  · exact h

theorem step_error_none (s : Nat) (m : M) (b : Nat) (e : List Ev) (h : step (some s) m b = .error e) :
    step none m b = .error e := by
  unfold step at h ⊢
  cases hst : m.st <;> simp only [hst] at h ⊢
  · exact h
  · by_cases hw : isWs b = true
    · simp only [hw, ↓reduceIte] at h ⊢
      by_cases he : m.first.isEmpty = true
      · simp only [he, ↓reduceIte] at h ⊢; exact h
      · simp only [he, Bool.false_eq_true, ↓reduceIte] at h ⊢
        cases hp : parseFirst m.first.reverse <;> simp only [hp] at h ⊢
        · by_cases hc : decide (m.pos - m.first.reverse.length - 1 > s) = true
          · simp only [hc, ↓reduceIte] at h; cases h
          · simp only [hc, Bool.false_eq_true, ↓reduceIte] at h ⊢; exact h
        all_goals exact h
    · simp only [hw, Bool.false_eq_true, ↓reduceIte] at h ⊢; exact h
  · exact h
  · exact h

/-- what an exit means: a complete timestamp token, in the position of a first token, that starts after the stop position -/
theorem step_exit_iff (s : Nat) (m : M) (b : Nat) (e : List Ev) (h : step (some s) m b = .exit e) :
    e = m.evs.reverse ∧ m.st = .first ∧ isWs b = true ∧ m.first ≠ [] ∧
    (∃ t, parseFirst m.first.reverse = .time t ∧
      step none m b = .cont { m with pos := m.pos + 1, evs := .time t :: m.evs, first := [] }) ∧
    m.pos - m.first.reverse.length - 1 > s := by
  unfold step at h
  cases hst : m.st <;> simp only [hst] at h
  · split at h <;> cases h
  · by_cases hw : isWs b = true
    · simp only [hw, ↓reduceIte] at h
      by_cases he : m.first.isEmpty = true
      · simp only [he, ↓reduceIte] at h; cases h
      · simp only [he, Bool.false_eq_true, ↓reduceIte] at h
        cases hp : parseFirst m.first.reverse <;> simp only [hp] at h
        · by_cases hc : decide (m.pos - m.first.reverse.length - 1 > s) = true
          · simp only [hc, ↓reduceIte, StepRes.exit.injEq] at h
            refine ⟨h.symm, rfl, hw, by intro e0; simp [e0] at he, ⟨_, rfl, ?_⟩, by simpa using hc⟩
            unfold step
            simp [hst, hw, he, hp]
          · simp only [hc, Bool.false_eq_true, ↓reduceIte] at h; cases h
        all_goals cases h
    · simp only [hw, Bool.false_eq_true, ↓reduceIte] at h; cases h
  · split at h
    · split at h <;> cases h
    · cases h
  · split at h
    · split at h
      · cases h
      · split at h <;> cases h
    · cases h

/-- running on top of earlier events `E`, at another position -/
def lift (E : List Ev) (k : Nat) (m : M) : M := { m with evs := m.evs ++ E, pos := m.pos + k }

def liftRes (E : List Ev) (k : Nat) : StepRes → StepRes
  | .cont m => .cont (lift E k m)
  | .exit e => .exit (E.reverse ++ e)
  | .error e => .error (E.reverse ++ e)

/-- the parser without stop position looks neither at positions nor at the events so far -/
theorem step_lift (E : List Ev) (k : Nat) (m : M) (b : Nat) :
    step none (lift E k m) b = liftRes E k (step none m b) := by
  unfold step lift liftRes
  cases hst : m.st <;> simp only [hst]
  · split <;> simp [lift, Nat.add_right_comm]
  · by_cases hw : isWs b = true
    · simp only [hw, ↓reduceIte]
      by_cases he : m.first.isEmpty = true
      · simp [he, lift, Nat.add_right_comm]
      · simp only [he, Bool.false_eq_true, ↓reduceIte]
        cases hp : parseFirst m.first.reverse <;> simp [lift, Nat.add_right_comm]
    · simp [hw, lift, Nat.add_right_comm]
  · by_cases hw : isWs b = true
    · simp only [hw, ↓reduceIte]
      by_cases he : m.id.isEmpty = true
      · simp [he, lift, Nat.add_right_comm]
      · simp [he, lift, Nat.add_right_comm]
    · simp [hw, lift, Nat.add_right_comm]
  · by_cases hw : isWs b = true
    · simp only [hw, ↓reduceIte]
      by_cases he : m.first.isEmpty = true
      · simp [he, lift, Nat.add_right_comm]
      · simp only [he, Bool.false_eq_true, ↓reduceIte]
        split <;> simp [lift, Nat.add_right_comm]
    · simp [hw, lift, Nat.add_right_comm]

theorem runM_lift (E : List Ev) (k : Nat) : ∀ (bs : List Nat) (m : M),
    runM none (lift E k m) bs = liftRes E k (runM none m bs) := by
  intro bs
  induction bs with
  | nil => intro m; rfl
  | cons b r ih =>
    intro m
    simp only [runM, step_lift]
    cases step none m b with
    | cont m' => simp only [liftRes]; exact ih m'
    | exit e => rfl
    | error e => rfl

def liftOut (E : List Ev) : Out → Out
  | .ok e => .ok (E.reverse ++ e)
  | .err e => .err (E.reverse ++ e)

theorem flush_lift (E : List Ev) (k : Nat) (m : M) : flush (lift E k m) = liftOut E (flush m) := by
  unfold flush lift liftOut
  cases hst : m.st <;> simp only [hst]
  · simp
  · by_cases he : m.first.isEmpty = true
    · simp [he]
    · simp only [he, Bool.false_eq_true, ↓reduceIte]
      cases hp : parseFirst m.first.reverse <;> simp
  · simp
  · simp

theorem run_lift (E : List Ev) (k : Nat) : ∀ (bs : List Nat) (m : M),
    run none (lift E k m) bs = liftOut E (run none m bs) := by
  intro bs
  induction bs with
  | nil => intro m; exact flush_lift E k m
  | cons b r ih =>
    intro m
    simp only [run, step_lift]
    cases step none m b with
    | cont m' => simp only [liftRes]; exact ih m'
    | exit e => rfl
    | error e => rfl


end Wellen.VcdBody
