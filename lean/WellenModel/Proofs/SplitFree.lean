import WellenModel.Model.Spec
/-! Splits are transparent for the specification: a history with `split` marks (one encoder per parser thread) denotes the
same waveform as the history without them. -/
namespace Wellen.Spec
open Wellen.Store Wellen.Bits

/-- a history without its `split` marks (= the same recording made by one parser thread) -/
def dropSplits (ops : List Op) : List Op :=
  ops.filter (fun op => match op with | .split => false | _ => true)

def eraseNM (s : St) : St := { s with needNewMax := false }

theorem record_erase (s t : St) (id : Nat) (v : Value) (h : record s id v = some t) :
    record (eraseNM s) id v = some (eraseNM t) := by
  unfold record at h ⊢
  by_cases hlt : id < s.changesRev.size
  · simp only [hlt, dite_true, Option.some.injEq] at h
    subst h
    simp [eraseNM, hlt]
  · simp [hlt] at h

/-- one operation: a `split` changes nothing but the mark; every other operation that succeeds after marks succeeds
identically without them -/
theorem step_erase (types : Array SigType) (s t : St) (op : Op) (h : step types s op = some t) :
    (op = .split → eraseNM t = eraseNM s) ∧ (op ≠ .split → step types (eraseNM s) op = some (eraseNM t)) := by
  cases op with
  | split =>
    refine ⟨fun _ => ?_, fun hne => absurd rfl hne⟩
    simp only [step] at h
    split at h <;> (cases h; rfl)
  | time tm =>
    refine ⟨fun e => (by cases e), fun _ => ?_⟩
    simp only [step] at h ⊢
    cases htt : s.ttRev with
    | nil =>
      rw [htt] at h
      simp only [Option.some.injEq] at h; subst h
      simp [eraseNM, htt]
    | cons m r =>
      rw [htt] at h
      simp only at h
      have e1 : (eraseNM s).ttRev = m :: r := htt
      simp only [e1]
      by_cases hgt : tm > m
      · simp only [hgt, if_true, Option.some.injEq] at h ⊢
        subst h; simp [eraseNM, htt]
      · simp only [hgt, if_false] at h ⊢
        by_cases hn : s.needNewMax = true
        · simp [hn] at h
        · simp only [hn, Bool.false_eq_true, if_false] at h
          have : (eraseNM s).needNewMax = false := rfl
          simp only [this, Bool.false_eq_true, if_false]
          by_cases heq : tm = m
          · simp only [heq, if_true, Option.some.injEq] at h ⊢
            subst h; rfl
          · simp only [heq, if_false, Option.some.injEq] at h ⊢
            subst h; rfl
  | vcd id value realLe =>
    refine ⟨fun e => (by cases e), fun _ => ?_⟩
    simp only [step] at h ⊢
    by_cases hc : s.needNewMax = true ∨ s.ttRev.isEmpty = true
    · rw [if_pos hc] at h; cases h
    · rw [if_neg hc] at h
      have hc' : ¬ ((eraseNM s).needNewMax = true ∨ (eraseNM s).ttRev.isEmpty = true) := by
        intro h'; rcases h' with h' | h'
        · cases h'
        · exact hc (Or.inr h')
      rw [if_neg hc']
      cases htp : types[id]? with
      | none => rw [htp] at h; cases h
      | some tp =>
        rw [htp] at h
        simp only at h ⊢
        cases hv : vcdValue tp value realLe with
        | none => rw [hv] at h; cases h
        | some v =>
          rw [hv] at h
          simp only at h ⊢
          have hsk : (eraseNM s).skipping = s.skipping := rfl
          rw [hsk]
          by_cases hs : s.skipping = true
          · simp only [hs, if_true, Option.some.injEq] at h ⊢; subst h; rfl
          · simp only [hs, Bool.false_eq_true, if_false] at h ⊢
            exact record_erase s t id v h
  | raw id st bytes =>
    refine ⟨fun e => (by cases e), fun _ => ?_⟩
    simp only [step] at h ⊢
    by_cases hc : s.needNewMax = true ∨ s.ttRev.isEmpty = true
    · rw [if_pos hc] at h; cases h
    · rw [if_neg hc] at h
      have hc' : ¬ ((eraseNM s).needNewMax = true ∨ (eraseNM s).ttRev.isEmpty = true) := by
        intro h'; rcases h' with h' | h'
        · cases h'
        · exact hc (Or.inr h')
      rw [if_neg hc']
      cases htp : types[id]? with
      | none => rw [htp] at h; cases h
      | some tp =>
        rw [htp] at h
        simp only at h ⊢
        cases hv : rawValue tp st bytes with
        | none => rw [hv] at h; cases h
        | some v =>
          rw [hv] at h
          simp only at h ⊢
          have hsk : (eraseNM s).skipping = s.skipping := rfl
          rw [hsk]
          by_cases hs : s.skipping = true
          · simp only [hs, if_true, Option.some.injEq] at h ⊢; subst h; rfl
          · simp only [hs, Bool.false_eq_true, if_false] at h ⊢
            exact record_erase s t id v h
  | real id le =>
    refine ⟨fun e => (by cases e), fun _ => ?_⟩
    simp only [step] at h ⊢
    by_cases hc : s.needNewMax = true ∨ s.ttRev.isEmpty = true
    · rw [if_pos hc] at h; cases h
    · rw [if_neg hc] at h
      have hc' : ¬ ((eraseNM s).needNewMax = true ∨ (eraseNM s).ttRev.isEmpty = true) := by
        intro h'; rcases h' with h' | h'
        · cases h'
        · exact hc (Or.inr h')
      rw [if_neg hc']
      have hsk : (eraseNM s).skipping = s.skipping := rfl
      rw [hsk]
      split at h
      · rename_i heq
        try simp only [heq]
        by_cases hl : le.length = 8
        · simp only [hl, if_true] at h ⊢
          by_cases hs : s.skipping = true
          · simp only [hs, if_true, Option.some.injEq] at h ⊢; subst h; rfl
          · simp only [hs, Bool.false_eq_true, if_false] at h ⊢
            exact record_erase s t id (.real le) h
        · simp [hl] at h
      · cases h

theorem foldl_none_step (types : Array SigType) (l : List Op) :
    l.foldl (fun acc op => acc.bind (fun s => step types s op)) (none : Option St) = none := by
  induction l with
  | nil => rfl
  | cons a r ih => simpa using ih

theorem fold_dropSplits (types : Array SigType) : ∀ (ops : List Op) (s t : St),
    ops.foldl (fun acc op => acc.bind (fun s => step types s op)) (some s) = some t →
    (dropSplits ops).foldl (fun acc op => acc.bind (fun s => step types s op)) (some (eraseNM s)) = some (eraseNM t) := by
  intro ops
  induction ops with
  | nil => intro s t h; simp at h; subst h; rfl
  | cons op r ih =>
    intro s t h
    simp only [List.foldl_cons, Option.bind_some] at h
    cases hs : step types s op with
    | none => rw [hs, foldl_none_step] at h; cases h
    | some s1 =>
      rw [hs] at h
      obtain ⟨h1, h2⟩ := step_erase types s s1 op hs
      cases op with
      | split =>
        have : dropSplits (Op.split :: r) = dropSplits r := rfl
        rw [this, ← h1 rfl]
        exact ih s1 t h
      | time tm =>
        have : dropSplits (Op.time tm :: r) = Op.time tm :: dropSplits r := rfl
        rw [this]; simp only [List.foldl_cons, Option.bind_some]
        rw [h2 (by intro e; cases e)]; exact ih s1 t h
      | vcd a b c =>
        have : dropSplits (Op.vcd a b c :: r) = Op.vcd a b c :: dropSplits r := rfl
        rw [this]; simp only [List.foldl_cons, Option.bind_some]
        rw [h2 (by intro e; cases e)]; exact ih s1 t h
      | raw a b c =>
        have : dropSplits (Op.raw a b c :: r) = Op.raw a b c :: dropSplits r := rfl
        rw [this]; simp only [List.foldl_cons, Option.bind_some]
        rw [h2 (by intro e; cases e)]; exact ih s1 t h
      | real a b =>
        have : dropSplits (Op.real a b :: r) = Op.real a b :: dropSplits r := rfl
        rw [this]; simp only [List.foldl_cons, Option.bind_some]
        rw [h2 (by intro e; cases e)]; exact ih s1 t h

/-- **splits are transparent**: whatever a history with `split` marks denotes, the same history without the marks — the
recording made by a single parser thread — denotes as well -/
theorem run_dropSplits (types : List SigType) (ops : List Op) (r : List Nat × List (List (Nat × Value)))
    (h : run types ops = some r) : run types (dropSplits ops) = some r := by
  unfold run at h ⊢
  simp only at h ⊢
  cases hf : ops.foldl (fun acc op => acc.bind (fun s => step types.toArray s op))
      (some { changesRev := (types.map fun _ => []).toArray }) with
  | none => rw [hf] at h; cases h
  | some t =>
    rw [hf] at h
    simp only at h
    have hd := fold_dropSplits types.toArray ops _ t hf
    have e0 : eraseNM ({ changesRev := (types.map fun _ => []).toArray } : St) = { changesRev := (types.map fun _ => []).toArray } := rfl
    rw [e0] at hd
    rw [hd]
    by_cases hn : t.needNewMax = true
    · simp [hn] at h
    · simp only [hn, Bool.false_eq_true, if_false] at h
      simp only [eraseNM, Bool.false_eq_true, if_false]
      exact h

end Wellen.Spec
