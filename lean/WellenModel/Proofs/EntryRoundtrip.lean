import WellenModel.Proofs.Entry
/-! The alignment / decode round trip of the in-memory entry layout. -/
namespace Wellen.Store
open Wellen.Bits

@[simp] theorem bne_two_two : (States.two != States.two) = false := by decide
@[simp] theorem bne_four_two : (States.four != States.two) = true := by decide
@[simp] theorem bne_nine_two : (States.nine != States.two) = true := by decide
theorem glm_two (b : Nat) : getLenAndMeta .two b = ((b+7)/8, false) := by
  simp [getLenAndMeta, States.bib, States.bits]
theorem glm_four (b : Nat) : getLenAndMeta .four b = ((b+3)/4, b % 4 == 0) := by
  simp [getLenAndMeta, States.bib, States.bits]
theorem glm_nine (b : Nat) : getLenAndMeta .nine b = ((b+1)/2, b % 2 == 0) := by
  simp [getLenAndMeta, States.bib, States.bits]

theorem align_no_underflow (maxS loc : States) (bits : Nat) (hle : loc.toNat ≤ maxS.toNat) (hb : 1 ≤ bits)
    (hdiff : ¬ ((getLenAndMeta loc bits).1 = (getLenAndMeta maxS bits).1 ∧
               (getLenAndMeta loc bits).2 = (getLenAndMeta maxS bits).2)) :
    if (getLenAndMeta maxS bits).2 then (getLenAndMeta loc bits).1 ≤ (getLenAndMeta maxS bits).1
    else (getLenAndMeta loc bits).1 + 1 ≤ (getLenAndMeta maxS bits).1 := by
  cases hb4 : (bits % 4 == 0) <;> cases hb2 : (bits % 2 == 0) <;>
  cases maxS <;> cases loc <;>
    simp [glm_two, glm_four, glm_nine, States.toNat, hb4, hb2] at hle hdiff ⊢ <;>
    simp at hb4 hb2 <;> omega

theorem shared_layout_arith (maxS loc : States) (bits : Nat) (hle : loc.toNat ≤ maxS.toNat)
    (hmax : maxS ≠ .two) (hb : 2 ≤ bits)
    (hs1 : (getLenAndMeta loc bits).1 = (getLenAndMeta maxS bits).1)
    (hs2 : (getLenAndMeta loc bits).2 = false) (hm : (getLenAndMeta maxS bits).2 = false) :
    bits % loc.bib > 0 ∧ (bits % loc.bib) * loc.bits ≤ 6 ∧ B loc ^ (bits % loc.bib) ≤ 64 := by
  cases hb4 : (bits % 4 == 0) <;> cases hb2 : (bits % 2 == 0) <;>
  cases maxS <;> cases loc <;>
    simp [glm_two, glm_four, glm_nine, States.toNat, hb4, hb2, States.bib, States.bits, B] at hle hs1 hs2 hm hmax ⊢ <;>
    simp at hb4 hb2 <;>
    first
      | omega
      | (have h3 : bits = 2 ∨ bits = 3 := by omega
         rcases h3 with h | h <;> subst h <;> decide)
      | (have h3 : bits % 4 = 1 ∨ bits % 4 = 2 ∨ bits % 4 = 3 := by omega
         rcases h3 with h | h | h <;> rw [h] <;> decide)
      | (have h3 : bits % 2 = 1 := by omega
         rw [h3]; decide)

/-- toSyms only looks at the low `b0` symbols of the first byte -/
theorem toSyms_ignores_meta (loc : States) (k h : Nat) (t : List Nat) (bits : Nat)
    (hk : k < 3) (hh : h < 64) (hb0 : bits % loc.bib > 0) (h6 : (bits % loc.bib) * loc.bits ≤ 6) :
    toSyms loc (((k <<< 6) ||| h) :: t) bits = toSyms loc (h :: t) bits := by
  unfold toSyms
  have hpos : bits ≠ 0 := by intro h0; subst h0; simp at hb0
  have hb0' : bits - bits / loc.bib * loc.bib = bits % loc.bib := by
    rw [Nat.mod_def, Nat.mul_comm]
  simp only [hpos, ↓reduceIte, hb0', hb0, List.headD_cons, List.drop_succ_cons, List.drop_zero]
  have hlt4 : bits % loc.bib < 7 := by
    cases loc <;> simp [States.bib, States.bits] at h6 hb0 ⊢ <;> omega
  have := unpack_ignores_meta loc ⟨k, hk⟩ ⟨bits % loc.bib, hlt4⟩ ⟨h, hh⟩ h6
  simp only at this
  rw [this]

/-- **entry round trip**: what is stored for one change of a vector decodes to the same symbols,
for every width ≥ 2, every widest kind of the signal and every local kind below it. -/
theorem entry_roundtrip (maxS loc : States) (syms : List Nat)
    (hbits : 2 ≤ syms.length) (hv : ∀ v ∈ syms, v < B loc) (hle : loc.toNat ≤ maxS.toNat) :
    ∃ d, decodeEntry maxS syms.length (getLenAndMeta maxS syms.length).2
           (alignEntry maxS loc syms.length (writeNState loc syms none)) = some (loc, d) ∧
         toSyms loc d syms.length = syms := by
  have hl := writeNState_length loc syms
  have hpu := pack_unpack loc syms hv
  have hne : (writeNState loc syms none) ≠ [] := by
    intro h; rw [h] at hl
    simp [divCeil] at hl
    rcases bib_cases loc with hb | hb | hb <;> rw [hb] at hl <;> omega
  obtain ⟨h0, t, ht⟩ := List.exists_cons_of_ne_nil hne
  by_cases hmax : maxS = .two
  · -- all values are two-state: no meta data at all
    subst hmax
    have hloc : loc = .two := by cases loc <;> simp [States.toNat] at hle ⊢
    subst hloc
    refine ⟨writeNState .two syms none, ?_, hpu⟩
    simp [alignEntry, glm_two, decodeEntry, ht, States.toNat]
  · unfold alignEntry
    simp only
    by_cases hsame : (getLenAndMeta loc syms.length).1 = (getLenAndMeta maxS syms.length).1 ∧
        (getLenAndMeta loc syms.length).2 = (getLenAndMeta maxS syms.length).2
    · simp only [hsame, and_self, ↓reduceIte]
      by_cases hm : (getLenAndMeta maxS syms.length).2 = true
      · simp only [hm, ↓reduceIte]
        refine ⟨_, ?_, hpu⟩
        have := decode_meta_byte maxS loc syms.length 0 (writeNState loc syms none) hmax hl
        simpa [zeros] using this
      · have hm' : (getLenAndMeta maxS syms.length).2 = false := by simpa using hm
        simp only [hm', Bool.false_eq_true, ↓reduceIte]
        obtain ⟨hs1, hs2⟩ := hsame
        rw [hm'] at hs2
        obtain ⟨hb0, h6, h64⟩ := shared_layout_arith maxS loc syms.length hle hmax hbits hs1 hs2 hm'
        have hh : h0 < 64 := by
          have := head_lt loc syms hv hb0
          rw [ht] at this; simp at this; omega
        have hlt : t.length + 1 = divCeil syms.length loc.bib := by rw [← hl, ht]; simp
        rw [ht]
        simp only [List.headD_cons, List.drop_succ_cons, List.drop_zero]
        refine ⟨_, decode_meta_shared maxS loc syms.length h0 t hmax hlt hh, ?_⟩
        rw [toSyms_ignores_meta loc loc.toNat h0 t syms.length (toNat_lt3 loc) hh hb0 h6, ← ht]
        exact hpu
    · simp only [hsame, ↓reduceIte]
      by_cases hm : (getLenAndMeta maxS syms.length).2 = true
      · simp only [hm, ↓reduceIte]
        exact ⟨_, decode_meta_byte maxS loc syms.length _ _ hmax hl, hpu⟩
      · have hm' : (getLenAndMeta maxS syms.length).2 = false := by simpa using hm
        simp only [hm', Bool.false_eq_true, ↓reduceIte]
        exact ⟨_, decode_meta_pad maxS loc syms.length _ _ hmax hl, hpu⟩

end Wellen.Store
