import WellenModel.Model.Spec
import WellenModel.Proofs.Tables
import WellenModel.Proofs.Entry
/-! Canonical form: `canon` removes exactly the immediate repetitions; kinds are minimal; rendered
values have exactly the declared width. -/
namespace Wellen.Spec
open Wellen.Bits Wellen.Store

def noAdjRepeat : List (Nat × Value) → Prop
  | [] => True
  | [_] => True
  | a :: b :: r => a.2 ≠ b.2 ∧ noAdjRepeat (b :: r)

theorem go_head (prev : Value) (l : List (Nat × Value)) :
    (∀ y r, canon.go prev l = y :: r → y.2 ≠ prev) ∧ noAdjRepeat (canon.go prev l) := by
  induction l generalizing prev with
  | nil => simp [canon.go, noAdjRepeat]
  | cons y l ih =>
    simp only [canon.go]
    by_cases h : y.2 = prev
    · rw [if_pos h]; exact ih prev
    · rw [if_neg h]
      constructor
      · intro z r hz
        simp at hz
        rw [← hz.1]; exact h
      · obtain ⟨h1, h2⟩ := ih y.2
        cases hg : canon.go y.2 l with
        | nil => simp [noAdjRepeat]
        | cons z r =>
          simp only [noAdjRepeat]
          rw [hg] at h2
          exact ⟨fun e => h1 z r hg e.symm, h2⟩

/-- no two consecutive changes of a canonical list carry the same value -/
theorem canon_noAdjRepeat (l : List (Nat × Value)) : noAdjRepeat (canon l) := by
  cases l with
  | nil => simp [canon, noAdjRepeat]
  | cons x rest =>
    simp only [canon]
    obtain ⟨h1, h2⟩ := go_head x.2 rest
    cases hg : canon.go x.2 rest with
    | nil => simp [noAdjRepeat]
    | cons z r =>
      simp only [noAdjRepeat]
      rw [hg] at h2
      exact ⟨fun e => h1 z r hg e.symm, h2⟩

theorem go_sublist (prev : Value) (l : List (Nat × Value)) : (canon.go prev l).Sublist l := by
  induction l generalizing prev with
  | nil => simp [canon.go]
  | cons y l ih =>
    simp only [canon.go]
    split
    · exact List.Sublist.cons _ (ih prev)
    · exact List.Sublist.cons₂ _ (ih y.2)

/-- nothing is added or reordered -/
theorem canon_sublist (l : List (Nat × Value)) : (canon l).Sublist l := by
  cases l with
  | nil => simp [canon]
  | cons x rest => exact List.Sublist.cons₂ _ (go_sublist x.2 rest)

theorem go_id (prev : Value) (l : List (Nat × Value)) (h0 : ∀ y r, l = y :: r → y.2 ≠ prev)
    (h : noAdjRepeat l) : canon.go prev l = l := by
  induction l generalizing prev with
  | nil => simp [canon.go]
  | cons y l ih =>
    simp only [canon.go]
    have hy : y.2 ≠ prev := h0 y l rfl
    rw [if_neg hy]
    congr 1
    cases l with
    | nil => simp [canon.go]
    | cons z r =>
      simp only [noAdjRepeat] at h
      apply ih y.2
      · intro y' r' e; simp at e; rw [← e.1]; exact fun e' => h.1 e'.symm
      · exact h.2

/-- only immediate repetitions are dropped: a list without them is left unchanged -/
theorem canon_id (l : List (Nat × Value)) (h : noAdjRepeat l) : canon l = l := by
  cases l with
  | nil => simp [canon]
  | cons x rest =>
    simp only [canon]
    congr 1
    cases rest with
    | nil => simp [canon.go]
    | cons z r =>
      simp only [noAdjRepeat] at h
      apply go_id
      · intro y' r' e; simp at e; rw [← e.1]; exact fun e' => h.1 e'.symm
      · exact h.2

/-! ### minimal kinds -/

theorem kindOf_two (syms : List Nat) : kindOf syms = .two ↔ ∀ v ∈ syms, v ≤ 1 := by
  unfold kindOf
  constructor
  · intro h
    by_cases hA : syms.all (· ≤ 1) = true
    · simpa using hA
    · rw [if_neg hA] at h; split at h <;> cases h
  · intro h
    have hA : syms.all (· ≤ 1) = true := by simpa using h
    rw [if_pos hA]

theorem kindOf_four (syms : List Nat) :
    kindOf syms = .four ↔ (∀ v ∈ syms, v ≤ 3) ∧ ∃ v ∈ syms, 2 ≤ v := by
  unfold kindOf
  constructor
  · intro h
    by_cases hA : syms.all (· ≤ 1) = true
    · rw [if_pos hA] at h; cases h
    · rw [if_neg hA] at h
      by_cases hB : syms.all (· ≤ 3) = true
      · have h' : ∃ v ∈ syms, ¬ v ≤ 1 := by simpa using hA
        obtain ⟨v, hv, hv2⟩ := h'
        exact ⟨by simpa using hB, v, hv, by omega⟩
      · rw [if_neg hB] at h; cases h
  · rintro ⟨h3, v, hv, h2⟩
    have hA : ¬ syms.all (· ≤ 1) = true := by
      intro hA
      have : ∀ v ∈ syms, v ≤ 1 := by simpa using hA
      have := this v hv; omega
    have hB : syms.all (· ≤ 3) = true := by simpa using h3
    rw [if_neg hA, if_pos hB]

/-! ### the kind chosen on the write side is `kindOf` -/

theorem or_small : ∀ a b : Fin 16,
    (a.val ||| b.val ≤ 1 ↔ a.val ≤ 1 ∧ b.val ≤ 1) ∧ (a.val ||| b.val ≤ 3 ↔ a.val ≤ 3 ∧ b.val ≤ 3) ∧
    a.val ||| b.val < 16 := by
  decide +kernel

theorem orFold_small (nums : List Nat) : ∀ acc, acc < 16 → (∀ v ∈ nums, v < 16) →
    nums.foldl (· ||| ·) acc < 16 ∧
    (nums.foldl (· ||| ·) acc ≤ 1 ↔ acc ≤ 1 ∧ ∀ v ∈ nums, v ≤ 1) ∧
    (nums.foldl (· ||| ·) acc ≤ 3 ↔ acc ≤ 3 ∧ ∀ v ∈ nums, v ≤ 3) := by
  induction nums with
  | nil => intro acc h _; simp [h]
  | cons v r ih =>
    intro acc hacc hv
    have hv16 : v < 16 := hv v (by simp)
    obtain ⟨o1, o3, o16⟩ := or_small ⟨acc, hacc⟩ ⟨v, hv16⟩
    simp only at o1 o3 o16
    obtain ⟨i16, i1, i3⟩ := ih (acc ||| v) o16 (fun x hx => hv x (by simp [hx]))
    simp only [List.foldl_cons]
    refine ⟨i16, ?_, ?_⟩
    · rw [i1, o1]; simp [and_assoc]
    · rw [i3, o3]; simp [and_assoc]

/-- `from_value` of the union of the symbol numbers is the smallest sufficient kind -/
theorem fromValue_orFold (nums : List Nat) (hv : ∀ v ∈ nums, v < 16) :
    States.fromValue (nums.foldl (· ||| ·) 0) = kindOf nums := by
  obtain ⟨h16, h1, h3⟩ := orFold_small nums 0 (by decide) hv
  obtain ⟨m2, m4⟩ := fromValue_minimal ⟨nums.foldl (· ||| ·) 0, h16⟩
  simp only at m2 m4
  unfold kindOf
  by_cases hA : nums.all (· ≤ 1) = true
  · rw [if_pos hA]
    have : ∀ v ∈ nums, v ≤ 1 := by simpa using hA
    exact m2.mpr (h1.mpr ⟨by decide, this⟩)
  · rw [if_neg hA]
    have hA' : ¬ ∀ v ∈ nums, v ≤ 1 := by simpa using hA
    have hU1 : ¬ nums.foldl (· ||| ·) 0 ≤ 1 := fun h => hA' (h1.mp h).2
    by_cases hB : nums.all (· ≤ 3) = true
    · rw [if_pos hB]
      have : ∀ v ∈ nums, v ≤ 3 := by simpa using hB
      exact m4.mpr ⟨by omega, h3.mpr ⟨by decide, this⟩⟩
    · rw [if_neg hB]
      have hB' : ¬ ∀ v ∈ nums, v ≤ 3 := by simpa using hB
      have hU3 : ¬ nums.foldl (· ||| ·) 0 ≤ 3 := fun h => hB' (h3.mp h).2
      cases hf : States.fromValue (nums.foldl (· ||| ·) 0) with
      | two => exact absurd (m2.mp hf) hU1
      | four => exact absurd (m4.mp hf).2 hU3
      | nine => rfl

theorem charsToNums_lt (chars nums : List Nat) (h : charsToNums chars = some nums) : ∀ v ∈ nums, v < 9 := by
  induction chars generalizing nums with
  | nil => simp [charsToNums] at h; subst h; simp
  | cons c r ih =>
    simp only [charsToNums] at h
    split at h
    · rename_i v vs hc hr
      simp at h; subst h
      intro x hx
      rcases List.mem_cons.mp hx with rfl | hx
      · by_cases hc256 : c < 256
        · exact (bitChar_lookup ⟨c, hc256⟩ x hc).1
        · rw [bitChar_none_of_ge c (by omega)] at hc; cases hc
      · exact ih vs hr x hx
    · cases h

/-- `check_states` returns the smallest kind that can hold the value -/
theorem checkStates_minimal (chars : List Nat) (st : States) (h : checkStates chars = some st) :
    ∃ nums, charsToNums chars = some nums ∧ st = kindOf nums := by
  unfold checkStates at h
  split at h
  · cases h
  · rename_i nums hn
    simp at h
    refine ⟨nums, hn, ?_⟩
    rw [← h]
    exact fromValue_orFold nums (fun v hv => by have := charsToNums_lt chars nums hn v hv; omega)

/-! ### width -/

theorem unpackByte_length (s : States) (k b : Nat) : (unpackByte s k b).length = k := by
  simp [unpackByte]

theorem flatMap_unpack_length (s : States) (l : List Nat) :
    (l.flatMap (unpackByte s s.bib)).length = l.length * s.bib := by
  induction l with
  | nil => simp
  | cons a l ih => simp [List.flatMap_cons, unpackByte_length, ih, Nat.succ_mul, Nat.add_comm]

/-- a rendered value has exactly the declared width -/
theorem toSyms_length (s : States) (d : List Nat) (bits : Nat) (hd : d.length = divCeil bits s.bib) :
    (toSyms s d bits).length = bits := by
  unfold toSyms
  by_cases h0 : bits = 0
  · simp [h0]
  · simp only [h0, ↓reduceIte]
    have hb0 : bits - bits / s.bib * s.bib = bits % s.bib := by rw [Nat.mod_def, Nat.mul_comm]
    rw [hb0]
    unfold divCeil at hd
    by_cases hm : bits % s.bib > 0
    · simp only [hm, ↓reduceIte, List.length_append, unpackByte_length, flatMap_unpack_length, List.length_drop]
      rcases bib_cases s with hb | hb | hb <;> rw [hb] at hd hm ⊢ <;> omega
    · simp only [hm, ↓reduceIte, flatMap_unpack_length]
      rcases bib_cases s with hb | hb | hb <;> rw [hb] at hd hm ⊢ <;> omega

end Wellen.Spec
