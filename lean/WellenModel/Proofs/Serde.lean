import WellenModel.Model.Serde
/-! Round trips `ofS (toS x) = some x` for the serde data model of every serialisable type. -/
namespace Wellen.Serde

theorem asNz_nz (n : Nat) (h : 0 < n) : asNz (nz n) = some n := by
  simp [asNz, nz]; omega

theorem asNat_int (n : Nat) : asNat (.int n) = some n := by simp [asNat]

theorem asEnum_mem (names : List String) (s : String) (h : names.contains s = true) :
    asEnum names (.str s) = some s := by
  have : s ∈ names := by simpa using h
  simp [asEnum, this]

theorem mapM_map {α β : Type} (d : β → Option α) (e : α → β) (l : List α) (h : ∀ a ∈ l, d (e a) = some a) :
    (l.map e).mapM d = some l := by
  induction l with
  | nil => rfl
  | cons a r ih =>
    simp only [List.map_cons, List.mapM_cons, h a (by simp), ih (fun x hx => h x (by simp [hx]))]
    rfl

theorem asList_map {α : Type} (d : SVal → Option α) (e : α → SVal) (l : List α) (h : ∀ a ∈ l, d (e a) = some a) :
    asList d (.seq (l.map e)) = some l := by
  simp only [asList]; exact mapM_map d e l h

/-- `Option` round trip for encoders that never produce `null` -/
theorem asOpt_ofOpt {α : Type} (d : SVal → Option α) (e : α → SVal) (o : Option α)
    (hn : ∀ a, e a ≠ .null) (h : ∀ a, o = some a → d (e a) = some a) : asOpt d (ofOpt e o) = some o := by
  cases o with
  | none => rfl
  | some a =>
    simp only [ofOpt]
    have := hn a
    cases he : e a with
    | null => exact absurd he this
    | bool b => simp only [asOpt]; rw [← he, h a rfl]; rfl
    | int i => simp only [asOpt]; rw [← he, h a rfl]; rfl
    | str s => simp only [asOpt]; rw [← he, h a rfl]; rfl
    | seq l => simp only [asOpt]; rw [← he, h a rfl]; rfl
    | map m => simp only [asOpt]; rw [← he, h a rfl]; rfl

theorem nz_ne_null (n : Nat) : nz n ≠ .null := by simp [nz]

theorem asOpt_nz (o : Option Nat) (h : ∀ n, o = some n → 0 < n) : asOpt asNz (ofOpt nz o) = some o :=
  asOpt_ofOpt asNz nz o nz_ne_null (fun a ha => asNz_nz a (h a ha))

/-! per type -/

def VarIndexM.WF (v : VarIndexM) : Prop := v.width ≠ 0
theorem VarIndexM.roundtrip (v : VarIndexM) (h : v.WF) : VarIndexM.ofS v.toS = some v := by
  simp [VarIndexM.ofS, VarIndexM.toS, asMap, fld, List.lookup, asInt]
  exact h

def SigEncM.WF : SigEncM → Prop | .bitvec n => 0 < n | _ => True
theorem SigEncM.roundtrip (v : SigEncM) (h : v.WF) : SigEncM.ofS v.toS = some v := by
  cases v with
  | string => rfl
  | real => rfl
  | bitvec n => simp only [SigEncM.toS, SigEncM.ofS]; rw [show SVal.int n = nz n from rfl, asNz_nz n h]; rfl

def ItemIdM.WF : ItemIdM → Prop | .scope r => 0 < r | .var r => 0 < r
theorem ItemIdM.roundtrip (v : ItemIdM) (h : v.WF) : ItemIdM.ofS v.toS = some v := by
  cases v with
  | scope r => simp only [ItemIdM.toS, ItemIdM.ofS]; rw [show SVal.int r = nz r from rfl, asNz_nz r h]; rfl
  | var r => simp only [ItemIdM.toS, ItemIdM.ofS]; rw [show SVal.int r = nz r from rfl, asNz_nz r h]; rfl

theorem ItemIdM.toS_ne_null (v : ItemIdM) : v.toS ≠ .null := by cases v <;> simp [ItemIdM.toS]
theorem VarIndexM.toS_ne_null (v : VarIndexM) : v.toS ≠ .null := by simp [VarIndexM.toS]

def optPos (o : Option Nat) : Prop := ∀ n, o = some n → 0 < n

structure VarM.WF (v : VarM) : Prop where
  name : 0 < v.name
  tpe : varTypes.contains v.varTpe = true
  dir : directions.contains v.direction = true
  enc : v.signalEncoding.WF
  index : ∀ i, v.index = some i → i.WF
  sig : 0 < v.signalIdx
  enumType : optPos v.enumType
  typeName : optPos v.vhdlTypeName
  parent : optPos v.parent
  next : ∀ i, v.next = some i → i.WF

theorem VarM.roundtrip (v : VarM) (h : v.WF) : VarM.ofS v.toS = some v := by
  simp only [VarM.ofS, VarM.toS, asMap, fld, List.lookup, Option.bind_eq_bind, Option.pure_def,
    Option.bind_some, String.reduceBEq, ↓reduceIte]
  rw [asNz_nz _ h.name, asEnum_mem _ _ h.tpe, asEnum_mem _ _ h.dir, SigEncM.roundtrip _ h.enc,
    asOpt_ofOpt VarIndexM.ofS VarIndexM.toS v.index VarIndexM.toS_ne_null (fun a ha => VarIndexM.roundtrip a (h.index a ha)),
    asNz_nz _ h.sig, asOpt_nz _ h.enumType, asOpt_nz _ h.typeName, asOpt_nz _ h.parent,
    asOpt_ofOpt ItemIdM.ofS ItemIdM.toS v.next ItemIdM.toS_ne_null (fun a ha => ItemIdM.roundtrip a (h.next a ha))]
  rfl

structure ScopeM.WF (v : ScopeM) : Prop where
  name : 0 < v.name
  component : optPos v.component
  tpe : scopeTypes.contains v.tpe = true
  decl : optPos v.declarationSource
  inst : optPos v.instanceSource
  child : ∀ i, v.child = some i → i.WF
  parent : optPos v.parent
  next : ∀ i, v.next = some i → i.WF

theorem ScopeM.roundtrip (v : ScopeM) (h : v.WF) : ScopeM.ofS v.toS = some v := by
  simp only [ScopeM.ofS, ScopeM.toS, asMap, fld, List.lookup, Option.bind_eq_bind, Option.pure_def,
    Option.bind_some, String.reduceBEq, ↓reduceIte]
  rw [asNz_nz _ h.name, asOpt_nz _ h.component, asEnum_mem _ _ h.tpe, asOpt_nz _ h.decl, asOpt_nz _ h.inst,
    asOpt_ofOpt ItemIdM.ofS ItemIdM.toS v.child ItemIdM.toS_ne_null (fun a ha => ItemIdM.roundtrip a (h.child a ha)),
    asOpt_nz _ h.parent,
    asOpt_ofOpt ItemIdM.ofS ItemIdM.toS v.next ItemIdM.toS_ne_null (fun a ha => ItemIdM.roundtrip a (h.next a ha))]
  rfl


theorem SourceLocM.roundtrip (v : SourceLocM) (h : 0 < v.path) : SourceLocM.ofS v.toS = some v := by
  simp only [SourceLocM.ofS, SourceLocM.toS, asMap, fld, List.lookup, Option.bind_eq_bind, Option.pure_def,
    Option.bind_some, String.reduceBEq, ↓reduceIte]
  rw [asNz_nz _ h, asNat_int]
  rfl

theorem pair_roundtrip (p : Nat × Nat) (h : 0 < p.1 ∧ 0 < p.2) : pairOfS (pairToS p) = some p := by
  simp only [pairOfS, pairToS, Option.bind_eq_bind, Option.pure_def]
  rw [asNz_nz _ h.1, asNz_nz _ h.2]
  rfl

def EnumTypeM.WF (v : EnumTypeM) : Prop := 0 < v.name ∧ ∀ p ∈ v.mapping, 0 < p.1 ∧ 0 < p.2
theorem EnumTypeM.roundtrip (v : EnumTypeM) (h : v.WF) : EnumTypeM.ofS v.toS = some v := by
  simp only [EnumTypeM.ofS, EnumTypeM.toS, asMap, fld, List.lookup, Option.bind_eq_bind, Option.pure_def,
    Option.bind_some, String.reduceBEq, ↓reduceIte]
  rw [asNz_nz _ h.1, asList_map pairOfS pairToS v.mapping (fun p hp => pair_roundtrip p (h.2 p hp))]
  rfl

theorem SliceM.roundtrip (v : SliceM) (h : 0 < v.slicedSignal) : SliceM.ofS v.toS = some v := by
  simp only [SliceM.ofS, SliceM.toS, asMap, fld, List.lookup, Option.bind_eq_bind, Option.pure_def,
    Option.bind_some, String.reduceBEq, ↓reduceIte]
  rw [asNat_int, asNat_int, asNz_nz _ h]
  rfl

theorem TimescaleM.roundtrip (v : TimescaleM) (h : units.contains v.unit = true) : TimescaleM.ofS v.toS = some v := by
  simp only [TimescaleM.ofS, TimescaleM.toS, asMap, fld, List.lookup, Option.bind_eq_bind, Option.pure_def,
    Option.bind_some, String.reduceBEq, ↓reduceIte]
  rw [asNat_int, asEnum_mem _ _ h]
  rfl

theorem TimescaleM.toS_ne_null (v : TimescaleM) : v.toS ≠ .null := by simp [TimescaleM.toS]

def MetaM.WF (v : MetaM) : Prop :=
  (∀ t, v.timescale = some t → units.contains t.unit = true) ∧ formats.contains v.fileFormat = true
theorem MetaM.roundtrip (v : MetaM) (h : v.WF) : MetaM.ofS v.toS = some v := by
  simp only [MetaM.ofS, MetaM.toS, asMap, fld, List.lookup, Option.bind_eq_bind, Option.pure_def,
    Option.bind_some, String.reduceBEq, ↓reduceIte]
  rw [asOpt_ofOpt TimescaleM.ofS TimescaleM.toS v.timescale TimescaleM.toS_ne_null
        (fun a ha => TimescaleM.roundtrip a (h.1 a ha)),
    asList_map asStr SVal.str v.comments (fun _ _ => rfl), asEnum_mem _ _ h.2]
  rfl

/-- the decimal text of a positive number parses back to it (`String::parse::<u32>` on what `to_string` wrote):
the one fact about number formatting this model relies on, stated as a hypothesis of the map round trip -/
def KeyOk (k : Nat) : Prop := 0 < k ∧ (toString k).toNat? = some k

def HierM.WF (h : HierM) : Prop :=
  (∀ v ∈ h.vars, v.WF) ∧ (∀ s ∈ h.scopes, s.WF) ∧ (∀ i, h.firstItem = some i → i.WF) ∧
  (∀ l ∈ h.sourceLocs, 0 < l.path) ∧ (∀ e ∈ h.enums, e.WF) ∧ (∀ o ∈ h.signalIdxToVar, optPos o) ∧
  h.metaData.WF ∧ (∀ p ∈ h.slices, KeyOk p.1 ∧ 0 < p.2.slicedSignal)

theorem sliceEntry_roundtrip (p : Nat × SliceM) (h : KeyOk p.1 ∧ 0 < p.2.slicedSignal) :
    sliceEntryOfS (sliceEntryToS p) = some p := by
  simp only [sliceEntryOfS, sliceEntryToS, Option.bind_eq_bind, Option.pure_def, h.1.2, Option.bind_some]
  have : ¬ p.1 = 0 := by have := h.1.1; omega
  simp only [this, ↓reduceIte]
  rw [SliceM.roundtrip _ h.2]
  rfl

theorem HierM.roundtrip (h : HierM) (hw : h.WF) : HierM.ofS h.toS = some h := by
  obtain ⟨h1, h2, h3, h4, h5, h6, h7, h8⟩ := hw
  simp only [HierM.ofS, HierM.toS, asMap, fld, List.lookup, Option.bind_eq_bind, Option.pure_def,
    Option.bind_some, String.reduceBEq, ↓reduceIte]
  rw [asList_map VarM.ofS VarM.toS h.vars (fun v hv => VarM.roundtrip v (h1 v hv)),
    asList_map ScopeM.ofS ScopeM.toS h.scopes (fun v hv => ScopeM.roundtrip v (h2 v hv)),
    asOpt_ofOpt ItemIdM.ofS ItemIdM.toS h.firstItem ItemIdM.toS_ne_null (fun a ha => ItemIdM.roundtrip a (h3 a ha)),
    asList_map asStr SVal.str h.strings (fun _ _ => rfl),
    asList_map SourceLocM.ofS SourceLocM.toS h.sourceLocs (fun v hv => SourceLocM.roundtrip v (h4 v hv)),
    asList_map EnumTypeM.ofS EnumTypeM.toS h.enums (fun v hv => EnumTypeM.roundtrip v (h5 v hv)),
    asList_map (asOpt asNz) (ofOpt nz) h.signalIdxToVar (fun o ho => asOpt_nz o (h6 o ho)),
    MetaM.roundtrip _ h7,
    mapM_map sliceEntryOfS sliceEntryToS h.slices (fun p hp => sliceEntry_roundtrip p (h8 p hp))]
  rfl

def FwEncM.WF : FwEncM → Prop | .bitVector ms _ _ => statesNames.contains ms = true | .real => True
theorem FwEncM.roundtrip (v : FwEncM) (h : v.WF) : FwEncM.ofS v.toS = some v := by
  cases v with
  | real => rfl
  | bitVector ms b mb =>
    simp only [FwEncM.ofS, FwEncM.toS, fld, List.lookup, Option.bind_eq_bind, Option.pure_def,
      Option.bind_some, String.reduceBEq, ↓reduceIte]
    rw [asEnum_mem _ _ h, asNat_int]
    rfl

def ChangeDataM.WF : ChangeDataM → Prop | .fixed e _ _ => e.WF | .varLen _ => True
theorem ChangeDataM.roundtrip (v : ChangeDataM) (h : v.WF) : ChangeDataM.ofS v.toS = some v := by
  cases v with
  | varLen s =>
    simp only [ChangeDataM.ofS, ChangeDataM.toS]
    rw [asList_map asStr SVal.str s (fun _ _ => rfl)]; rfl
  | fixed e w b =>
    simp only [ChangeDataM.ofS, ChangeDataM.toS, fld, List.lookup, Option.bind_eq_bind, Option.pure_def,
      Option.bind_some, String.reduceBEq, ↓reduceIte]
    rw [FwEncM.roundtrip e h, asNat_int, asList_map asNat (fun (x : Nat) => SVal.int x) b (fun a _ => asNat_int a)]
    rfl

theorem SignalM.roundtrip (s : SignalM) (h : 0 < s.idx ∧ s.data.WF) : SignalM.ofS s.toS = some s := by
  simp only [SignalM.ofS, SignalM.toS, asMap, fld, List.lookup, Option.bind_eq_bind, Option.pure_def,
    Option.bind_some, String.reduceBEq, ↓reduceIte]
  rw [asNz_nz _ h.1, asList_map asNat (fun (x : Nat) => SVal.int x) s.timeIndices (fun a _ => asNat_int a),
    ChangeDataM.roundtrip _ h.2]
  rfl

end Wellen.Serde
