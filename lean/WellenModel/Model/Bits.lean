import WellenModel.Gen.Tables
/-
M1 `Bits` — models of the bit-packing helpers:
  wavemem.rs: States (900-949), bit_char_to_num (1023-1038), check_states (1014-1020),
              check_min_state (957-969), compress_template (988-1011), write_n_state (1053-1079),
              expand_special_vector_cases (876-898)
  signals.rs: n_state_to_bit_string (103-138)
  fst.rs:     get_len_and_meta (269-273), get_bytes_per_entry (276-282)
Bytes are `Nat`s below 256; `u8` shifts drop the bits shifted out (`% 256`).
The character tables come from `Gen/Tables.lean`, which is regenerated from the code on every run.
-/
namespace Wellen.Bits

inductive States | two | four | nine
deriving DecidableEq, Repr, BEq, Inhabited

namespace States
def toNat : States → Nat | two => 0 | four => 1 | nine => 2
def ofNat? : Nat → Option States | 0 => some two | 1 => some four | 2 => some nine | _ => none
def bits : States → Nat | two => 1 | four => 2 | nine => 4
def bib (s : States) : Nat := 8 / s.bits
def mask (s : States) : Nat := 2 ^ s.bits - 1
/-- `States::from_value` (table generated from the code for 0..15; larger values are `Nine`) -/
def fromValue (v : Nat) : States :=
  match Gen.statesFromValueTable.getD v 2 with
  | 0 => two | 1 => four | _ => nine
def join (a b : States) : States := if a.toNat ≥ b.toNat then a else b
def lookup : States → List Nat
  | two => Gen.lookup2 | four => Gen.lookup4 | nine => Gen.lookup9
end States

/-- `bit_char_to_num` -/
def bitCharToNum (c : Nat) : Option Nat := (Gen.bitCharToNumTable.getD c none)

/-- symbol numbers of a character string, `none` if some character is not a value character -/
def charsToNums : List Nat → Option (List Nat)
  | [] => some []
  | c :: r => match bitCharToNum c, charsToNums r with
    | some v, some vs => some (v :: vs)
    | _, _ => none

/-- `check_states`: union of the symbol numbers, then `from_value` -/
def checkStates (value : List Nat) : Option States :=
  match charsToNums value with
  | none => none
  | some vs => some (States.fromValue (vs.foldl (· ||| ·) 0))

/-- `write_n_state` on symbol numbers; `meta` is OR-ed into the first byte pushed. -/
def writeAux (s : States) : List Nat → Nat → Option Nat → List Nat
  | [], _, _ => []
  | v :: rest, w, m =>
    let w' := ((w <<< s.bits) % 256) + v
    if (rest.length * s.bits) % 8 = 0 then
      (match m with | some md => w' ||| md | none => w') :: writeAux s rest 0 none
    else writeAux s rest w' m

def writeNState (s : States) (vals : List Nat) (m : Option Nat) : List Nat := writeAux s vals 0 m

/-- the symbols of one byte, most significant first -/
def unpackByte (s : States) (k : Nat) (b : Nat) : List Nat :=
  (List.range k).reverse.map (fun ii => (b >>> (ii * s.bits)) &&& s.mask)

/-- `n_state_to_bit_string`, as symbol numbers -/
def toSyms (s : States) (data : List Nat) (bits : Nat) : List Nat :=
  if bits = 0 then [] else
  let b0 := bits - (bits / s.bib) * s.bib
  if b0 > 0 then
    unpackByte s b0 (data.headD 0) ++ (data.drop 1).flatMap (unpackByte s s.bib)
  else data.flatMap (unpackByte s s.bib)

/-- characters for symbol numbers; `none` = index out of range of the lookup table (panic) -/
def render (s : States) (syms : List Nat) : Option (List Nat) :=
  syms.mapM (fun v => s.lookup[v]?)

/-- `get_len_and_meta` -/
def getLenAndMeta (s : States) (bits : Nat) : Nat × Bool :=
  ((bits + s.bib - 1) / s.bib, s != States.two && bits % s.bib == 0)

/-- `get_bytes_per_entry` -/
def bytesPerEntry (len : Nat) (hasMeta : Bool) : Nat := if hasMeta then len + 1 else len

def divCeil (a b : Nat) : Nat := (a + b - 1) / b

/-- `check_min_state` -/
def checkMinState (value : List Nat) (s : States) : States :=
  if s = States.two then States.two else
  let u := value.foldl (fun acc v =>
    (List.range s.bib).foldl (fun acc ii => acc ||| ((v >>> (ii * s.bits)) &&& s.mask)) acc) 0
  States.fromValue u

/-- `compress_template`: re-pack `bits` symbols from `inS` into `outS` -/
def compressAux (value : List Nat) (inS outS : States) (maxBits : Nat) : Nat → Nat → List Nat
  | 0, _ => []
  | bit + 1, w =>
    let revBit := maxBits - bit - 1
    let inByte := value.getD (revBit / inS.bib) 0
    let inValue := (inByte >>> ((bit % inS.bib) * inS.bits)) &&& inS.mask
    let w' := ((w <<< outS.bits) % 256) + inValue
    if bit % outS.bib = 0 then w' :: compressAux value inS outS maxBits bit 0
    else compressAux value inS outS maxBits bit w'

def compressTemplate (value : List Nat) (inS outS : States) (bits : Nat) : List Nat :=
  compressAux value inS outS (value.length * inS.bib) bits 0

/-- `expand_special_vector_cases` on characters -/
def expandSpecial (value : List Nat) (len : Nat) : Option (List Nat) :=
  if value.length ≥ len then none else
  match value with
  | [] => none  -- value[0] panics; callers never pass an empty value
  | c :: _ =>
    if c = 49 ∨ c = 48 then some (List.replicate (len - value.length) 48 ++ value)
    else if c = 120 ∨ c = 88 ∨ c = 122 ∨ c = 90 then some (List.replicate (len - value.length) c ++ value)
    else none

end Wellen.Bits
