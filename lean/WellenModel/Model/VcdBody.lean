import WellenModel.Model.Spec
/-
M6 `VcdBody` — model of vcd.rs:
  parse_body (1178-1299) with its four states, the hand-over exit and the end-of-input flush,
  parse_first_token (1047-1075), VcdEncoder::{time, value} (1103-1127), id_to_int (628-647),
  IdTracker::need_id_map (241-276) and the id-map restart of read_hierarchy (213-229, 293-318),
  determine_thread_chunks (966-975), read_values (978-1033), read_body Reader/Mmap (117-151).
Bytes are `Nat`s. Panics and errors are explicit outcomes.
-/
namespace Wellen.VcdBody
open Wellen.Bits Wellen.Store Wellen.Spec

inductive Ev
  | time (t : Nat)
  | value (v : List Nat) (id : List Nat)
deriving Repr, BEq, DecidableEq, Inhabited

def isWs (b : Nat) : Bool := b == 32 || b == 10 || b == 13 || b == 9

inductive First | time (t : Nat) | oneBit | multiBit | commentStart | ignored | bad
deriving Repr, DecidableEq

/-- `u64::from_str`: optional leading '+', then one or more ASCII digits, no overflow -/
def parseNat (bs : List Nat) : Option Nat :=
  let bs := match bs with | 43 :: r => r | r => r
  if bs.isEmpty then none else
  bs.foldl (fun (acc : Option Nat) (b : Nat) => match acc with
    | none => none
    | some n => if 48 ≤ b ∧ b ≤ 57 then
        let n' := n * 10 + (b - 48)
        if n' < 2 ^ 64 then some n' else none
      else none) (some 0)

def bytesOf (s : String) : List Nat := s.toUTF8.toList.map (·.toNat)

def kwDumpall : List Nat := [36, 100, 117, 109, 112, 97, 108, 108]
def kwComment : List Nat := [36, 99, 111, 109, 109, 101, 110, 116]
def kwDumpvars : List Nat := [36, 100, 117, 109, 112, 118, 97, 114, 115]
def kwEnd : List Nat := [36, 101, 110, 100]
def kwDumpoff : List Nat := [36, 100, 117, 109, 112, 111, 102, 102]
def kwDumpon : List Nat := [36, 100, 117, 109, 112, 111, 110]

/-- first bytes of one-bit value tokens `01zZxXhHuUwWlL-` and of multi-bit tokens `bBrRsS` -/
def oneBitChars : List Nat := [48, 49, 122, 90, 120, 88, 104, 72, 117, 85, 119, 87, 108, 76, 45]
def multiBitChars : List Nat := [98, 66, 114, 82, 115, 83]

/-- `parse_first_token` -/
def parseFirst (tok : List Nat) : First :=
  match tok with
  | [] => .bad
  | c :: rest =>
    if c = 35 then (match parseNat rest with | some t => .time t | none => .bad)
    else if oneBitChars.contains c then .oneBit
    else if multiBitChars.contains c then .multiBit
    else if tok = kwComment then .commentStart
    else if tok = kwDumpvars ∨ tok = kwDumpall ∨ tok = kwEnd ∨ tok = kwDumpoff ∨ tok = kwDumpon then .ignored   -- `$dumpall` too (fix F24)
    else .bad

inductive St | skipNl | first | idTok | lookEnd
deriving Repr, BEq, DecidableEq

structure M where
  st : St := .skipNl
  first : List Nat := []   -- reversed
  id : List Nat := []      -- reversed
  evs : List Ev := []      -- reversed
  pos : Nat := 0
deriving Repr

inductive Out
  | ok (evs : List Ev)
  | err (evs : List Ev)     -- events emitted before the error
deriving Repr, BEq, DecidableEq

inductive StepRes
  | cont (m : M)
  | exit (evs : List Ev)    -- hand-over: a timestamp token starting after `stop`
  | error (evs : List Ev)

/-- one byte of `parse_body`; `stop = none` stands for a stop position beyond every input -/
def step (stop : Option Nat) (m : M) (b : Nat) : StepRes :=
  let m' := { m with pos := m.pos + 1 }
  match m.st with
  | .skipNl => if b = 10 then .cont { m' with st := .first } else .cont m'
  | .first =>
    if isWs b then
      if m.first.isEmpty then .cont m' else
      let tok := m.first.reverse
      match parseFirst tok with
      | .time t =>
        let start := m.pos - tok.length - 1
        if (match stop with | some s => decide (start > s) | none => false) then .exit m.evs.reverse
        else .cont { m' with evs := .time t :: m.evs, first := [] }
      | .oneBit => .cont { m' with evs := .value (tok.take 1) (tok.drop 1) :: m.evs, first := [] }
      | .multiBit => .cont { m' with st := .idTok }
      | .commentStart => .cont { m' with st := .lookEnd, first := [] }
      | .ignored => .cont { m' with first := [] }
      | .bad => .error m.evs.reverse
    else .cont { m' with first := b :: m.first }
  | .idTok =>
    if isWs b then
      if m.id.isEmpty then .cont m' else
      .cont { m' with evs := .value m.first.reverse m.id.reverse :: m.evs, first := [], id := [], st := .first }
    else .cont { m' with id := b :: m.id }
  | .lookEnd =>
    if isWs b then
      if m.first.isEmpty then .cont m' else
      if m.first.reverse = kwEnd then .cont { m' with st := .first, first := [] }
      else .cont { m' with first := [] }
    else .cont { m' with first := b :: m.first }

/-- the end-of-input handling -/
def flush (m : M) : Out :=
  match m.st with
  | .first =>
    if m.first.isEmpty then .ok m.evs.reverse else
    let tok := m.first.reverse
    match parseFirst tok with
    | .time t => .ok (.time t :: m.evs).reverse
    | .oneBit => .ok (.value (tok.take 1) (tok.drop 1) :: m.evs).reverse
    | .bad => .err m.evs.reverse
    | _ => .ok m.evs.reverse
  | .idTok => .ok (.value m.first.reverse m.id.reverse :: m.evs).reverse
  | _ => .ok m.evs.reverse

def run (stop : Option Nat) (m : M) : List Nat → Out
  | [] => flush m
  | b :: bs => match step stop m b with
    | .cont m' => run stop m' bs
    | .exit evs => .ok evs
    | .error evs => .err evs

/-- initial state. The code always starts in `SkippingNewLine` (both branches of its `if starts_on_new_line` are identical:
every stream skips its first line, which belongs to the predecessor chunk — for the first chunk this is finding F5a);
`startsNl = true` is the start state a stream would have if it were parsed from its first byte (kept for the theorems). -/
def initM (startsNl : Bool) : M := { st := if startsNl then .first else .skipNl }

/-- `parse_body` on a byte stream -/
def parseBody (stop : Option Nat) (bs : List Nat) (startsNl : Bool := false) : Out := run stop (initM startsNl) bs

/-! ### identifier codes -/

/-- `id_to_int` -/
def idStep (acc : Option Nat) (i : Nat) : Option Nat :=
  match acc with
  | none => none
  | some r => if 33 ≤ i ∧ i ≤ 126 then
      let v := r * 94 + ((i - 33) + 1)
      if v < 2 ^ 64 then some v else none
    else none

def idToInt (id : List Nat) : Option Nat :=
  if id.isEmpty then none else
  match id.reverse.foldl idStep (some 0) with
  | none => none
  | some r => some (r - 1)

structure IdTracker where
  varCount : Nat := 0
  minMax : Option (Nat × Nat) := none

/-- `IdTracker::need_id_map` -/
def IdTracker.needIdMap (t : IdTracker) (v : Nat) : IdTracker × Bool :=
  let vc := t.varCount + 1
  let (mn, mx) := match t.minMax with
    | some (a, b) => (min a v, max b v)
    | none => (v, v)
  let t' : IdTracker := { varCount := vc, minMax := some (mn, mx) }
  if v / vc > 1024 * 1024 then (t', true)
  else if (mx - mn) / vc > 1000 then (t', true)
  else (t', false)

/-- does the header switch to the hashed id map? (first pass of `read_hierarchy`) -/
def needMap (ids : List (List Nat)) : Bool :=
  let rec go (t : IdTracker) : List (List Nat) → Bool
    | [] => false
    | id :: rest =>
      match idToInt id with
      | none => true
      | some v =>
        let (t', b) := t.needIdMap v
        if b then true else go t' rest
  go {} ids

structure Decls where
  useMap : Bool
  /-- hashed mode: distinct ids in first-seen order (signal index = position + 1) -/
  mapIds : List (List Nat)
  /-- per declared variable: signal index -/
  varSig : List Nat
  /-- per signal index: encoder type -/
  sigTypes : List SigType
deriving Repr

def indexOf? (l : List (List Nat)) (x : List Nat) : Option Nat :=
  let rec go (l : List (List Nat)) (k : Nat) : Option Nat :=
    match l with
    | [] => none
    | y :: r => if y = x then some k else go r (k + 1)
  go l 0

/-- the declarations as the header reader sees them: signal numbering and per-signal type
(the type of the last variable declared for a signal; `String` where no variable points) -/
def mkDecls (vars : List (List Nat × SigType)) : Decls :=
  let ids := vars.map (·.1)
  let useMap := needMap ids
  let mapIds := if useMap then ids.foldl (fun acc id => if acc.contains id then acc else acc ++ [id]) [] else []
  let varSig := vars.map fun (id, _) =>
    if useMap then (indexOf? mapIds id).getD 0 + 1 else (idToInt id).getD 0
  let n := (varSig.foldl max 0) + 1
  let base : Array SigType := (List.replicate (if vars.isEmpty then 0 else n) SigType.string).toArray
  let tps := (varSig.zip (vars.map (·.2))).foldl (fun (a : Array SigType) (p : Nat × SigType) => a.setIfInBounds p.1 p.2) base
  { useMap := useMap, mapIds := mapIds, varSig := varSig, sigTypes := tps.toList }

/-- id resolution in `VcdEncoder::value`; `none` = panic (`unwrap` on `None` / missing key) -/
def resolveId (d : Decls) (id : List Nat) : Option Nat :=
  if d.useMap then (indexOf? d.mapIds id).map (· + 1) else idToInt id

/-! ### VcdEncoder on top of the store -/

inductive Res (α : Type)
  | ok (a : α)
  | err
  | panic
deriving Repr

structure VEnc where
  enc : Enc
  isFirst : Bool
  found : Bool := false

/-- reals: result of the external `str::parse::<f64>` on the text after `r`, supplied as a table -/
abbrev RealMap := List (List Nat × List Nat)

def realOf (rm : RealMap) (value : List Nat) : Option (List Nat) :=
  match rm.find? (fun p => p.1 = value.drop 1) with
  | some p => some p.2
  | none => none

def applyEv (c : Codec) (d : Decls) (rm : RealMap) (v : VEnc) : Ev → Option VEnc
  | .time t => some { v with found := true, enc := timeChange c v.enc t }
  | .value val id =>
    let v := if v.isFirst && !v.found then { v with found := true, enc := timeChange c v.enc 0 } else v
    if v.found then
      match resolveId d id with
      | none => none
      | some n =>
        match vcdChange v.enc n val (realOf rm val) with
        | none => none
        | some e => some { v with enc := e }
    else some v

def applyEvs (c : Codec) (d : Decls) (rm : RealMap) (v : VEnc) : List Ev → Option VEnc
  | [] => some v
  | e :: r => match applyEv c d rm v e with
    | none => none
    | some v' => applyEvs c d rm v' r

/-- `read_single_stream_of_values` -/
def readStream (c : Codec) (d : Decls) (rm : RealMap) (stream : List Nat) (stop : Option Nat) (isFirst : Bool)
    (startsNl : Bool := false) : Res Enc :=
  let out := parseBody stop stream startsNl
  let evs := match out with | .ok e => e | .err e => e
  match applyEvs c d rm { enc := newEnc d.sigTypes, isFirst := isFirst } evs with
  | none => .panic
  | some v => match out with
    | .ok _ => .ok v.enc
    | .err _ => .err

/-- `determine_thread_chunks` (at least one chunk, also for an empty body) -/
def determineChunks (bodyLen threads minChunk : Nat) : List (Nat × Nat) :=
  let forMin := divCeil bodyLen minChunk
  let n := max 1 (min threads forMin)
  let chunk := divCeil bodyLen n
  (List.range n).map fun i => (i * chunk, chunk)

inductive Mode
  | single                         -- mmap path, multi_thread = false: stop = len - 1
  | reader (fileLen : Nat)         -- stream path: stop = whole file length
  | multi (threads minChunk : Nat)
  | singleChecked                  -- as `single`, built with overflow checks

/-- does the chunk at `start` begin on a new line? (`read_values`: the first chunk does, others when the byte before is LF) -/
def chunkStartsNl (body : List Nat) (start : Nat) : Bool := start = 0 || body.getD (start - 1) 0 == 10

def Res.isPanic : Res Enc → Bool | .panic => true | _ => false
def Res.isErr : Res Enc → Bool | .err => true | _ => false
def Res.okOf : Res Enc → Option Enc | .ok e => some e | _ => none

/-- what one worker does with its chunk `(start, len)`: `read_single_stream_of_values` on `body[start..]` with the hand-over
position `len − 1`; only the first chunk records values in front of its first timestamp (at the implicit time 0) -/
def chunkRes (c : Codec) (d : Decls) (rm : RealMap) (body : List Nat) (ch : Nat × Nat) : Res Enc :=
  if ch.1 > body.length then Res.panic
  else readStream c d rm (body.drop ch.1) (some (ch.2 - 1)) (decide (ch.1 = 0))

/-- `read_body` / `read_values`: the final encoder, or err / panic -/
def readValues (c : Codec) (d : Decls) (rm : RealMap) (body : List Nat) : Mode → Res Enc
  | .single => readStream c d rm body (some (body.length - 1)) true
  | .singleChecked => readStream c d rm body (some (body.length - 1)) true
  | .reader fileLen => readStream c d rm body (some fileLen) true
  | .multi threads minChunk =>
    let rs := (determineChunks body.length threads minChunk).map (chunkRes c d rm body)
    if rs.any Res.isPanic then .panic
    else if rs.any Res.isErr then .err
    else
      match rs.filterMap Res.okOf with
      | [] => .panic
      | e0 :: rest =>
        match appendAll c e0 rest with
        | none => .panic
        | some e => .ok e

/-! ### token-level specification of a body -/

/-- white-space separated tokens; `cur` is the pending partial token, reversed -/
def splitWsAux (cur : List Nat) : List Nat → List (List Nat)
  | [] => if cur.isEmpty then [] else [cur.reverse]
  | b :: r =>
    if isWs b then (if cur.isEmpty then splitWsAux [] r else cur.reverse :: splitWsAux [] r)
    else splitWsAux (b :: cur) r

def splitWs (bs : List Nat) : List (List Nat) := splitWsAux [] bs

def dropLine : List Nat → List Nat
  | [] => []
  | b :: r => if b = 10 then r else dropLine r

def skipComment : List (List Nat) → List (List Nat)
  | [] => []
  | t :: r => if t = kwEnd then r else skipComment r

/-- token-level states: expecting a first token / the id of a vector value / the `$end` of a comment -/
inductive TSt
  | first
  | idTok (tok : List Nat)
  | lookEnd
deriving Repr, DecidableEq

/-- the token-level meaning of a body. `acc` = events so far (reversed); `trailing` = the input
ended in white space, i.e. the last token is complete. The only place where that matters: a
vector / real / string value that is the very last, unterminated token is dropped. -/
def interpT (trailing : Bool) : TSt → List (List Nat) → List Ev → Out
  | .first, [], acc => .ok acc.reverse
  | .first, tok :: rest, acc =>
    match parseFirst tok with
    | .time t => interpT trailing .first rest (.time t :: acc)
    | .oneBit => interpT trailing .first rest (.value (tok.take 1) (tok.drop 1) :: acc)
    | .multiBit => if rest.isEmpty && !trailing then .ok acc.reverse else interpT trailing (.idTok tok) rest acc
    | .commentStart => interpT trailing .lookEnd rest acc
    | .ignored => interpT trailing .first rest acc
    | .bad => .err acc.reverse
  | .idTok tok, [], acc => .ok (.value tok [] :: acc).reverse
  | .idTok tok, idt :: rest, acc => interpT trailing .first rest (.value tok idt :: acc)
  | .lookEnd, [], acc => .ok acc.reverse
  | .lookEnd, t :: rest, acc => if t = kwEnd then interpT trailing .first rest acc else interpT trailing .lookEnd rest acc

def endsWs (bs : List Nat) : Bool := match bs.getLast? with | some b => isWs b | none => true

/-- the token-level meaning of a stream: the tokens after its first line break (what the code does: tokens on the line of
`$enddefinitions $end` are skipped, F5a), or all its tokens (`startsNl`) -/
def tokenSpec (bs : List Nat) (startsNl : Bool := false) : Out :=
  let body := if startsNl then bs else dropLine bs
  interpT (endsWs body) .first (splitWs body) []

/-! ### hand-over safety (the hypothesis of `mt_eq_st`; its negation is the known-finding class FMT) -/

def splitLines (bs : List Nat) : List (List Nat) :=
  let rec go (bs : List Nat) (cur : List Nat) (acc : List (List Nat)) : List (List Nat) :=
    match bs with
    | [] => (cur.reverse :: acc).reverse
    | b :: r => if b = 10 then go r [] (cur.reverse :: acc) else go r (b :: cur) acc
  go bs [] []

/-- a line is self-contained: a timestamp / `$dumpall` only as its first token, every vector /
real / string value followed by its id on the same line, every `$comment` closed on the line -/
def lineOk (toks : List (List Nat)) : Bool :=
  let rec go (fuel : Nat) (toks : List (List Nat)) (isFirst : Bool) : Bool :=
    match fuel, toks with
    | 0, _ => true
    | _, [] => true
    | f + 1, t :: r =>
      match parseFirst t with
      | .time _ => isFirst && go f r false
      | .oneBit => go f r false
      | .multiBit => (match r with | [] => false | _ :: r' => go f r' false)
      | .commentStart => if r.contains kwEnd then go f (skipComment r) false else false
      | .ignored => go f r false
      | .bad => true          -- an error either way
  go (toks.length + 1) toks true

def lineDisciplined (body : List Nat) : Bool :=
  (splitLines body).all fun l => lineOk (splitWs l)

def evTimes : List Ev → List Nat
  | [] => []
  | .time t :: r => t :: evTimes r
  | _ :: r => evTimes r

/-- the first timestamp of every non-first chunk is a new maximum, and the first chunk records something -/
def chunkTimesOk (body : List Nat) (chunks : List (Nat × Nat)) : Bool :=
  let evsOf := fun (c : Nat × Nat) =>
    match parseBody (some (c.2 - 1)) (body.drop c.1) with | .ok e => e | .err e => e
  let rec go (cs : List (Nat × Nat)) (maxSoFar : Option Nat) (isFirst : Bool) : Bool :=
    match cs with
    | [] => true
    | c :: rest =>
      let evs := evsOf c
      let ts := evTimes evs
      let ts := if isFirst && (match evs with | .value _ _ :: _ => true | _ => false) then 0 :: ts else ts
      let okHere := match ts, maxSoFar with
        | t :: _, some m => isFirst || t > m
        | [], none => !isFirst || rest.isEmpty || true
        | _, _ => true
      let firstRecords := !isFirst || !evs.isEmpty || rest.isEmpty
      let m' := ts.foldl (fun acc t => match acc with | none => some t | some m => some (max m t)) maxSoFar
      okHere && firstRecords && go rest m' false
  go chunks none true

/-- start positions of the white-space separated tokens of `bs` (first byte at `pos`) -/
def tokenStarts (bs : List Nat) : List (Nat × List Nat) :=
  let rec go (bs : List Nat) (pos : Nat) (cur : List Nat) (start : Nat) (acc : List (Nat × List Nat)) : List (Nat × List Nat) :=
    match bs with
    | [] => (if cur.isEmpty then acc else (start, cur.reverse) :: acc).reverse
    | b :: r =>
      if isWs b then go r (pos + 1) [] (pos + 1) (if cur.isEmpty then acc else (start, cur.reverse) :: acc)
      else go r (pos + 1) (b :: cur) (if cur.isEmpty then pos else start) acc
  go bs 0 [] 0 []

/-- no timestamp is lost at a hand-over (F5b): the chunk that starts at `s` skips everything up to the first line break at or
after `s`, its predecessor stops at the first timestamp token that starts after `s` — a timestamp token that starts strictly
between `s` and that line break (the boundary falls into the white space in front of it) is seen by neither -/
def noLostTime (body : List Nat) (chunks : List (Nat × Nat)) : Bool :=
  let toks := tokenStarts body
  (chunks.drop 1).all fun c =>
    let s := c.1
    let nl := s + ((body.drop s).takeWhile (· != 10)).length
    !(toks.any fun t => s < t.1 && t.1 < nl && (match parseFirst t.2 with | .time _ => true | _ => false))

def handoverSafe (body : List Nat) (threads minChunk : Nat) : Bool :=
  match some (determineChunks body.length threads minChunk) with
  | none => false
  | some chunks =>
    chunks.length ≤ 1 || (lineDisciplined body && chunkTimesOk body chunks && noLostTime body chunks &&
      chunks.all (fun c => c.1 ≤ body.length))

end Wellen.VcdBody
