import WellenModel.Model.Tree
import WellenModel.Model.Spec
import WellenModel.Model.Proto
/-
Specification side of C11 / C12: an abstract VHDL design (scopes, variables of structured types over scalar
"atoms") plus a waveform (snapshot, then time steps / delta cycles that list the atoms with an event) and the
observable waveform it denotes.  Nothing here mentions string / type tables, signal trackers, per-bit change
masks, packing, blocks or compression: values are symbol lists, vectors are read off a map atom ↦ value.
-/
namespace Wellen.GhwSpec
open Wellen.Bits Wellen.Store Wellen.Tree Wellen.Proto Wellen.Spec

inductive DTy
  | logic (tname : List Nat)
  | bit (tname : List Nat)
  | logicVec (tname : List Nat) (downto : Bool) (l r : Int)
  | bitVec (tname : List Nat) (downto : Bool) (l r : Int)
  | enum (tname ename : List Nat) (lits : List (List Nat))
  | int (tname : List Nat)
  | real (tname : List Nat)
  | record (fields : List (List Nat × DTy))
  | array (downto : Bool) (l r : Int) (elem : DTy)
deriving Inhabited

inductive DItem
  | scope (kind : Nat) (name : List Nat) (items : List DItem)
  | process (name : List Nat)
  | var (pk : Nat) (name : List Nat) (ty : DTy) (ids : List Nat)
deriving Inhabited

inductive AVal | num (v : Int) | real (le : List Nat)
deriving Inhabited, DecidableEq

structure Wave where
  natoms : Nat
  t0 : Nat
  snap : List AVal
  steps : List (Nat × List (Nat × AVal))

/-! ### parsing the token form (gen/ghw_writer.py: design_tokens) -/

def unhex (s : String) : Option (List Nat) := if s = "-" then some [] else hexBytes? s

abbrev Toks := List String

def pTy : Nat → Toks → Option (DTy × Toks)
  | 0, _ => none
  | fuel + 1, toks =>
    match toks with
    | "L" :: n :: r => do some (.logic (← unhex n), r)
    | "B" :: n :: r => do some (.bit (← unhex n), r)
    | "LV" :: n :: d :: a :: b :: r => do some (.logicVec (← unhex n) (d == "d") (← a.toInt?) (← b.toInt?), r)
    | "BV" :: n :: d :: a :: b :: r => do some (.bitVec (← unhex n) (d == "d") (← a.toInt?) (← b.toInt?), r)
    | "E" :: n :: e :: k :: r => do
      let k ← k.toNat?
      let lits ← (r.take k).mapM unhex
      if (r.take k).length ≠ k then none else
      some (.enum (← unhex n) (← unhex e) lits, r.drop k)
    | "I" :: n :: r => do some (.int (← unhex n), r)
    | "F" :: n :: r => do some (.real (← unhex n), r)
    | "R" :: k :: r => do
      let k ← k.toNat?
      let rec fields : Nat → Toks → Option (List (List Nat × DTy) × Toks)
        | 0, t => some ([], t)
        | n + 1, t =>
          match t with
          | f :: t' => do
            let (ty, t'') ← pTy fuel t'
            let (rest, t3) ← fields n t''
            some ((← unhex f, ty) :: rest, t3)
          | [] => none
      let (fs, r') ← fields k r
      some (.record fs, r')
    | "A" :: d :: a :: b :: r => do
      let (el, r') ← pTy fuel r
      some (.array (d == "d") (← a.toInt?) (← b.toInt?) el, r')
    | _ => none

def pItem : Nat → Toks → Option (DItem × Toks)
  | 0, _ => none
  | fuel + 1, toks =>
    match toks with
    | "S" :: k :: n :: c :: r => do
      let c ← c.toNat?
      let rec items : Nat → Toks → Option (List DItem × Toks)
        | 0, t => some ([], t)
        | m + 1, t => do
          let (it, t') ← pItem fuel t
          let (rest, t'') ← items m t'
          some (it :: rest, t'')
      let (its, r') ← items c r
      some (.scope (← k.toNat?) (← unhex n) its, r')
    | "P" :: n :: r => do some (.process (← unhex n), r)
    | "V" :: pk :: n :: r => do
      let (ty, r') ← pTy fuel r
      match r' with
      | k :: r'' => do
        let k ← k.toNat?
        let ids ← (r''.take k).mapM (·.toNat?)
        if ids.length ≠ k then none else
        some (.var (← pk.toNat?) (← unhex n) ty ids, r''.drop k)
      | [] => none
    | _ => none

def pItems : Nat → Nat → Toks → Option (List DItem × Toks)
  | 0, _, t => some ([], t)
  | n + 1, fuel, t => do
    let (it, t') ← pItem fuel t
    let (rest, t'') ← pItems n fuel t'
    some (it :: rest, t'')

def pVal (s : String) : Option AVal :=
  if s.startsWith "x" then (hexBytes? (s.drop 1).toString).map .real else s.toInt?.map .num

def pChanges : Nat → Toks → Option (List (Nat × AVal) × Toks)
  | 0, t => some ([], t)
  | n + 1, a :: v :: t => do
    let (rest, t') ← pChanges n t
    some ((← a.toNat?, ← pVal v) :: rest, t')
  | _, _ => none

def pSteps : Nat → Toks → Option (List (Nat × List (Nat × AVal)))
  | 0, [] => some []
  | n + 1, "C" :: t :: k :: r => do
    let (ch, r') ← pChanges (← k.toNat?) r
    let rest ← pSteps n r'
    some ((← t.toNat?, ch) :: rest)
  | _, _ => none

def parseDesign (s : String) : Option (List DItem × Wave) := do
  let toks := s.splitOn ","
  match toks with
  | n :: r =>
    let (items, r') ← pItems (← n.toNat?) toks.length r
    match r' with
    | na :: "T" :: t0 :: r'' =>
      let na ← na.toNat?
      let snap ← (r''.take na).mapM pVal
      if snap.length ≠ na then none else
      match r''.drop na with
      | m :: r3 =>
        let steps ← pSteps (← m.toNat?) r3
        some (items, { natoms := na, t0 := ← t0.toNat?, snap := snap, steps := steps })
      | [] => none
    | _ => none
  | [] => none

/-! ### the hierarchy a design denotes -/

/-- what a leaf variable shows: how its value is read off the atom values -/
inductive LeafKind
  | nine | two | enumBits (bits : Nat) | int32 | real
deriving Inhabited, DecidableEq

structure Leaf where
  atoms : List Nat
  kind : LeafKind
deriving Inhabited

def strOf (bs : List Nat) : String := String.ofList (bs.map Char.ofNat)
def hexOr (bs : List Nat) : String := if bs.isEmpty then "-" else toHex bs
def lower (c : Nat) : Nat := if 65 ≤ c ∧ c ≤ 90 then c + 32 else c
def lowerStr (bs : List Nat) : String := strOf (bs.map lower)

def scopeKind (k : Nat) : String :=
  match k with
  | 3 => "VhdlBlock" | 4 => "VhdlIfGenerate" | 5 => "VhdlForGenerate" | 6 => "VhdlArchitecture"
  | 7 => "VhdlPackage" | 14 => "GhwGeneric" | _ => "?"

def portDir (k : Nat) : String :=
  match k with
  | 16 => "Implicit" | 17 => "Input" | 18 => "Output" | 19 => "InOut" | 20 => "Buffer" | 21 => "Linkage" | _ => "?"

/-- number of bits needed for the literal codes 0 .. n-1 -/
def bitsFor (n : Nat) : Nat := if n ≤ 1 then 0 else Nat.log2 (n - 1) + 1

def binDigits (width v : Nat) : List Nat := (List.range width).reverse.map fun k => (v >>> k) % 2

def binStr (width v : Nat) : String :=
  if width = 0 then "0" else String.ofList ((binDigits width v).map fun d => if d = 1 then '1' else '0')

def vecLen (downto : Bool) (l r : Int) : Int := if downto then l - r + 1 else r - l + 1

/-- element labels of an array, in the declared direction -/
def elemLabels (downto : Bool) (l r : Int) : List Int :=
  let n := (vecLen downto l r).toNat
  (List.range n).map fun (k : Nat) => if downto then l - (k : Int) else l + (k : Int)

structure Acc where
  ops : List LOp := []          -- reversed
  leaves : List Leaf := []      -- per distinct signal, in order of first declaration
deriving Inhabited

/-- variables share a signal exactly when they are made of the same atoms -/
def sigOf (acc : Acc) (lf : Leaf) : Nat × Acc :=
  match acc.leaves.findIdx? (fun x => x.atoms == lf.atoms) with
  | some i => (i, acc)
  | none => (acc.leaves.length, { acc with leaves := acc.leaves ++ [lf] })

def leafOp (acc : Acc) (name : List Nat) (vt dir enc idx : String) (lf : Leaf) (tname : List Nat) (en : String) : Acc :=
  let (s, acc) := sigOf acc lf
  { acc with ops := { op := .var (strOf name) 0, label := s!"{vt},{hexOr name},{dir},{enc},{idx}", sig := s,
                      tail := s!"{hexOr tname},{en}" } :: acc.ops }

/-- one declared object; consumes its atoms from `ids` in declaration order -/
def declare : Nat → Nat → List Nat → DTy → List Nat → Acc → Option (List Nat × Acc)
  | 0, _, _, _, _, _ => none
  | fuel + 1, pk, name, ty, ids, acc =>
    let dir := portDir pk
    match ty with
    | .logic tn =>
      match ids with
      | a :: rest =>
        let ln := lowerStr tn
        let vt := if ln = "std_ulogic" then "StdULogic" else if ln = "std_logic" then "StdLogic" else if ln = "bit" then "Bit" else "Wire"
        some (rest, leafOp acc name vt dir "B1" "-" ⟨[a], .nine⟩ tn "-")
      | [] => none
    | .bit tn =>
      match ids with
      | a :: rest =>
        let ln := lowerStr tn
        let vt := if ln = "std_ulogic" then "StdULogic" else if ln = "std_logic" then "StdLogic" else if ln = "bit" then "Bit" else "Wire"
        some (rest, leafOp acc name vt dir "B1" "-" ⟨[a], .two⟩ tn "-")
      | [] => none
    | .logicVec tn d l r | .bitVec tn d l r =>
      let n := (vecLen d l r).toNat
      if n = 0 then some (ids, acc) else
      if ids.length < n then none else
      let ln := lowerStr tn
      let vt := if ln = "std_ulogic_vector" then "StdULogicVector" else if ln = "std_logic_vector" then "StdLogicVector"
                else if ln = "bit_vector" then "BitVector" else "Wire"
      let k := match ty with | .bitVec _ _ _ _ => LeafKind.two | _ => LeafKind.nine
      some (ids.drop n, leafOp acc name vt dir s!"B{n}" s!"{l}:{r}" ⟨ids.take n, k⟩ tn "-")
    | .enum tn en lits =>
      match ids with
      | a :: rest =>
        let bits := bitsFor lits.length
        let items := (List.range lits.length).zip lits |>.map fun (i, l) => s!"{binStr bits i}:{hexOr l}"
        some (rest, leafOp acc name "Enum" dir s!"B{max 1 bits}" "-" ⟨[a], .enumBits (max 1 bits)⟩ tn
          (hexOr en ++ "[" ++ ";".intercalate items ++ "]"))
      | [] => none
    | .int tn =>
      match ids with
      | a :: rest => some (rest, leafOp acc name "Integer" dir "B32" "-" ⟨[a], .int32⟩ tn "-")
      | [] => none
    | .real tn =>
      match ids with
      | a :: rest => some (rest, leafOp acc name "Real" dir "R" "-" ⟨[a], .real⟩ tn "-")
      | [] => none
    | .record fields =>
      let acc := { acc with ops := { op := .scope (strOf name) false, label := s!"VhdlRecord,{hexOr name}" } :: acc.ops }
      let rec goF : List (List Nat × DTy) → List Nat → Acc → Option (List Nat × Acc)
        | [], ids, acc => some (ids, acc)
        | (fn, ft) :: rest, ids, acc =>
          match declare fuel pk fn ft ids acc with
          | none => none
          | some (ids', acc') => goF rest ids' acc'
      match goF fields ids acc with
      | none => none
      | some (ids', acc') => some (ids', { acc' with ops := { op := .pop } :: acc'.ops })
    | .array d l r el =>
      let acc := { acc with ops := { op := .scope (strOf name) false, label := s!"VhdlArray,{hexOr name}" } :: acc.ops }
      let rec goA : List Int → List Nat → Acc → Option (List Nat × Acc)
        | [], ids, acc => some (ids, acc)
        | e :: rest, ids, acc =>
          match declare fuel pk (s!"[{e}]".toList.map Char.toNat) el ids acc with
          | none => none
          | some (ids', acc') => goA rest ids' acc'
      match goA (elemLabels d l r) ids acc with
      | none => none
      | some (ids', acc') => some (ids', { acc' with ops := { op := .pop } :: acc'.ops })

def declItems : Nat → List DItem → Acc → Option Acc
  | 0, _, _ => none
  | _, [], acc => some acc
  | fuel + 1, it :: rest, acc =>
    match it with
    | .process _ => declItems fuel rest acc
    | .scope k name items =>
      let acc := { acc with ops := { op := .scope (strOf name) false, label := s!"{scopeKind k},{hexOr name}" } :: acc.ops }
      match declItems fuel items acc with
      | none => none
      | some acc' => declItems fuel rest { acc' with ops := { op := .pop } :: acc'.ops }
    | .var pk name ty ids =>
      match declare 64 pk name ty ids acc with
      | some ([], acc') => declItems fuel rest acc'
      | _ => none

/-! ### the values a waveform denotes -/

/-- VHDL's std_ulogic literal order; the symbol number is the position in wellen's rendering alphabet -/
def stdUlogic : List Char := ['u', 'x', '0', '1', 'z', 'w', 'l', 'h', '-']

def nineSym (g : Int) : Option Nat :=
  match stdUlogic[g.toNat]? with
  | none => none
  | some c => Gen.lookup9.findIdx? (· == c.toNat)

def leafValue (vals : Array AVal) (lf : Leaf) : Option Value :=
  match lf.kind with
  | .nine => do
    let syms ← lf.atoms.mapM fun a => match vals[a - 1]? with | some (AVal.num g) => if g < 0 then none else nineSym g | _ => none
    some (.bits syms)
  | .two => do
    let syms ← lf.atoms.mapM fun a => match vals[a - 1]? with | some (AVal.num g) => if g = 0 ∨ g = 1 then some g.toNat else none | _ => none
    some (.bits syms)
  | .enumBits bits =>
    match lf.atoms with
    | [a] => match vals[a - 1]? with
      | some (.num g) => if 0 ≤ g ∧ g < 2 ^ bits then some (.bits (binDigits bits g.toNat)) else none
      | _ => none
    | _ => none
  | .int32 =>
    match lf.atoms with
    | [a] => match vals[a - 1]? with
      | some (.num g) => if -(2 ^ 31 : Int) ≤ g ∧ g < 2 ^ 31 then some (.bits (binDigits 32 (g % 2 ^ 32).toNat)) else none
      | _ => none
    | _ => none
  | .real =>
    match lf.atoms with
    | [a] => match vals[a - 1]? with
      | some (.real le) => if le.length = 8 then some (.real le) else none
      | _ => none
    | _ => none

/-- is `sub` a contiguous part of `whole`? -/
def isPart (sub whole : List Nat) : Bool :=
  (List.range (whole.length + 1 - sub.length)).any fun k => (whole.drop k).take sub.length == sub

/-- the signal whose events drive leaf `i`: itself, or the earlier declared vector it is a part of -/
def driverOf (leaves : List Leaf) (i : Nat) : Nat :=
  let lf := leaves.getD i default
  match (List.range i).find? (fun j => let p := leaves.getD j default
      p.atoms.length > lf.atoms.length && lf.atoms.length > 0 && isPart lf.atoms p.atoms) with
  | some j => j
  | none => i

structure WSt where
  ttRev : List Nat := []
  vals : Array AVal
  changesRev : Array (List (Nat × Value))

/-- one time step / delta cycle: the listed atoms take their new values, every signal with an event is recorded -/
def stepW (leaves : List Leaf) (s : WSt) (t : Nat) (changes : List (Nat × AVal)) : Option WSt :=
  -- times never go backwards in a well-formed file; equal times are delta cycles
  match (match s.ttRev with | [] => some (t :: s.ttRev) | m :: _ => if t > m then some (t :: s.ttRev) else if t = m then some s.ttRev else none) with
  | none => none
  | some ttRev =>
    let vals := changes.foldl (fun (v : Array AVal) (c : Nat × AVal) => v.setIfInBounds (c.1 - 1) c.2) s.vals
    let touched := changes.map (·.1)
    let idx := ttRev.length - 1
    let rec go : List Nat → Array (List (Nat × Value)) → Option (Array (List (Nat × Value)))
      | [], ch => some ch
      | i :: rest, ch =>
        let drv := leaves.getD (driverOf leaves i) default
        if drv.atoms.any (touched.contains ·) then
          match leafValue vals (leaves.getD i default) with
          | none => none
          | some v => go rest (ch.set! i ((idx, v) :: ch.getD i []))
        else go rest ch
    match go (List.range leaves.length) s.changesRev with
    | none => none
    | some ch => some { ttRev := ttRev, vals := vals, changesRev := ch }

def kindChar : States → String
  | .two => "B" | .four => "F" | .nine => "N"

def showValue : Value → String
  | .bits syms => kindChar (kindOf syms) ++ strOf (syms.map fun v => Gen.lookup9.getD v 63)
  | .real le => "R" ++ toHex le
  | .str b => "S" ++ toHex b

def showChanges (l : List (Nat × Value)) : String :=
  if l.isEmpty then "-" else "/".intercalate (l.map fun (t, v) => s!"{t}={showValue v}")

def natList (l : List Nat) : String := if l.isEmpty then "-" else ",".intercalate (l.map toString)

structure Denotation where
  leaves : List Leaf
  ops : List LOp
  changes : List (List (Nat × Value))
  times : List Nat

/-- the waveform a design denotes -/
def denote (items : List DItem) (w : Wave) : Option Denotation := do
  let acc ← declItems (4 * (items.length + 1) + 1000) items {}
  let leaves := acc.leaves
  let s0 : WSt := { vals := (List.replicate w.natoms (AVal.num 0)).toArray, changesRev := (leaves.map fun _ => []).toArray }
  let snapChanges := (List.range w.natoms).zip w.snap |>.map fun (i, v) => (i + 1, v)
  let s1 ← stepW leaves s0 w.t0 snapChanges
  let s ← w.steps.foldl (fun (acc : Option WSt) st => acc.bind fun s => stepW leaves s st.1 st.2) (some s1)
  some { leaves := leaves, ops := acc.ops.reverse, changes := s.changesRev.toList.map fun l => canon l.reverse, times := s.ttRev.reverse }

/-- the full dump (C11) -/
def render (d : Denotation) : Option String :=
  (treeS d.ops (fun i => showChanges (d.changes.getD i []))).map fun t => t ++ "|tt=" ++ natList d.times ++ "|ts=1:FemtoSeconds"

def spec (design : String) : String :=
  match parseDesign design with
  | none => "-"
  | some (items, w) =>
    match (denote items w).bind render with
    | none => "-"
    | some s => s

end Wellen.GhwSpec

/-! ### the format-independent observation (C12) -/
namespace Wellen.GhwSpec
open Wellen.Spec Wellen.Tree Wellen.Proto Wellen.Bits

/-- value text of the common interface: `to_bit_string` / the IEEE bit pattern -/
def obsValue : Value → String
  | .bits syms => strOf (syms.map fun v => Gen.lookup9.getD v 63)
  | .real le => "r" ++ toHex le.reverse
  | .str b => "s" ++ toHex b

/-- the last value written in each time step -/
def lastPerStep : List (Nat × Value) → List (Nat × Value)
  | [] => []
  | [x] => [x]
  | x :: y :: rest => if x.1 = y.1 then lastPerStep (y :: rest) else x :: lastPerStep (y :: rest)

/-- value at every time: (time in fs, value) with unchanged steps dropped -/
def observeChanges (times : List Nat) (l : List (Nat × Value)) : List (Nat × Value) :=
  canon ((lastPerStep l).map fun (i, v) => (times.getD i 0, v))

def obsChanges (times : List Nat) (l : List (Nat × Value)) : String :=
  let c := observeChanges times l
  if c.isEmpty then "-" else "/".intercalate (c.map fun (t, v) => s!"{t}={obsValue v}")

/-- tree with names, nesting, order, widths and the observed values; kinds, directions, type names are format specific -/
def obsOps (d : Denotation) : List LOp :=
  d.ops.map fun o =>
    match o.op with
    | .scope name _ => { o with label := hexOr (name.toList.map Char.toNat) }
    | .var name _ =>
      -- label = `<VarType>,<namehex>,<Dir>,<enc>,<idx>`: keep the name and the width
      let parts := o.label.splitOn ","
      let enc := parts.getD 3 "?"
      let w := if enc = "R" then "real" else (enc.drop 1).toString
      { o with label := hexOr (name.toList.map Char.toNat) ++ "," ++ w }
    | .pop => o

/-! ### the same design as an FST file (C10): gen/fst_writer.py derives kinds / directions from the design -/

def fstVarType (k : LeafKind) (firstAtom : Nat) : String :=
  let pick (l : List String) := l.getD (firstAtom % l.length) "?"
  match k with
  | .nine => pick ["Logic", "Wire", "Reg", "Tri", "TriReg", "WAnd"]
  | .two => pick ["Bit", "Wire", "Parameter"]
  | .enumBits _ => pick ["Enum", "Wire"]
  | .int32 => pick ["Integer", "Int"]
  | .real => pick ["Real", "RealTime", "Parameter", "ShortReal"]

def fstScopeKind (k : String) : String :=
  if k = "GhwGeneric" then "Module" else if k = "VhdlArray" then "Struct" else k

/-- the VHDL data type the FST writer attaches to a variable (GHDL's SupVar attribute), from its VHDL type name -/
def fstDataType (ghwVarType : String) (tname : String) : Nat :=
  let tn := tname.toLower
  if ghwVarType = "StdULogic" then 4 else if ghwVarType = "StdLogic" then 6 else if ghwVarType = "Bit" then 2
  else if ghwVarType = "StdULogicVector" then 5 else if ghwVarType = "StdLogicVector" then 7 else if ghwVarType = "BitVector" then 3
  else if ghwVarType = "Enum" then (if tn = "boolean" then 1 else 0)
  else if ghwVarType = "Integer" then (if tn = "integer" then 10 else if tn = "natural" then 12 else 0)
  else if ghwVarType = "Real" then 11 else 0

/-- the variable kind shown for an FST variable that carries a VHDL data type attribute -/
def fstMerged (vcdKind : String) (dt : Nat) : String :=
  match dt with
  | 1 => "Boolean" | 2 => "Bit" | 3 => "BitVector" | 4 => "StdULogic" | 5 => "StdULogicVector"
  | 6 => "StdLogic" | 7 => "StdLogicVector" | 10 => "Integer" | 11 => "Real" | 14 => "Time" | 16 => "String"
  | _ => vcdKind

/-- the labels an FST rendering of the design shows: kinds as written by the FST writer merged with the VHDL data type,
type names and enum tables from the attributes -/
def fstOps (d : Denotation) : List LOp :=
  d.ops.map fun o =>
    match o.op with
    | .scope _ _ =>
      match o.label.splitOn "," with
      | [k, n] => { o with label := fstScopeKind k ++ "," ++ n }
      | _ => o
    | .var _ _ =>
      let lf := d.leaves.getD o.sig default
      match o.label.splitOn ",", o.tail.splitOn "," with
      | [gvt, n, dir, enc, idx], tn :: _ =>
        let tname := ((unhex tn).map strOf).getD ""
        let vt := fstMerged (fstVarType lf.kind (lf.atoms.headD 0)) (fstDataType gvt tname)
        { o with label := s!"{vt},{n},{dir},{enc},{idx}" }
      | _, _ => o
    | .pop => o

/-- FST has no delta cycles: one value per signal and time, the last one -/
def fstChanges (l : List (Nat × Value)) : List (Nat × Value) := canon (lastPerStep l)

/-- timescale of a file whose tick is 10^(e+15) fs: 1 / 10 / 100 of the largest unit that fits -/
def tsText (e : Int) : String :=
  let k := (e + 15).toNat
  s!"{10 ^ (k % 3)}:" ++ (["FemtoSeconds", "PicoSeconds", "NanoSeconds", "MicroSeconds", "MilliSeconds", "Seconds"].getD (k / 3) "?")

/-- specification of repeated block-boundary times (C02: the table is the file's own time chain): position `p` of the
distinct times appears once more per repetition; a change recorded at position `i` is reported at the FIRST entry holding
its time, i.e. at `i` plus the number of repetitions before it; re-writing a current value is not a change -/
def dupShift (dups : List Nat) (i : Nat) : Nat := i + (dups.filter (· < i)).length

def dupChain (times : List Nat) (dups : List Nat) : List Nat :=
  (List.range times.length).flatMap fun i => List.replicate (1 + (dups.filter (· = i)).length) (times.getD i 0)

def renderFst (d : Denotation) (e : Int) (dups : List Nat := []) : Option String :=
  let div := 10 ^ (e + 15).toNat
  (treeS (fstOps d) (fun i => showChanges ((fstChanges (d.changes.getD i [])).map fun c => (dupShift dups c.1, c.2)))).map fun t =>
    t ++ "|tt=" ++ natList (dupChain (d.times.map (· / div)) dups) ++ "|ts=" ++ tsText e

def parseDupPositions (s : String) : Option (List Nat) :=
  if s = "" ∨ s = "-" then some [] else
  (s.splitOn ",").mapM fun t => (if t.endsWith "e" then (t.dropEnd 1).toString else t).toNat?

def specFst (design exp : String) (dupsTxt : String := "") : String :=
  match parseDesign design, exp.toInt?, parseDupPositions dupsTxt with
  | some (items, w), some e, some dups =>
    if e < -15 ∨ e > 0 then "-" else
    match (denote items w).bind (fun d => renderFst d e dups) with
    | none => "-"
    | some s => s
  | _, _, _ => "-"

/-- the observation of a design's denotation -/
def observe (d : Denotation) : Option String :=
  (treeSWith (obsOps d) fun l _ => s!"V({l.label},{obsChanges d.times (d.changes.getD l.sig [])})").map fun t =>
    t ++ "|tt=" ++ ",".intercalate (d.times.map toString)

def specObserve (design : String) : String :=
  match parseDesign design with
  | none => "-"
  | some (items, w) =>
    match (denote items w).bind observe with
    | none => "-"
    | some s => s

end Wellen.GhwSpec
