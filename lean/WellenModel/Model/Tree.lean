import WellenModel.Model.Hier
import WellenModel.Model.HierDump
/-
Labelled hierarchy dumps shared by the GHW model / specification (C11, C12): a list of builder operations
with labels is turned into the canonical tree text once through the pointer-level `Hier.Builder` (model of
HierarchyBuilder) and once through the abstract parent-pointer specification of C08.
Signals are renumbered in order of first occurrence in the tree walk.
-/
namespace Wellen.Tree
open Wellen.Hier

structure LOp where
  op : Hier.Op
  /-- scope: `<ScopeType>,<namehex>`; var: `<VarType>,<namehex>,<Dir>,<enc>,<idx>` -/
  label : String := ""
  sig : Nat := 0
  /-- var: `<typenamehex>,<enum>` -/
  tail : String := ""
deriving Inhabited

structure WSt where
  acc : String := ""
  seen : List Nat := []

def canonOf (seen : List Nat) (sig : Nat) : Nat × List Nat :=
  match seen.findIdx? (· == sig) with
  | some i => (i, seen)
  | none => (seen.length, seen ++ [sig])

def sepOf (acc : String) : String := if acc.isEmpty || acc.back == '{' then "" else ","

def varText (l : LOp) (canon : Nat) (changes : Nat → String) : String :=
  s!"V({l.label},{canon},{l.tail},{changes l.sig})"

def walkB (b : Builder) (sl : Array String) (vl : Array LOp) (vtext : LOp → Nat → String) :
    Nat → List ItemId → WSt → WSt
  | 0, _, s => s
  | _, [], s => s
  | fuel + 1, it :: rest, s =>
    let sep := sepOf s.acc
    match it with
    | .scope i =>
      let inner := walkB b sl vl vtext fuel (itemsOf b (b.scopes.getD i default).child)
        { s with acc := s.acc ++ sep ++ s!"S({sl.getD i "?"})" ++ "{" }
      walkB b sl vl vtext fuel rest { inner with acc := inner.acc ++ "}" }
    | .var i =>
      let l := vl.getD i default
      let (c, seen) := canonOf s.seen l.sig
      walkB b sl vl vtext fuel rest { acc := s.acc ++ sep ++ vtext l c, seen := seen }

/-- via the pointer-level builder; `none` = the builder panics (pop of an empty stack) -/
def treeBWith (ops : List LOp) (vtext : LOp → Nat → String) : Option String :=
  let step := fun (acc : Option (Builder × Array String × Array LOp)) (o : LOp) =>
    acc.bind fun (b, sl, vl) =>
      match Hier.step b o.op with
      | none => none
      | some b' =>
        match o.op with
        | .scope _ _ => some (b', (if b'.scopes.size > b.scopes.size then sl.push o.label else sl), vl)
        | .var _ _ => some (b', sl, vl.push o)
        | .pop => some (b', sl, vl)
  match ops.foldl step (some ({}, #[], #[])) with
  | none => none
  | some (b, sl, vl) => some (walkB b sl vl vtext (2 * nodeCount b + 2) (itemsOf b b.firstItem) {}).acc

def walkS (nodes : List FNode) (sl : Array String) (vl : Array LOp) (vtext : LOp → Nat → String) :
    Nat → List Nat → WSt → WSt
  | 0, _, s => s
  | _, [], s => s
  | fuel + 1, i :: rest, s =>
    let sep := sepOf s.acc
    let n := nodes.getD i default
    if n.isScope then
      let inner := walkS nodes sl vl vtext fuel (childrenOf nodes (some i))
        { s with acc := s.acc ++ sep ++ s!"S({sl.getD (rankOf nodes i) "?"})" ++ "{" }
      walkS nodes sl vl vtext fuel rest { inner with acc := inner.acc ++ "}" }
    else
      let l := vl.getD (rankOf nodes i) default
      let (c, seen) := canonOf s.seen l.sig
      walkS nodes sl vl vtext fuel rest { acc := s.acc ++ sep ++ vtext l c, seen := seen }

/-- via the abstract specification of C08 -/
def treeSWith (ops : List LOp) (vtext : LOp → Nat → String) : Option String :=
  let step := fun (acc : Option (SpecSt × Array String × Array LOp)) (o : LOp) =>
    acc.bind fun (s, sl, vl) =>
      match specStep s o.op with
      | none => none
      | some s' =>
        match o.op with
        | .scope _ _ => some (s', (if s'.nodes.length > s.nodes.length then sl.push o.label else sl), vl)
        | .var _ _ => some (s', sl, vl.push o)
        | .pop => some (s', sl, vl)
  match ops.foldl step (some ({}, #[], #[])) with
  | none => none
  | some (s, sl, vl) => some (walkS s.nodes sl vl vtext (2 * s.nodes.length + 2) (childrenOf s.nodes none) {}).acc

def treeB (ops : List LOp) (changes : Nat → String) : Option String := treeBWith ops fun l c => varText l c changes
def treeS (ops : List LOp) (changes : Nat → String) : Option String := treeSWith ops fun l c => varText l c changes

end Wellen.Tree
