import WellenModel.Gen.Tables
/-
M13 `Detect` — model of viewers.rs detect_file_format (162-173) = is_vcd (vcd.rs 818-859:
skip_whitespace, read_token, VcdCmd::from_bytes, read_until_end_token), fst_reader::is_fst_file
(dependency, reader.rs 196-218, modelled from its source), ghw is_ghw / read_ghw_header
(ghw/hierarchy.rs 20-73). The input is a byte list read through an explicit cursor; every branch
seeks back to 0 in the code (`detect_rewinds` is structural here: the functions are pure).
-/
namespace Wellen.Detect

def isWs (b : Nat) : Bool := b == 32 || b == 10 || b == 13 || b == 9

/-- `skip_whitespace`: the rest after the first non-white-space byte, which is returned -/
def skipWs : List Nat → Option (Nat × List Nat)
  | [] => none
  | b :: r => if isWs b then skipWs r else some (b, r)

/-- `read_token`: bytes up to the next white space (which is consumed); `none` at end of input -/
def readToken : List Nat → List Nat → Option (List Nat × List Nat)
  | [], _ => none
  | b :: r, acc => if isWs b then some (acc.reverse, r) else readToken r (b :: acc)

/-- `read_until_end_token`: does the sequence `$end` occur? (the matcher resets to 0 on a
mismatch without looking at the byte again — as the code does) -/
def findEnd : List Nat → Nat → Bool
  | [], _ => false
  | b :: r, k =>
    match k, b with
    | 0, 36 => findEnd r 1
    | 1, 101 => findEnd r 2
    | 2, 110 => findEnd r 3
    | 3, 100 => true
    | _, _ => findEnd r 0

/-- `read_until_end_token` first skips leading white space (those bytes never reach the matcher) -/
def dropLeadingWs : List Nat → List Nat
  | [] => []
  | b :: r => if isWs b then dropLeadingWs r else b :: r

def cmdWords : List (List Nat) := Gen.vcdCmdBytes

/-- `is_vcd` (after fix F8: an unknown command word is an error, not a panic) -/
def isVcd (bs : List Nat) : Bool :=
  match skipWs bs with
  | none => false
  | some (c, r) =>
    if c != 36 then false else
    match readToken r [] with
    | none => false
    | some (tok, r2) =>
      if cmdWords.contains tok then findEnd (dropLeadingWs r2) 0 else false

def validBlockType (b : Nat) : Bool := b ≤ 8 || b == 254 || b == 255

def u64be (l : List Nat) : Nat := l.foldl (fun acc b => acc * 256 + b) 0

inductive FstRes | yes | no | hang | osdep
deriving Repr, DecidableEq

/-- `is_fst_file`: walk the block chain. `pos` is the stream position; seeking before 0 is an error,
seeking beyond the end is allowed (the next read hits end of input). -/
def isFstWalk (bs : List Nat) : Nat → Nat → FstRes
  | 0, _ => .hang
  | fuel + 1, pos =>
    match bs[pos]? with
    | none => .yes                                   -- end of input while reading the block type
    | some t =>
      if !validBlockType t then .no else
      let lenBytes := (bs.drop (pos + 1)).take 8
      if lenBytes.length < 8 then .no else
      let len := u64be lenBytes
      -- seek(Current(len as i64 - 8)) from position pos + 9
      let signed : Int := if len < 2 ^ 63 then (len : Int) else (len : Int) - 2 ^ 64
      -- `(section_length as i64) - 8` wraps in release builds
      let off : Int := if signed - 8 < -(2 ^ 63 : Int) then signed - 8 + 2 ^ 64 else signed - 8
      let target : Int := (pos : Int) + 9 + off
      if target < 0 then .no
      -- far seeks succeed on an in-memory reader but are rejected by file systems beyond their maximum
      -- file size: outside the model
      else if target ≥ 2 ^ 31 then .osdep
      else isFstWalk bs fuel target.toNat

def isFst (bs : List Nat) : FstRes := isFstWalk bs (bs.length + 2) 0

def ghwMagic : List Nat := [71, 72, 68, 76, 119, 97, 118, 101, 10]   -- "GHDLwave\n"

/-- `is_ghw` = `read_ghw_header(..).is_ok()` -/
def isGhw (bs : List Nat) : Bool :=
  if bs.length < 16 then false else
  bs.take 9 == ghwMagic &&
  bs.getD 9 0 == 16 && bs.getD 10 0 == 0 && bs.getD 11 0 ≤ 1 &&
  (bs.getD 12 0 == 1 || bs.getD 12 0 == 2) && bs.getD 15 0 == 0

inductive Format | vcd | fst | ghw | unknown | hang | osdep
deriving Repr, DecidableEq

/-- `detect_file_format` -/
def detect (bs : List Nat) : Format :=
  if isVcd bs then .vcd
  else match isFst bs with
    | .hang => .hang
    | .osdep => .osdep
    | .yes => .fst
    | .no => if isGhw bs then .ghw else .unknown

end Wellen.Detect
