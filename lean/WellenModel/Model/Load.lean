/-
M12 `Load` — model of signals.rs SignalSource::load_signals (647-691: sort, dedup, alias
substitution, zip back, slice) and simple.rs Waveform::{load_signals_internal, unload_signals,
get_signal} (80-113). The back end (`SignalSourceImplementation::load_signals`) is a parameter: it
returns one signal per requested id, in request order (wavemem: `iter` / rayon's ordered `par_iter`).
The `HashMap<SignalRef, Signal>` of the waveform is a finite map, modelled as a function.
-/
namespace Wellen.Load

/-- insert into a strictly increasing list, dropping duplicates -/
def insertUniq (x : Nat) : List Nat → List Nat
  | [] => [x]
  | y :: r => if x < y then x :: y :: r else if x = y then y :: r else y :: insertUniq x r

/-- `ids.sort(); ids.dedup()` -/
def sortDedup (ids : List Nat) : List Nat := ids.foldl (fun acc x => insertUniq x acc) []

structure Source (σ : Type) where
  raw : Nat → σ                                   -- what the back end returns for an id
  aliasOf : Nat → Option (Nat × Nat × Nat)        -- slice info: (sliced signal, msb, lsb)
  slice : σ → Nat → Nat → σ

variable {σ : Type}

/-- `SignalSource::load_signals` -/
def Source.loadSignals (src : Source σ) (ids : List Nat) : List (Nat × σ) :=
  let orig := sortDedup ids
  let sub := orig.map fun id => match src.aliasOf id with | some (p, _, _) => p | none => id
  let sigs := sub.map src.raw
  (orig.zip sigs).map fun (id, s) =>
    match src.aliasOf id with
    | some (_, msb, lsb) => (id, src.slice s msb lsb)
    | none => (id, s)

/-- the content of a signal: independent of any request -/
def Source.content (src : Source σ) (id : Nat) : σ :=
  match src.aliasOf id with
  | some (p, msb, lsb) => src.slice (src.raw p) msb lsb
  | none => src.raw id

def update (m : Nat → Option σ) (k : Nat) (v : Option σ) : Nat → Option σ :=
  fun i => if i = k then v else m i

inductive Op
  | load (ids : List Nat)          -- load_signals and load_signals_multi_threaded (same back-end contract)
  | unload (ids : List Nat)
deriving Repr

/-- `Waveform::load_signals_internal` / `unload_signals` on the signal map -/
def stepW (src : Source σ) (w : Nat → Option σ) : Op → (Nat → Option σ)
  | .load ids =>
    let filtered := ids.filter fun id => (w id).isNone
    (src.loadSignals filtered).foldl (fun m p => update m p.1 (some p.2)) w
  | .unload ids => ids.foldl (fun m id => update m id none) w

/-- the abstract view: the set of ids loaded and not since unloaded -/
def stepS (s : Nat → Bool) : Op → (Nat → Bool)
  | .load ids => fun i => s i || ids.contains i
  | .unload ids => fun i => s i && !ids.contains i

end Wellen.Load
