import WellenModel.Model.Fst
import WellenModel.Model.Ghw
import WellenModel.Model.GhwSpec
/-
File-level model of FST loading (C10): the container (blocks, compression, chain tables) is the dependency
`fst-reader`; what it delivers for a file written from a design is one callback per signal and time (the last
value of that time, as ASCII value characters / a double). wellen's part — `SignalWriter::add_change` with its
state widening, the entry layout and the loader's rendering — is the `Fst` model, applied to that callback list.
-/
namespace Wellen.FstFile
open Wellen.Spec Wellen.Store Wellen.Fst Wellen.GhwSpec Wellen.Tree

def callbacks (l : List (Nat × Value)) : Option (List (Nat × WValue)) :=
  (lastPerStep l).mapM fun (i, v) =>
    match v with
    | .bits syms => some (i, WValue.chars (syms.map fun s => Gen.lookup9.getD s 63))
    | .real le => some (i, WValue.real le)
    | .str _ => none

def sigTypeOf (lf : Leaf) : SigType :=
  match lf.kind with
  | .real => .real
  | .nine | .two => .bitvec lf.atoms.length
  | .enumBits b => .bitvec b
  | .int32 => .bitvec 32

/-! ### repeated block-boundary times

A later value-change block may start its time chain with the last time of the previous block: the file's time chain
(= the time table, C02) then holds that time twice. `dups` lists the positions `p` (index among the distinct times) that
are repeated, with the flag "the repeated entry carries a record for every signal (its current value)". -/

def parseDups (s : String) : Option (List (Nat × Bool)) :=
  if s = "" ∨ s = "-" then some [] else
  (s.splitOn ",").mapM fun t =>
    if t.endsWith "e" then (t.dropEnd 1).toString.toNat?.map fun p => (p, false)
    else t.toNat?.map fun p => (p, true)

/-- the file's time chain: position `p` once more for every repetition -/
def chainWithDups (times : List Nat) (dups : List (Nat × Bool)) : List Nat :=
  (List.range times.length).flatMap fun i =>
    let t := times.getD i 0
    t :: (dups.filter fun d => d.1 = i).map fun _ => t

/-- the value a signal holds at position `p` -/
def currentAt (l : List (Nat × Value)) (p : Nat) : Option Value :=
  ((l.filter fun c => c.1 ≤ p).getLast?).map (·.2)

/-- the callbacks fst-reader delivers for one signal, as (time, value): the last value of every time step, and after the
steps up to `p` the re-written current value for every repetition of `p` that carries records -/
def timedCallbacks (times : List Nat) (dups : List (Nat × Bool)) (l : List (Nat × Value)) : List (Nat × Value) :=
  let ls := lastPerStep l
  (List.range times.length).flatMap fun i =>
    let t := times.getD i 0
    (ls.filter fun c => c.1 = i).map (fun c => (t, c.2)) ++
      (dups.filter fun d => d.1 = i ∧ d.2).filterMap fun _ => (currentAt ls i).map fun v => (t, v)

/-- `load_signals`: the time index of every callback through the forward-only cursor over the reader's time table -/
def indexCallbacks (tt : List Nat) (cbs : List (Nat × Value)) : Option (List (Nat × Value)) :=
  (cbs.foldl (fun (acc : Option (Nat × List (Nat × Value))) c =>
      acc.bind fun (idx, out) =>
        (cursorAdvance tt idx c.1 (tt.length + 1)).map fun i => (i, (i, c.2) :: out))
    (some (0, []))).map fun r => r.2.reverse

def toW (l : List (Nat × Value)) : Option (List (Nat × WValue)) :=
  l.mapM fun (i, v) =>
    match v with
    | .bits syms => some (i, WValue.chars (syms.map fun s => Gen.lookup9.getD s 63))
    | .real le => some (i, WValue.real le)
    | .str _ => none

/-- the dump of the FST rendering of a design, values through the model of `SignalWriter` -/
def model (design exp : String) (dupsTxt : String := "") : String :=
  match parseDesign design, exp.toInt?, parseDups dupsTxt with
  | none, _, _ => "bad-request"
  | _, none, _ => "bad-request"
  | _, _, none => "bad-request"
  | some (items, w), some e, some dups =>
    match denote items w with
    | none => "bad-request"
    | some d =>
      let div := 10 ^ (e + 15).toNat
      -- `convert_timescale` (model of the code); `none` = panic
      match convertTimescale e with
      | none => "panic"
      | some (factor, unitExp) =>
      let unitName := ["Seconds", "MilliSeconds", "MicroSeconds", "NanoSeconds", "PicoSeconds", "FemtoSeconds"].getD ((-unitExp) / 3).toNat "?"
      let times := d.times.map (· / div)
      let tt := chainWithDups times dups
      let table : List (Option String) := (List.range d.leaves.length).map fun i =>
        let tp := sigTypeOf (d.leaves.getD i default)
        let cbs := if dups.isEmpty then callbacks (d.changes.getD i [])
          else (indexCallbacks tt (timedCallbacks times dups (d.changes.getD i []))).bind toW
        match cbs with
        | none => none
        | some cb => (runWriter tp cb).bind (Ghw.showLoaded tp)
      if table.any Option.isNone then "panic" else
      match treeB (fstOps d) (fun i => (table.getD i none).getD "?") with
      | none => "panic"
      | some t => t ++ "|tt=" ++ natList tt ++ s!"|ts={factor}:{unitName}"

end Wellen.FstFile
