import WellenModel.Model.Fst
import WellenModel.Model.Ghw
import WellenModel.Model.GhwSpec
/-
File-level model of FST loading (C10): the container (blocks, compression, chain tables) is the dependency
`fst-reader`; what it delivers for a file written from a design is one callback per signal and time (the last
value of that time, as ASCII value characters / a double). wellen's part — `SignalWriter::add_change` with its
state widening, the entry layout and the loader's rendering — is the `Fst` model, applied to that callback list.
-/
namespace Wellen.FstFile
open Wellen.Spec Wellen.Store Wellen.Fst Wellen.GhwSpec Wellen.Tree

def callbacks (l : List (Nat × Value)) : Option (List (Nat × WValue)) :=
  (lastPerStep l).mapM fun (i, v) =>
    match v with
    | .bits syms => some (i, WValue.chars (syms.map fun s => Gen.lookup9.getD s 63))
    | .real le => some (i, WValue.real le)
    | .str _ => none

def sigTypeOf (lf : Leaf) : SigType :=
  match lf.kind with
  | .real => .real
  | .nine | .two => .bitvec lf.atoms.length
  | .enumBits b => .bitvec b
  | .int32 => .bitvec 32

/-- the dump of the FST rendering of a design, values through the model of `SignalWriter` -/
def model (design exp : String) : String :=
  match parseDesign design, exp.toInt? with
  | none, _ => "bad-request"
  | _, none => "bad-request"
  | some (items, w), some e =>
    match denote items w with
    | none => "bad-request"
    | some d =>
      let div := 10 ^ (e + 15).toNat
      -- `convert_timescale` (model of the code); `none` = panic
      match convertTimescale e with
      | none => "panic"
      | some (factor, unitExp) =>
      let unitName := ["Seconds", "MilliSeconds", "MicroSeconds", "NanoSeconds", "PicoSeconds", "FemtoSeconds"].getD ((-unitExp) / 3).toNat "?"
      let table : List (Option String) := (List.range d.leaves.length).map fun i =>
        let tp := sigTypeOf (d.leaves.getD i default)
        match callbacks (d.changes.getD i []) with
        | none => none
        | some cb => (runWriter tp cb).bind (Ghw.showLoaded tp)
      if table.any Option.isNone then "panic" else
      match treeB (fstOps d) (fun i => (table.getD i none).getD "?") with
      | none => "panic"
      | some t => t ++ "|tt=" ++ natList (d.times.map (· / div)) ++ s!"|ts={factor}:{unitName}"

end Wellen.FstFile
