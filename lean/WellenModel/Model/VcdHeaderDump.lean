import WellenModel.Model.VcdHeader
import WellenModel.Model.HierDump
import WellenModel.Model.Proto
/-
Header dump (C09): the hierarchy a list of header operations denotes, once built by the pointer-level
`Hier.Builder` (model) and once by the abstract parent-pointer specification; plus the abstract
interpretation of a declaration list (what the generator intended) into the same operations.
-/
namespace Wellen.VcdHeader
open Wellen.Hier Wellen.VcdBody Wellen.Store Wellen.Proto

instance : Inhabited VarAttr := ⟨{ kind := "?", enc := "?", index := none, typeName := none, idBytes := [] }⟩

def hexName (s : String) : String := toHex (bytesOfStr s)

def idxStr : Option VarIndex → String
  | none => "-"
  | some i => s!"{i.msb}:{i.lsb}"

def optS : Option String → String | none => "-" | some s => hexName s

def locStr : Option (String × Nat) → String
  | none => "-"
  | some (p, l) => hexName p ++ "@" ++ toString l

def varStr (name : String) (a : VarAttr) (sig : Nat) : String :=
  s!"V({a.kind},{hexName name},{a.enc},{idxStr a.index},{sig},{optS a.typeName})"

/-- signal numbering of the declared variables (direct id_to_int or the hashed fallback) -/
def sigNumbers (ops : List HOp) : List Nat :=
  let vars := ops.filterMap fun o => match o with
    | .var _ a => some (a.idBytes, (if a.enc = "S" then SigType.string else if a.enc = "R" then SigType.real
                         else SigType.bitvec ((a.enc.drop 1).toString.toNat?.getD 1)))
    | _ => none
  (mkDecls vars).varSig

def toHierOp : HOp → Hier.Op
  | .scope _ name fl _ => .scope name fl
  | .arrayScope name => .scope name false
  | .up => .pop
  | .var name _ => .var name 0

/-! via the pointer-level builder -/
def walkHB (b : Builder) (sattr : Array (String × Option (String × Nat))) (vattr : Array (VarAttr × Nat)) :
    Nat → List ItemId → String → String
  | 0, _, acc => acc
  | _, [], acc => acc
  | fuel + 1, it :: rest, acc =>
    let sep := if acc.isEmpty || acc.back == '{' then "" else ","
    match it with
    | .scope i =>
      let (k, loc) := sattr.getD i ("?", none)
      let inner := walkHB b sattr vattr fuel (itemsOf b (b.scopes.getD i default).child)
        (acc ++ sep ++ s!"S({k},{hexName (b.scopes.getD i default).name},{locStr loc})" ++ "{")
      walkHB b sattr vattr fuel rest (inner ++ "}")
    | .var i =>
      let (a, sig) := vattr.getD i (default, 0)
      walkHB b sattr vattr fuel rest (acc ++ sep ++ varStr (b.vars.getD i default).name a sig)


def treeViaBuilder (ops : List HOp) : Option String :=
  let sigs := sigNumbers ops
  let step := fun (acc : Option (Builder × Array (String × Option (String × Nat)) × Array (VarAttr × Nat) × Nat)) (o : HOp) =>
    acc.bind fun (b, sa, va, nv) =>
      match Hier.step b (toHierOp o) with
      | none => none
      | some b' =>
        match o with
        | .scope k _ _ loc => some (b', (if b'.scopes.size > b.scopes.size then sa.push (k, loc) else sa), va, nv)
        | .arrayScope _ => some (b', (if b'.scopes.size > b.scopes.size then sa.push ("VhdlArray", none) else sa), va, nv)
        | .var _ a => some (b', sa, va.push (a, sigs.getD nv 0), nv + 1)
        | .up => some (b', sa, va, nv)
  match ops.foldl step (some ({}, #[], #[], 0)) with
  | none => none
  | some (b, sa, va, _) => some (walkHB b sa va (2 * nodeCount b + 2) (itemsOf b b.firstItem) "")

/-! via the abstract specification -/
def walkHS (nodes : List FNode) (sattr : Array (String × Option (String × Nat))) (vattr : Array (VarAttr × Nat)) :
    Nat → List Nat → String → String
  | 0, _, acc => acc
  | _, [], acc => acc
  | fuel + 1, i :: rest, acc =>
    let sep := if acc.isEmpty || acc.back == '{' then "" else ","
    let n := nodes.getD i default
    if n.isScope then
      let (k, loc) := sattr.getD (rankOf nodes i) ("?", none)
      let inner := walkHS nodes sattr vattr fuel (childrenOf nodes (some i))
        (acc ++ sep ++ s!"S({k},{hexName n.name},{locStr loc})" ++ "{")
      walkHS nodes sattr vattr fuel rest (inner ++ "}")
    else
      let (a, sig) := vattr.getD (rankOf nodes i) (default, 0)
      walkHS nodes sattr vattr fuel rest (acc ++ sep ++ varStr n.name a sig)

def treeViaSpec (ops : List HOp) : Option String :=
  let sigs := sigNumbers ops
  let step := fun (acc : Option (SpecSt × Array (String × Option (String × Nat)) × Array (VarAttr × Nat) × Nat)) (o : HOp) =>
    acc.bind fun (s, sa, va, nv) =>
      match specStep s (toHierOp o) with
      | none => none
      | some s' =>
        let grew := s'.nodes.length > s.nodes.length
        match o with
        | .scope k _ _ loc => some (s', (if grew then sa.push (k, loc) else sa), va, nv)
        | .arrayScope _ => some (s', (if grew then sa.push ("VhdlArray", none) else sa), va, nv)
        | .var _ a => some (s', sa, va.push (a, sigs.getD nv 0), nv + 1)
        | .up => some (s', sa, va, nv)
  match ops.foldl step (some ({}, #[], #[], 0)) with
  | none => none
  | some (s, sa, va, _) => some (walkHS s.nodes sa va (2 * s.nodes.length + 2) (childrenOf s.nodes none) "")

def metaStr (h : Header) (hl : Nat) : String :=
  let ts := match h.timescale with | none => "-" | some (f, u) => s!"{f}:{u}"
  s!"|date={hexName h.date}|ver={hexName h.version}|ts={ts}|hl={hl}"

/-! ### abstract declarations (what the generator intended) ↦ operations -/

def unhex (s : String) : Option String := (hexBytes? s).map strOf

/-- one declaration of the generator's list; see vf/hdrgen.py for the grammar -/
def declStep (removeEmpty : Bool) (h : Header) (d : String) : Option Header :=
  match d.splitOn "." with
  | ["s", kw, name] => do
    let kind ← Gen.scopeKw.lookup kw
    let nm ← unhex name
    let src := pendingLoc h.attrs
    some { h with attrs := [], ops := .scope kind nm (removeEmpty && nm.isEmpty) src :: h.ops }
  | ["u"] => some { h with ops := .up :: h.ops }
  | ["v", kw, width, id, base, groups, idx] => do
    let raw ← Gen.varKw.lookup kw
    let len ← width.toNat?
    let idb ← hexBytes? id
    let bn ← unhex base
    let gs ← (if groups = "-" then some [] else (groups.splitOn ",").mapM unhex)
    let index ← (if idx = "-" then some none
      else if idx.startsWith "i" then ((idx.drop 1).toString.toInt?).map fun n => some (mkIndex n n)
      else match ((idx.drop 1).toString.splitOn "_") with
        | [m, l] => do some (some (mkIndex (← m.toInt?) (← l.toInt?)))
        | _ => none)
    let (vname, scopes) := match gs.getLast? with
      | none => (bn, [])
      | some g => (g, bn :: gs.dropLast)
    let tinfos := h.attrs.filterMap fun a => match a with | .inl p => some p | .inr _ => none
    let kind := tinfos.foldl (fun k a => mergeVhdl k a.2) raw
    let a : VarAttr := { kind := kind, enc := encOf raw len, index := index, typeName := tinfos.getLast?.map (·.1), idBytes := idb }
    let ops := (scopes.map fun s => HOp.arrayScope s).reverse ++ h.ops
    some { h with ops := (List.replicate scopes.length HOp.up) ++ (.var vname a :: ops), attrs := [] }
  | ["d", v] => do some { h with date := ← unhex v }
  | ["r", v] => do some { h with version := ← unhex v }
  | ["c", _] => some h
  | ["t", f, u] => do some { h with timescale := some (← f.toNat?, (Gen.unitKw.lookup u).getD "Unknown") }
  | ["a2", tn, arg] => do
    let a ← arg.toNat?
    some { h with attrs := .inl (← unhex tn, (a &&& 1023) % 256) :: h.attrs }
  | ["a3", p, id] => do some { h with pathNames := (← id.toNat?, ← unhex p) :: h.pathNames }
  | ["a4", pid, line] => do
    let p ← h.pathNames.lookup (← pid.toNat?)
    some { h with attrs := .inr (p, ← line.toNat?) :: h.attrs }
  | _ => none

/-- (model reply, spec reply) for `vcdhdr <opts> <decls> <texthex>` -/
def handle (opts decls hex : String) : String × String :=
  match hexBytes? hex with
  | none => ("bad-request", "-")
  | some bs =>
    let removeEmpty := opts.contains 'f'
    let m := match readHeader removeEmpty (bs.length + 2) bs {} 0 with
      | .err => "err"
      | .panic => "panic"
      | .ok (h, consumed) =>
        match treeViaBuilder h.ops.reverse with
        | none => "panic"
        | some t => t ++ metaStr h consumed
    -- the declaration list ends with `e.<n>`: `$enddefinitions $end` ends at byte n of the text
    let ds := decls.splitOn ";"
    let sp := if decls = "-" then "-" else
      match ds.getLast?.map (·.splitOn "."), (ds.dropLast).foldl (fun (acc : Option Header) d => acc.bind fun h => declStep removeEmpty h d) (some {}) with
      | some ["e", n], some h =>
        match treeViaSpec h.ops.reverse, n.toNat? with
        | some t, some c => t ++ metaStr h c
        | _, _ => "-"
      | _, _ => "-"
    -- finding class F27: an identifier code, name or text that CONTAINS the characters `$end` (legal for an identifier code:
    -- any printable characters) ends the command early — `read_until_end_token` looks for the byte sequence, not for a token
    let hasEnd := fun (bs : List Nat) => (List.range bs.length).any fun k => (bs.drop k).take 4 == [36, 101, 110, 100]
    let f27 := ds.any fun d =>
      match d.splitOn "." with
      | ["v", _, _, id, base, groups, _] =>
        ((hexBytes? id).map hasEnd).getD false || ((hexBytes? base).map hasEnd).getD false ||
          (if groups = "-" then false else (groups.splitOn ",").any fun g => ((hexBytes? g).map hasEnd).getD false)
      | ["s", _, name] => ((hexBytes? name).map hasEnd).getD false
      | _ => false
    (m, if f27 then sp ++ "\tF27" else sp)

end Wellen.VcdHeader
