/-
M7 `Hier` — model of hierarchy.rs:
  HierarchyBuilder (add_to_hierarchy_tree 936-968, find_duplicate_scope / find_last_child 971-1014,
  add_scope 1016-1071, add_var 1083-1123, pop_scope, find_parent_scope 1191-1200, finish),
  the iterators (467-565), Scope::full_name / Var::full_name (319-329, 421-435),
  lookup_scope / lookup_var_with_index / get_signal_tpe / num_unique_signals / get_unique_signals_vars (686-779).
The builder keeps the code's representation: two node arrays with child / next / parent links and
a scope stack with a sentinel entry. Panics (`unwrap` on an empty stack, index underflow) are `none`.
The abstract specification `Tree` is a rose tree built by the obvious interpretation of the same
operation list.
-/
namespace Wellen.Hier

inductive ItemId
  | scope (i : Nat)
  | var (i : Nat)
deriving Repr, DecidableEq, BEq, Inhabited

structure ScopeN where
  name : String
  child : Option ItemId := none
  parent : Option Nat := none
  next : Option ItemId := none
deriving Repr, Inhabited

structure VarN where
  name : String
  sig : Nat
  parent : Option Nat := none
  next : Option ItemId := none
deriving Repr, Inhabited

structure StackEntry where
  scopeId : Option Nat         -- `none` = usize::MAX (sentinel or flattened entry)
  lastChild : Option ItemId := none
  flattened : Bool := false
deriving Repr, Inhabited

structure Builder where
  vars : Array VarN := #[]
  scopes : Array ScopeN := #[]
  firstItem : Option ItemId := none
  stack : List StackEntry := [{ scopeId := none }]   -- top first
  handleToNode : Array (Option Nat) := #[]
deriving Repr, Inhabited

inductive Op
  | scope (name : String) (flatten : Bool)
  | var (name : String) (sig : Nat)
  | pop
deriving Repr, DecidableEq, Inhabited

/-- `find_parent_scope`: position (from the top) of the first entry that is not flattened;
`none` = index underflow (panic) -/
def findParent : List StackEntry → Option (Nat × StackEntry)
  | [] => none
  | e :: rest => if e.flattened then (findParent rest).map (fun p => (p.1 + 1, p.2)) else some (0, e)

def getNext (b : Builder) : ItemId → Option ItemId
  | .scope i => (b.scopes.getD i default).next
  | .var i => (b.vars.getD i default).next

def setNext (b : Builder) (holder : ItemId) (tgt : ItemId) : Builder :=
  match holder with
  | .scope i => { b with scopes := b.scopes.modify i (fun s => { s with next := some tgt }) }
  | .var i => { b with vars := b.vars.modify i (fun v => { v with next := some tgt }) }

/-- `add_to_hierarchy_tree`: links the new node, returns the parent scope -/
def addToTree (b : Builder) (node : ItemId) : Option (Builder × Option Nat) :=
  match findParent b.stack with
  | none => none
  | some (pos, entry) =>
    let b1 := match entry.lastChild with
      | some holder => setNext b holder node
      | none => match entry.scopeId with
        | some p => { b with scopes := b.scopes.modify p (fun s => { s with child := some node }) }
        | none => b
    let stack' := b1.stack.modify pos (fun e => { e with lastChild := some node })
    some ({ b1 with stack := stack' }, entry.scopeId)

/-- `find_duplicate_scope` (fuel = number of nodes + 1) -/
def findDup (b : Builder) (name : String) : Nat → Option ItemId → Option Nat
  | 0, _ => none
  | _, none => none
  | fuel + 1, some item =>
    match item with
    | .scope i => if (b.scopes.getD i default).name = name then some i else findDup b name fuel (getNext b item)
    | .var _ => findDup b name fuel (getNext b item)

/-- `find_last_child` -/
def findLast (b : Builder) : Nat → ItemId → ItemId
  | 0, c => c
  | fuel + 1, c => match getNext b c with
    | some n => findLast b fuel n
    | none => c

def nodeCount (b : Builder) : Nat := b.vars.size + b.scopes.size

def step (b : Builder) : Op → Option Builder
  | .pop => match b.stack with
    | [] => none
    | _ :: rest => some { b with stack := rest }
  | .scope name flatten =>
    match findParent b.stack with
    | none => none
    | some (_, parent) =>
      let start := match parent.scopeId with
        | none => b.firstItem
        | some p => (b.scopes.getD p default).child
      match findDup b name (nodeCount b + 1) start with
      | some dup =>
        let last := ((b.scopes.getD dup default).child).map (findLast b (nodeCount b + 1))
        some { b with stack := { scopeId := some dup, lastChild := last } :: b.stack }
      | none =>
        if flatten then some { b with stack := { scopeId := none, flattened := true } :: b.stack }
        else
          let id := b.scopes.size
          let node := ItemId.scope id
          let b0 := if b.firstItem.isNone then { b with firstItem := some node } else b
          match addToTree b0 node with
          | none => none
          | some (b1, parent) =>
            some { b1 with stack := { scopeId := some id } :: b1.stack,
                           scopes := b1.scopes.push { name := name, parent := parent } }
  | .var name sig =>
    let id := b.vars.size
    let node := ItemId.var id
    let b0 := if b.firstItem.isNone then { b with firstItem := some node } else b
    match addToTree b0 node with
    | none => none
    | some (b1, parent) =>
      let h := if b1.handleToNode.size ≤ sig then b1.handleToNode ++ Array.replicate (sig + 1 - b1.handleToNode.size) none
               else b1.handleToNode
      some { b1 with handleToNode := h.setIfInBounds sig (some id),
                     vars := b1.vars.push { name := name, sig := sig, parent := parent } }

def run (ops : List Op) : Option Builder :=
  ops.foldl (fun acc op => acc.bind (fun b => step b op)) (some {})

/-! ### observers of the finished hierarchy -/

/-- `HierarchyItemIdIterator` from a first item (fuel-bounded) -/
def iterItems (b : Builder) : Nat → Option ItemId → List ItemId
  | 0, _ => []
  | _, none => []
  | fuel + 1, some it => it :: iterItems b fuel (getNext b it)

def itemsOf (b : Builder) (first : Option ItemId) : List ItemId := iterItems b (nodeCount b + 1) first

def scopeFullName (b : Builder) (i : Nat) : String :=
  let rec up (fuel : Nat) (p : Option Nat) (acc : List String) : List String :=
    match fuel, p with
    | 0, _ => acc
    | _, none => acc
    | f + 1, some j => up f (b.scopes.getD j default).parent ((b.scopes.getD j default).name :: acc)
  ".".intercalate (up (b.scopes.size + 1) (b.scopes.getD i default).parent [(b.scopes.getD i default).name])

def varFullName (b : Builder) (i : Nat) : String :=
  let v := b.vars.getD i default
  match v.parent with
  | none => v.name
  | some p => scopeFullName b p ++ "." ++ v.name

def scopesIn (l : List ItemId) : List Nat := l.filterMap fun | .scope i => some i | _ => none
def varsIn (l : List ItemId) : List Nat := l.filterMap fun | .var i => some i | _ => none

/-- `lookup_scope` -/
def lookupScope (b : Builder) (names : List String) : Option Nat :=
  match names with
  | [] => none
  | n0 :: rest =>
    match (scopesIn (itemsOf b b.firstItem)).find? (fun s => (b.scopes.getD s default).name = n0) with
    | none => none
    | some s0 =>
      rest.foldl (fun acc n => acc.bind fun s =>
        (scopesIn (itemsOf b (b.scopes.getD s default).child)).find? (fun c => (b.scopes.getD c default).name = n)) (some s0)

/-- a variable's key is `<name>` or `<name>@<index>` (a variable declared with a bit index); its base is the name -/
def baseName (key : String) : String := (key.splitOn "@").headD ""

/-- `lookup_var` (index = None: any index): the first variable in the scope with that NAME -/
def lookupVar (b : Builder) (path : List String) (name : String) : Option Nat :=
  match path with
  | [] => (varsIn (itemsOf b b.firstItem)).find? (fun v => baseName (b.vars.getD v default).name = baseName name)
  | _ => match lookupScope b path with
    | none => none
    | some s => (varsIn (itemsOf b (b.scopes.getD s default).child)).find? (fun v => baseName (b.vars.getD v default).name = baseName name)

/-- `lookup_var_with_index(.., Some(index))`: the first variable with that name AND index -/
def lookupVarIdx (b : Builder) (path : List String) (key : String) : Option Nat :=
  match path with
  | [] => (varsIn (itemsOf b b.firstItem)).find? (fun v => (b.vars.getD v default).name = key)
  | _ => match lookupScope b path with
    | none => none
    | some s => (varsIn (itemsOf b (b.scopes.getD s default).child)).find? (fun v => (b.vars.getD v default).name = key)

/-! ### the abstract specification: nodes in declaration order with a parent pointer -/

structure FNode where
  isScope : Bool
  name : String
  sig : Nat := 0
  parent : Option Nat := none      -- index of the parent scope node (`none` = top level)
deriving Repr, DecidableEq, Inhabited

inductive SEntry
  | flat                -- a scope dissolved into its parent
  | scope (node : Nat)
deriving Repr, DecidableEq, Inhabited

structure SpecSt where
  nodes : List FNode := []
  stack : List SEntry := []          -- top first; the sentinel is not stored
deriving Repr, Inhabited

/-- the scope new items are attached to: the innermost entry that is not dissolved -/
def curParent : List SEntry → Option Nat
  | [] => none
  | .flat :: r => curParent r
  | .scope j :: _ => some j

/-- index of the first node satisfying `p` -/
def findIdx? (p : FNode → Bool) : List FNode → Nat → Option Nat
  | [], _ => none
  | n :: r, k => if p n then some k else findIdx? p r (k + 1)

def specStep (s : SpecSt) : Op → Option SpecSt
  | .pop => match s.stack with
    | [] => none                 -- popping the sentinel: not a balanced history
    | _ :: rest => some { s with stack := rest }
  | .scope name flatten =>
    let cur := curParent s.stack
    match findIdx? (fun n => n.isScope && n.parent == cur && n.name == name) s.nodes 0 with
    | some j => some { s with stack := .scope j :: s.stack }       -- continue the existing scope
    | none =>
      if flatten then some { s with stack := .flat :: s.stack }
      else some { nodes := s.nodes ++ [{ isScope := true, name := name, parent := cur }],
                  stack := .scope s.nodes.length :: s.stack }
  | .var name sig =>
    some { s with nodes := s.nodes ++ [{ isScope := false, name := name, sig := sig, parent := curParent s.stack }] }

def specRun (ops : List Op) : Option SpecSt :=
  ops.foldl (fun acc op => acc.bind (fun s => specStep s op)) (some {})

/-- children of `p` in declaration order (indices) -/
def childrenOf (nodes : List FNode) (p : Option Nat) : List Nat :=
  (List.range nodes.length).filter fun i => (nodes.getD i default).parent == p

end Wellen.Hier
