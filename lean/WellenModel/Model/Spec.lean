import WellenModel.Model.Store
/-
Abstract specification shared by C01/C02/C04/C06/C10/C11: a waveform is a strictly increasing
time table plus, per signal, the list of (time index, Value) with immediate repetitions removed.
Nothing here mentions packing, state-kind order, blocks, compression or encoder splits.
-/
namespace Wellen.Spec
open Wellen.Bits Wellen.Store

inductive Value
  | bits (syms : List Nat)      -- nine-state symbol numbers, most significant first
  | real (le : List Nat)        -- IEEE-754 bit pattern, 8 little-endian bytes
  | str (bytes : List Nat)
deriving Repr, DecidableEq, BEq, Inhabited

/-- smallest sufficient kind: Binary iff only 0/1, FourValue iff some x/z and nothing above -/
def kindOf (syms : List Nat) : States :=
  if syms.all (· ≤ 1) then .two else if syms.all (· ≤ 3) then .four else .nine

/-- drop immediate repetitions -/
def canon : List (Nat × Value) → List (Nat × Value)
  | [] => []
  | x :: rest =>
    let rec go (prev : Value) : List (Nat × Value) → List (Nat × Value)
      | [] => []
      | y :: r => if y.2 = prev then go prev r else y :: go y.2 r
    x :: go x.2 rest

/-- the timestamps that are greater than all earlier ones -/
def strictPrefixMax : List Nat → List Nat
  | [] => []
  | t :: rest =>
    let rec go (m : Nat) : List Nat → List Nat
      | [] => []
      | u :: r => if u > m then u :: go u r else go m r
    t :: go t rest

inductive Op
  | time (t : Nat)
  | vcd (id : Nat) (value : List Nat) (realLe : Option (List Nat))
  | raw (id : Nat) (st : States) (bytes : List Nat)
  | real (id : Nat) (le : List Nat)
  | split
deriving Repr, Inhabited

structure St where
  ttRev : List Nat := []
  ttLen : Nat := 0
  skipping : Bool := false
  changesRev : Array (List (Nat × Value))
  needNewMax : Bool := false     -- directly after a split: next op must open a new maximum
deriving Inhabited

/-- meaning of a VCD value token for a variable of the given type; `none` = not well-formed -/
def vcdValue (tpe : SigType) (value : List Nat) (realLe : Option (List Nat)) : Option Value :=
  match value with
  | [] => none
  | c0 :: rest =>
  match tpe with
  | .bitvec bits =>
    let vb := if c0 = 98 ∨ c0 = 66 then rest else value
    let vb := if vb.length ≤ 2 then vb else (if vb.take 2 = [48, 98] then vb.drop 2 else vb)
    match charsToNums vb with
    | none => none
    | some nums =>
      match nums with
      | [] => none
      | n0 :: _ =>
        if bits = 1 then some (.bits [n0])
        else if nums.length = bits then some (.bits nums)
        else if nums.length > bits then none
        else if n0 ≤ 1 then some (.bits (List.replicate (bits - nums.length) 0 ++ nums))
        else if n0 ≤ 3 then some (.bits (List.replicate (bits - nums.length) n0 ++ nums))
        else none
  | .string => if c0 = 115 ∨ c0 = 83 then some (.str rest) else none
  | .real => if c0 = 114 ∨ c0 = 82 then realLe.map .real else none

/-- meaning of an already encoded value (GHW path) -/
def rawValue (tpe : SigType) (st : States) (bytes : List Nat) : Option Value :=
  match tpe with
  | .bitvec bits =>
    if bits = 1 then
      match bytes with
      | [v] => if v < 9 ∧ v ≤ st.mask then some (.bits [v]) else none
      | _ => none
    else
      let req := divCeil bits st.bib
      if bytes.length < req then none else
      let v := bytes.drop (bytes.length - req)
      let syms := toSyms st v bits
      if syms.all (· < 9) ∧ writeNState st syms none = v then some (.bits syms) else none
  | _ => none

def record (s : St) (id : Nat) (v : Value) : Option St :=
  if h : id < s.changesRev.size then
    some { s with changesRev := s.changesRev.set id ((s.ttLen - 1, v) :: s.changesRev[id]) }
  else none

def step (types : Array SigType) (s : St) (op : Op) : Option St :=
  match op with
  | .time t =>
    match s.ttRev with
    | [] => some { s with ttRev := [t], ttLen := 1, skipping := false, needNewMax := false }
    | m :: _ =>
      if t > m then some { s with ttRev := t :: s.ttRev, ttLen := s.ttLen + 1, skipping := false, needNewMax := false }
      else if s.needNewMax then none
      else if t = m then some { s with skipping := false }
      else some { s with skipping := true }
  | .split => if s.ttRev.isEmpty then some s else some { s with needNewMax := true }   -- nothing recorded yet: a split changes nothing
  | .vcd id value realLe =>
    if s.needNewMax ∨ s.ttRev.isEmpty then none else
    match types[id]? with
    | none => none
    | some tp =>
      match vcdValue tp value realLe with
      | none => none
      | some v => if s.skipping then some s else record s id v
  | .raw id st bytes =>
    if s.needNewMax ∨ s.ttRev.isEmpty then none else
    match types[id]? with
    | none => none
    | some tp =>
      match rawValue tp st bytes with
      | none => none
      | some v => if s.skipping then some s else record s id v
  | .real id le =>
    if s.needNewMax ∨ s.ttRev.isEmpty then none else
    match types[id]? with
    | some .real => if le.length = 8 then (if s.skipping then some s else record s id (.real le)) else none
    | _ => none

/-- the waveform a history denotes: (time table, per signal change list) -/
def run (types : List SigType) (ops : List Op) : Option (List Nat × List (List (Nat × Value))) :=
  let s0 : St := { changesRev := (types.map fun _ => []).toArray }
  match ops.foldl (fun acc op => acc.bind (fun s => step types.toArray s op)) (some s0) with
  | none => none
  | some s => if s.needNewMax then none else
    some (s.ttRev.reverse, s.changesRev.toList.map (fun l => canon l.reverse))


/-! ### running the faithful store model on the same operation language -/

/-- one operation on one encoder (`split` is handled by the caller: it starts a new encoder) -/
def stepOp (c : Codec) (e : Enc) : Op → Option Enc
  | .time t => some (timeChange c e t)
  | .vcd id v r => vcdChange e id v r
  | .raw id st v => rawChange e id v st
  | .real id le => realChange e id le
  | .split => none

def runOps (c : Codec) (e : Enc) : List Op → Option Enc
  | [] => some e
  | op :: rest => match stepOp c e op with
    | none => none
    | some e' => runOps c e' rest

/-- the operations between the splits -/
def splitOps : List Op → List (List Op)
  | [] => [[]]
  | .split :: r => [] :: splitOps r
  | o :: r => match splitOps r with
    | [] => [[o]]
    | sg :: ss => (o :: sg) :: ss

/-- the operations of a list of segments, a split in front of each -/
def joinSegs : List (List Op) → List Op
  | [] => []
  | sg :: ss => .split :: sg ++ joinSegs ss

/-- `read_values` with several threads: one encoder per segment, appended in order -/
def runSegs (c : Codec) (tps : List SigType) (ops : List Op) : Option Enc :=
  match (splitOps ops).mapM (runOps c (newEnc tps)) with
  | some (e0 :: rest) => appendAll c e0 rest
  | _ => none


def timesOf : List Op → List Nat
  | [] => []
  | .time t :: rest => t :: timesOf rest
  | _ :: rest => timesOf rest

end Wellen.Spec
