/-
M5 `Offset` — model of wellen/src/signals.rs:
  Signal::get_offset (226-235), find_offset_from_time_table_idx (470-501), binary_search (504-524),
  get_time_idx_at / get_value_at / SignalChangeIterator (237-282).

Machine integers: `usize` subtraction that would underflow is a panic in debug builds and an
out-of-bounds index (hence also a panic) in release builds; both are the outcome `none` of the
outer `Option`.  `elements as u16` is modelled by `% 65536`.
-/
namespace Wellen.Offset

structure DataOffset where
  start : Nat
  elements : Nat          -- value of the u16 field
  timeMatch : Bool
  nextIndex : Option Nat  -- Option<NonZeroU32>
deriving Repr, BEq, DecidableEq

/-- `binary_search`; `none` = usize underflow / index out of bounds (panic). -/
def bsearch (a : Array Nat) (needle : Nat) (lo hi : Nat) : Option Nat :=
  if _h : lo ≤ hi then
    let mid := lo + (hi - lo) / 2
    if a[mid]! < needle then bsearch a needle (mid + 1) hi
    else if a[mid]! = needle then some mid
    else if mid = 0 then none else bsearch a needle lo (mid - 1)
  else if lo = 0 then none else some (lo - 1)
termination_by hi + 1 - lo
decreasing_by all_goals omega

/-- `while start > 0 && indices[start - 1] == res_index { start -= 1 }` -/
def scanStart (a : Array Nat) (v : Nat) : Nat → Nat
  | 0 => 0
  | s + 1 => if a[s]! = v then scanStart a v s else s + 1

/-- `while start + elements < len && indices[start + elements] == res_index { elements += 1 }` -/
def scanElems (a : Array Nat) (v start : Nat) : Nat → Nat → Nat
  | 0, e => e
  | fuel + 1, e =>
    if start + e < a.size ∧ a[start + e]! = v then scanElems a v start fuel (e + 1) else e

/-- `NonZeroU32::new` -/
def nonZero (v : Nat) : Option Nat := if v = 0 then none else some v

/-- `find_offset_from_time_table_idx` (precondition: non-empty). -/
def findOffset (a : Array Nat) (needle : Nat) : Option DataOffset :=
  match bsearch a needle 0 (a.size - 1) with
  | none => none
  | some res =>
    let v := a[res]!
    let start := scanStart a v res
    let elements := scanElems a v start a.size 1
    let next := if start + elements < a.size then nonZero a[start + elements]! else none
    some { start := start, elements := elements % 65536, timeMatch := v == needle, nextIndex := next }

/-- `Signal::get_offset`: outer `none` = panic, inner `none` = `None`. -/
def getOffset (a : Array Nat) (i : Nat) : Option (Option DataOffset) :=
  if a.size = 0 then some none
  else if a[0]! > i then some none
  else match findOffset a i with
    | none => none
    | some d => some (some d)

/-- `Signal::get_time_idx_at` -/
def getTimeIdxAt (a : Array Nat) (d : DataOffset) : Nat := a[d.start]!

/-- position read by `Signal::get_value_at(offset, element)`; `none` = the `assert!` fails -/
def valuePos (d : DataOffset) (element : Nat) : Option Nat :=
  if element < d.elements then some (d.start + element) else none

/-- `SignalChangeIterator`: the list of (time index, data position) pairs it yields -/
def iterChanges (a : Array Nat) : List (Nat × Nat) :=
  (List.range a.size).map (fun p => (a[p]!, p))

/-! ### abstract specification (linear scan) -/

/-- greatest value `≤ i` among the entries, by linear scan -/
def specLatest (l : List Nat) (i : Nat) : Option Nat :=
  l.foldl (fun acc v => if v ≤ i then (match acc with | none => some v | some w => some (max v w)) else acc) none

/-- the specification reports the true group size (the `u16` truncation of the code is finding F18) -/
def specOffset (l : List Nat) (i : Nat) : Option DataOffset :=
  match specLatest l i with
  | none => none
  | some v =>
    let start := (l.takeWhile (fun x => x != v)).length
    let n := (l.filter (fun x => x == v)).length
    let next := match l.drop (start + n) with | [] => none | x :: _ => nonZero x
    some { start := start, elements := n, timeMatch := v == i, nextIndex := next }

end Wellen.Offset
