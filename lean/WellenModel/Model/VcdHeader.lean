import WellenModel.Model.VcdBody
import WellenModel.Model.Hier
/-
M8 `VcdHeader` — model of vcd.rs header reading: read_command / read_token / read_until_end_token /
skip_whitespace / right_strip (834-945), find_tokens (after fix F25), read_vcd_header dispatch
(657-735), the read_hierarchy_inner callback (279-410), parse_name / extract_suffix_index / trim_right /
find_last (414-540), convert_* keyword tables (generated), parse_attribute + parse_var_attributes /
parse_scope_attributes (157-209, fst.rs 498-546), VarIndex packing (hierarchy.rs 211-240),
SignalEncoding::bit_vec_of_len. The id-map restart is `VcdBody.mkDecls`.
Outcome of a header: the builder operations + meta data, an error, or a panic.
-/
namespace Wellen.VcdHeader
open Wellen.VcdBody Wellen.Hier Wellen.Store

def isWs (b : Nat) : Bool := b == 32 || b == 10 || b == 13 || b == 9

def strOf (bs : List Nat) : String := String.ofList (bs.map Char.ofNat)   -- ASCII only in the generators
def bytesOfStr (s : String) : List Nat := s.toList.map Char.toNat

/-- `skip_whitespace` -/
def skipWs : List Nat → Option (Nat × List Nat)
  | [] => none
  | b :: r => if isWs b then skipWs r else some (b, r)

/-- `read_token` -/
def readToken : List Nat → List Nat → Option (List Nat × List Nat)
  | [], _ => none
  | b :: r, acc => if isWs b then some (acc.reverse, r) else readToken r (b :: acc)

def rightStrip (rev : List Nat) : List Nat :=   -- operates on the reversed buffer
  match rev with
  | [] => []
  | b :: r => if isWs b then rightStrip r else b :: r

/-- `read_until_end_token`: (body, rest) -/
def readUntilEnd : List Nat → List Nat → Nat → Bool → Option (List Nat × List Nat)
  | [], _, _, _ => none
  | b :: r, buf, k, skipping =>
    if skipping && isWs b then readUntilEnd r buf k true else
    let buf' := b :: buf
    match k, b with
    | 0, 36 => readUntilEnd r buf' 1 false
    | 1, 101 => readUntilEnd r buf' 2 false
    | 2, 110 => readUntilEnd r buf' 3 false
    | 3, 100 => some ((rightStrip (buf'.drop 4)).reverse, r)
    | _, _ => readUntilEnd r buf' 0 false

inductive Res (α : Type) | ok (a : α) | err | panic
deriving Repr

/-- `read_command`: (command word, body, rest) -/
def readCommand (bs : List Nat) : Res (String × List Nat × List Nat) :=
  match skipWs bs with
  | none => .err
  | some (c, r) =>
    if c != 36 then .err else
    match readToken r [] with
    | none => .err
    | some (tok, r2) =>
      if !(Gen.vcdCmdBytes.contains tok) then .err else
      match readUntilEnd r2 [] 0 true with
      | none => .err
      | some (body, rest) => .ok (strOf tok, body, rest)

/-- `find_tokens` (split on any white space, fix F25) with the start offset of each token -/
def findTokens (body : List Nat) : List (Nat × List Nat) :=
  let rec go (bs : List Nat) (pos : Nat) (cur : List Nat) (start : Nat) (acc : List (Nat × List Nat)) : List (Nat × List Nat) :=
    match bs with
    | [] => (if cur.isEmpty then acc else (start, cur.reverse) :: acc).reverse
    | b :: r =>
      if isWs b then go r (pos + 1) [] (pos + 1) (if cur.isEmpty then acc else (start, cur.reverse) :: acc)
      else go r (pos + 1) (b :: cur) (if cur.isEmpty then pos else start) acc
  go body 0 [] 0 []

/-! ### names and indices -/

structure VarIndex where
  msb : Int
  lsb : Int
deriving Repr, DecidableEq

/-- `VarIndex::new` + `msb()`/`lsb()`: the width is stored as i32 (wraps), zero is replaced by i32::MIN -/
def mkIndex (msb lsb : Int) : VarIndex :=
  let w := ((msb - lsb + 2 ^ 31) % 2 ^ 32) - 2 ^ 31      -- as i32
  let w := if w = 0 then -(2 ^ 31 : Int) else w
  { msb := if w = -(2 ^ 31 : Int) then lsb else w + lsb, lsb := lsb }

inductive XSt
  | closing
  | lsb (endPos : Nat) (num factor : Int)
  | msb (endPos : Nat) (lsb num factor : Int)
  | name (idx : VarIndex)

/-- `extract_suffix_index` over the bytes from the back; `rev` = (position, byte) pairs, last first -/
def extractGo (value : List Nat) : List (Nat × Nat) → XSt → List Nat × Option VarIndex
  | [], _ => (value, none)
  | (ii, cc) :: rest, st =>
    if cc = 32 then extractGo value rest st else
    match st with
    | .closing => if cc = 93 then extractGo value rest (.lsb ii 0 1) else (value.take (ii + 1), none)
    | .lsb e num f =>
      if 48 ≤ cc ∧ cc ≤ 57 then extractGo value rest (.lsb e (num + ((cc : Int) - 48) * f) (f * 10))
      else if cc = 45 then extractGo value rest (.lsb e (-num) f)
      else if cc = 58 then extractGo value rest (.msb e num 0 1)
      else if cc = 91 then extractGo value rest (.name (mkIndex num num))
      else (value.take (e + 1), none)
    | .msb e l num f =>
      if 48 ≤ cc ∧ cc ≤ 57 then extractGo value rest (.msb e l (num + ((cc : Int) - 48) * f) (f * 10))
      else if cc = 45 then extractGo value rest (.msb e l (-num) f)
      else if cc = 91 then extractGo value rest (.name (mkIndex num l))
      else (value.take (e + 1), none)
    | .name idx => (value.take (ii + 1), some idx)

def extractSuffixIndex (value : List Nat) : List Nat × Option VarIndex :=
  extractGo value (((List.range value.length).zip value).reverse) .closing

def trimRight (l : List Nat) : List Nat := (rightSp l.reverse).reverse
where rightSp : List Nat → List Nat
  | [] => []
  | b :: r => if b = 32 then rightSp r else b :: r

def findLast (l : List Nat) (needle : Nat) : Option Nat :=
  let rec go (l : List Nat) (pos : Nat) (best : Option Nat) : Option Nat :=
    match l with
    | [] => best
    | b :: r => go r (pos + 1) (if b = needle then some pos else best)
  go l 0 none

/-- `parse_name`: (variable name, index, extra scopes); `none` = VcdVarNameParsing error -/
def parseName (name : List Nat) : Option (List Nat × Option VarIndex × List (List Nat)) :=
  if name.isEmpty then some ([], none, []) else
  let (n0, index) := extractSuffixIndex name
  let rec groups (fuel : Nat) (n : List Nat) (acc : List (List Nat)) : Option (List Nat × List (List Nat)) :=
    match fuel with
    | 0 => some (n, acc)
    | f + 1 =>
      if n.getLast? = some 93 then
        match findLast n 91 with
        | none => none
        | some s => groups f (trimRight (n.take s)) (acc ++ [n.drop s])
      else some (n, acc)
  match groups (name.length + 1) n0 [] with
  | none => none
  | some (base, indices) =>
    match indices with
    | [] => some (base, index, [])
    | final :: _ =>
      -- scopes = base name, then the groups from the outermost to the second innermost; the innermost is the name
      some (final, index, base :: (indices.drop 1).reverse)

/-! ### the callback: declarations ↦ builder operations -/

structure VarAttr where
  kind : String
  enc : String               -- "S" | "R" | "B<len>"
  index : Option VarIndex
  typeName : Option String
  idBytes : List Nat
deriving Repr

inductive HOp
  | scope (kind : String) (name : String) (flatten : Bool) (srcLoc : Option (String × Nat))
  | arrayScope (name : String)
  | up
  | var (name : String) (a : VarAttr)
deriving Repr

structure Header where
  ops : List HOp := []               -- reversed
  date : String := ""
  version : String := ""
  timescale : Option (Nat × String) := none
  /-- the one stack of pending attributes, newest first: inl (type name, vhdl data type) / inr (path, line) -/
  attrs : List ((String × Nat) ⊕ (String × Nat)) := []
  pathNames : List (Nat × String) := []
deriving Repr

/-- the source locator a `$scope` takes from the pending attributes: the oldest one wins (popped last) -/
def pendingLoc (attrs : List ((String × Nat) ⊕ (String × Nat))) : Option (String × Nat) :=
  (attrs.filterMap fun a => match a with | .inr p => some p | .inl _ => none).getLast?

def lookupKw (tbl : List (String × String)) (w : List Nat) : Option String := tbl.lookup (strOf w)

def parseU (bs : List Nat) (limit : Nat) : Option Nat :=
  match parseNat bs with
  | some n => if n < limit then some n else none
  | none => none

/-- `merge_vhdl_data_and_var_type` -/
def mergeVhdl (vcd : String) (dataType : Nat) : String :=
  match dataType with
  | 1 => "Boolean" | 2 => "Bit" | 3 => "BitVector" | 4 => "StdULogic" | 5 => "StdULogicVector"
  | 6 => "StdLogic" | 7 => "StdLogicVector" | 10 => "Integer" | 11 => "Real" | 14 => "Time" | 16 => "String"
  | _ => vcd

def encOf (kind : String) (len : Nat) : String :=
  if kind = "String" then "S"
  else if kind = "Real" ∨ kind = "RealTime" ∨ kind = "ShortReal" then "R"
  else s!"B{if len = 0 then 1 else len}"

/-- one header command; `none` in the first component = `$enddefinitions` -/
def applyCmd (removeEmpty : Bool) (h : Header) (cmd : String) (body : List Nat) : Res (Option Header) :=
  if cmd = "enddefinitions" then .ok none
  else if cmd = "upscope" then .ok (some { h with ops := .up :: h.ops })
  else if cmd = "date" then (if h.date ≠ "" then .panic else .ok (some { h with date := strOf body }))
  else if cmd = "version" then (if h.version ≠ "" then .panic else .ok (some { h with version := strOf body }))
  else if cmd = "comment" then .ok (some h)
  else if cmd = "timescale" then
    let toks := (findTokens body).map (·.2)
    let fu? : Option (List Nat × List Nat) := match toks with
      | [t] => let digits := t.takeWhile (fun c => 48 ≤ c ∧ c ≤ 57); some (digits, t.drop digits.length)
      | [a, b] => some (a, b)
      | _ => none
    match fu? with
    | none => .err
    | some (f, u) =>
      match parseU f (2 ^ 32) with
      | none => .err
      | some fac =>
        if h.timescale.isSome then .panic else
        .ok (some { h with timescale := some (fac, (Gen.unitKw.lookup (strOf u)).getD "Unknown") })
  else if cmd = "scope" then
    match (findTokens body).map (·.2) with
    | [] => .panic                                  -- tokens[0]
    | tp :: rest =>
      let name := rest.headD []
      -- parse_scope_attributes runs first and consumes ALL pending attributes; the oldest source locator wins (popped last)
      let src := pendingLoc h.attrs
      match lookupKw Gen.scopeKw tp with
      | none => .err
      | some kind =>
        .ok (some { h with attrs := [],
                           ops := .scope kind (strOf name) (removeEmpty && name.isEmpty) src :: h.ops })
  else if cmd = "var" then
    let toks := findTokens body
    if toks.length < 4 then .err else
    let tp := (toks.getD 0 (0, [])).2
    let size := (toks.getD 1 (0, [])).2
    let id := (toks.getD 2 (0, [])).2
    let nameStart := (toks.getD 3 (0, [])).1
    let lastTok := toks.getLast?.getD (0, [])
    let name := (body.drop nameStart).take (lastTok.1 + lastTok.2.length - nameStart)
    match parseU size (2 ^ 32) with
    | none => .err
    | some len =>
      match parseName name with
      | none => .err
      | some (vname, index, scopes) =>
        match lookupKw Gen.varKw tp with
        | none => .err
        | some raw =>
          -- attributes: the oldest pending VHDL type info is applied last
          let tinfos := h.attrs.filterMap fun a => match a with | .inl p => some p | .inr _ => none
          let tn := tinfos.getLast?
          let kind := tinfos.foldl (fun k a => mergeVhdl k a.2) raw
          let a : VarAttr := { kind := kind, enc := encOf raw len, index := index,
                               typeName := tn.map (·.1), idBytes := id }
          let ops := (scopes.map fun s => HOp.arrayScope (strOf s)).reverse ++ h.ops
          let ops := (List.replicate scopes.length HOp.up) ++ (.var (strOf vname) a :: ops)
          .ok (some { h with ops := ops, attrs := [] })
  else if cmd = "attrbegin" then
    let toks := (findTokens body).map (·.2)
    if toks.length < 3 then .err else
    if toks.getD 0 [] ≠ bytesOfStr "misc" then .err else
    let t1 := toks.getD 1 []
    if t1 = bytesOfStr "02" then
      if toks.length ≠ 4 then .err else
      match parseU (toks.getD 3 []) (2 ^ 64) with
      | none => .err
      | some arg =>
        let vt := (arg >>> 10) % 256
        let dt := (arg &&& 1023) % 256
        if vt > 5 ∨ dt > 16 then .err else
        .ok (some { h with attrs := .inl (strOf (toks.getD 2 []), dt) :: h.attrs })
    else if t1 = bytesOfStr "03" then
      if toks.length ≠ 4 then .err else
      match parseU (toks.getD 3 []) (2 ^ 64) with
      | none => .err
      | some id => .ok (some { h with pathNames := (id, strOf (toks.getD 2 [])) :: h.pathNames })
    else if t1 = bytesOfStr "04" then
      if toks.length ≠ 4 then .err else
      match parseU (toks.getD 2 []) (2 ^ 64), parseU (toks.getD 3 []) (2 ^ 64) with
      | some pid, some line =>
        match h.pathNames.lookup pid with
        | none => .panic
        | some p => .ok (some { h with attrs := .inr (p, line) :: h.attrs })
      | _, _ => .err
    else .err
  else .err

/-- `read_vcd_header`: all commands up to `$enddefinitions`; returns the header and the number of bytes consumed -/
def readHeader (removeEmpty : Bool) : Nat → List Nat → Header → Nat → Res (Header × Nat)
  | 0, _, _, _ => .err
  | fuel + 1, bs, h, consumed =>
    match readCommand bs with
    | .err => .err
    | .panic => .panic
    | .ok (cmd, body, rest) =>
      let consumed' := consumed + (bs.length - rest.length)
      match applyCmd removeEmpty h cmd body with
      | .err => .err
      | .panic => .panic
      | .ok none => .ok (h, consumed')
      | .ok (some h') => readHeader removeEmpty fuel rest h' consumed'

end Wellen.VcdHeader
