import WellenModel.Model.Bits
/-
M2 `Leb`, M3 `Entry`, M4 `Store` — model of wavemem.rs:
  SignalEncoder::{add_n_bit_change, add_real_change, add_vcd_change, finish} (691-872),
  Encoder::{time_change, vcd_value_change, raw_value_change, real_change, finish_block, append,
            finish, combine_time_tables} (453-595),
  SignalEncodingMetaData::{encode, decode} (606-660), Block::get_offset_and_length (385-399),
  Reader::{collect_signal_meta_data, load_signal} (107-201), load_reals, load_fixed_len_signal,
  check_if_changed_and_truncate, load_signal_strings (213-358),
and of the decode side in signals.rs: SignalChangeData::get_value_at (568-620).

Not modelled: lz4_flex. `compress` is the identity in the executable model and whether a payload is
stored "compressed" is decided by an arbitrary predicate (`Codec.wantCompress`); the loader only
needs `decompress (compress d) n = d` for `n ≥ |d|`.
Panics are the `none` of `Option`.
-/
namespace Wellen.Store
open Wellen.Bits

/-! ### M2: unsigned LEB128 (crate `leb128`) -/

def lebWrite (n : Nat) : List Nat :=
  if h : n < 128 then [n] else (n % 128 + 128) :: lebWrite (n / 128)
termination_by n
decreasing_by omega

/-- reads one unsigned LEB128 number; `none` at end of input (or malformed) -/
def lebRead : List Nat → Option (Nat × List Nat)
  | [] => none
  | b :: r =>
    if b < 128 then some (b, r)
    else match lebRead r with
      | none => none
      | some (v, r') => some ((b - 128) + 128 * v, r')

/-! ### M3: in-memory entry layout -/

def zeros (n : Nat) : List Nat := List.replicate n 0

/-- the bytes appended for one change of a multi-bit vector whose local encoding is `localS`
when the signal's widest encoding is `maxS` (load_fixed_len_signal 268-300, fst.rs 183-210,
signals.rs 321-346). `data` has `ceil(bits / localS.bib)` bytes. -/
def alignEntry (maxS localS : States) (bits : Nat) (data : List Nat) : List Nat :=
  let (len, hasMeta) := getLenAndMeta maxS bits
  let (llen, lmeta) := getLenAndMeta localS bits
  let md := localS.toNat <<< 6
  if llen = len ∧ lmeta = hasMeta then
    if hasMeta then md :: data else (md ||| data.headD 0) :: data.drop 1
  else
    md :: (zeros (if hasMeta then len - llen else len - llen - 1) ++ data)

/-- one-bit entries: value nibble plus meta bits in one byte -/
def oneBitEntry (value : Nat) : List Nat :=
  [value ||| ((States.fromValue value).toNat <<< 6)]

/-- `SignalChangeData::get_value_at` for bit vectors: the states kind and the data bytes of an
entry; `none` = panic (invalid meta value). -/
def decodeEntry (maxS : States) (bits : Nat) (metaByte : Bool) (raw : List Nat) : Option (States × List Nat) :=
  let data := if metaByte then raw.drop 1 else raw
  match maxS with
  | .two => some (.two, data)
  | _ =>
    match States.ofNat? ((raw.headD 0 >>> 6) &&& 3) with
    | none => none
    | some st =>
      let n := divCeil bits st.bib
      some (st, data.drop (data.length - n))

/-- rendering of an entry as characters (`to_bit_string`) -/
def entryString (maxS : States) (bits : Nat) (raw : List Nat) : Option (States × List Nat) :=
  let (_, metaByte) := getLenAndMeta maxS bits
  match decodeEntry maxS bits metaByte raw with
  | none => none
  | some (st, d) =>
    match render st (toSyms st d bits) with
    | none => none
    | some cs => some (st, cs)

/-! ### M4: the encoder -/

inductive SigType
  | string | real | bitvec (bits : Nat)
deriving Repr, DecidableEq, BEq, Inhabited

structure SigEnc where
  chunks : List (List Nat) := []   -- `data`, newest chunk first
  tpe : SigType
  prevTimeIdx : Nat := 0
  maxStates : States := .two
deriving Repr, Inhabited

def SigEnc.dataBytes (s : SigEnc) : List Nat := s.chunks.reverse.flatten

structure Block where
  startTime : Nat
  timeTable : List Nat
  offsets : List (Option Nat)
  data : List Nat
deriving Repr, Inhabited

structure Enc where
  timeRev : List Nat := []         -- `time_table`, newest first
  timeLen : Nat := 0
  signals : Array SigEnc
  hasNewData : Bool := false
  skipping : Bool := false
  blocksRev : List Block := []     -- finished blocks, newest first
deriving Inhabited

structure Codec where
  /-- the compression decision of `SignalEncoder::finish` (`lz4` output shorter than the data) -/
  wantCompress : List Nat → Bool
  minSize : Nat := Gen.minSizeToCompress
  blockMax : Nat := Gen.blockTimeIdxMax

/-- `SignalEncodingMetaData::encode`: compressed length is rounded up to a multiple of 32 -/
def metaEncode (maxS : States) (compressedLen : Option Nat) : Nat :=
  match compressedLen with
  | some l => ((divCeil (divCeil l 32 * 32) 32) <<< 3) ||| 4 ||| maxS.toNat
  | none => maxS.toNat

/-- `SignalEncodingMetaData::decode` -/
def metaDecode (d : Nat) : Option (States × Option Nat) :=
  match States.ofNat? (d &&& 3) with
  | none => none
  | some st =>
    if (d >>> 2) &&& 1 = 1 then some (st, some (((d >>> 3) % 2 ^ 32) * 32))
    else some (st, none)

def newEnc (tps : List SigType) : Enc :=
  { signals := (tps.map fun t => ({ tpe := t } : SigEnc)).toArray }

/-- `SignalEncoder::finish` + the per-signal part of `finish_block` -/
def finishSignal (c : Codec) (s : SigEnc) : SigEnc × Option (List Nat) :=
  let s' := { s with prevTimeIdx := 0, chunks := [] }
  let data := s.dataBytes
  if data.isEmpty then (s', none)
  else if data.length < c.minSize then (s', some (lebWrite (metaEncode s.maxStates none) ++ data))
  else if c.wantCompress data then
    (s', some (lebWrite (metaEncode s.maxStates (some data.length)) ++ data))   -- compress = id
  else (s', some (lebWrite (metaEncode s.maxStates none) ++ data))

/-- one signal of the `finish_block` loop: (new encoders, offsets reversed, payloads reversed, running offset) -/
def finishStep (c : Codec) (acc : Array SigEnc × List (Option Nat) × List (List Nat) × Nat) (s : SigEnc) :
    Array SigEnc × List (Option Nat) × List (List Nat) × Nat :=
  match finishSignal c s with
  | (s', none) => (acc.1.push s', none :: acc.2.1, acc.2.2.1, acc.2.2.2)
  | (s', some d) => (acc.1.push s', some acc.2.2.2 :: acc.2.1, d :: acc.2.2.1, acc.2.2.2 + d.length)

/-- the per-signal loop of `finish_block`: new encoders, offsets, block data -/
def finishSignals (c : Codec) (signals : Array SigEnc) : Array SigEnc × List (Option Nat) × List Nat :=
  let r := signals.foldl (finishStep c) (#[], [], [], 0)
  (r.1, r.2.1.reverse, r.2.2.1.reverse.flatten)

def finishBlock (c : Codec) (e : Enc) : Enc :=
  if !e.hasNewData then e else
  let r := finishSignals c e.signals
  let blk : Block := { startTime := e.timeRev.reverse.headD 0, timeTable := e.timeRev.reverse,
                       offsets := r.2.1, data := r.2.2 }
  { e with signals := r.1, timeRev := [e.timeRev.headD 0], timeLen := 1,
           blocksRev := blk :: e.blocksRev, hasNewData := false }

/-- `Encoder::time_change` (with the fixes for F1: no duplicate entry at roll-over, and
F6: an equal timestamp ends the skipping of a backwards time step) -/
def timeChange (c : Codec) (e : Enc) (t : Nat) : Enc :=
  match e.timeRev with
  | prev :: _ =>
    if prev = t then { e with skipping := false }
    else if prev > t then { e with skipping := true }
    else
      let e := if e.timeLen ≥ c.blockMax then
          let e' := finishBlock c e
          { e' with timeRev := [], timeLen := 0 }
        else e
      { e with timeRev := t :: e.timeRev, timeLen := e.timeLen + 1, hasNewData := true, skipping := false }
  | [] =>
    { e with timeRev := [t], timeLen := 1, hasNewData := true, skipping := false }

def updSig (e : Enc) (id : Nat) (f : SigEnc → Option SigEnc) : Option Enc :=
  if h : id < e.signals.size then
    match f e.signals[id] with
    | none => none
    | some s => some { e with signals := e.signals.set id s, hasNewData := true }
  else none

/-- `SignalEncoder::add_n_bit_change` -/
def addNBit (timeIdx : Nat) (value : List Nat) (st : States) (s : SigEnc) : Option SigEnc :=
  let delta := timeIdx - s.prevTimeIdx
  let maxS := States.join s.maxStates st
  match s.tpe with
  | .bitvec bits =>
    if bits = 1 then
      some { s with chunks := lebWrite ((delta <<< 4) + value.headD 0) :: s.chunks,
                    prevTimeIdx := timeIdx, maxStates := maxS }
    else
      let req := divCeil bits st.bib
      if value.length < req then none else
      let v := value.drop (value.length - req)
      let minS := checkMinState v st
      let hdr := lebWrite ((delta <<< 2) ||| minS.toNat)
      let body := if minS = st then v else compressTemplate v st minS bits
      some { s with chunks := (hdr ++ body) :: s.chunks, prevTimeIdx := timeIdx, maxStates := maxS }
  | _ => none

/-- `SignalEncoder::add_real_change` (value = the 8 little-endian bytes) -/
def addReal (timeIdx : Nat) (le : List Nat) (s : SigEnc) : Option SigEnc :=
  some { s with chunks := (lebWrite (timeIdx - s.prevTimeIdx) ++ le) :: s.chunks, prevTimeIdx := timeIdx }

/-- `SignalEncoder::add_vcd_change`; `realLe` is the result of the external `str::parse::<f64>`
(`none` = parse failure), supplied by the caller. -/
def addVcd (timeIdx : Nat) (value : List Nat) (realLe : Option (List Nat)) (s : SigEnc) : Option SigEnc :=
  let delta := timeIdx - s.prevTimeIdx
  match value with
  | [] => none
  | c0 :: rest =>
  match s.tpe with
  | .bitvec bits =>
    let vb := if c0 = 98 ∨ c0 = 66 then rest else value
    let vb := if vb.length ≤ 2 then vb else (if vb.take 2 = [48, 98] then vb.drop 2 else vb)
    if bits = 1 then
      match vb with
      | [] => none
      | c :: _ =>
        match bitCharToNum c with
        | none => none
        | some bv =>
          some { s with chunks := lebWrite ((delta <<< 4) + bv) :: s.chunks, prevTimeIdx := timeIdx,
                        maxStates := States.join s.maxStates (States.fromValue bv) }
    else
      match checkStates vb with
      | none => none
      | some st =>
        let maxS := States.join s.maxStates st
        let hdr := lebWrite ((delta <<< 2) ||| st.toNat)
        let chars? := if vb.length = bits then some vb else expandSpecial vb bits
        match chars? with
        | none => none
        | some chars =>
          match charsToNums chars with
          | none => none
          | some nums =>
            some { s with chunks := (hdr ++ writeNState st nums none) :: s.chunks,
                          prevTimeIdx := timeIdx, maxStates := maxS }
  | .string =>
    if c0 = 115 ∨ c0 = 83 then
      some { s with chunks := (lebWrite delta ++ lebWrite rest.length ++ rest) :: s.chunks, prevTimeIdx := timeIdx }
    else none
  | .real =>
    if c0 = 114 ∨ c0 = 82 then
      match realLe with
      | none => none
      | some le => some { s with chunks := (lebWrite delta ++ le) :: s.chunks, prevTimeIdx := timeIdx }
    else none

/-- value-change entry points of `Encoder`; `none` = panic -/
def valueChange (e : Enc) (id : Nat) (f : Nat → SigEnc → Option SigEnc) : Option Enc :=
  if e.timeLen = 0 then none
  else if e.skipping then some e
  else updSig e id (f (e.timeLen - 1))

def vcdChange (e : Enc) (id : Nat) (value : List Nat) (realLe : Option (List Nat)) : Option Enc :=
  valueChange e id (fun ti => addVcd ti value realLe)
def rawChange (e : Enc) (id : Nat) (value : List Nat) (st : States) : Option Enc :=
  valueChange e id (fun ti => addNBit ti value st)
def realChange (e : Enc) (id : Nat) (le : List Nat) : Option Enc :=
  valueChange e id (fun ti => addReal ti le)

/-- `Encoder::append`; `none` = panic (not chronological) -/
def append (c : Codec) (a b : Enc) : Option Enc :=
  let a := finishBlock c a
  let b := finishBlock c b
  match b.blocksRev.reverse with
  | [] => some a
  | bf :: _ =>
    match a.blocksRev with
    | [] => some { a with blocksRev := b.blocksRev }
    | al :: _ =>
      if al.timeTable.getLast?.getD 0 ≤ bf.startTime then
        some { a with blocksRev := b.blocksRev ++ a.blocksRev }
      else none

/-- appending the encoders of the later chunks, in order -/
def appendAll (c : Codec) : Enc → List Enc → Option Enc
  | a, [] => some a
  | a, b :: r => match append c a b with
    | none => none
    | some ab => appendAll c ab r

structure Reader where
  blocks : List Block
deriving Inhabited

/-- `Encoder::finish` -/
def finish (c : Codec) (e : Enc) : Reader × List Nat :=
  let e := finishBlock c e
  let blocks := e.blocksRev.reverse
  ({ blocks := blocks }, blocks.flatMap (·.timeTable))

/-! ### the loader -/

/-- `Block::get_offset_and_length` -/
def Block.offsetAndLength (b : Block) (id : Nat) : Option (Nat × Nat) :=
  match b.offsets.getD id none with
  | none => none
  | some off =>
    let next := ((b.offsets.drop (id + 1)).findSome? (fun o => o)).getD b.data.length
    some (off, next - off)

/-- `collect_signal_meta_data`: per block containing the signal (time_idx_offset, payload, max_states, compressed?) -/
def collectMeta (r : Reader) (id : Nat) : Option (List (Nat × List Nat × States × Option Nat)) :=
  let rec go (bs : List Block) (off : Nat) (acc : List (Nat × List Nat × States × Option Nat)) :
      Option (List (Nat × List Nat × States × Option Nat)) :=
    match bs with
    | [] => some acc.reverse
    | b :: rest =>
      match b.offsetAndLength id with
      | none => go rest (off + b.timeTable.length) acc
      | some (st, len) =>
        let bytes := (b.data.drop st).take len
        match lebRead bytes with
        | none => none
        | some (m, payload) =>
          match metaDecode m with
          | none => none
          | some (ms, comp) => go rest (off + b.timeTable.length) ((off, payload, ms, comp) :: acc)
  go r.blocks 0 []

/-- loaded signal: time indices and entries, both newest first while loading -/
structure Acc where
  timesRev : List Nat := []
  entriesRev : List (List Nat) := []
deriving Inhabited

def Acc.push (a : Acc) (t : Nat) (entry : List Nat) : Acc :=
  match a.entriesRev with
  | prev :: _ => if prev = entry then a else { timesRev := t :: a.timesRev, entriesRev := entry :: a.entriesRev }
  | [] => { timesRev := [t], entriesRev := [entry] }

/-- `load_fixed_len_signal` on one block payload (fuel = payload length) -/
def loadFixed (bits : Nat) (sigS : States) : Nat → List Nat → Nat → Acc → Option Acc
  | 0, _, _, a => some a
  | fuel + 1, data, last, a =>
    match lebRead data with
    | none => some a
    | some (raw, rest) =>
      let raw := raw % 2 ^ 32
      if bits = 1 then
        let value := raw &&& 15
        let t := last + (raw >>> 4)
        loadFixed bits sigS fuel rest t (a.push t (oneBitEntry value))
      else
        match States.ofNat? (raw &&& 3) with
        | none => none
        | some loc =>
          let n := divCeil bits loc.bib
          let buf := rest.take n
          if buf.length < n then none else
          let t := last + (raw >>> 2)
          loadFixed bits sigS fuel (rest.drop n) t (a.push t (alignEntry sigS loc bits buf))

/-- `load_reals` -/
def loadReals : Nat → List Nat → Nat → Acc → Option Acc
  | 0, _, _, a => some a
  | fuel + 1, data, last, a =>
    match lebRead data with
    | none => some a
    | some (d, rest) =>
      let buf := rest.take 8
      if buf.length < 8 then none else
      let t := last + d % 2 ^ 32
      loadReals fuel (rest.drop 8) t (a.push t buf)

/-- `load_signal_strings` (entries are the raw string bytes; valid UTF-8 assumed) -/
def loadStrings : Nat → List Nat → Nat → Acc → Option Acc
  | 0, _, _, a => some a
  | fuel + 1, data, last, a =>
    match lebRead data with
    | none => some a
    | some (d, rest) =>
      match lebRead rest with
      | none => none
      | some (len, rest2) =>
        let buf := rest2.take len
        if buf.length < len then none else
        let t := last + d % 2 ^ 32
        loadStrings fuel (rest2.drop len) t (a.push t buf)

structure Loaded where
  maxStates : States
  times : List Nat
  entries : List (List Nat)
deriving Repr, Inhabited

/-- the widest kind over the blocks that hold data of a signal (`States::Nine` when there is none) -/
def joinAll : List States → States
  | [] => States.nine
  | s :: ss => ss.foldl States.join s

/-- one block of `Reader::load_signal`: decode the block's payload for the signal into the accumulator -/
def loadStep (tpe : SigType) (maxS : States) (acc : Option Acc) (b : Nat × List Nat × States × Option Nat) : Option Acc :=
  match acc with
  | none => none
  | some a =>
    -- decompress = id; the rounded length only has to be large enough
    match b.2.2.2 with
    | some n => if n < b.2.1.length then none else
      (match tpe with
       | .string => loadStrings (b.2.1.length + 1) b.2.1 b.1 a
       | .real => loadReals (b.2.1.length + 1) b.2.1 b.1 a
       | .bitvec bits => loadFixed bits maxS (b.2.1.length + 1) b.2.1 b.1 a)
    | none =>
      (match tpe with
       | .string => loadStrings (b.2.1.length + 1) b.2.1 b.1 a
       | .real => loadReals (b.2.1.length + 1) b.2.1 b.1 a
       | .bitvec bits => loadFixed bits maxS (b.2.1.length + 1) b.2.1 b.1 a)

/-- `Reader::load_signal` -/
def loadSignal (r : Reader) (id : Nat) (tpe : SigType) : Option Loaded :=
  match collectMeta r id with
  | none => none
  | some blocks =>
    let maxS := joinAll (blocks.map (fun b => b.2.2.1))
    match blocks.foldl (loadStep tpe maxS) (some {}) with
    | none => none
    | some a => some { maxStates := maxS, times := a.timesRev.reverse, entries := a.entriesRev.reverse }

end Wellen.Store
