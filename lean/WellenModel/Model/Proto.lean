/-
Line-protocol helpers shared by the driver (no imports; executable only, nothing is proved about them).
-/
namespace Wellen.Proto

def splitSp (s : String) : List String :=
  (s.trimAscii.toString.splitOn " ").filter (fun t => t ≠ "")

/-- "1,2,3" ↦ [1,2,3]; "-" ↦ [] -/
def natList? (s : String) : Option (List Nat) :=
  if s = "-" then some [] else
  (s.splitOn ",").mapM (fun t => t.toNat?)

def hexVal (c : Char) : Option Nat :=
  if '0' ≤ c ∧ c ≤ '9' then some (c.toNat - '0'.toNat)
  else if 'a' ≤ c ∧ c ≤ 'f' then some (c.toNat - 'a'.toNat + 10)
  else none

def hexGo : List Char → List Nat → Option (List Nat)
  | [], acc => some acc.reverse
  | [_], _ => none
  | a :: b :: r, acc =>
    match hexVal a, hexVal b with
    | some x, some y => hexGo r ((x * 16 + y) :: acc)
    | _, _ => none

/-- lowercase hex ↦ bytes; "-" ↦ [] -/
def hexBytes? (s : String) : Option (List Nat) :=
  if s = "-" then some [] else hexGo s.toList []

def hexDigit (n : Nat) : Char :=
  if n < 10 then Char.ofNat (n + 48) else Char.ofNat (n - 10 + 97)

def toHex (bs : List Nat) : String :=
  if bs.isEmpty then "-" else
  String.ofList (bs.flatMap fun b => [hexDigit (b / 16 % 16), hexDigit (b % 16)])

def natListStr (l : List Nat) : String :=
  if l.isEmpty then "-" else ",".intercalate (l.map toString)

def optNatStr : Option Nat → String
  | none => "-"
  | some n => toString n

end Wellen.Proto
