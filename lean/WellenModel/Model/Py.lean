import WellenModel.Model.Offset
/-
M15 `Py` — model of pywellen/src/lib.rs: Signal::{value_at_time, value_at_idx, all_changes},
SignalChangeIter::__next__, convert_py_idx, TimeTable::__getitem__ (after the fixes F16, F17),
on top of the model of `Signal::get_offset` (M5). Values are represented by their data position.
-/
namespace Wellen.Py
open Wellen.Offset

/-- `slice::binary_search` on the (strictly increasing) time table: `Ok(i)` ↦ inl i, `Err(p)` ↦ inr p -/
def binSearch (tt : List Nat) (t : Nat) : Nat ⊕ Nat :=
  let p := (tt.takeWhile (· < t)).length
  if tt[p]? = some t then .inl p else .inr p

/-- data position returned by `value_at_idx`: the last element of the group found by `get_offset` -/
def valueAtIdx (idxs : Array Nat) (i : Nat) : Option Nat :=
  match getOffset idxs i with
  | some (some d) => if d.elements = 0 then none /- u16 underflow -/ else some (d.start + (d.elements - 1))
  | _ => none

def valueAtTime (tt : List Nat) (idxs : Array Nat) (t : Nat) : Option Nat :=
  match binSearch tt t with
  | .inl i => valueAtIdx idxs i
  | .inr 0 => none
  | .inr (p + 1) => valueAtIdx idxs p

/-- `SignalChangeIter`: (time, data position) for every change -/
def allChanges (tt : List Nat) (idxs : Array Nat) : List (Nat × Nat) :=
  (List.range idxs.size).filterMap fun off =>
    match getOffset idxs idxs[off]! with
    | some (some d) =>
      let element := off - d.start
      if element < d.elements then (tt[idxs[off]!]?).map fun t => (t, d.start + element) else none
    | _ => none

/-- `convert_py_idx` + `Vec::get` -/
def ttGetItem (tt : List Nat) (idx : Int) : Option Nat :=
  if idx < 0 then (if idx + tt.length < 0 then none else tt[(idx + tt.length).toNat]?) else tt[idx.toNat]?

/-! spec: the latest change at or before an index / a time -/

/-- last position whose index is `≤ i` -/
def latestPos (idxs : List Nat) (i : Nat) : Option Nat :=
  let n := (idxs.takeWhile (· ≤ i)).length
  if n = 0 then none else some (n - 1)

/-- greatest time table index whose time is `≤ t` -/
def latestTimeIdx (tt : List Nat) (t : Nat) : Option Nat :=
  let n := (tt.takeWhile (· ≤ t)).length
  if n = 0 then none else some (n - 1)

def specValueAtTime (tt idxs : List Nat) (t : Nat) : Option Nat :=
  (latestTimeIdx tt t).bind (latestPos idxs)

end Wellen.Py
